import Req.Client.Scope
import Req.Client.Heap
import Req.Lemmas.C19Scope
import Req.Lemmas.C19Heap
/-!
# C19 — settings are scoped correctly and cloned clients are independent

Property (properties.jsonl C19): request-level settings override client-level settings for that
request only and leave no trace on the client or on other requests; client-level settings apply
to every later request of that client; a cloned client initially behaves identically to the
original, and thereafter a change to either has no effect on the other.

Theorems on the value model `Scope` (all for arbitrary states, setters, programs):
* `request_scope_setter`, `request_scope_exec`, `request_header_overrides`, `request_path_param_overrides`
* `client_scope`
* `clone_same_settings`, `clone_same_behaviour`
* `clone_isolated` (any record that a program does not address — original, clone, clone of a
  clone — is unchanged, and so is everything it emits), `isolated_emit`
Refinement of the reference-aware model `Heap` (maps / pointers as shared boxes, slices with
length and capacity):
* `heap_refines_scope : Safe tc tr → ∀ grow ops, abs (runHeap …) = runScope …` (state and observations)
* `alias_counterexample`, `alias_clobbers_original` — with a wrapper slice copied by assignment
  the refinement fails on the sequence of DESIGN.md section 5 row 18 (`decide`).
-/
namespace Req.Props.C19
open Req.Scope Req.Heap

/-! ## Request scope -/

/-- A setter changes the record it is called on and no other: a request-level setter leaves no
trace on the client, on other requests, or on other clients (and a client-level setter none on
other clients or on existing requests). -/
theorem request_scope_setter (tc tr : Table) (s : VState) (r : Nat) (st : Setter) (b : Nat)
    (hb : b < s.count) (hne : b ≠ r) : (stepOp tc tr s (.set r st)).owner b = s.owner b := by
  unfold stepOp
  have hobs : observe s (.set r st) ≠ .err := by simp [observe]
  simp only [hobs, if_false, compile]
  apply runV_frame b _ s hb
  intro p hp
  have := setter_targets r st
  rw [List.all_eq_true] at this
  have hp' := this p hp
  simp only [Bool.and_eq_true, Bool.not_eq_true', beq_iff_eq] at hp'
  refine ⟨hp'.1, ?_⟩
  rw [hp'.2]
  intro h
  injection h with h
  exact hne h.symm

/-- Executing a request leaves no trace: no record changes, except that a cookie the origin sets
lands in the jar of the request's client. -/
theorem request_scope_exec (tc tr : Table) (s : VState) (r m md : Nat) (path : List Seg) (sc : Nat) (b : Nat) (f : Field)
    (hf : f ≠ F.jar ∨ sc = 0 ∨ (s.owner r).parent ≠ some b) :
    ((stepOp tc tr s (.exec r m md path sc)).owner b).val f = (s.owner b).val f := by
  unfold stepOp
  split
  · rfl
  · simp only [compile]
    by_cases hsc : sc = 0
    · simp [hsc, runV]
    · simp only [hsc, if_false, runV, List.foldl_cons, List.foldl_nil, stepV]
      split
      · split
        · rename_i c hc
          by_cases hcb : c = b
          · subst hcb
            unfold VState.updOwner
            split
            · simp only [if_true, VOwner.setVal]
              have hfj : f ≠ F.jar := by
                rcases hf with h | h | h
                · exact h
                · exact absurd h hsc
                · exact absurd hc h
              simp [hfj]
            · rfl
          · rw [updOwner_other _ _ _ _ hcb]
        · rfl
      · rfl

/-- Request-level header values win over the client's for that key … -/
theorem request_header_overrides (clientHdr reqHdr : AMap) (k : Nat) (h : (reqHdr.get k).isEmpty = false) :
    (mergeHeaders clientHdr reqHdr).get k = reqHdr.get k :=
  mergeHeaders_keeps k clientHdr reqHdr h

/-- … and a request-level path parameter wins over the client's. -/
theorem request_path_param_overrides (clientPP reqPP : AMap) (k v : Nat) (rest : List Nat)
    (h : reqPP.get k = v :: rest) : resolveSeg clientPP reqPP (.param k) = .val v := by
  simp [resolveSeg, h]

/-! ## Client scope -/

/-- A client-level header set with `SetCommonHeader` is what EVERY request of that client is
sent with from then on — requests that exist already and requests created later alike (the
merge reads the client record at execution time) — unless the request has its own values for
the key; requests, and every other client, are untouched by the setter. -/
theorem client_scope (tc tr : Table) (s : VState) (c k v : Nat) (hc : c < s.count) :
    let s' := stepOp tc tr s (.set c (.hdrSet k v))
    (∀ rq : VOwner, ((rq.val F.headers).get k).isEmpty = true →
      (mergeHeaders ((s'.owner c).val F.headers) (rq.val F.headers)).get k = [v]) ∧
    (∀ b, b < s.count → b ≠ c → s'.owner b = s.owner b) := by
  intro s'
  refine ⟨?_, fun b hb hne => request_scope_setter tc tr s c (.hdrSet k v) b hb hne⟩
  intro rq hrq
  have hs' : (s'.owner c).val F.headers = ((s.owner c).val F.headers).set k [v] := by
    show ((stepOp tc tr s (.set c (.hdrSet k v))).owner c).val F.headers = _
    unfold stepOp
    have hobs : observe s (.set c (.hdrSet k v)) ≠ .err := by simp [observe]
    have hk : kind F.headers = .box := by decide
    simp only [hobs, if_false, compile, Setter.prims, runV, List.foldl_cons, List.foldl_nil, stepV, hk, if_true]
    rw [updOwner_self _ _ _ hc]
    simp [VOwner.setVal]
  rw [hs']
  have := mergeHeaders_client k (((s.owner c).val F.headers).set k [v]) (rq.val F.headers) hrq
    (by rw [get_set_same]; rfl)
  rw [this, get_set_same]

/-! ## Clone -/

/-- The record `Clone` creates (ideal table): every settings field of the original, the closure
chains rebuilt from the wrapper slices, a new jar from the factory. -/
theorem clone_same_settings (s : VState) (i : Nat) (hi : i < s.count) :
    let s' := stepOp idealClone idealReq s (.clone i)
    s'.count = s.count + 1 ∧
    (s'.owner s.count).parent = none ∧
    (∀ f, f ≠ F.jar → f ≠ F.wrapChain → f ≠ F.tWrapChain → (s'.owner s.count).val f = (s.owner i).val f) ∧
    (s'.owner s.count).val F.wrapChain = (s.owner i).val F.wrappers ∧
    (s'.owner s.count).val F.tWrapChain = (s.owner i).val F.tWrappers ∧
    (s'.owner s.count).val F.jar = (s.owner i).val F.jarFactory ∧
    (∀ b, b < s.count → s'.owner b = s.owner b) := by
  intro s'
  have hobs : observe s (.clone i) ≠ .err := by simp [observe]
  have hs' : s' = stepV (stepV (stepV (stepV s (.derive i idealClone false))
      (.copyFrom s.count F.wrapChain F.wrappers)) (.copyFrom s.count F.tWrapChain F.tWrappers))
      (.copyFrom s.count F.jar F.jarFactory) := by
    show stepOp idealClone idealReq s (.clone i) = _
    simp [stepOp, hobs, compile, hi, runV]
  obtain ⟨hc1, ho1⟩ := derive_new s i hi idealClone false
  generalize stepV s (.derive i idealClone false) = s1 at hs' hc1 ho1
  have hn1 : s.count < s1.count := by omega
  have hc2 := copyFrom_count s1 s.count F.wrapChain F.wrappers
  have hv2 := copyFrom_val s1 s.count hn1 F.wrapChain F.wrappers
  have hp2 := copyFrom_parent s1 s.count hn1 F.wrapChain F.wrappers
  generalize stepV s1 (.copyFrom s.count F.wrapChain F.wrappers) = s2 at hs' hc2 hv2 hp2
  have hn2 : s.count < s2.count := by omega
  have hc3 := copyFrom_count s2 s.count F.tWrapChain F.tWrappers
  have hv3 := copyFrom_val s2 s.count hn2 F.tWrapChain F.tWrappers
  have hp3 := copyFrom_parent s2 s.count hn2 F.tWrapChain F.tWrappers
  generalize stepV s2 (.copyFrom s.count F.tWrapChain F.tWrappers) = s3 at hs' hc3 hv3 hp3
  have hn3 : s.count < s3.count := by omega
  have hc4 := copyFrom_count s3 s.count F.jar F.jarFactory
  have hv4 := copyFrom_val s3 s.count hn3 F.jar F.jarFactory
  have hp4 := copyFrom_parent s3 s.count hn3 F.jar F.jarFactory
  rw [← hs'] at hc4 hv4 hp4
  have hd : ∀ f, idealClone f = .fresh → (s1.owner s.count).val f = (s.owner i).val f := by
    intro f hf; rw [ho1]; simp [deriveVal, hf]
  refine ⟨by omega, ?_, ?_, ?_, ?_, ?_, ?_⟩
  · rw [hp4, hp3, hp2, ho1]; rfl
  · intro f h1 h2 h3
    rw [hv4, if_neg h1, hv3, if_neg h3, hv2, if_neg h2]
    exact hd f (by simp [idealClone, h1])
  · rw [hv4, if_neg (by decide), hv3, if_neg (by decide), hv2, if_pos rfl]
    rw [hd F.wrappers (by decide)]
    have : kind F.wrapChain = .box := by decide
    rw [this]; rfl
  · rw [hv4, if_neg (by decide), hv3, if_pos rfl, hv2, if_neg (by decide)]
    rw [hd F.tWrappers (by decide)]
    have : kind F.tWrapChain = .box := by decide
    rw [this]; rfl
  · rw [hv4, if_pos rfl, hv3, if_neg (by decide), hv2, if_neg (by decide)]
    rw [hd F.jarFactory (by decide)]
    have : kind F.jar = .box := by decide
    rw [this]; rfl
  · intro b hb
    have hs'' : s' = runV s [.derive i idealClone false, .copyFrom s.count F.wrapChain F.wrappers,
        .copyFrom s.count F.tWrapChain F.tWrappers, .copyFrom s.count F.jar F.jarFactory] := by
      show stepOp idealClone idealReq s (.clone i) = _
      simp [stepOp, hobs, compile, hi]
    rw [hs'']
    apply runV_frame b _ s hb
    intro p hp
    simp at hp
    rcases hp with rfl | rfl | rfl | rfl <;> simp [isJarStore, staticTarget, Nat.ne_of_gt hb]

/-- A cloned client initially behaves identically: for every request record the origin receives
the same request from the clone as from the original (the jar being what the factory gives, as
it is for the original while no response has stored a cookie). -/
theorem clone_same_behaviour (s : VState) (i : Nat) (hi : i < s.count) (rq : VOwner) (m md : Nat) (path : List Seg)
    (hjar : (s.owner i).val F.jar = (s.owner i).val F.jarFactory) :
    emit ((stepOp idealClone idealReq s (.clone i)).owner s.count) rq m md path = emit (s.owner i) rq m md path := by
  obtain ⟨_, _, hsame, _, _, hj, _⟩ := clone_same_settings s i hi
  unfold emit
  rw [hsame F.baseURL (by decide) (by decide) (by decide), hsame F.scheme (by decide) (by decide) (by decide),
    hsame F.headers (by decide) (by decide) (by decide), hsame F.allowGetPayload (by decide) (by decide) (by decide),
    hsame F.form (by decide) (by decide) (by decide), hsame F.pathParams (by decide) (by decide) (by decide),
    hsame F.query (by decide) (by decide) (by decide), hsame F.cookies (by decide) (by decide) (by decide),
    hsame F.disableKeepAlives (by decide) (by decide) (by decide),
    hsame F.disableCompression (by decide) (by decide) (by decide), hj, ← hjar]

/-- The middleware, wrappers and retry options a request of the clone runs with are those a
request of the original runs with (the original's closure chains being its wrapper slices, as
they are after any sequence of `WrapRoundTrip` calls). -/
theorem clone_same_middleware (s : VState) (i : Nat) (hi : i < s.count) (rq : VOwner)
    (hw : (s.owner i).val F.wrapChain = (s.owner i).val F.wrappers)
    (htw : (s.owner i).val F.tWrapChain = (s.owner i).val F.tWrappers) :
    execCtx ((stepOp idealClone idealReq s (.clone i)).owner s.count) rq = execCtx (s.owner i) rq := by
  obtain ⟨_, _, hsame, hcw, hct, _, _⟩ := clone_same_settings s i hi
  unfold execCtx
  rw [hsame F.udBefore (by decide) (by decide) (by decide), hsame F.after (by decide) (by decide) (by decide),
    hcw, hct, ← hw, ← htw]

/-! ## Isolation -/

/-- `op` may change record `b`: a setter called on it, or an execution of one of its requests
whose response stores a cookie in its jar. (`Clone` and `R()` only read their source.) -/
def Touches (s : VState) (op : Op) (b : Nat) : Prop :=
  match op with
  | .set o _ => o = b
  | .exec r _ _ _ sc => sc ≠ 0 ∧ (s.owner r).parent = some b
  | _ => False

/-- no op of the program touches `b` -/
def Untouched (tc tr : Table) (b : Nat) : VState → List Op → Prop
  | _, [] => True
  | s, op :: ops => ¬ Touches s op b ∧ Untouched tc tr b (stepOp tc tr s op) ops

instance (s : VState) (op : Op) (b : Nat) : Decidable (Touches s op b) := by
  unfold Touches
  cases op <;> infer_instance

instance decUntouched (tc tr : Table) (b : Nat) : ∀ (s : VState) (ops : List Op), Decidable (Untouched tc tr b s ops)
  | _, [] => isTrue trivial
  | s, op :: ops => by
    unfold Untouched
    exact @instDecidableAnd _ _ _ (decUntouched tc tr b _ ops)

theorem stepOp_count_le (tc tr : Table) (s : VState) (op : Op) : s.count ≤ (stepOp tc tr s op).count := by
  unfold stepOp
  split
  · exact Nat.le_refl _
  · exact runV_count_le _ s

theorem stepOp_frame (tc tr : Table) (s : VState) (op : Op) (b : Nat) (hb : b < s.count) (ht : ¬ Touches s op b) :
    (stepOp tc tr s op).owner b = s.owner b := by
  cases op with
  | set o st =>
    exact request_scope_setter tc tr s o st b hb (fun h => ht h.symm)
  | exec r m md path sc =>
    unfold stepOp
    split
    · rfl
    · simp only [compile]
      by_cases hsc : sc = 0
      · simp [hsc, runV]
      · simp only [hsc, if_false, runV, List.foldl_cons, List.foldl_nil]
        apply stepV_frame s _ b hb
        simp only [primTarget]
        split
        · intro h; exact ht ⟨hsc, h⟩
        · simp
  | newClient =>
    unfold stepOp
    split
    · rfl
    · apply runV_frame b _ s hb
      intro p hp
      simp [compile] at hp
      rcases hp with rfl | rfl <;> simp [isJarStore, staticTarget, Nat.ne_of_gt hb]
  | clone i =>
    unfold stepOp
    split
    · rfl
    · apply runV_frame b _ s hb
      intro p hp
      simp only [compile] at hp
      split at hp
      · simp at hp
        rcases hp with rfl | rfl | rfl | rfl <;> simp [isJarStore, staticTarget, Nat.ne_of_gt hb]
      · simp at hp
  | newReq i =>
    unfold stepOp
    split
    · rfl
    · apply runV_frame b _ s hb
      intro p hp
      simp only [compile] at hp
      split at hp
      · simp at hp
        rcases hp with rfl | rfl | rfl | rfl | rfl <;> simp [isJarStore, staticTarget, Nat.ne_of_gt hb]
      · simp at hp
  | getCookies c => simp [stepOp, compile, runV]
  | probe o => simp [stepOp, compile, runV]

/-- **Clone isolation.** Whatever a program does — setters of every group, requests, executions,
further clones, on any records other than `b` — record `b` is unchanged. `b` may be an original
whose clones are being changed, a clone whose original is being changed, a clone of a clone. -/
theorem clone_isolated (tc tr : Table) (b : Nat) : ∀ (ops : List Op) (s : VState), b < s.count →
    Untouched tc tr b s ops → (runWith tc tr s ops).1.owner b = s.owner b := by
  intro ops
  induction ops with
  | nil => intro s _ _; rfl
  | cons op ops ih =>
    intro s hb hu
    simp only [runWith]
    have h1 := stepOp_frame tc tr s op b hb hu.1
    have h2 := ih (stepOp tc tr s op) (Nat.lt_of_lt_of_le hb (stepOp_count_le tc tr s op)) hu.2
    rw [h2, h1]

/-- Consequently everything client `b` emits afterwards is what it would have emitted before:
for every request record, method, URL. -/
theorem isolated_emit (tc tr : Table) (b : Nat) (ops : List Op) (s : VState) (hb : b < s.count)
    (hu : Untouched tc tr b s ops) (rq : VOwner) (m md : Nat) (path : List Seg) :
    emit ((runWith tc tr s ops).1.owner b) rq m md path = emit (s.owner b) rq m md path ∧
    execCtx ((runWith tc tr s ops).1.owner b) rq = execCtx (s.owner b) rq := by
  rw [clone_isolated tc tr b ops s hb hu]
  exact ⟨rfl, rfl⟩

/-! ## The reference-aware model refines the value model -/

/-- **Refinement.** When `Clone` and `R()` share no reference with the record they copy and carry
what they should (`Safe`), the reference-aware model — in-place map inserts, writes through
pointers, `append` into spare capacity, for EVERY slice growth policy — denotes exactly the
value model: same final settings of every record, same observations. -/
theorem heap_refines_scope (tc tr : Table) (hs : Safe tc tr) (grow : Nat → Nat → Nat) (ops : List Op) :
    abs (runHeap grow tc tr ops).1 = (runScope ops).1 ∧ (runHeap grow tc tr ops).2 = (runScope ops).2 := by
  have h := runHeapFrom_refines grow tc tr hs.cloneAlias hs.reqAlias ops Heap.empty inv_empty
  have habs : abs Heap.empty = VState.empty := rfl
  rw [habs] at h
  have hc := runWith_congr tc tr idealClone idealReq hs.cloneCarries hs.reqCarries ops VState.empty
  unfold runHeap runScope
  rw [← hc]
  exact ⟨h.2.1, h.2.2⟩

/-- `Safe` from the Boolean checks (what `Bridge/C19.lean` decides for the regenerated table). -/
theorem safe_of_checks (tc tr : Table) (h1 : aliasSafeB tc = true) (h2 : aliasSafeB tr = true)
    (h3 : carriesLikeB idealClone tc = true) (h4 : carriesLikeB idealReq tr = true) : Safe tc tr := by
  have alias : ∀ t, aliasSafeB t = true → AliasSafe t := by
    intro t ht f
    unfold aliasSafeB at ht
    rw [List.all_eq_true] at ht
    have := ht f.val (by simp [f.isLt])
    simp only [f.isLt, dif_pos] at this
    simpa using this
  have carries : ∀ ideal t, carriesLikeB ideal t = true → CarriesLike ideal t := by
    intro ideal t ht f
    unfold carriesLikeB at ht
    rw [List.all_eq_true] at ht
    have := ht f.val (by simp [f.isLt])
    simp only [f.isLt, dif_pos] at this
    cases h1 : t f <;> cases h2 : ideal f <;> simp [h1, h2] at this ⊢
  exact ⟨alias tc h1, alias tr h2, carries _ tc h3, carries _ tr h4⟩

/-! ## Without `Safe` the refinement fails: the append-aliasing witness -/

/-- DESIGN.md section 5 row 18: `c.Wrap(w1); c.Wrap(w2); c.Wrap(w3); cc := c.Clone(); c.Wrap(w4);
cc.Wrap(w5); c.Clone()`. -/
def witness : List Op :=
  [.newClient, .set 0 (.wrap [1] false), .set 0 (.wrap [2] false), .set 0 (.wrap [3] false), .clone 0,
   .set 0 (.wrap [4] false), .set 1 (.wrap [5] false), .clone 0]

/-- With the wrapper slices copied by assignment (the `Clone` of the code before fixes/C19-1) and
Go's slice growth, the second clone of the ORIGINAL runs wrapper 5 — which only the first clone
ever added — where the value model (and the original itself) runs wrapper 4. -/
theorem alias_counterexample :
    ((abs (runHeap goGrow (aliasWrappers idealClone) idealReq witness).1).owner 2).val F.wrapChain = [(0, [1, 2, 3, 5])] ∧
    ((runScope witness).1.owner 2).val F.wrapChain = [(0, [1, 2, 3, 4])] ∧
    ((abs (runHeap goGrow (aliasWrappers idealClone) idealReq witness).1).owner 0).val F.wrapChain = [(0, [1, 2, 3, 4])] := by
  decide

/-- The same run, seen in the original's own settings: its recorded wrapper list was overwritten
by a call on the clone. -/
theorem alias_clobbers_original :
    ((abs (runHeap goGrow (aliasWrappers idealClone) idealReq witness).1).owner 0).val F.wrappers = [(0, [1, 2, 3, 5])] := by
  decide

/-- With the slices cloned (`idealClone`) the same run agrees with the value model, as
`heap_refines_scope` says it must. -/
example : ((abs (runHeap goGrow idealClone idealReq witness).1).owner 2).val F.wrapChain = [(0, [1, 2, 3, 4])] := by
  decide

/-! ## Non-vacuity -/

/-- the ideal tables are `Safe` (so `heap_refines_scope` has an instance) -/
example : Safe idealClone idealReq := safe_of_checks _ _ (by decide) (by decide) (by decide) (by decide)

/-- the aliasing table is not -/
example : ¬ AliasSafe (aliasWrappers idealClone) := by
  intro h
  exact h F.wrappers (by decide)

/-- `request_scope_setter`, `client_scope`, `clone_isolated` on a concrete state: client 0 with a
header, its clone 1, a request 2 of the clone -/
def demo : VState := (runScope [.newClient, .set 0 (.hdrSet 1 5), .clone 0, .newReq 1]).1

example : demo.count = 3 ∧ (demo.owner 2).parent = some 1 ∧ ((demo.owner 1).val F.headers).get 1 = [5] := by decide

example : Untouched idealClone idealReq 0 demo
    [.set 1 (.hdrSet 1 6), .set 2 (.hdrSet 2 7), .exec 2 0 0 [] 11, .clone 1, .set 3 (.wrap [4] false)] := by
  decide

/-- request-level value wins, client-level value is used otherwise -/
example : (mergeHeaders [(1, [5]), (2, [6])] [(1, [9])]).get 1 = [9] ∧
    (mergeHeaders [(1, [5]), (2, [6])] [(1, [9])]).get 2 = [6] := by decide

end Req.Props.C19
