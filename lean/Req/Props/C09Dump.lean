import Req.Pool.DumpQueue
/-!
# C09, round 5: an asynchronous dump shows every chunk as it was when it was handed over

Model `Req/Pool/DumpQueue.lean` (the queue of `internal/dump` TOGETHER with the memory its tasks
point into).  `async_dump_as_received`: for every op list — any interleaving of `DumpTo` calls, of
the owners of the dumped buffers overwriting them (next response on the kept-alive connection,
next frame, next `Read` into the caller's buffer), of `Start`/`Stop` and of the writer goroutine's
two steps, i.e. any lag of the output — what an output has received plus what is still queued
for it, READ FROM MEMORY AS IT IS NOW, equals the bytes that were handed to `DumpTo` for it, as
they were at the call, in call order.  `drained_dump_as_received` is the user-visible form.
The hypothesis `cfg.copies = true` is the copy in `DumpTo`; `copy_is_needed` shows the statement
is false without it (seed C09-r5-3).
-/
namespace Req.Props.C09Dump
open Req.Pool.DumpQueue Req.Proto

/-- Every queued task points into a private buffer that has been allocated. -/
def Private (s : St) : Prop := ∀ t ∈ tasksOf s, ∃ n, t.data = ⟨.priv n, 0, t.data.len⟩ ∧ n < s.nextPriv

/-- A synchronous dumper never queues a task. -/
def SyncEmpty (cfg : Cfg) (s : St) : Prop := cfg.async = false → tasksOf s = []

def Inv (cfg : Cfg) (s : St) : Prop :=
  Private s ∧ SyncEmpty cfg s ∧ ∀ o, s.written o ++ pending s o = s.want o

theorem pend_append (rd : Slice → Bytes) (a b : List Task) (o : Nat) :
    pend rd (a ++ b) o = pend rd a o ++ pend rd b o := by
  induction a with
  | nil => simp [pend]
  | cons t r ih => simp [pend, ih, List.append_assoc]

theorem pend_congr (rd rd' : Slice → Bytes) (ts : List Task) (o : Nat)
    (h : ∀ t ∈ ts, rd' t.data = rd t.data) : pend rd' ts o = pend rd ts o := by
  induction ts with
  | nil => rfl
  | cons t r ih =>
    have h1 := h t (by simp)
    have h2 := ih (fun t' ht' => h t' (by simp [ht']))
    simp [pend, h1, h2]

theorem cut_self (p : Bytes) : cut p 0 p.length = p := by simp [cut]

theorem cut_length (m : Bytes) (lo len : Nat) (h : lo + len ≤ m.length) : (cut m lo len).length = len := by
  simp [cut]; omega

theorem read_priv_user (user user' priv : Nat → Bytes) (n len : Nat) :
    readSl user' priv ⟨.priv n, 0, len⟩ = readSl user priv ⟨.priv n, 0, len⟩ := by
  simp [readSl]

theorem read_priv_stable (user user' priv : Nat → Bytes) (n k : Nat) (v : Bytes) (len : Nat) (h : n < k) :
    readSl user' (upd priv k v) ⟨.priv n, 0, len⟩ = readSl user priv ⟨.priv n, 0, len⟩ := by
  have : n ≠ k := by omega
  simp [readSl, upd, this]

theorem read_priv_new (user priv : Nat → Bytes) (k : Nat) (v : Bytes) :
    readSl user (upd priv k v) ⟨.priv k, 0, v.length⟩ = v := by
  simp [readSl, upd, cut]

theorem Inv_init (cfg : Cfg) : Inv cfg {} := by
  refine ⟨?_, ?_, ?_⟩
  · intro t ht; simp [tasksOf] at ht
  · intro _; simp [tasksOf]
  · intro o; simp [pending, tasksOf, pend]

theorem pending_eq (s s' : St) (o : Nat) (hu : s'.user = s.user) (hv : s'.priv = s.priv)
    (ht : tasksOf s' = tasksOf s) : pending s' o = pending s o := by
  simp only [pending, hu, hv, ht]

/-- a step that changes neither the task list nor private memory nor the outputs -/
theorem inv_same (cfg : Cfg) (s s' : St) (h : Inv cfg s) (hv : s'.priv = s.priv) (hn : s'.nextPriv = s.nextPriv)
    (ht : tasksOf s' = tasksOf s) (hw' : s'.written = s.written) (hg : s'.want = s.want) : Inv cfg s' := by
  obtain ⟨hp, hs, hw⟩ := h
  refine ⟨?_, ?_, ?_⟩
  · intro t h; rw [ht] at h; rw [hn]; exact hp t h
  · intro ha; rw [ht]; exact hs ha
  · intro o
    have : pending s' o = pending s o := by
      simp only [pending, ht, hv]
      apply pend_congr
      intro t ht'
      obtain ⟨n, hn', _⟩ := hp t ht'
      rw [hn']; exact read_priv_user _ _ _ _ _
    rw [this, hw', hg]; exact hw o

theorem inv_sync (cfg : Cfg) (s s' : St) (o : Nat) (p : Bytes) (h : Inv cfg s) (ha : cfg.async = false)
    (_hv : s'.priv = s.priv) (hn : s'.nextPriv = s.nextPriv) (ht : tasksOf s' = tasksOf s)
    (hw' : s'.written = upd s.written o (s.written o ++ p)) (hg : s'.want = upd s.want o (s.want o ++ p)) :
    Inv cfg s' := by
  obtain ⟨hp, hs, hw⟩ := h
  have hempty := hs ha
  refine ⟨?_, ?_, ?_⟩
  · intro t h; rw [ht] at h; rw [hn]; exact hp t h
  · intro _; rw [ht]; exact hempty
  · intro o'
    have e1 : pending s' o' = [] := by simp [pending, ht, hempty, pend]
    have e0 : pending s o' = [] := by simp [pending, hempty, pend]
    have h0 := hw o'
    rw [e0] at h0
    rw [e1, hw', hg]
    by_cases ho : o' = o
    · subst ho; simp [upd] at h0 ⊢; rw [h0]
    · simp [upd, ho] at h0 ⊢; exact h0

theorem inv_push (cfg : Cfg) (s s' : St) (o len : Nat) (p : Bytes) (h : Inv cfg s) (ha : cfg.async = true)
    (hl : p.length = len)
    (hu : s'.user = s.user) (hv : s'.priv = upd s.priv s.nextPriv p) (hn : s'.nextPriv = s.nextPriv + 1)
    (hcur : s'.cur = s.cur) (hch : s'.ch = s.ch ++ [some ⟨⟨.priv s.nextPriv, 0, len⟩, o⟩])
    (hw' : s'.written = s.written) (hg : s'.want = upd s.want o (s.want o ++ p)) : Inv cfg s' := by
  obtain ⟨hp, hs, hw⟩ := h
  have ht : tasksOf s' = tasksOf s ++ [⟨⟨.priv s.nextPriv, 0, len⟩, o⟩] := by
    simp [tasksOf, hcur, hch, List.filterMap_append]
  refine ⟨?_, ?_, ?_⟩
  · intro t h
    rw [ht] at h
    rcases List.mem_append.1 h with h | h
    · obtain ⟨n, hn', hlt⟩ := hp t h
      exact ⟨n, hn', by rw [hn]; omega⟩
    · have : t = ⟨⟨.priv s.nextPriv, 0, len⟩, o⟩ := by simpa using h
      subst this; exact ⟨s.nextPriv, rfl, by rw [hn]; omega⟩
  · intro ha'; rw [ha'] at ha; cases ha
  · intro o'
    simp only [pending, ht, pend_append, hu, hv]
    have hold : pend (readSl s.user (upd s.priv s.nextPriv p)) (tasksOf s) o' = pending s o' := by
      simp only [pending]
      apply pend_congr
      intro t ht'
      obtain ⟨n, hn', hlt⟩ := hp t ht'
      rw [hn']; exact read_priv_stable _ _ _ _ _ _ _ hlt
    have hnew : readSl s.user (upd s.priv s.nextPriv p) ⟨.priv s.nextPriv, 0, len⟩ = p := by
      rw [← hl]; exact read_priv_new _ _ _ _
    rw [hold, hw', hg]
    by_cases ho : o' = o
    · subst ho
      simp only [pend, if_true, hnew, upd, List.append_nil]
      rw [← List.append_assoc, hw o']
    · have ho' : ¬ o = o' := fun h => ho h.symm
      simp only [pend, ho', if_false, upd, ho, List.append_nil]
      exact hw o'

theorem inv_emit (cfg : Cfg) (s s' : St) (t : Task) (h : Inv cfg s) (hcur : s.cur = some t)
    (hu : s'.user = s.user) (hv : s'.priv = s.priv) (hn : s'.nextPriv = s.nextPriv)
    (hcur' : s'.cur = none) (hch : s'.ch = s.ch)
    (hw' : s'.written = upd s.written t.out (s.written t.out ++ readSl s.user s.priv t.data))
    (hg : s'.want = s.want) : Inv cfg s' := by
  obtain ⟨hp, hs, hw⟩ := h
  have ht : tasksOf s = t :: tasksOf s' := by simp [tasksOf, hcur, hcur', hch]
  refine ⟨?_, ?_, ?_⟩
  · intro t' h; rw [hn]; exact hp t' (by rw [ht]; simp [h])
  · intro ha; have := hs ha; rw [ht] at this; cases this
  · intro o
    have h0 := hw o
    simp only [pending] at h0 ⊢
    rw [ht] at h0
    simp only [pend] at h0
    rw [hu, hv, hw', hg]
    by_cases ho : t.out = o
    · subst ho; simp only [if_true, upd] at h0 ⊢
      rw [List.append_assoc]; exact h0
    · have ho' : ¬ o = t.out := fun h => ho h.symm
      simp only [ho, if_false, List.nil_append, upd, ho'] at h0 ⊢
      exact h0

theorem Inv_step (cfg : Cfg) (hc : cfg.copies = true) (s : St) (op : Op) (h : Inv cfg s) :
    Inv cfg (step cfg s op).1 := by
  cases op with
  | write b lo d =>
    simp only [step]
    split
    · exact inv_same cfg s _ h rfl rfl rfl rfl rfl
    · exact h
  | dumpTo b lo len out =>
    simp only [step]
    split
    · exact h
    · rename_i hlen
      cases out with
      | none => exact h
      | some o =>
        dsimp only
        split
        · exact h
        · split
          · rename_i hasync
            exact inv_sync cfg s _ o _ h (by simpa using hasync) rfl rfl rfl rfl rfl
          · rename_i hasync
            split
            · exact h
            · exact inv_push cfg s _ o len _ h (by simpa using hasync) (cut_length _ _ _ (by omega))
                rfl rfl rfl rfl rfl rfl rfl
  | start =>
    simp only [step]
    split
    · exact h
    · exact inv_same cfg s _ h rfl rfl rfl rfl rfl
  | stop =>
    simp only [step]
    split
    · exact h
    · exact inv_same cfg s _ h rfl rfl (by simp [tasksOf, List.filterMap_append]) rfl rfl
  | take =>
    simp only [step]
    split
    · rename_i hcond
      have hcur : s.cur = none := by
        simp at hcond; exact hcond.2
      split
      · exact h
      · rename_i q hq
        exact inv_same cfg s _ h rfl rfl (by simp [tasksOf, hq]) rfl rfl
      · rename_i t q hq
        exact inv_same cfg s _ h rfl rfl (by simp [tasksOf, hq, hcur]) rfl rfl
    · exact h
  | emit =>
    simp only [step]
    split
    · exact h
    · rename_i t hcur
      exact inv_emit cfg s _ t h hcur rfl rfl rfl rfl rfl rfl rfl

theorem Inv_run (cfg : Cfg) (hc : cfg.copies = true) : ∀ (ops : List Op) (s : St), Inv cfg s → Inv cfg (run cfg s ops)
  | [], _, h => h
  | op :: ops, s, h => Inv_run cfg hc ops _ (Inv_step cfg hc s op h)

/-- **An asynchronous dump shows every chunk as it was handed over** — for every op list
(interleaving of dump calls, buffer reuse by the transport / the caller, writer lag, Start/Stop):
what output `o` has received, followed by what is queued for it read from memory as it is NOW,
is exactly the bytes given to `DumpTo` for `o`, as they were at the call, in call order. -/
theorem async_dump_as_received (cfg : Cfg) (hc : cfg.copies = true) (ops : List Op) (o : Nat) :
    (run cfg {} ops).written o ++ pending (run cfg {} ops) o = (run cfg {} ops).want o :=
  (Inv_run cfg hc ops {} (Inv_init cfg)).2.2 o

/-- User-visible form: once the writer has caught up, every output holds exactly what was dumped
to it — no chunk replaced by later contents of the buffer it was cut from. -/
theorem drained_dump_as_received (cfg : Cfg) (hc : cfg.copies = true) (ops : List Op) (o : Nat)
    (hq : tasksOf (run cfg {} ops) = []) :
    (run cfg {} ops).written o = (run cfg {} ops).want o := by
  have h := async_dump_as_received cfg hc ops o
  simpa [pending, hq, pend] using h

/-- No queued task can be reached through a pointer somebody else holds. -/
theorem queued_tasks_are_private (cfg : Cfg) (hc : cfg.copies = true) (ops : List Op) :
    ∀ t ∈ tasksOf (run cfg {} ops), ∃ n, t.data.ref = .priv n := by
  intro t ht
  obtain ⟨n, hn, _⟩ := (Inv_run cfg hc ops {} (Inv_init cfg)).1 t ht
  exact ⟨n, by rw [hn]⟩

/-- A synchronous dumper writes at once: the output always equals what was dumped. -/
theorem sync_dump_immediate (cfg : Cfg) (hc : cfg.copies = true) (ha : cfg.async = false) (ops : List Op) (o : Nat) :
    (run cfg {} ops).written o = (run cfg {} ops).want o :=
  drained_dump_as_received cfg hc ops o ((Inv_run cfg hc ops {} (Inv_init cfg)).2.1 ha)

/-! ### non-vacuity, and the copy is what the theorem rests on -/

/-- response 1 (bytes 1,2,3) is dumped from the connection's read buffer, the writer is slow,
response 2 (7,8,9) is read into the same buffer and dumped, then the writer catches up. -/
def keepAlive : List Op :=
  [.start, .write 0 0 [1, 2, 3], .dumpTo 0 0 3 (some 0), .take, .write 0 0 [7, 8, 9],
   .dumpTo 0 0 3 (some 0), .emit, .take, .emit]

example : (run { async := true } {} keepAlive).written 0 = [1, 2, 3, 7, 8, 9] := by
  decide

/-- Without the copy (seed C09-r5-3) the same schedule shows the second response twice. -/
theorem copy_is_needed :
    (run { async := true, copies := false } {} keepAlive).written 0 = [7, 8, 9, 7, 8, 9] ∧
    (run { async := true, copies := false } {} keepAlive).want 0 = [1, 2, 3, 7, 8, 9] := by
  decide

end Req.Props.C09Dump
