/-! C09 — property theorems (none yet). -/
