import Req.Pool.Lockset
import Req.Pool.H1Pool
import Req.Pool.Pairing
import Req.Lemmas.C09Lockset
import Req.Lemmas.C09Pool
import Req.Lemmas.C09PoolExcl
import Req.Lemmas.C09PoolLru
import Req.Lemmas.C09PoolCount
import Req.Lemmas.C09PoolOnce
import Req.Lemmas.C09PoolLeak
import Req.Lemmas.C09Pairing
import Req.Lemmas.C09Monitor
/-!
C09 — property theorems.

Lock-set part
* `lockset_ordered`  : two accesses by different threads made under a common lock are ordered
                       by happens-before.
* `lockset_sound`    : if every access to `x` holds a common lock, no execution (well-formed
                       trace) contains a race on `x`.
* `static_lockset_sound` : the same from STATIC facts — if every access site of `x` lists `l`
                       and the trace conforms to the sites, there is no race on `x`.
* `guarded_gives_common` : the executable table check `guarded` really yields a lock that is
                       in every (non-setup) site's lock set.
* `lockset_sound_pairwise`, `pairGuarded_gives_shared` : the same for state guarded by TWO
                       mutexes (written under both, read under either): every two sites of which
                       one can write share a lock ⇒ no race.
The regenerated table itself is discharged in `lean/Bridge/C09.lean` (`anchored_fields_guarded`).

Pool part (model `Req/Pool/H1Pool.lean`; an op list is one interleaving at lock granularity)
* `pool_inv`            : ∀ ops, `Inv` holds after `ops` — every connection is in at most one of
                          {an idle list (once), owned by exactly one request, in transit between two
                          critical sections}; waiters queued for a key ⇒ no idle connection of that
                          key (no lost hand-off); per-key idle ≤ MaxIdleConnsPerHost, total idle ≤
                          MaxIdleConns, connsPerHost ≤ MaxConnsPerHost; connsPerHost[k] = live
                          connections + running dials of key k; neither the "connCount underflow"
                          nor the "already in LRU"/"dup idle pconn" panic is reachable.
* `deliver_once`        : once a want holds a connection it never holds a different one, and a
                          want that is done never becomes waiting again.
Pairing part (model `Req/Pool/Pairing.lean`)
* `pairing`             : the i-th response read on a connection goes to the i-th request
                          written on it.
* `put_only_after_eof`  : whenever a connection is available to the pool (fresh or put back),
                          every request written on it has had its response fully consumed, none is
                          expected, and the read loop is back at its top.
* `one_request_at_a_time` : `numExpectedResponses ≤ 1`.
* `own_response_h1`     : with the peer's byte stream as a labelled queue: every response head
                          delivered to request `r` is the peer's answer to `r` (unless unsolicited
                          bytes got in front of an awaited head — `tainted`).
* `unsolicited_never_delivered` : bytes nobody asked for, found by the read loop on an idle
                          connection, close it; they reach no caller.

Monitor part (`Req/Pool/Monitor.lean`, the judge of the concurrent lanes)
* `monitor_accepts_only_own_responses` : in a history the monitor accepts, every caller that
                          finished got the echo of its own tag with an intact body.
* `monitor_accepts_no_overlap` : every HTTP/1.1 request event it lets pass found no other
                          request outstanding on that connection.

* `pool_no_leak`, `pool_exact` : every connection ever dialled is in EXACTLY one place — idle list
                          of its key (once) / owned by exactly one request / in transit / nowhere and
                          then closed; a live connection is never nowhere.
NOT proved (see notes/C09.md): liveness in the temporal sense (a pool routine that holds a
connection in transit does finish), HTTP/2 (`pconn.alt`) entries of the idle list, `IdleConnTimeout` staleness (`tooOld`) —
the latter two are outside the model; the Go memory model below lock granularity.
-/
namespace Req.Props.C09
open Req.Pool.Lockset Req.Lemmas.C09Lockset

/-- Two accesses by different threads, both made while holding `l`, are ordered. -/
theorem lockset_ordered (tr : List Ev) (hwf : WF tr) (l : Lock) (i j : Nat) (t₁ t₂ : Tid)
    (x₁ x₂ : Loc) (w₁ w₂ : Bool) (hij : i < j) (hne : t₁ ≠ t₂)
    (hi : tr[i]? = some (.acc t₁ x₁ w₁)) (hj : tr[j]? = some (.acc t₂ x₂ w₂))
    (h1 : HoldsAt tr i t₁ l) (h2 : HoldsAt tr j t₂ l) : HB tr i j := by
  obtain ⟨d, rfl⟩ : ∃ d, j = i + d := ⟨j - i, by omega⟩
  obtain ⟨r, a, hr, hra, haj, her, hea⟩ := handoff_between tr hwf l t₁ t₂ hne i d h1 h2
  have hir : i < r := by
    rcases Nat.lt_or_ge i r with h | h
    · exact h
    · have : r = i := by omega
      subst this; rw [hi] at her; cases her
  exact HB.trans (HB.po hir hi her rfl) (HB.trans (HB.sync hra her hea) (HB.po haj hea hj rfl))

/-- **lockset_sound** — the classical lock-set theorem: in every well-formed execution, if all
accesses to `x` are made while holding one common lock `l`, no two accesses to `x` by different
threads are concurrent (unordered by happens-before); in particular there is no data race on `x`. -/
theorem lockset_sound (tr : List Ev) (hwf : WF tr) (x : Loc) (l : Lock)
    (hg : Guarded tr x l) : ¬ Race tr x := by
  rintro ⟨i, j, t₁, t₂, w₁, w₂, hij, hi, hj, hne, _, hnhb⟩
  exact hnhb (lockset_ordered tr hwf l i j t₁ t₂ x x w₁ w₂ hij hne hi hj (hg i t₁ w₁ hi) (hg j t₂ w₂ hj))

/-- **static_lockset_sound** — from static facts: `l` is in the lock set of every access site
of `x`, and the execution conforms to the sites ⇒ no race on `x`. -/
theorem static_lockset_sound (facts : StaticFacts) (tr : List Ev) (hwf : WF tr)
    (hc : Conforms facts tr) (x : Loc) (l : Lock) (hall : ∀ s ∈ facts x, l ∈ s) : ¬ Race tr x := by
  apply lockset_sound tr hwf x l
  intro i t w hi
  obtain ⟨s, hs, hh⟩ := hc i t x w hi
  exact hh l (hall s hs)

/-- **lockset_sound_pairwise** — the two-mutex discipline ("written under `mu` AND `wmu`, read under
either"): if every two access sites of `x` of which at least one can write have a lock in common
(not necessarily the same lock for every pair), no execution that conforms to the sites contains
a race on `x`. The classical theorem is the special case of one lock common to all sites. -/
theorem lockset_sound_pairwise (facts : StaticFactsW) (tr : List Ev) (hwf : WF tr)
    (hc : ConformsW facts tr) (x : Loc)
    (hall : ∀ a ∈ facts x, ∀ b ∈ facts x, (a.1 = true ∨ b.1 = true) → ∃ l, l ∈ a.2 ∧ l ∈ b.2) :
    ¬ Race tr x := by
  rintro ⟨i, j, t₁, t₂, w₁, w₂, hij, hi, hj, hne, hw, hnhb⟩
  obtain ⟨a, ha, haw, hah⟩ := hc i t₁ x w₁ hi
  obtain ⟨b, hb, hbw, hbh⟩ := hc j t₂ x w₂ hj
  obtain ⟨l, hla, hlb⟩ := hall a ha b hb (by
    rcases hw with h | h
    · exact Or.inl (haw h)
    · exact Or.inr (hbw h))
  exact hnhb (lockset_ordered tr hwf l i j t₁ t₂ x x w₁ w₂ hij hne hi hj (hah l hla) (hbh l hlb))

/-- **pairGuarded_gives_shared** — the executable pairwise check is sound. -/
theorem pairGuarded_gives_shared (as : List Access) (hg : pairGuarded as = true)
    (a b : Access) (ha : a ∈ live as) (hb : b ∈ live as) (hw : a.write = true ∨ b.write = true) :
    ∃ l, l ∈ a.held ∧ l ∈ b.held := by
  unfold pairGuarded at hg
  have h1 := List.all_eq_true.mp (List.all_eq_true.mp hg a ha) b hb
  unfold pairOK at h1
  simp only [Bool.or_eq_true, Bool.and_eq_true, Bool.not_eq_true', List.any_eq_true,
    List.contains_iff_mem] at h1
  rcases h1 with ⟨h2, h3⟩ | ⟨l, hl, hl'⟩
  · rcases hw with h | h
    · rw [h] at h2; cases h2
    · rw [h] at h3; cases h3
  · exact ⟨l, hl, by simpa using hl'⟩

/-- **guarded_gives_common** — the executable check is sound: when `guarded as` holds and some
non-setup site exists, there is a lock contained in the lock set of every non-setup site. -/
theorem guarded_gives_common (as : List Access) (hg : guarded as = true) (hne : live as ≠ []) :
    ∃ l, ∀ a ∈ live as, l ∈ a.held := by
  unfold guarded at hg
  have hc : (commonLocks as).isEmpty = false := by
    cases h : (live as).isEmpty with
    | true => simp [List.isEmpty_iff] at h; exact absurd h hne
    | false => simpa [h] using hg
  unfold commonLocks at hc
  cases hl : live as with
  | nil => exact absurd hl hne
  | cons a rest =>
    rw [hl] at hc
    simp only at hc
    cases hf : a.held.filter (fun l => rest.all (fun b => b.held.contains l)) with
    | nil => rw [hf] at hc; simp at hc
    | cons l _ =>
      have hmem : l ∈ a.held.filter (fun l => rest.all (fun b => b.held.contains l)) := by
        rw [hf]; exact List.mem_cons_self
      rw [List.mem_filter] at hmem
      refine ⟨l, ?_⟩
      intro b hb
      rcases List.mem_cons.mp hb with rfl | hb
      · exact hmem.1
      · have := List.all_eq_true.mp hmem.2 b hb
        simpa using this

/-! Non-vacuity. -/

/-- A well-formed two-thread trace in which both threads write `x = 7` under lock 1. -/
def exTrace : List Ev :=
  [.acq 1 1, .acc 1 7 true, .rel 1 1, .acq 2 1, .acc 2 7 true, .rel 2 1]

example : holders (exTrace.take 1) 1 = some 1 := by decide
example : holders (exTrace.take 4) 1 = some 2 := by decide
/-- and an ill-disciplined one (thread 2 does not take the lock): the hypotheses of
`lockset_sound` genuinely exclude it. -/
example : holders ([Ev.acq 1 1, .acc 1 7 true, .acc 2 7 true].take 2) 1 ≠ some 2 := by decide

/-- The table check distinguishes a guarded from an unguarded field. -/
example : guarded [⟨[1], true, false, [5]⟩, ⟨[2], false, false, [4, 5]⟩] = true := by decide
example : guarded [⟨[1], true, false, [5]⟩, ⟨[2], false, false, []⟩] = false := by decide
example : verdict [⟨[1], true, false, [5]⟩, ⟨[1], true, false, [5]⟩, ⟨[2], false, false, []⟩]
    = .unguarded 5 [[2]] := by decide
/-- written under locks 4 and 5, read under 4 by one reader and under 5 by another: no common
lock, pairwise guarded; a reader that holds neither breaks it. -/
example : verdict [⟨[1], true, false, [4, 5]⟩, ⟨[2], false, false, [4]⟩, ⟨[3], false, false, [5]⟩]
    = .pairwise := by decide
example : pairGuarded [⟨[1], true, false, [4, 5]⟩, ⟨[2], false, false, [4]⟩, ⟨[3], false, false, []⟩]
    = false := by decide


/-! ## Pool -/
section Pool
open Req.Pool.H1Pool Req.Lemmas.C09Pool Req.Lemmas.C09PoolExcl Req.Lemmas.C09PoolLru
open Req.Lemmas.C09PoolCount Req.Lemmas.C09PoolOnce Req.Lemmas.C09PoolLeak

/-- The pool invariant, spelled out. `(s.wst w).holds c` = request `w` owns connection `c`
(delivered to its `wantConn` or already received by `getConn`). -/
structure Inv (cfg : Cfg) (s : St) : Prop where
  /-- an idle list never contains a connection twice, and only connections of its own key -/
  idle_nodup : ∀ k, (s.idle k).Nodup
  idle_key : ∀ k c, c ∈ s.idle k → s.ckey c = some k
  /-- an idle connection is owned by no request and held by no pool routine -/
  idle_not_owned : ∀ k c w, c ∈ s.idle k → (s.wst w).holds c = false
  idle_not_transit : ∀ k c, c ∈ s.idle k → c ∉ s.transit
  /-- a connection is owned by at most one request -/
  owner_unique : ∀ w₁ w₂ c, (s.wst w₁).holds c = true → (s.wst w₂).holds c = true → w₁ = w₂
  /-- a connection in transit (between two critical sections of a pool routine) is owned by nobody -/
  transit_not_owned : ∀ c w, c ∈ s.transit → (s.wst w).holds c = false
  transit_nodup : s.transit.Nodup
  /-- no lost hand-off: waiters queued for a key ⇒ no idle connection listed for it -/
  handoff : ∀ k, s.idleWait k ≠ [] → s.idle k = []
  /-- limits -/
  idle_per_host : ∀ k, (s.idle k).length ≤ cfg.idlePerHost
  idle_total : cfg.maxIdle ≠ 0 → ∀ ks : List Key, ks.Nodup →
      (ks.map (fun k => (s.idle k).length)).sum ≤ cfg.maxIdle
  conns_per_host : cfg.maxConnsPerHost > 0 → ∀ k, (s.cph k : Int) ≤ cfg.maxConnsPerHost
  /-- slot accounting: connsPerHost[k] = live connections of k + running dials for k -/
  slots : cfg.maxConnsPerHost > 0 → ∀ k,
      s.cph k = liveCnt s.ckey s.closed k s.conns + dialCnt s.wkey k s.dialing
  /-- the internal-error panics are unreachable -/
  no_dup_panic : s.dupPanic = false
  no_underflow : cfg.maxConnsPerHost > 0 → s.underflow = false

/-- **pool_inv** — for every configuration and every interleaving of the pool's critical
sections, the invariant holds. -/
theorem pool_inv (cfg : Cfg) (ops : List Op) : Inv cfg (run cfg {} ops) := by
  obtain ⟨he, hl⟩ := Excl_LruAll_run cfg {} ops Excl_init (LruAll_init cfg)
  have hiw := IW_run cfg {} ops (by intro k hk; simp at hk)
  have hil := IL_run cfg {} ops (by intro k; simp)
  have hcl := CL_run cfg {} ops (by intro hpos k; simp; omega)
  exact {
    idle_nodup := he.idleNodup
    idle_key := he.idleKey
    idle_not_owned := he.idleNotHeld
    idle_not_transit := he.idleNotTransit
    owner_unique := he.heldUnique
    transit_not_owned := he.transitNotHeld
    transit_nodup := he.transitNodup
    handoff := hiw
    idle_per_host := hil
    idle_total := fun hm ks hks => Nat.le_trans (total_idle_le_lru _ he hl.1 ks hks) (hl.2 hm)
    conns_per_host := hcl
    slots := fun hpos => (Excl_Acct_run cfg hpos {} ops Excl_init Acct_init).bal
    no_dup_panic := hl.1.noDup
    no_underflow := fun hpos => (Excl_Acct_run cfg hpos {} ops Excl_init Acct_init).noUnderflow
  }

/-- **pool_no_leak** — no connection is lost track of: in every reachable state every connection
that was dialled and is not closed is listed idle, owned by a request (delivered to its `wantConn`
or in use), or in the hands of a pool routine between two critical sections (`transit`: the
routine then pools it, hands it to a waiter, or closes it). -/
theorem pool_no_leak (cfg : Cfg) (ops : List Op) (c : Conn)
    (hcreated : (run cfg {} ops).ckey c ≠ none) (hopen : (run cfg {} ops).closed c = false) :
    (∃ k, c ∈ (run cfg {} ops).idle k) ∨ c ∈ (run cfg {} ops).transit ∨
      ∃ w, ((run cfg {} ops).wst w).holds c = true :=
  NoLeak_run cfg {} ops Excl_init (LruAll_init cfg) NoLeak_init c ⟨hcreated, hopen⟩

/-- **pool_exact** — "in exactly one place": every connection ever dialled is, in every reachable
state, in EXACTLY one of {the idle list of its own key (once), owned by exactly one request, in
transit, nowhere — and then it is closed}. -/
theorem pool_exact (cfg : Cfg) (ops : List Op) (c : Conn) (hcreated : (run cfg {} ops).ckey c ≠ none) :
    let s := run cfg {} ops
    -- at least one place, unless closed
    ((∃ k, c ∈ s.idle k) ∨ c ∈ s.transit ∨ (∃ w, (s.wst w).holds c = true) ∨ s.closed c = true) ∧
    -- idle excludes the others; the list is the one of the connection's key and has it once
    (∀ k, c ∈ s.idle k → c ∉ s.transit ∧ (∀ w, (s.wst w).holds c = false) ∧
        s.ckey c = some k ∧ (s.idle k).count c = 1) ∧
    -- transit excludes ownership and appears once
    (c ∈ s.transit → (∀ w, (s.wst w).holds c = false) ∧ s.transit.count c = 1) ∧
    -- one owner at most
    (∀ w₁ w₂, (s.wst w₁).holds c = true → (s.wst w₂).holds c = true → w₁ = w₂) := by
  have he := Excl_run cfg {} ops Excl_init
  refine ⟨?_, ?_, ?_, ?_⟩
  · cases hcl : (run cfg {} ops).closed c with
    | true => exact Or.inr (Or.inr (Or.inr rfl))
    | false =>
      rcases pool_no_leak cfg ops c hcreated hcl with h | h | h
      · exact Or.inl h
      · exact Or.inr (Or.inl h)
      · exact Or.inr (Or.inr (Or.inl h))
  · intro k hk
    exact ⟨he.idleNotTransit k c hk, fun w => he.idleNotHeld k c w hk, he.idleKey k c hk,
      by rw [(he.idleNodup k).count, if_pos hk]⟩
  · intro ht
    exact ⟨fun w => he.transitNotHeld c w ht, by rw [he.transitNodup.count, if_pos ht]⟩
  · intro w₁ w₂ h1 h2
    exact he.heldUnique w₁ w₂ c h1 h2

/-- **deliver_once** — a want is delivered at most once: after any further interleaving a want
that owned connection `c` owns `c` or nothing, and a done want never waits again. -/
theorem deliver_once (cfg : Cfg) (ops more : List Op) (w : Want) (c d : Conn)
    (hc : ((run cfg {} ops).wst w).holds c = true)
    (hd : ((run cfg (run cfg {} ops) more).wst w).holds d = true) : d = c := by
  have hsame : ∀ a : WSt, a.holds c = true → a.holds d = true → d = c := by
    intro a h1 h2
    cases a <;> simp [WSt.holds] at h1 h2 <;> (subst h1; exact h2.symm)
  have h := (WstOK_run cfg (run cfg {} ops) more w).2 d hd
  rcases h with h | h
  · exact hsame _ hc h
  · rw [h] at hc; cases hc

theorem done_stays_done (cfg : Cfg) (ops more : List Op) (w : Want)
    (h : (run cfg {} ops).wst w ≠ .waiting) : (run cfg (run cfg {} ops) more).wst w ≠ .waiting :=
  (WstOK_run cfg (run cfg {} ops) more w).1 h

/-! Non-vacuity: a concrete interleaving in which a connection is dialled for request 0, used,
put back, reused by request 1, and in which request 2 (MaxConnsPerHost = 1) waits and gets the
connection handed over by `tryPutIdleConn`. -/
def exCfg : Cfg := ⟨0, 0, 1, false⟩
def exOps : List Op :=
  [.newWant 0 0, .queueIdle 0, .queueDial 0, .dialOk 0 7, .recv 0, .finishPut 0,   -- conn 7 idle
   .newWant 1 0, .queueIdle 1, .recv 1,                                             -- reused by 1
   .newWant 2 0, .queueIdle 2, .queueDial 2,                                        -- 2 waits
   .finishPut 1]                                                                    -- handed to 2
example : (run exCfg {} (exOps.take 6)).idle 0 = [7] := by decide
example : (run exCfg {} (exOps.take 9)).wst 1 = .inUse 7 := by decide
example : (run exCfg {} (exOps.take 12)).dialWait 0 = [2] := by decide
example : (run exCfg {} exOps).wst 2 = .gotConn 7 ∧ (run exCfg {} exOps).idle 0 = [] ∧
    (run exCfg {} exOps).cph 0 = 1 := by decide

/-- Non-vacuity: connection 7 of `exOps` walks through the places — delivered, in use, idle,
in use again, handed to the waiter — and a connection whose want was cancelled while the dial was
running ends up in transit and, once the routine has let go of it, closed (MaxIdleConnsPerHost < 0:
keep-alives off). -/
example : ((run exCfg {} (exOps.take 4)).wst 0).holds 7 = true ∧ (run exCfg {} (exOps.take 6)).idle 0 = [7] ∧
    ((run exCfg {} (exOps.take 9)).wst 1).holds 7 = true ∧ ((run exCfg {} exOps).wst 2).holds 7 = true := by decide
example :
    let s1 := run ⟨0, -1, 0, false⟩ {} [.newWant 0 0, .queueIdle 0, .queueDial 0, .cancel 0, .dialOk 0 5]
    let s2 := run ⟨0, -1, 0, false⟩ s1 [.putT 5, .closeT 5]
    s1.transit = [5] ∧ s1.closed 5 = false ∧ s2.transit = [] ∧ s2.closed 5 = true ∧ s2.idle 0 = [] := by decide

end Pool

/-! ## Pairing -/
section Pairing
open Req.Pool.Pairing Req.Lemmas.C09Pairing

/-- **pairing** — the i-th response read on a connection is delivered to the i-th request
written on it, for every interleaving of `roundTrip`, `readLoop` and body consumption. -/
theorem pairing (ops : List Req.Pool.Pairing.Op) (r i : Nat)
    (h : (r, i) ∈ (Req.Pool.Pairing.run {} ops).pairs) :
    (Req.Pool.Pairing.run {} ops).started[i]? = some r :=
  (PInv_run {} ops PInv_init).pairs (r, i) h

/-- **put_only_after_eof** — whenever the connection is available to the pool, no response is
expected, nothing is queued for the read loop, the read loop is at its top, and every request
ever written on the connection has had its response fully consumed. -/
theorem put_only_after_eof (ops : List Req.Pool.Pairing.Op)
    (h : (Req.Pool.Pairing.run {} ops).avail = true) :
    let s := Req.Pool.Pairing.run {} ops
    s.numExpected = 0 ∧ s.reqch = [] ∧ s.phase = .peeking ∧ s.consumed = s.started.length := by
  have hinv := (PInv_run {} ops PInv_init).shape
  rcases hinv with ⟨_, h2, h3, _, h5, h6⟩ | ⟨h1, _⟩ | ⟨h1, _⟩ | ⟨h1, _⟩
  · exact ⟨h6, h3, h2, h5⟩
  · rw [h1] at h; cases h
  · rw [h1] at h; cases h
  · rw [h1] at h; cases h

/-- **one_request_at_a_time** — `numExpectedResponses` never exceeds 1. -/
theorem one_request_at_a_time (ops : List Req.Pool.Pairing.Op) :
    (Req.Pool.Pairing.run {} ops).numExpected ≤ 1 := by
  exact (PInv_run {} ops PInv_init).neLe

/-- **own_response_h1** — whose response a caller gets.  The peer's byte stream is modelled as a
queue of complete responses, each labelled with the request the peer meant it for (`none` =
unsolicited bytes: a duplicated response, a response nobody asked for, garbage).  Unless the
connection is `tainted` (unsolicited bytes arrived in front of an awaited response head, or the
pool handed the connection out before the read loop saw them — nothing a client can repair),
every response head delivered to request `r` is the peer's answer to `r`. -/
theorem own_response_h1 (ops : List Req.Pool.Pairing.Op)
    (hclean : (Req.Pool.Pairing.run {} ops).tainted = false) (r : Nat) (l : Option Nat)
    (h : (r, l) ∈ (Req.Pool.Pairing.run {} ops).got) : l = some r :=
  (Own_run {} ops PInv_init Own_init hclean).1 (r, l) h

/-- **unsolicited_never_delivered** — bytes nobody asked for that the read loop finds on an idle
connection (`Peek` returns with `numExpectedResponses == 0`) close the connection: whatever
happens afterwards, no request is ever started on it again and nothing more is delivered. -/
theorem unsolicited_never_delivered (ops more : List Req.Pool.Pairing.Op)
    (hidle : (Req.Pool.Pairing.run {} ops).phase = .peeking ∧ (Req.Pool.Pairing.run {} ops).numExpected = 0)
    (hbytes : (Req.Pool.Pairing.run {} ops).wire ≠ []) :
    let s := Req.Pool.Pairing.step (Req.Pool.Pairing.run {} ops) .peekIdle
    s.avail = false ∧ (Req.Pool.Pairing.run s more).got = (Req.Pool.Pairing.run {} ops).got ∧
      (Req.Pool.Pairing.run s more).started = (Req.Pool.Pairing.run {} ops).started := by
  have hstep : (Req.Pool.Pairing.step (Req.Pool.Pairing.run {} ops) .peekIdle).phase = .closed ∧
      (Req.Pool.Pairing.step (Req.Pool.Pairing.run {} ops) .peekIdle).avail = false ∧
      (Req.Pool.Pairing.step (Req.Pool.Pairing.run {} ops) .peekIdle).got = (Req.Pool.Pairing.run {} ops).got ∧
      (Req.Pool.Pairing.step (Req.Pool.Pairing.run {} ops) .peekIdle).started = (Req.Pool.Pairing.run {} ops).started := by
    have hw : (Req.Pool.Pairing.run {} ops).wire.isEmpty = false := by
      cases hwl : (Req.Pool.Pairing.run {} ops).wire with
      | nil => exact absurd hwl hbytes
      | cons _ _ => rfl
    simp [Req.Pool.Pairing.step, hidle.1, hidle.2, hw]
  obtain ⟨h1, h2, h3, h4⟩ := hstep
  obtain ⟨_, c2, c3⟩ := closed_run _ more h1
  exact ⟨h2, by rw [c2, h3], by rw [c3, h4]⟩

/-- Non-vacuity: a peer that answers request 10 and then repeats its answer while the connection
is idle.  When the read loop sees the extra bytes first, the connection is closed and request 11
(ignored here: the pool dials a new connection) gets nothing from it; when the pool wins the
race the connection is `tainted` and request 11 is given the unsolicited bytes. -/
example :
    let s := Req.Pool.Pairing.run {}
      [.start 10, .peerAnswer, .readHead false true true true, .peerExtra, .peekIdle, .start 11,
       .readHead false true true true]
    s.got = [(10, some 10)] ∧ s.tainted = false ∧ s.phase = .closed ∧ s.started = [10] := by decide
example :
    let s := Req.Pool.Pairing.run {}
      [.start 10, .peerAnswer, .readHead false true true true, .peerExtra, .start 11,
       .readHead false true true true]
    s.got = [(11, none), (10, some 10)] ∧ s.tainted = true := by decide

/-- Non-vacuity: two requests on one connection; the second is started only after the first
body was read to EOF and the connection put back; both get their own response. -/
example :
    let s := Req.Pool.Pairing.run {}
      [.start 10, .peerAnswer, .readHead true true true true, .bodyDone true true true,
       .start 11, .peerAnswer, .readHead false true true true]
    s.pairs = [(11, 1), (10, 0)] ∧ s.avail = true ∧ s.consumed = 2 ∧
      s.got = [(11, some 11), (10, some 10)] := by decide
/-- and a `start` while the first body is still unread is ignored (the pool never hands the
connection out then). -/
example :
    (Req.Pool.Pairing.run {} [.start 10, .peerAnswer, .readHead true true true true, .start 11]).started = [10] := by
  decide

end Pairing

/-! ## History monitor -/
section Monitor
open Req.Pool.Monitor Req.Lemmas.C09Monitor

/-- **monitor_accepts_only_own_responses** — acceptance by the spec monitor means: every
`done` event of the history carries the caller's own tag and a body that matched it. -/
theorem monitor_accepts_only_own_responses (cfg : Req.Pool.Monitor.Cfg) (h : List Req.Pool.Monitor.Ev)
    (hacc : check cfg h = .ok ()) (t echo : Nat) (ok early : Bool)
    (hm : Req.Pool.Monitor.Ev.done t echo ok early ∈ h) : echo = t ∧ ok = true := by
  unfold check at hacc
  cases hr : runFrom cfg {} 0 h with
  | error e => rw [hr] at hacc; cases hacc
  | ok s =>
    obtain ⟨s₁, s₂, hs⟩ := runFrom_ok_mem cfg h {} 0 s hr _ hm
    exact step_done_ok cfg s₁ s₂ t echo ok early hs

/-- **monitor_accepts_no_overlap** — every `req` event of an accepted history was taken in a
monitor state with no request outstanding on that connection. -/
theorem monitor_accepts_no_overlap (cfg : Req.Pool.Monitor.Cfg) (h : List Req.Pool.Monitor.Ev)
    (hacc : check cfg h = .ok ()) (c t : Nat) (hm : Req.Pool.Monitor.Ev.req c t ∈ h) :
    ∃ s₁ s₂, Req.Pool.Monitor.step cfg s₁ (.req c t) = .ok s₂ ∧ (s₁.outstanding.lookup c).isSome = false := by
  unfold check at hacc
  cases hr : runFrom cfg {} 0 h with
  | error e => rw [hr] at hacc; cases hacc
  | ok s =>
    obtain ⟨s₁, s₂, hs⟩ := runFrom_ok_mem cfg h {} 0 s hr _ hm
    exact ⟨s₁, s₂, hs, step_req_ok cfg s₁ s₂ c t hs⟩

/-- Non-vacuity: a two-request history on one connection is accepted, the same history with the
second request arriving before the first response is complete is rejected as `overlap`, and a
swapped echo as `mixed-response`. -/
example : verdict ⟨1, 2, 0⟩ [.send 1, .send 2, .opened 5 0, .req 5 1, .respLast 5 1, .done 1 1 true false,
    .req 5 2, .respLast 5 2, .done 2 2 true false] = "ok" := by decide
example : verdict ⟨1, 2, 0⟩ [.send 1, .send 2, .opened 5 0, .req 5 1, .req 5 2] = "violation overlap 4" := by
  decide
example : verdict ⟨1, 2, 0⟩ [.send 1, .send 2, .opened 5 0, .req 5 1, .respLast 5 1, .done 1 2 true false]
    = "violation mixed-response 5" := by decide

end Monitor

end Req.Props.C09
