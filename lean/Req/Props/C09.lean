import Req.Pool.Lockset
import Req.Lemmas.C09Lockset
/-!
C09 — property theorems.

Lock-set part
* `lockset_ordered`  : two accesses by different threads made under a common lock are ordered
                       by happens-before.
* `lockset_sound`    : if every access to `x` holds a common lock, no execution (well-formed
                       trace) contains a race on `x`.
* `static_lockset_sound` : the same from STATIC facts — if every access site of `x` lists `l`
                       and the trace conforms to the sites, there is no race on `x`.
* `guarded_gives_common` : the executable table check `guarded` really yields a lock that is
                       in every (non-setup) site's lock set.
The regenerated table itself is discharged in `lean/Bridge/C09.lean` (`anchored_fields_guarded`).
-/
namespace Req.Props.C09
open Req.Pool.Lockset Req.Lemmas.C09Lockset

/-- Two accesses by different threads, both made while holding `l`, are ordered. -/
theorem lockset_ordered (tr : List Ev) (hwf : WF tr) (l : Lock) (i j : Nat) (t₁ t₂ : Tid)
    (x₁ x₂ : Loc) (w₁ w₂ : Bool) (hij : i < j) (hne : t₁ ≠ t₂)
    (hi : tr[i]? = some (.acc t₁ x₁ w₁)) (hj : tr[j]? = some (.acc t₂ x₂ w₂))
    (h1 : HoldsAt tr i t₁ l) (h2 : HoldsAt tr j t₂ l) : HB tr i j := by
  obtain ⟨d, rfl⟩ : ∃ d, j = i + d := ⟨j - i, by omega⟩
  obtain ⟨r, a, hr, hra, haj, her, hea⟩ := handoff_between tr hwf l t₁ t₂ hne i d h1 h2
  have hir : i < r := by
    rcases Nat.lt_or_ge i r with h | h
    · exact h
    · have : r = i := by omega
      subst this; rw [hi] at her; cases her
  exact HB.trans (HB.po hir hi her rfl) (HB.trans (HB.sync hra her hea) (HB.po haj hea hj rfl))

/-- **lockset_sound** — the classical lock-set theorem: in every well-formed execution, if all
accesses to `x` are made while holding one common lock `l`, no two accesses to `x` by different
threads are concurrent (unordered by happens-before); in particular there is no data race on `x`. -/
theorem lockset_sound (tr : List Ev) (hwf : WF tr) (x : Loc) (l : Lock)
    (hg : Guarded tr x l) : ¬ Race tr x := by
  rintro ⟨i, j, t₁, t₂, w₁, w₂, hij, hi, hj, hne, _, hnhb⟩
  exact hnhb (lockset_ordered tr hwf l i j t₁ t₂ x x w₁ w₂ hij hne hi hj (hg i t₁ w₁ hi) (hg j t₂ w₂ hj))

/-- **static_lockset_sound** — from static facts: `l` is in the lock set of every access site
of `x`, and the execution conforms to the sites ⇒ no race on `x`. -/
theorem static_lockset_sound (facts : StaticFacts) (tr : List Ev) (hwf : WF tr)
    (hc : Conforms facts tr) (x : Loc) (l : Lock) (hall : ∀ s ∈ facts x, l ∈ s) : ¬ Race tr x := by
  apply lockset_sound tr hwf x l
  intro i t w hi
  obtain ⟨s, hs, hh⟩ := hc i t x w hi
  exact hh l (hall s hs)

/-- **guarded_gives_common** — the executable check is sound: when `guarded as` holds and some
non-setup site exists, there is a lock contained in the lock set of every non-setup site. -/
theorem guarded_gives_common (as : List Access) (hg : guarded as = true) (hne : live as ≠ []) :
    ∃ l, ∀ a ∈ live as, l ∈ a.held := by
  unfold guarded at hg
  have hc : (commonLocks as).isEmpty = false := by
    cases h : (live as).isEmpty with
    | true => simp [List.isEmpty_iff] at h; exact absurd h hne
    | false => simpa [h] using hg
  unfold commonLocks at hc
  cases hl : live as with
  | nil => exact absurd hl hne
  | cons a rest =>
    rw [hl] at hc
    simp only at hc
    cases hf : a.held.filter (fun l => rest.all (fun b => b.held.contains l)) with
    | nil => rw [hf] at hc; simp at hc
    | cons l _ =>
      have hmem : l ∈ a.held.filter (fun l => rest.all (fun b => b.held.contains l)) := by
        rw [hf]; exact List.mem_cons_self
      rw [List.mem_filter] at hmem
      refine ⟨l, ?_⟩
      intro b hb
      rcases List.mem_cons.mp hb with rfl | hb
      · exact hmem.1
      · have := List.all_eq_true.mp hmem.2 b hb
        simpa using this

/-! Non-vacuity. -/

/-- A well-formed two-thread trace in which both threads write `x = 7` under lock 1. -/
def exTrace : List Ev :=
  [.acq 1 1, .acc 1 7 true, .rel 1 1, .acq 2 1, .acc 2 7 true, .rel 2 1]

example : holders (exTrace.take 1) 1 = some 1 := by decide
example : holders (exTrace.take 4) 1 = some 2 := by decide
/-- and an ill-disciplined one (thread 2 does not take the lock): the hypotheses of
`lockset_sound` genuinely exclude it. -/
example : holders ([Ev.acq 1 1, .acc 1 7 true, .acc 2 7 true].take 2) 1 ≠ some 2 := by decide

/-- The table check distinguishes a guarded from an unguarded field. -/
example : guarded [⟨[1], true, false, [5]⟩, ⟨[2], false, false, [4, 5]⟩] = true := by decide
example : guarded [⟨[1], true, false, [5]⟩, ⟨[2], false, false, []⟩] = false := by decide
example : verdict [⟨[1], true, false, [5]⟩, ⟨[1], true, false, [5]⟩, ⟨[2], false, false, []⟩]
    = .unguarded 5 [[2]] := by decide

end Req.Props.C09
