import Req.Client.RedirectStore
import Req.Client.RedirectLoop
import Req.Lemmas.C11Store
import Req.Lemmas.C11Chain
import Req.Lemmas.C11Hdr
import Req.Props.C11Loop
/-!
C11 — DEGENERATE policy arguments (round 5): nil entries at every position, constructors called with
an empty list, duplicates, a non-positive hop limit. For every such argument the property fixes what
must happen — "a redirect is followed only if EVERY configured policy permits it" quantifies over the
policies that were passed, wherever nil cells sit between them; a constructor given no name / no host
names NOTHING (AlwaysCopy() copies nothing, AllowedHost() allows nothing).

1. `set_policy_keeps_all_non_nil` — what `SetRedirectPolicy(args...)` installs is first-refusal over
   EXACTLY the non-nil arguments, in call order (model `Store.install` = the copy of client.go,
   spec `Store.firstRefusal ∘ nonNil`), hence every non-nil argument at every position is enforced
   (`non_nil_argument_enforced`), and nil cells are irrelevant for the whole hop loop
   (`nil_entries_irrelevant`, `nil_entries_irrelevant_loop`).
2. `always_copy_empty_is_noop` (+ `_loop`): `AlwaysCopyHeaderRedirectPolicy()` changes no header map,
   refuses nothing, and a client configured with it anywhere sends exactly what it sends without it.
3. `allowed_host_empty_refuses_all`, `allowed_domain_empty_refuses_all`, `allowed_empty_one_request`,
   `max_nonpositive_refuses_all`, `max_nonpositive_one_request`.
4. duplicates: `allowed_host_duplicates_irrelevant`, `allowed_domain_duplicates_irrelevant`,
   `always_copy_duplicates_irrelevant`, `duplicate_policies_same_decision`.
-/
namespace Req.Props.C11Degenerate
open Req.Proto Req.Ascii Req.Redirect Req.Redirect.Store Req.Redirect.Loop
open Req.Lemmas.C11 Req.Lemmas.C11Store

/-! ## 1. nil entries -/

/-- **set_policy_keeps_all_non_nil**: for every non-empty argument list — nil cells anywhere, any
number of them — `SetRedirectPolicy` installs a closure over a list that holds the SAME cells in the
same order (so the same non-nil policies: none is dropped, whatever precedes it), and that closure
is first-refusal-wins over exactly the non-nil arguments. (Seed C11-r5-3 — the copy stops at the
first nil — violates `nonNil stored = nonNil args`.) -/
theorem set_policy_keeps_all_non_nil (args : List (Option Policy)) (hne : args ≠ []) :
    ∃ stored, install args = some stored ∧ stored = args ∧ nonNil stored = nonNil args ∧
      ∀ req h via, compose stored req h via = firstRefusal (nonNil args) req h via := by
  refine ⟨copyArgs args, ?_, copyArgs_eq args, by rw [copyArgs_eq], ?_⟩
  · cases args with
    | nil => exact absurd rfl hne
    | cons a as => rfl
  · intro req h via
    rw [copyArgs_eq]
    exact compose_eq_firstRefusal args req h via

/-- `SetRedirectPolicy()` with no argument leaves `CheckRedirect` alone. -/
theorem set_policy_no_argument : install [] = none := rfl

/-- (nil, Max(2)): Max(2) is kept and refuses the third request. -/
example :
    (install [none, some (maxRedirectPolicy 2)]).map
      (fun st => (compose st [] [] ⟨⟨[], []⟩, [⟨[], []⟩]⟩).1) = some .deny := by decide

/-- **non_nil_argument_enforced**: a policy at ANY position of the argument list — any cells, nil or
not, before and after it — must allow a hop for the installed closure to allow it. -/
theorem non_nil_argument_enforced (pre post : List (Option Policy)) (p : Policy)
    (req : Bytes) (h : Headers) (via : Via)
    (hallow : (compose (pre ++ some p :: post) req h via).1 = .allow) :
    p.check req via = .allow :=
  (compose_allow_iff _ req h via).mp hallow p (by simp)

example : (compose [none, none, some noRedirectPolicy, none] [] [] ⟨⟨[], []⟩, []⟩).1 = .useLast := by decide

/-- **nil_entries_irrelevant**: removing the nil cells (at whatever positions) changes neither the
verdict nor the resulting header map of any evaluation. -/
theorem nil_entries_irrelevant (ps : List (Option Policy)) (req : Bytes) (h : Headers) (via : Via) :
    compose ps req h via = compose (ps.filter Option.isSome) req h via := by
  rw [compose_eq_firstRefusal, compose_eq_firstRefusal, nonNil_filter_isSome]

/-- **nil_entries_irrelevant_loop**: …and therefore nothing of a whole run of the hop loop: the same
requests (URLs, methods, headers, bodies) are sent and the call ends the same way, for every initial
request and script. -/
theorem nil_entries_irrelevant_loop (ps : List (Option Policy)) (jar getBody noBody : Bool)
    (ireq : Loop.Req) (script : List Reply) :
    start { ps := ps, jar := jar, getBody := getBody, noBody := noBody } ireq script =
      start { ps := ps.filter Option.isSome, jar := jar, getBody := getBody, noBody := noBody }
        ireq script := by
  unfold start
  exact run_congr_ps { ps := ps, jar := jar, getBody := getBody, noBody := noBody }
    { ps := ps.filter Option.isSome, jar := jar, getBody := getBody, noBody := noBody } rfl rfl rfl
    (fun req h via => nil_entries_irrelevant ps req h via) _ _ _

/-! ## 2. AlwaysCopyHeaderRedirectPolicy() — no header named -/

/-- **always_copy_empty_is_noop**: with no header named the policy leaves every header map exactly
as it found it — no entry added under any key, whatever the original request carried — and allows.
(Seed C11-r5-2 — "no name = copy all" — violates the first conjunct.) -/
theorem always_copy_empty_is_noop (req : Bytes) (h : Headers) (via : Via) :
    (alwaysCopyHeaderRedirectPolicy []).xform h via = h ∧
      (alwaysCopyHeaderRedirectPolicy []).check req via = .allow := ⟨rfl, rfl⟩

/-- The original request carries Authorization and Cookie; the stripped redirected request stays
stripped. -/
example :
    (alwaysCopyHeaderRedirectPolicy []).xform [] ⟨⟨[], [(hAuthorization, [[116]]), (hCookie, [[99]])]⟩, []⟩ = [] := by
  decide

/-- **degenerate_args_irrelevant**: nil and `AlwaysCopy()` arguments, at any positions and in any
number, do not change what the installed closure computes (verdict and header map). -/
theorem degenerate_args_irrelevant (ds : List PolicyDesc) (req : Bytes) (h : Headers) (via : Via) :
    compose (ds.map PolicyDesc.denote) req h via =
      compose ((normalize ds).map PolicyDesc.denote) req h via :=
  (compose_normalize ds req h via).symm

/-- **always_copy_empty_is_noop_loop** (with nil cells): a client configured with a list containing
`AlwaysCopyHeaderRedirectPolicy()` / nil entries sends, on every run, exactly the requests — header
for header, at the final AND every intermediate hop — that the client configured without them sends.
In particular no Authorization / Cookie that Go's cross-origin rule stripped comes back. -/
theorem always_copy_empty_is_noop_loop (ds : List PolicyDesc) (jar getBody noBody : Bool)
    (ireq : Loop.Req) (script : List Reply) :
    start { ps := ds.map PolicyDesc.denote, jar := jar, getBody := getBody, noBody := noBody } ireq script =
      start { ps := (normalize ds).map PolicyDesc.denote, jar := jar, getBody := getBody, noBody := noBody }
        ireq script := by
  unfold start
  exact run_congr_ps { ps := ds.map PolicyDesc.denote, jar := jar, getBody := getBody, noBody := noBody }
    { ps := (normalize ds).map PolicyDesc.denote, jar := jar, getBody := getBody, noBody := noBody }
    rfl rfl rfl (fun req h via => degenerate_args_irrelevant ds req h via) _ _ _

example : normalize [.nil, .alwaysCopy [], .sameHost, .nil, .alwaysCopy [[65]], .alwaysCopy []] =
    [.sameHost, .alwaysCopy [[65]]] := rfl

/-! ## 3. empty allow-lists, non-positive limits -/

/-- **allowed_host_empty_refuses_all**: `AllowedHostRedirectPolicy()` names no host: refuses all. -/
theorem allowed_host_empty_refuses_all (req : Bytes) (via : Via) :
    (allowedHostRedirectPolicy []).check req via = .deny := rfl

/-- **allowed_domain_empty_refuses_all**. -/
theorem allowed_domain_empty_refuses_all (req : Bytes) (via : Via) :
    (allowedDomainRedirectPolicy []).check req via = .deny := rfl

/-- **max_nonpositive_refuses_all**: a limit ≤ 0 never lets a redirect through (`len(via) ≥ 1`). -/
theorem max_nonpositive_refuses_all (n : Int) (hn : n ≤ 0) (req : Bytes) (via : Via) :
    (maxRedirectPolicy n).check req via = .deny := by
  cases hc : (maxRedirectPolicy n).check req via with
  | deny => rfl
  | allow =>
    have := (max_check_iff n req via).mp hc
    simp only [Via.length] at this
    omega
  | useLast => simp [maxRedirectPolicy] at hc; split at hc <;> simp at hc

/-- A policy that refuses everything, anywhere in the list: only the original request is sent. -/
theorem refuse_all_one_request (cfg : Config) (p : Policy) (hp : some p ∈ cfg.ps)
    (hall : ∀ req via, p.check req via ≠ .allow)
    (ireq : Loop.Req) (script : List Reply) : (start cfg ireq script).1.length = 1 := by
  obtain ⟨later, hs, _⟩ := Req.Props.C11Loop.start_sent cfg ireq script
  cases later with
  | nil => simp [hs]
  | cons x xs =>
    have hk : 0 + 1 < (start cfg ireq script).1.length := by rw [hs]; simp
    exact absurd (Req.Props.C11Loop.credentials_never_reach_refused_host cfg ireq script 0 hk p hp)
      (hall _ _)

/-- **allowed_empty_one_request**: with `AllowedHost()` or `AllowedDomain()` anywhere in the argument
list (nil cells, other policies around it), every run sends the original request only. -/
theorem allowed_empty_one_request (cfg : Config)
    (hp : some (allowedHostRedirectPolicy []) ∈ cfg.ps ∨ some (allowedDomainRedirectPolicy []) ∈ cfg.ps)
    (ireq : Loop.Req) (script : List Reply) : (start cfg ireq script).1.length = 1 := by
  rcases hp with hp | hp
  · exact refuse_all_one_request cfg _ hp (fun _ _ => by simp [allowedHostRedirectPolicy]) ireq script
  · exact refuse_all_one_request cfg _ hp (fun _ _ => by simp [allowedDomainRedirectPolicy]) ireq script

/-- **max_nonpositive_one_request**. -/
theorem max_nonpositive_one_request (cfg : Config) (n : Int) (hn : n ≤ 0)
    (hp : some (maxRedirectPolicy n) ∈ cfg.ps)
    (ireq : Loop.Req) (script : List Reply) : (start cfg ireq script).1.length = 1 :=
  refuse_all_one_request cfg _ hp
    (fun req via => by rw [max_nonpositive_refuses_all n hn]; simp) ireq script

/-! ## 4. duplicates -/

/-- **allowed_host_duplicates_irrelevant**: an allow-list is a set — repeating an entry (at any
positions) changes no verdict. -/
theorem allowed_host_duplicates_irrelevant (l : List Bytes) (req : Bytes) (via : Via) :
    (allowedHostRedirectPolicy (dedupList l)).check req via = (allowedHostRedirectPolicy l).check req via := by
  have : ((dedupList l).map fun h => lower (getHostname h)).contains (getHostname req) =
      (l.map fun h => lower (getHostname h)).contains (getHostname req) := by
    rw [Bool.eq_iff_iff]
    simp only [List.contains_iff_mem, List.mem_map, mem_dedupList]
  simp only [allowedHostRedirectPolicy, this]

/-- **allowed_domain_duplicates_irrelevant**. -/
theorem allowed_domain_duplicates_irrelevant (l : List Bytes) (req : Bytes) (via : Via) :
    (allowedDomainRedirectPolicy (dedupList l)).check req via = (allowedDomainRedirectPolicy l).check req via := by
  have : ((dedupList l).map fun h => lower (getDomain h)).contains (getDomain req) =
      (l.map fun h => lower (getDomain h)).contains (getDomain req) := by
    rw [Bool.eq_iff_iff]
    simp only [List.contains_iff_mem, List.mem_map, mem_dedupList]
  simp only [allowedDomainRedirectPolicy, this]

/-- **always_copy_duplicates_irrelevant**: naming a header twice (in any spelling positions) copies
it once: the values of every header after the policy ran are those of the duplicate-free list. -/
theorem always_copy_duplicates_irrelevant (l : List Bytes) (req : Headers) (via : Via) (k : Bytes) :
    ((alwaysCopyHeaderRedirectPolicy (dedupList l)).xform req via).values k =
      ((alwaysCopyHeaderRedirectPolicy l).xform req via).values k := by
  have e1 := alwaysCopy_values (dedupList l) req via.first.hdr k
  have e2 := alwaysCopy_values l req via.first.hdr k
  simp only [alwaysCopyHeaderRedirectPolicy] at e1 e2 ⊢
  rw [e1, e2]
  simp only [mem_dedupList]

/-- `X-A, x-a, X-A` listed; original has one value: copied once. -/
example :
    ((alwaysCopyHeaderRedirectPolicy [[88,45,65],[120,45,97],[88,45,65]]).xform []
      ⟨⟨[], [([88,45,65], [[49]])]⟩, []⟩).values [88,45,65] = [[49]] := by decide

/-- **duplicate_policies_same_decision**: two argument lists with the same SET of non-nil policies
(any multiplicities, any order, any nil cells) allow exactly the same hops. -/
theorem duplicate_policies_same_decision (ps ps' : List (Option Policy))
    (hset : ∀ p, some p ∈ ps ↔ some p ∈ ps') (req : Bytes) (h h' : Headers) (via : Via) :
    (compose ps req h via).1 = .allow ↔ (compose ps' req h' via).1 = .allow := by
  rw [compose_allow_iff, compose_allow_iff]
  constructor
  · intro hall p hp; exact hall p ((hset p).mpr hp)
  · intro hall p hp; exact hall p ((hset p).mp hp)

end Req.Props.C11Degenerate
