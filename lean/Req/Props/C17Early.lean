import Req.Client.EarlyResponse
import Req.Lemmas.C17Early
/-!
C17 — "bodies arrive exactly" when the origin answers EARLY (before the upload has finished).

Which early answers may end an upload, on HTTP/1.1, HTTP/2 and HTTP/3, and which must not:
RFC 9113 section 8.1 / RFC 9114 section 4.1 — only a COMPLETE response (and then a request to
stop with NO_ERROR) releases the client; the transport's own documented heuristic adds, on
HTTP/2 only, a final status above 299.  A header block that merely declares an empty body on a
stream that stays open (`200`, `Content-Length: 0`, no END_STREAM) releases nothing.
-/
namespace Req.Props.C17Early
open Req.EarlyResponse Req.Lemmas.C17Early

/-- The body writer is told to stop exactly when some event RELEASES the client (read off the
event list: an explicit stop, a `giveUp` after a complete response, an HTTP/2 final status above
299, a sixth interim response) — for every protocol, body size and interleaving. -/
theorem early_stop_iff_released (p : Proto) (total : Nat) (evs : List Ev) :
    (run p (init total) evs).stopped = released p {} evs := by
  rw [run_stopped]; simp [init]

/-- `released`, spelled out: some event releases, judged against what had been seen before it. -/
theorem released_iff_split (p : Proto) (o : Seen) (evs : List Ev) :
    released p o evs = true ↔
      ∃ a e b, evs = a ++ e :: b ∧ releases p (a.foldl see o) e = true := by
  induction evs generalizing o with
  | nil => simp [released]
  | cons x xs ih =>
    simp only [released, Bool.or_eq_true, ih]
    constructor
    · rintro (h | ⟨a, e, b, rfl, h⟩)
      · exact ⟨[], x, xs, rfl, h⟩
      · exact ⟨x :: a, e, b, rfl, h⟩
    · rintro ⟨a, e, b, h, hr⟩
      cases a with
      | nil =>
        simp only [List.nil_append, List.cons.injEq] at h
        obtain ⟨rfl, rfl⟩ := h
        exact Or.inl hr
      | cons y ys =>
        simp only [List.cons_append, List.cons.injEq] at h
        obtain ⟨rfl, rfl⟩ := h
        exact Or.inr ⟨ys, e, b, rfl, hr⟩

/-- Safety of the writer, whatever happens: never more than the body, END_STREAM only with the
last byte, and the count never goes back (what has arrived is a prefix). -/
theorem early_sent_prefix (p : Proto) (total : Nat) (a b : List Ev) :
    let s := run p (init total) a
    let s' := run p (init total) (a ++ b)
    s.sent ≤ s'.sent ∧ s'.sent ≤ total ∧ (s'.endSent = true → s'.sent = total) := by
  have ha := inv_run p _ a (inv_init total)
  have hb := inv_run p _ b ha
  simp only [run_append]
  refine ⟨run_sent_mono p _ b ha, ?_, ?_⟩
  · have := hb.le; simpa [run_total, init] using this
  · intro h; have := hb.fin h; simpa [run_total, init] using this

/-- MAIN: an early answer that does not release the client cannot cut the upload.  For every
protocol, body size, and event list (any interleaving of interim responses, header blocks, data,
credit, writer turns, premature `giveUp`s) in which no event releases: the writer is not stopped,
and for every chunk size `c > 0`, once the origin has granted enough rounds of window the WHOLE
body and END_STREAM have been sent. -/
theorem early_unreleased_upload_completes (p : Proto) (total : Nat) (evs : List Ev)
    (c k : Nat) (hrel : released p {} evs = false) (hc : 0 < c) (hk : 0 < k)
    (henough : total ≤ (run p (init total) evs).sent + k * c) :
    let s := pump p c k (run p (init total) evs)
    s.stopped = false ∧ s.sent = total ∧ s.endSent = true := by
  have hs : (run p (init total) evs).stopped = false := by
    rw [early_stop_iff_released]; exact hrel
  have hi := inv_run p _ evs (inv_init total)
  obtain ⟨h1, _, _, h4⟩ := pump_spec p c k _ hi hs
  have h5 := pump_end p c k _ hi hs hc hk
  have ht : (run p (init total) evs).total = total := by simp [run_total, init]
  rw [ht] at h4 h5
  have : (pump p c k (run p (init total) evs)).sent = total := by rw [h4]; omega
  exact ⟨h1, this, by rw [h5]; simpa using this⟩

/-- interim header blocks in an event list -/
def countInterim : List Ev → Nat
  | [] => 0
  | .interim _ :: es => countInterim es + 1
  | _ :: es => countInterim es

/-- Events after which an HTTP/2 or HTTP/3 response stream is still OPEN and which carry no
error status: interim blocks, a final header block without END_STREAM / FIN (status at most 299
on HTTP/2; any declared length — `Content-Length: 0` included), data without END_STREAM, credit,
writer turns, and (premature) attempts of the client side to give up. -/
def OpenStream (p : Proto) : Ev → Prop
  | .headers st _ fin => fin = false ∧ (p = .h2 → st ≤ 299)
  | .data _ fin => fin = false
  | .stop => False
  | _ => True

theorem open_stream_seen (p : Proto) (hp : p ≠ .h1) (o : Seen) (e : Ev) (he : OpenStream p e)
    (ho : o.complete p = false) : (see o e).complete p = false := by
  cases e <;> simp only [see, OpenStream] at * <;> (try exact ho)
  · split <;> simp_all [Seen.complete]
  · rename_i st d fin
    cases hr : o.resp with
    | none => cases p <;> simp_all [Seen.complete, Resp.complete]
    | some r => cases p <;> simp_all [Seen.complete, Resp.complete]
  · rename_i n fin
    cases hr : o.resp with
    | none => simp_all [Seen.complete]
    | some r => cases p <;> simp_all [Seen.complete, Resp.complete]

theorem see_interims_le (o : Seen) (e : Ev) :
    (see o e).interims ≤ o.interims + (match e with | .interim _ => 1 | _ => 0) := by
  cases e <;> simp only [see] <;> (repeat' split) <;> simp

/-- THE CLASS OF THE SEEDED DEFECT (C17-r3-1).  On HTTP/2 and HTTP/3, as long as the response
stream stays open and no error status arrives, nothing releases the client — in particular not
`200` + `Content-Length: 0` without END_STREAM. -/
theorem open_stream_never_releases (p : Proto) (hp : p ≠ .h1) (o : Seen) (evs : List Ev)
    (hopen : ∀ e ∈ evs, OpenStream p e) (ho : o.complete p = false)
    (hint : o.interims + countInterim evs ≤ maxInterim) :
    released p o evs = false := by
  induction evs generalizing o with
  | nil => rfl
  | cons e es ih =>
    have he := hopen e (List.mem_cons_self ..)
    have hrest : ∀ x ∈ es, OpenStream p x := fun x hx => hopen x (List.mem_cons_of_mem _ hx)
    simp only [released, Bool.or_eq_false_iff]
    constructor
    · cases e with
      | interim c => simp [releases, countInterim] at *; intro _; omega
      | headers st d fin =>
        simp only [releases, OpenStream] at *
        cases p <;> simp_all
      | giveUp => exact ho
      | stop => simp [OpenStream] at he
      | _ => rfl
    · apply ih _ hrest (open_stream_seen p hp o e he ho)
      have := see_interims_le o e
      cases e <;> simp only [countInterim] at * <;> omega

/-- …hence such an upload completes (corollary of the two theorems above). -/
theorem open_stream_upload_completes (p : Proto) (hp : p ≠ .h1) (total : Nat) (evs : List Ev)
    (hopen : ∀ e ∈ evs, OpenStream p e) (hint : countInterim evs ≤ maxInterim)
    (c k : Nat) (hc : 0 < c) (hk : 0 < k)
    (henough : total ≤ (run p (init total) evs).sent + k * c) :
    let s := pump p c k (run p (init total) evs)
    s.stopped = false ∧ s.sent = total ∧ s.endSent = true :=
  early_unreleased_upload_completes p total evs c k
    (open_stream_never_releases p hp {} evs hopen rfl (by simpa using hint)) hc hk henough

/-! ### the response is not discarded -/

theorem kept_after_final (p : Proto) (s : St) (r : Resp) (evs : List Ev)
    (hf : s.failed = false) (hr : s.seen.resp = some r) :
    (run p s evs).failed = false ∧
      ∃ r', (run p s evs).seen.resp = some r' ∧ r'.status = r.status := by
  induction evs generalizing s r with
  | nil => exact ⟨hf, r, hr, rfl⟩
  | cons e es ih =>
    simp only [run]
    have h1 : (step p s e).failed = false := by
      cases e <;> simp only [step] <;> (repeat' split) <;> simp_all
    have h2 : ∃ r', (step p s e).seen.resp = some r' ∧ r'.status = r.status := by
      rw [step_seen]
      cases e <;> simp only [see, hr] <;> (repeat' split) <;> simp_all
    obtain ⟨r', h2, h3⟩ := h2
    obtain ⟨i1, r'', i2, i3⟩ := ih _ r' h1 h2
    exact ⟨i1, r'', i2, by rw [i3, h3]⟩

/-- "Clients MUST NOT discard responses as a result of receiving such a RST_STREAM": once the
final header block is in — after any events that contain no stop, no other final block and at
most five interim blocks — the caller gets THAT status, whatever follows (RST_STREAM, giveUp,
more data, …), on every protocol. -/
theorem early_response_not_discarded (p : Proto) (total : Nat) (a b : List Ev)
    (st : Nat) (d : Option Nat) (fin : Bool)
    (hstop : ∀ e ∈ a, e ≠ .stop) (hhdr : ∀ e ∈ a, ∀ s d f, e ≠ .headers s d f)
    (hint : countInterim a ≤ maxInterim) :
    (run p (init total) (a ++ .headers st d fin :: b)).delivered = some st := by
  -- after `a`: not failed, no final block seen
  have key : ∀ (s : St), s.failed = false → s.seen.resp = none →
      s.seen.interims + countInterim a ≤ maxInterim →
      (run p s a).failed = false ∧ (run p s a).seen.resp = none := by
    induction a with
    | nil => intro s h1 h2 _; exact ⟨h1, h2⟩
    | cons e es ih =>
      intro s h1 h2 h3
      simp only [run]
      have hs := hstop e (List.mem_cons_self ..)
      have hh := hhdr e (List.mem_cons_self ..)
      apply ih (fun x hx => hstop x (List.mem_cons_of_mem _ hx))
        (fun x hx => hhdr x (List.mem_cons_of_mem _ hx))
      · cases e <;> simp only [countInterim] at * <;> omega
      · cases e <;> simp only [step, countInterim] at * <;> (repeat' split) <;> simp_all <;> omega
      · rw [step_seen]; cases e <;> simp_all [see]
      · rw [step_seen]
        cases e <;> simp only [see, countInterim, h2] at * <;> simp_all <;> omega
  obtain ⟨k1, k2⟩ := key (init total) rfl rfl (by simpa [init] using hint)
  rw [run_append]
  simp only [run]
  have f1 : (step p (run p (init total) a) (.headers st d fin)).failed = false := by
    simp only [step]; split <;> simp_all
  have f2 : (step p (run p (init total) a) (.headers st d fin)).seen.resp = some ⟨st, d, 0, fin⟩ := by
    rw [step_seen]; simp [see, k2]
  obtain ⟨g1, r', g2, g3⟩ := kept_after_final p _ _ b f1 f2
  simp [St.delivered, g1, g2, g3]

/-! ### the flat rule the lane uses -/

theorem released_interims (p : Proto) (k : Nat) (l : List Nat) (rest : List Ev) :
    released p ⟨none, k⟩ (l.map Ev.interim ++ rest) =
      (decide (l ≠ [] ∧ maxInterim < k + l.length) || released p ⟨none, k + l.length⟩ rest) := by
  induction l generalizing k with
  | nil => simp
  | cons x xs ih =>
    simp only [List.map_cons, List.cons_append, released, releases, see, Option.isNone_none,
      Bool.true_and, List.length_cons, if_true]
    rw [ih]
    have e1 : k + 1 + xs.length = k + (xs.length + 1) := by omega
    rw [e1]
    cases xs with
    | nil => by_cases h : maxInterim ≤ k <;> simp [h] <;> omega
    | cons y ys =>
      simp only [List.length_cons, ne_eq, reduceCtorEq, not_false_eq_true, true_and]
      by_cases h : maxInterim ≤ k <;> simp [h] <;> omega

set_option linter.unusedSimpArgs false in
/-- The lane's verdict function is the rule as one would write it down: the upload may stop
iff more than five interim responses, or an explicit stop, or a final status with (HTTP/2) a
status above 299 or a response that is complete in the protocol's own sense. -/
theorem mayStop_eq_rule (p : Proto) (x : Early) : x.mayStop p = x.mayStopRule p := by
  unfold Early.mayStop Early.mayStopRule Early.script
  rw [List.append_assoc, released_interims]
  simp only [Nat.zero_add]
  have hl : decide (x.interim ≠ [] ∧ maxInterim < x.interim.length)
      = decide (maxInterim < x.interim.length) :=
    decide_eq_decide.mpr ⟨fun h => h.2, fun h => ⟨by intro hn; simp [hn] at h, h⟩⟩
  rw [hl]
  unfold Early.tail
  cases hs : x.status == 0 <;> cases hb : x.bodySent == 0 <;> cases ht : x.stop <;>
    simp [released, releases, see, Seen.complete, bne, hs, hb, ht] <;>
    simp_all [Resp.complete]

/-! ### non-vacuity and the concrete situations -/

/-- the seeded defect's scenario: HTTP/2, `200` + `Content-Length: 0`, stream left open -/
example : (Early.mk [] 200 (some 0) 0 false false).mayStop .h2 = false := by decide
/-- the same header block on HTTP/1.1 IS a complete response -/
example : (Early.mk [] 200 (some 0) 0 false false).mayStop .h1 = true := by decide
/-- HTTP/3: also open -/
example : (Early.mk [103] 200 (some 0) 0 false false).mayStop .h3 = false := by decide
/-- END_STREAM on the header block: complete -/
example : (Early.mk [] 200 (some 0) 0 true false).mayStop .h2 = true := by decide
/-- the 299 / 300 boundary of the HTTP/2 heuristic; no such heuristic on HTTP/3 and HTTP/1.1 -/
example : (Early.mk [] 299 none 0 false false).mayStop .h2 = false := by decide
example : (Early.mk [] 300 none 0 false false).mayStop .h2 = true := by decide
example : (Early.mk [] 500 none 0 false false).mayStop .h3 = false := by decide
example : (Early.mk [] 500 (some 10) 4 false false).mayStop .h1 = false := by decide
example : (Early.mk [] 500 (some 10) 10 false false).mayStop .h1 = true := by decide
/-- interim responses alone release nothing (up to five) -/
example : (Early.mk [100, 103, 103, 102, 103] 0 none 0 false false).mayStop .h2 = false := by decide
example : (Early.mk [100, 103, 103, 102, 103, 103] 0 none 0 false false).mayStop .h2 = true := by decide

/-- the seeded scenario end to end on the automaton: 300 000 byte body, 64 KiB window, early
`200`/`Content-Length: 0`, a premature giveUp attempt; 4 more rounds of window deliver it all -/
example :
    let evs := [Ev.credit 65535, .write 16384, .write 16384, .headers 200 (some 0) false, .giveUp,
      .write 16384, .write 16384, .write 16384]
    let s := pump .h2 65536 4 (run .h2 (init 300000) evs)
    released .h2 {} evs = false ∧ (run .h2 (init 300000) evs).sent = 65535 ∧
      s.sent = 300000 ∧ s.endSent = true ∧ s.delivered = some 200 := by decide

/-- hypotheses of `open_stream_never_releases` are satisfiable on a non-trivial list -/
example : (∀ e ∈ [Ev.interim 103, .headers 200 (some 0) false, .data 5 false, .giveUp, .write 9],
    OpenStream .h2 e) ∧ countInterim [Ev.interim 103, .headers 200 (some 0) false, .data 5 false,
      .giveUp, .write 9] ≤ maxInterim := by
  constructor
  · intro e he
    simp at he
    rcases he with rfl | rfl | rfl | rfl | rfl <;> simp [OpenStream]
  · decide

/-- RST_STREAM(NO_ERROR) after a complete response: upload stops, the response is delivered -/
example :
    let s := run .h2 (init 1000) [.credit 100, .write 100, .headers 200 none true, .stop, .credit 900, .write 900]
    s.stopped = true ∧ s.sent = 100 ∧ s.delivered = some 200 := by decide

/-- the judge: what the seeded defect looks like, and an admissible may-stop observation -/
example : judge .h2 (Early.mk [] 200 (some 0) 0 false false) 200 ⟨false, true, 200⟩ = .uploadCut := by decide
example : judge .h2 (Early.mk [] 404 (some 0) 0 false false) 200 ⟨false, true, 404⟩ = .ok := by decide
example : judge .h2 (Early.mk [] 200 none 0 true true) 200 ⟨false, true, 0⟩ = .responseLost := by decide
example : judge .h1 (Early.mk [] 200 (some 0) 0 false false) 200 ⟨false, false, 200⟩ = .garbage := by decide

end Req.Props.C17Early
