import Req.Lemmas.C03Enc
import Req.Props.C14Formats
import Req.Props.C03
import Req.Props.C03H2
import Req.Props.C03H3
import Req.Props.C04Conn
/-!
C03 — encoded bodies and over-long HTTP/1.1 responses.

**Part 1 — the two gzip laws, discharged.**  `Props/C03Gzip.lean` proves `gz_err_surfaces` and
`gz_prefix_free` for a toy codec and ASSUMES them for `compress/gzip`.  Here they are theorems
about the concrete container model of C14 (`Req.Client.CompressFormats`: RFC 1952 members around
RFC 1951 stored blocks as Go's readers read them, multistream, every header field, CRC-32/ISIZE,
for ANY check-sum function), which C14's `containers` lanes tie to the real libraries:

* `gunzip_err_surfaces` — for EVERY byte string received (valid, damaged, cut anywhere, between
  members, empty) a source that ends with an error never reads as a clean end;
* `gunzip_prefix_free` — complete members followed by a strict non-empty prefix of one more never
  end cleanly, however the source ends;
* `gunzip_member_boundary` — complete members and then the source's own end: exactly their
  payloads, ending the way the SOURCE ends.  So a message cut exactly between two members is an
  error iff the framing layer under the decoder reports the cut — which is why the decoder must be
  installed AROUND the length-enforcing body (`h2_gzip_ok_complete`, `h3_gzip_ok_complete`).

**Part 2 — decoded success implies framing-level completeness**, per protocol, unbounded (every
frame list / byte string / segmentation / read size): a decoded success comes from a framing-level
success (`h2_ok_complete` / `h3_ok_complete`: END_STREAM / FIN seen, whole frames, declared length
met exactly), and the decoded bytes are the container's meaning of exactly the body bytes.
HTTP/1.1: `h1_gzip_cut_never_success` (every strict prefix of a length/chunked response).

**Part 3 — over-long HTTP/1.1 on a kept-open connection** (`overlong_h1_conn_not_reused`,
`overlong_h1_not_pooled`, `overlong_h1_next_request_fresh`), composing C04's
`unsolicited_bytes_not_in_previous` and `unsolicited_bytes_not_attributed`.
-/
namespace Req.Props.C03Enc
open Req.Proto Req.Compress Req.Compress.Fmt Req.Compress.Auto Req.H1 Req.C02 Req.C03
open Req.Props.C14Formats Req.Props.C03 Req.Props.C04 Req.Lemmas.C03Enc Req.Props.C03H2 Req.Props.C03H3

/-! ### Part 1 -/

/-- **gunzip_err_surfaces** (`gz_err_surfaces` for the real container, no assumption on the bytes). -/
theorem gunzip_err_surfaces (S : Sums) (d : Bytes) (e : Nat) : (gunzip S (.err e) d).2 ≠ .eof :=
  verdict_err S _ (run_ok S d gInit gInit_ok) e

/-- **gunzip_prefix_free** (`gz_prefix_free` for the real container, any number of members in front,
any header fields, any block structure). -/
theorem gunzip_prefix_free (S : Sums) (ms : List Member) (hok : ∀ m ∈ ms, m.OK) (m : Member) (hm : m.OK)
    (p q : Bytes) (hw : m.bytes S = p ++ q) (hp : p ≠ []) (hq : q ≠ []) (fin : Term) :
    (gunzip S fin (wireOf S ms ++ p)).2 ≠ .eof := by
  obtain ⟨y, z, _, h⟩ := gunzip_truncated S ms hok m hm p q hw hp hq fin
  rw [h]
  cases fin <;> simp [noEOF]

/-- **gunzip_member_boundary.** Cut exactly between two members (or behind the last): the payloads
so far, and the end of the SOURCE — an error iff the framing layer reports the cut. -/
theorem gunzip_member_boundary (S : Sums) (ms : List Member) (hok : ∀ m ∈ ms, m.OK) (fin : Term) :
    gunzip S fin (wireOf S ms) = (payloadOf ms, fin) := gunzip_members S ms hok fin

theorem decode_gzip (src : Src) : Enc.gzip.decode src = gunzip ieee src.fin src.data := rfl

/-- A decoder whose source ended with an error never yields a success. -/
theorem gzip_over_err_not_ok (st : Nat) (d : Bytes) (e : Nat) (status : Nat) (out : Bytes) :
    Enc.gzip.over st d (.err e) ≠ .ok status out := by
  have hs := gunzip_err_surfaces ieee d e
  unfold Enc.over
  rw [decode_gzip]
  rcases hg : gunzip ieee (.err e) d with ⟨o, t⟩
  rw [hg] at hs
  cases t with
  | eof => exact absurd rfl hs
  | err c => simp

/-- … and when it yields one, the source ended cleanly and the output is the container's meaning. -/
theorem gzip_over_ok (st : Nat) (d : Bytes) (fin : Term) (status : Nat) (out : Bytes)
    (h : Enc.gzip.over st d fin = .ok status out) :
    fin = .eof ∧ status = st ∧ gunzip ieee .eof d = (out, .eof) := by
  cases fin with
  | err e => exact absurd h (gzip_over_err_not_ok st d e status out)
  | eof =>
    unfold Enc.over at h
    rw [decode_gzip] at h
    rcases hg : gunzip ieee .eof d with ⟨o, t⟩
    rw [hg] at h
    cases t with
    | eof => simp at h; exact ⟨rfl, h.1.symm, by rw [h.2]⟩
    | err c => simp at h

/-- **enc_short_at_member_boundary.** The body stops exactly between two gzip members and the
framing layer reports it (short of the declared length / reset / connection lost): a failure
after the payloads so far — not a clean shortened body. -/
theorem enc_short_at_member_boundary (st : Nat) (ms : List Member) (hok : ∀ m ∈ ms, m.OK) :
    Enc.gzip.over st (wireOf ieee ms) framingErr = .bodyFailed st (payloadOf ms) := by
  unfold Enc.over
  rw [decode_gzip]
  show (match gunzip ieee framingErr (wireOf ieee ms) with
    | (out, .eof) => EncOutcome.ok st out | (out, .err _) => .bodyFailed st out) = _
  rw [gunzip_member_boundary ieee ms hok]
  rfl

/-- **enc_whole_members_ok.** Control: the whole body, the source ending cleanly: success with
exactly the payloads. -/
theorem enc_whole_members_ok (st : Nat) (ms : List Member) (hok : ∀ m ∈ ms, m.OK) :
    Enc.gzip.over st (wireOf ieee ms) .eof = .ok st (payloadOf ms) := by
  unfold Enc.over
  rw [decode_gzip]
  show (match gunzip ieee .eof (wireOf ieee ms) with
    | (out, .eof) => EncOutcome.ok st out | (out, .err _) => .bodyFailed st out) = _
  rw [gunzip_member_boundary ieee ms hok]

-- non-vacuity: two members (FHCRC, FEXTRA, FNAME, two blocks each); the whole decodes, the cut
-- between them with a framing error fails after the first payload
theorem demo_ok : ∀ m ∈ [demoMember, demoMember], m.OK := by
  intro m hm
  simp at hm
  subst hm
  exact demoMember_ok
example : Enc.gzip.over 200 (wireOf ieee [demoMember, demoMember]) .eof =
    .ok 200 (payloadOf [demoMember, demoMember]) := enc_whole_members_ok 200 _ demo_ok
example : Enc.gzip.over 200 (wireOf ieee [demoMember]) framingErr = .bodyFailed 200 (payloadOf [demoMember]) :=
  enc_short_at_member_boundary 200 _ (fun m hm => demo_ok m (by simp at hm; simp [hm]))

/-! ### Part 2 -/

/-- **h2_gzip_ok_complete.** HTTP/2, any frame/event list: a DECODED success comes from a
framing-level success — so some frame carried END_STREAM, the body bytes are a prefix of the DATA
sent and are exactly as many as declared — and for a piped body the decoded bytes are the
container's meaning of exactly those bytes, the source having ended cleanly. -/
theorem h2_gzip_ok_complete (sid : Nat) (evs : List H2XEv) (k status : Nat) (out : Bytes)
    (h : h2Enc .gzip ((H2X.init sid false).run (evs.map .ev)).2 k = .ok status out) :
    ∃ body, ((H2X.init sid false).run (evs.map .ev)).2.outcome k = .ok status body ∧
      (∃ e ∈ evs, e.noES = false) ∧ body <+: dataOf evs ∧
      (∀ r n, ((H2X.init sid false).run (evs.map .ev)).2.st.res = some r → r.body = .piped →
        r.contentLength = some n → body.length = n) ∧
      (∀ r, ((H2X.init sid false).run (evs.map .ev)).2.st.res = some r → r.body = .piped →
        gunzip ieee .eof body = (out, .eof)) := by
  have hc := h2_ok_complete sid evs k
  generalize ((H2X.init sid false).run (evs.map .ev)).2 = x at *
  unfold h2Enc at h
  cases ho : x.outcome k with
  | pending => rw [ho] at h; simp at h
  | callFailed r => rw [ho] at h; simp at h
  | bodyBlocked a b => rw [ho] at h; simp at h
  | bodyFailed st d e =>
    rw [ho] at h
    simp only [] at h
    cases hr : x.st.res with
    | none => rw [hr] at h; simp at h
    | some res =>
      rw [hr] at h
      simp only [] at h
      split at h
      · exact absurd h (gzip_over_err_not_ok st d 10 status out)
      · simp at h
  | ok st body =>
    rw [ho] at h
    simp only [] at h
    cases hr : x.st.res with
    | none =>
      rw [hr] at h
      simp only [EncOutcome.ok.injEq] at h
      obtain ⟨rfl, rfl⟩ := h
      obtain ⟨h1, h2, h3⟩ := hc st body ho
      exact ⟨body, rfl, h1, h2, hr ▸ h3, by intro r hr'; cases hr'⟩
    | some res =>
      rw [hr] at h
      simp only [] at h
      split at h
      · next hp =>
        obtain ⟨_, rfl, hg⟩ := gzip_over_ok st body .eof status out h
        obtain ⟨h1, h2, h3⟩ := hc status body ho
        exact ⟨body, rfl, h1, h2, hr ▸ h3, fun _ _ _ => hg⟩
      · next hp =>
        simp only [EncOutcome.ok.injEq] at h
        obtain ⟨rfl, rfl⟩ := h
        obtain ⟨h1, h2, h3⟩ := hc st body ho
        refine ⟨body, rfl, h1, h2, hr ▸ h3, ?_⟩
        intro r hr' hpi
        cases hr'
        rw [hpi] at hp
        exact absurd rfl hp

/-- **h3_gzip_ok_complete.** HTTP/3, any byte string on the stream, any segmentation: a DECODED
success comes from a framing-level success — the stream ended by FIN (with `h3_ok_complete`: whole
frames, body = exactly the DATA bytes, declared length met) — and the decoded bytes are the
container's meaning of exactly the body bytes. -/
theorem h3_gzip_ok_complete (isHead : Bool) (segs : List Bytes) (fin : NetEnd) (fls : List Fields)
    (maxH k status : Nat) (out : Bytes)
    (h : (h3Enc .gzip isHead segs fin fls maxH k).1 = .ok status out) :
    fin = .eof ∧ ∃ body, h3Outcome isHead segs fin fls maxH k = .ok status body ∧
      gunzip ieee .eof body = (out, .eof) := by
  unfold h3Enc at h
  simp only [] at h
  cases ho : h3Outcome isHead segs fin fls maxH k with
  | callFailed => rw [ho] at h; simp at h
  | bodyOpen a b => rw [ho] at h; simp at h
  | bodyFailed st d e =>
    rw [ho] at h
    exact absurd h (gzip_over_err_not_ok st d 10 status out)
  | ok st body =>
    rw [ho] at h
    obtain ⟨_, rfl, hg⟩ := gzip_over_ok st body .eof status out h
    exact ⟨(h3_ok_complete isHead segs fin fls maxH k status body ho).1, body, rfl, hg⟩

/-- **h1_gzip_cut_never_success.** HTTP/1.1 under auto-decompression, Content-Length or chunked: a
complete response with nothing behind it, cut at ANY strict prefix — also exactly between two gzip
members, also before the first body byte: the call fails or the decoded body fails. -/
theorem h1_gzip_cut_never_success {B : Nat} {s : Bytes} {m : Msg} {b : BodyRes}
    (h : parseFinal false B s = .resp m b) (hf : m.framing ≠ .untilClose) (hrest : b.rest = [])
    (k : Nat) (hk : k < s.length) (status : Nat) (out : Bytes) :
    h1Enc .gzip B (s.take k) ≠ some (.ok status out) := by
  have hns := final_cut_never_success h hf hrest k hk
  unfold h1Enc
  cases hc : parseFinal false B (s.take k) with
  | reject => simp
  | resp m' b' =>
    rw [hc] at hns
    have hok : b'.ok = false := by
      cases hb : b'.ok with
      | false => rfl
      | true => simp [Outcome.isSuccess, hb] at hns
    simp only [hok, Bool.false_eq_true, if_false]
    intro hh
    exact gzip_over_err_not_ok _ _ 10 status out (Option.some.inj hh)

/-! ### Part 3 -/

/-- **overlong_h1_conn_not_reused.** A complete keep-alive response `msg` (alone: delivered as `d`,
connection back in the idle pool with nothing left) with ANY non-empty surplus behind it on a
connection the peer keeps open: the delivery is still `d` — no surplus byte in it — and the
connection ends there: no later request, whatever the peer sends afterwards, is answered from it. -/
theorem overlong_h1_conn_not_reused {B : Nat} (q : ConnReq) (qs : List ConnReq) (msg extra : Bytes)
    (segs : List Bytes) {d : Delivery} (h : exchange B q msg = (d, some [])) (hx : extra ≠ []) :
    connTimed B (q :: qs) ((msg ++ extra) :: segs) = [d] :=
  unsolicited_bytes_not_attributed q qs (msg ++ extra) segs (unsolicited_bytes_not_in_previous h extra) hx

/-- **overlong_h1_not_pooled.** At the Transport: after that exchange on a freshly dialled
connection no connection is idle (`cur = none`), whatever the script would still send. -/
theorem overlong_h1_not_pooled {B : Nat} (q : ConnReq) (msg extra : Bytes) (segs : List Bytes) (eof : Bool)
    (scs : List ConnScript) (n : Nat) {d : Delivery}
    (h : exchange B q msg = (d, some [])) (hx : extra ≠ []) :
    transportStep B q ⟨none, ⟨(msg ++ extra) :: segs, eof⟩ :: scs, n⟩ = (d, ⟨none, scs, n + 1⟩) := by
  have he := unsolicited_bytes_not_in_previous h extra
  have hne : (msg ++ extra).isEmpty = false := by
    cases extra with
    | nil => exact absurd rfl hx
    | cons a t => cases msg <;> rfl
  simp only [transportStep, dialAndServe, serveOn, hne, he, Bool.false_eq_true, if_false]
  cases extra with
  | nil => exact absurd rfl hx
  | cons a t => rfl

/-- **overlong_h1_next_request_fresh.** … so the next request is served by a NEW dial, from the
next scripted connection alone. -/
theorem overlong_h1_next_request_fresh {B : Nat} (q q2 : ConnReq) (msg extra : Bytes) (segs : List Bytes)
    (eof : Bool) (scs : List ConnScript) (n : Nat) {d : Delivery}
    (h : exchange B q msg = (d, some [])) (hx : extra ≠ []) :
    transportRun B [q, q2] ⟨none, ⟨(msg ++ extra) :: segs, eof⟩ :: scs, n⟩ =
      ([d, (dialAndServe B q2 ⟨none, scs, n + 1⟩).1], (dialAndServe B q2 ⟨none, scs, n + 1⟩).2.dials) := by
  simp only [transportRun, overlong_h1_not_pooled q msg extra segs eof scs n h hx]
  rfl

end Req.Props.C03Enc
