import Req.Props.C17Progress
/-!
C17 — the size a `SetFile` upload announces (`FileUpload.FileSize`, the total of the upload
callback) is the size of the content that is uploaded, whatever way the path names the file:
directly, or through any chain of symbolic links. Model of `Request.SetFile` (request.go): open
the path, stat the path — both FOLLOW links; a stat that does not (lstat) announces the length
of the link text.
-/
namespace Req.Props.C17FileSize
open Req.Progress Req.Props.C17Progress

/-- what a path names -/
inductive Node where
  | file (content : List UInt8)
  | link (target : String)
  | dir
  deriving Repr, DecidableEq

/-- a file system: clean path ↦ node -/
abbrev FS := String → Option Node

/-- follow symbolic links (fuel = the platform's limit on nested links; running out = ELOOP) -/
def resolve (fs : FS) : Nat → String → Option Node
  | 0, _ => none
  | k + 1, p =>
    match fs p with
    | some (.link t) => resolve fs k t
    | other => other

/-- `os.Open` + reading to the end: the content of the regular file the path resolves to -/
def openRead (fs : FS) (fuel : Nat) (p : String) : Option (List UInt8) :=
  match resolve fs fuel p with
  | some (.file c) => some c
  | _ => none

def sizeOf : Node → Nat
  | .file c => c.length
  | .link t => t.utf8ByteSize
  | .dir => 4096

/-- `os.Stat`: the size of what the path resolves to -/
def stat (fs : FS) (fuel : Nat) (p : String) : Option Nat := (resolve fs fuel p).map sizeOf
/-- `os.Lstat`: the size of the node itself -/
def lstat (fs : FS) (p : String) : Option Nat := (fs p).map sizeOf

/-- `Request.SetFile`: (content that will be uploaded, announced FileSize), or an error -/
def setFile (fs : FS) (fuel : Nat) (p : String) : Option (List UInt8 × Nat) :=
  match openRead fs fuel p, stat fs fuel p with
  | some c, some n => some (c, n)
  | _, _ => none

/-- **announced size = uploaded size** — for every file system, every path and every depth of
links: when SetFile accepts the path, FileSize is the length of the content. -/
theorem setFile_size_truthful (fs : FS) (fuel : Nat) (p : String) (c : List UInt8) (n : Nat)
    (h : setFile fs fuel p = some (c, n)) : n = c.length := by
  unfold setFile openRead stat at h
  cases hr : resolve fs fuel p with
  | none => simp [hr] at h
  | some nd =>
    cases nd with
    | file c' =>
      simp [hr, sizeOf] at h
      obtain ⟨h1, h2⟩ := h
      subst h1; exact h2.symm
    | link t => simp [hr] at h
    | dir => simp [hr] at h

/-- SetFile accepts a path iff it resolves to a regular file (a directory, a dangling link, a
loop are refused) -/
theorem setFile_ok_iff (fs : FS) (fuel : Nat) (p : String) :
    (setFile fs fuel p).isSome ↔ ∃ c, resolve fs fuel p = some (.file c) := by
  unfold setFile openRead stat
  cases hr : resolve fs fuel p with
  | none => simp
  | some nd => cases nd <;> simp

/-- **the upload of a file given by path reports its total** — whatever the links, the clock,
the interval and the split into writes: the last callback carries UploadedSize = FileSize. -/
theorem setFile_progress_final (fs : FS) (fuel : Nat) (p : String) (c : List UInt8) (n : Nat)
    (h : setFile fs fuel p = some (c, n)) (clk : Clock) (calls : List WCall)
    (hwrites : bytesC calls = (c.length : Int)) (hpos : 0 < c.length) :
    (runWT ⟨0, (n : Int)⟩ clk calls).getLast? = some (n : Int) := by
  have hn := setFile_size_truthful fs fuel p c n h
  subst hn
  exact progress_final_upload_clock _ clk calls hwrites.symm (by omega)

/-- every report of such an upload is at most FileSize -/
theorem setFile_progress_bounded (fs : FS) (fuel : Nat) (p : String) (c : List UInt8) (n : Nat)
    (h : setFile fs fuel p = some (c, n)) (clk : Clock) (calls : List WCall)
    (hwrites : bytesC calls = (c.length : Int)) :
    ∀ x ∈ runWT ⟨0, (n : Int)⟩ clk calls, x ≤ (n : Int) := by
  have hn := setFile_size_truthful fs fuel p c n h
  subst hn
  intro x hx
  have := (progress_monotone_upload_clock ⟨0, (c.length : Int)⟩ clk calls).2 x hx
  simp only at this
  omega

/-! non-vacuity: a link chain to a 7-byte file; lstat would announce the link text -/
def demoFS : FS := fun p =>
  if p = "/d/f" then some (.file [1, 2, 3, 4, 5, 6, 7])
  else if p = "/d/l1" then some (.link "/d/f")
  else if p = "/d/l2" then some (.link "/d/l1")
  else if p = "/d/loop" then some (.link "/d/loop")
  else if p = "/d" then some .dir
  else none

example : setFile demoFS 40 "/d/l2" = some ([1, 2, 3, 4, 5, 6, 7], 7) := by decide
example : lstat demoFS "/d/l2" = some 5 := by decide
example : lstat demoFS "/d/l1" = some 4 := by decide
example : setFile demoFS 40 "/d/loop" = none ∧ setFile demoFS 40 "/d" = none ∧
    setFile demoFS 40 "/d/none" = none := by decide
example : (runWT ⟨0, 7⟩ ⟨0, 3600⟩ [⟨3, 1⟩, ⟨4, 2⟩]).getLast? = some 7 := by decide
/-- the lstat total (5) against 7 written bytes: the final report never fires -/
example : runWT ⟨0, 5⟩ ⟨0, 3600⟩ [⟨3, 1⟩, ⟨4, 2⟩] = [] := by decide

end Req.Props.C17FileSize
