import Req.Props.C08H3
set_option linter.unusedSimpArgs false
/-!
# C08 on HTTP/3 — quiescence with the peer still acting after the cancel

`cancel_releases_h3` looks at the runs of internal steps right after the cancel. Here the peer and the
network go on acting after it (handshake completes, stream credit arrives, flow-control credit, response
HEADERS / FIN, a reset) in ANY interleaving with the internal steps:

* `cancel_quiesces_h3` — from the cancel at any reachable state with the response not yet finished by the
  application, after ANY mixture of peer events and internal steps, every further run of internal steps has
  ≤ 17 steps and ends released, the caller holding exactly the context's error or the response it had.

The two events left out are the application's own `callerClose` / `callerEOF` racing the watcher's `select`
(`upload_outlives_response_h3`, observation (d) in notes/C08.md).
-/
namespace Req.Props.C08H3Quiesce
open Req.Cancel (CtxErr)
open Req.CancelH3 Req.Lemmas.CancelH3 Req.Props.C08H3

/-- events of the peer / the network (not the application's, not a second cancel) -/
def peerEv : Ev → Bool
  | .callerClose | .callerEOF | .cancel _ => false
  | _ => true

inductive PSteps : St → St → Prop
  | refl (s) : PSteps s s
  | ev {s t} (e : Ev) : PSteps s t → peerEv e = true → evGuard t e = true → PSteps s (evApply t e)
  | act {s t} (a : Act) : PSteps s t → guard t a = true → PSteps s (apply t a)

theorem good_ev {s : St} {e : Ev} (h : Inv s) (hG : Good s) (hp : peerEv e = true) (g : evGuard s e = true) :
    Good (evApply s e) := by
  obtain ⟨pre, noStr, str, mid, done, hdr, fail, join, dead, eof, q, cnt, cc, ub, rs, re, rd, b1, b2⟩ := h
  rcases s with ⟨hasBody, ctx, cpc, wat, upl, send, recv, respHdr, reqDone, closes, callerClosed, readRes, writes⟩
  simp only [Good] at hG ⊢
  simp only at pre noStr str mid done hdr fail join dead eof q cnt cc ub rs re rd b1 b2 hG
  cases e <;> simp only [peerEv, Bool.false_eq_true] at hp <;>
    simp only [CancelH3.evGuard, Bool.and_eq_true, beq_iff_eq, bne_iff_ne, ne_eq, Bool.not_eq_true'] at g <;>
    simp only [CancelH3.evApply]
  case peerReset => cases send <;> cases recv <;> simp only [Side.resetIfOpen] <;> grind
  all_goals grind

theorem j_ev {c : CtxErr} {s : St} {e : Ev} (hJ : J c s) (hp : peerEv e = true) (g : evGuard s e = true) :
    J c (evApply s e) ∧ (evApply s e).ctx = s.ctx := by
  rcases s with ⟨hasBody, ctx, cpc, wat, upl, send, recv, respHdr, reqDone, closes, callerClosed, readRes, writes⟩
  simp only [J] at hJ ⊢
  cases e <;> simp only [peerEv, Bool.false_eq_true] at hp <;>
    simp only [CancelH3.evGuard, Bool.and_eq_true, beq_iff_eq] at g <;>
    simp only [CancelH3.evApply]
  case hsDone => subst g; simp
  case streamOpen => subst g; simp
  all_goals exact ⟨hJ, trivial⟩

theorem psteps_keep {c : CtxErr} {s t : St} (h : PSteps s t)
    (hI : Inv s) (hG : Good s) (hc : s.ctx = some c) (hJ : J c s) :
    Inv t ∧ Good t ∧ t.ctx = some c ∧ J c t := by
  induction h with
  | refl => exact ⟨hI, hG, hc, hJ⟩
  | ev e _ hp g ih =>
    obtain ⟨i1, i2, i3, i4⟩ := ih
    obtain ⟨j1, j2⟩ := j_ev i4 hp g
    exact ⟨inv_ev i1 g, good_ev i1 i2 hp g, by rw [j2]; exact i3, j1⟩
  | act a _ g ih =>
    obtain ⟨i1, i2, i3, i4⟩ := ih
    exact ⟨inv_act i1 g, good_act i1 i2 g, by rw [ctx_act]; exact i3, j_act i3 i4 g⟩

/-- **cancel_quiesces_h3** -/
theorem cancel_quiesces_h3 {s t : St} (hr : Reach s) (c : CtxErr) (hc : s.ctx = none)
    (hd : s.reqDone = false) (h : PSteps (evApply s (.cancel c)) t)
    {as : List Act} {t' : St} (run : Run t as t') :
    as.length ≤ K ∧
    (stuck t' = true →
      released t' = true ∧ (t'.cpc = .returned (.err (.ctx c)) ∨ t'.cpc = .returned .resp)) := by
  obtain ⟨hI, hG, hc', hJ⟩ := cancel_point hr c hc hd
  obtain ⟨i1, i2, i3, i4⟩ := psteps_keep h hI hG hc' hJ
  obtain ⟨hI', hG', hc'', hJ'⟩ := run_keeps run i1 i2 i3 i4
  refine ⟨run_bound run, fun hs => ?_⟩
  have hrel := stuck_released hI' hG' (by simp [hc'']) hs
  refine ⟨hrel, ?_⟩
  have hret : isReturned t' = true := by
    simp only [released, Bool.and_eq_true] at hrel
    exact hrel.1.1.1.1.1
  unfold isReturned at hret
  split at hret
  · next r hcpc =>
    cases r with
    | resp => exact Or.inr hcpc
    | err x => left; rw [hcpc, hJ' x hcpc]
  · cases hret

/-- non-vacuity: cancelled while waiting for stream credit; the stream is opened all the same -/
example : PSteps (evApply (evApply (init true) .hsDone) (.cancel .deadline))
    (evApply (evApply (evApply (init true) .hsDone) (.cancel .deadline)) .streamOpen) :=
  PSteps.ev .streamOpen (PSteps.refl _) rfl rfl

/-- … and from there (the stream was opened although the context was already done) every maximal run
ends released with the deadline error, body closed once -/
example : (finals 20 (evApply (evApply (evApply (init true) .hsDone) (.cancel .deadline)) .streamOpen)).all
    (fun t => released t && t.closes == 1 && t.cpc == .returned (.err (.ctx .deadline))) = true := by decide

end Req.Props.C08H3Quiesce
