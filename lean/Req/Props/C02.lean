import Req.C02.RespSM
import Req.C02.H1Body
import Req.Lemmas.C02Reader
import Req.Lemmas.C02Bufio
import Req.Lemmas.C02H1Simple
import Req.Lemmas.C02Resp
import Req.Lemmas.C02H2
import Req.Lemmas.C02Chunked
import Req.Lemmas.C02H3
import Req.Lemmas.C02Hex
import Req.Lemmas.C02Trailer
import Req.Lemmas.C02Cross
/-!
C02 — response fidelity: property theorems.

Part A (`read_split_independent_*`): the HTTP/1.1 body readers, as incremental automata over
a `bufio.Reader` fed by a connection that delivers the wire in ANY segmentation, hand the
caller exactly the origin's body for EVERY sequence of caller read sizes.

Part B (`observe_paths_agree` and its components): every way of observing a `req.Response`
— auto-read cache (`ToBytes`/`Bytes`/`String`, any interleaving, any number of times),
re-reading the restored `Body` with any read sizes, streaming without auto-read with any read
sizes, streaming part and then `ToBytes`, `SetOutput`/`SetOutputFile` — shows the same byte
string, namely the transport body, whatever segmentation the transport delivers it in.
-/
namespace Req.Props.C02
open Req.Proto Req.C02

/-! ## Part A — HTTP/1.1 body readers -/

/-- **read_split_independent, declared length.** The origin wrote `body` (`n = |body| > 0`
bytes, `Content-Length: n`) followed by anything (`rest`: the next response, or nothing).
For every segmentation `segs` of that wire, every way the connection ends afterwards, every
buffer size and every sequence `ks` of caller read sizes (zeros allowed): the bytes handed out
are a prefix of `body` and the connection reader stands exactly behind them. -/
theorem read_split_independent_length_prefix (body rest : Bytes) (hn : 0 < body.length)
    (segs : List Bytes) (hsegs : segs.flatten = body ++ rest) (fin : NetEnd) (cap : Nat)
    (ks : List Nat) :
    let run := (H1Body.new (.length body.length) (Bufio.new cap ⟨segs, fin⟩)).runReads ks
    (∃ t, body = outBytes run.1 ++ t) ∧
    run.2.br.rem = (body ++ rest).drop (outBytes run.1).length := by
  have hinv : LimInv (H1Body.new (.length body.length) (Bufio.new cap ⟨segs, fin⟩)) :=
    ⟨body.length, rfl, hn, by simp [H1Body.new, Bufio.new_rem, hsegs], rfl, rfl, Bufio.new_wf _ _⟩
  have hexp : limExp (H1Body.new (.length body.length) (Bufio.new cap ⟨segs, fin⟩)) = body := by
    simp [limExp, H1Body.new, Bufio.new_rem, hsegs]
  refine ⟨?_, ?_⟩
  · have := runReads_prefix limited_refines ks _ hinv
    rw [hexp] at this
    exact this
  · have := limited_run_rem ks _ hinv
    simpa [H1Body.runReads, H1Body.new, Bufio.new_rem, hsegs] using this

/-- **read_split_independent, declared length, complete read.** If moreover every read size
is positive and the caller reads often enough (more reads than body bytes always suffices),
the run ends with `io.EOF`, the bytes are EXACTLY `body`, and exactly `rest` is left on the
connection for the next response. -/
theorem read_split_independent_length (body rest : Bytes) (hn : 0 < body.length)
    (segs : List Bytes) (hsegs : segs.flatten = body ++ rest) (fin : NetEnd) (cap : Nat)
    (ks : List Nat) (hpos : ∀ k ∈ ks, 0 < k) (hlen : body.length < ks.length) :
    let run := (H1Body.new (.length body.length) (Bufio.new cap ⟨segs, fin⟩)).runReads ks
    outBytes run.1 = body ∧ lastErr run.1 = some .eof ∧ run.2.br.rem = rest := by
  have hinv : LimInv (H1Body.new (.length body.length) (Bufio.new cap ⟨segs, fin⟩)) :=
    ⟨body.length, rfl, hn, by simp [H1Body.new, Bufio.new_rem, hsegs], rfl, rfl, Bufio.new_wf _ _⟩
  have hexp : limExp (H1Body.new (.length body.length) (Bufio.new cap ⟨segs, fin⟩)) = body := by
    simp [limExp, H1Body.new, Bufio.new_rem, hsegs]
  obtain ⟨e, he⟩ := runReads_terminates limited_refines limited_progress ks _ hinv hpos (by rw [hexp]; exact hlen)
  -- the terminal error is EOF: under the invariant nothing else is ever reported
  have heof : e = .eof := by
    clear hexp hlen hpos
    generalize H1Body.new (.length body.length) (Bufio.new cap ⟨segs, fin⟩) = bd at hinv he
    induction ks generalizing bd with
    | nil => simp [runReads, lastErr] at he
    | cons k ks ih =>
      unfold runReads at he
      rcases hr : H1Body.read bd k with ⟨⟨d, e'⟩, bd'⟩
      rw [hr] at he
      cases e' with
      | some e' =>
        simp only [lastErr_single, Option.some.injEq] at he
        subst he
        exact limited_only_eof bd k hinv d _ bd' hr
      | none =>
        simp only at he
        have hi := (limited_refines.step_ok bd k d bd' hinv hr).1
        have hne : (runReads H1Body.read bd' ks).1 ≠ [] := by
          intro h0; rw [h0] at he; simp [lastErr] at he
        rw [lastErr_cons_ne _ _ hne] at he
        exact ih bd' hi he
  subst heof
  have hout := runReads_eof limited_refines ks _ hinv .eof he rfl
  rw [hexp] at hout
  refine ⟨hout, he, ?_⟩
  have := limited_run_rem ks _ hinv
  simp only [H1Body.runReads]
  rw [this, hout]
  simp [H1Body.new, Bufio.new_rem, hsegs]

/-- **read_split_independent, body ended by connection close.** The origin wrote `body` and
closed the connection. For every segmentation and every read-size sequence the caller gets a
prefix of `body`; a run that ends with `io.EOF` delivered exactly `body`; and with positive
read sizes and enough reads it does end, with `io.EOF`. -/
theorem read_split_independent_close (body : Bytes) (segs : List Bytes) (hsegs : segs.flatten = body)
    (cap : Nat) (ks : List Nat) :
    let run := (H1Body.new .close (Bufio.new cap ⟨segs, .eof⟩)).runReads ks
    (∃ t, body = outBytes run.1 ++ t) ∧
    (lastErr run.1 = some .eof → outBytes run.1 = body) ∧
    ((∀ k ∈ ks, 0 < k) → body.length < ks.length → ∃ e, lastErr run.1 = some e) := by
  have hinv : CloseInv (H1Body.new .close (Bufio.new cap ⟨segs, .eof⟩)) :=
    ⟨rfl, rfl, rfl, Bufio.new_wf _ _, rfl⟩
  have hexp : closeExp (H1Body.new .close (Bufio.new cap ⟨segs, .eof⟩)) = body := by
    simp [closeExp, H1Body.new, Bufio.new_rem, hsegs]
  refine ⟨?_, ?_, ?_⟩
  · have := runReads_prefix close_refines ks _ hinv
    rw [hexp] at this; exact this
  · intro he
    have := runReads_eof close_refines ks _ hinv .eof he rfl
    rw [hexp] at this; exact this
  · intro hpos hlen
    exact runReads_terminates close_refines close_progress ks _ hinv hpos (by rw [hexp]; exact hlen)

/-- **read_split_independent, chunked.** The origin wrote the chunks `cs` (each with a
size line that the reader's own line parser maps to the chunk's length: any hex case, leading
zeros, extensions, trailing blanks), the last-chunk line, a trailer section and whatever
follows (`tail = <trailer section> ++ rest`, with `readTrailer` yielding `t` on it — see
`trailerOK_empty` for the section without fields). For EVERY segmentation `segs` of that wire,
every way the connection ends afterwards and EVERY sequence `ks` of caller read sizes:

* the bytes handed out are a prefix of the concatenated chunk data;
* a run that ends with an error ends with `io.EOF`, and then the bytes are EXACTLY the chunk
  data, `Response.Trailer` got `t`, and exactly `rest` is left on the connection;
* with positive read sizes and more reads than data bytes the run does end. -/
theorem read_split_independent_chunked (cap : Nat) (cs : List WChunk) (hcs : ∀ c ∈ cs, c.OK cap)
    (last : Bytes) (hl : LastOK cap last) (tail rest : Bytes) (t : Option Trailer)
    (ht : TrailerOK cap tail rest t)
    (segs : List Bytes) (hsegs : segs.flatten = wireFrom cs last tail) (fin : NetEnd) (ks : List Nat) :
    let run := (H1Body.new .chunked (Bufio.new cap ⟨segs, fin⟩)).runReads ks
    (∃ u, dataOf cs = outBytes run.1 ++ u) ∧
    (∀ e, lastErr run.1 = some e →
      e = .eof ∧ outBytes run.1 = dataOf cs ∧ run.2.trailer = t ∧ run.2.br.rem = rest) ∧
    ((∀ k ∈ ks, 0 < k) → (dataOf cs).length < ks.length → ∃ e, lastErr run.1 = some e) := by
  have hrel : ChunkRel cap last tail (H1Body.new .chunked (Bufio.new cap ⟨segs, fin⟩)) (dataOf cs) := by
    refine ⟨Chunked.init, rfl, rfl, ?_, rfl, rfl, rfl, Bufio.new_wf _ _, Bufio.new_fits _ _, rfl⟩
    simp only [H1Body.new, Bufio.new_rem, hsegs]
    exact CPos.header cs hcs
  have R := chunked_refines cap last tail rest t hl ht
  refine ⟨runReadsR_prefix R ks _ _ hrel, ?_, ?_⟩
  · intro e he
    have hfin := runReadsR_final R (fun e bd' => e = .eof ∧ bd'.trailer = t ∧ bd'.br.rem = rest)
      (fun bd E k d e bd' hr h => by
        obtain ⟨h1, _, h3, h4⟩ := (chunked_read cap last tail rest t hl ht bd E k hr d (some e) bd' h).2 e rfl
        exact ⟨h1, h3, h4⟩) ks _ _ hrel e he
    obtain ⟨rfl, h2, h3⟩ := hfin
    exact ⟨rfl, runReadsR_eof R ks _ _ hrel .eof he rfl, h2, h3⟩
  · intro hpos hlen
    exact runReadsR_terminates_bytes R
      (fun bd E k d bd' hr hk h => by
        obtain ⟨_, _, _, hp⟩ := (chunked_read cap last tail rest t hl ht bd E k hr d none bd' h).1 rfl
        exact hp hk) ks _ _ hrel hpos hlen

/-- The same without trailer fields, fully explicit: after the last-chunk line comes CRLF and
then `rest`. (Buffer size ≥ 2: Go's `bufio` minimum is 16.) -/
theorem read_split_independent_chunked_no_trailer (cap : Nat) (hcap : 2 ≤ cap) (cs : List WChunk)
    (hcs : ∀ c ∈ cs, c.OK cap) (last : Bytes) (hl : LastOK cap last) (rest : Bytes)
    (segs : List Bytes) (hsegs : segs.flatten = wireFrom cs last (13 :: 10 :: rest)) (fin : NetEnd)
    (ks : List Nat) (hpos : ∀ k ∈ ks, 0 < k) (hlen : (dataOf cs).length < ks.length) :
    let run := (H1Body.new .chunked (Bufio.new cap ⟨segs, fin⟩)).runReads ks
    outBytes run.1 = dataOf cs ∧ lastErr run.1 = some .eof ∧ run.2.trailer = none ∧ run.2.br.rem = rest := by
  have h := read_split_independent_chunked cap cs hcs last hl (13 :: 10 :: rest) rest none
    (trailerOK_empty cap hcap rest) segs hsegs fin ks
  obtain ⟨_, h2, h3⟩ := h
  obtain ⟨e, he⟩ := h3 hpos hlen
  obtain ⟨rfl, h4, h5, h6⟩ := h2 e he
  exact ⟨h4, he, h5, h6⟩

/-- **read_split_independent, chunked with trailer fields.** As above with a trailer section
of fields `fs` (each `name ":" OWS value OWS CRLF`, any optional whitespace, token names of
any case) that fits the read buffer: a complete read delivers exactly the chunk data and
`Response.Trailer` receives exactly those fields — canonical names, values without the
optional whitespace, wire order — and `rest` is left on the connection. -/
theorem read_split_independent_chunked_trailers (cap : Nat) (cs : List WChunk) (hcs : ∀ c ∈ cs, c.OK cap)
    (last : Bytes) (hl : LastOK cap last) (fs : List WField) (hfs : ∀ f ∈ fs, f.OK) (hne : fs ≠ [])
    (hfit : (blockWire fs).length ≤ cap) (rest : Bytes)
    (segs : List Bytes) (hsegs : segs.flatten = wireFrom cs last (blockWire fs ++ rest)) (fin : NetEnd)
    (ks : List Nat) (hpos : ∀ k ∈ ks, 0 < k) (hlen : (dataOf cs).length < ks.length) :
    let run := (H1Body.new .chunked (Bufio.new cap ⟨segs, fin⟩)).runReads ks
    outBytes run.1 = dataOf cs ∧ lastErr run.1 = some .eof ∧ run.2.trailer = some (fieldsOf fs) ∧
      run.2.br.rem = rest := by
  have h := read_split_independent_chunked cap cs hcs last hl (blockWire fs ++ rest) rest (some (fieldsOf fs))
    (trailerOK_fields cap fs hfs hne hfit rest) segs hsegs fin ks
  obtain ⟨_, h2, h3⟩ := h
  obtain ⟨e, he⟩ := h3 hpos hlen
  obtain ⟨rfl, h4, h5, h6⟩ := h2 e he
  exact ⟨h4, he, h5, h6⟩

/-- **Field block round trip** (response head fields and trailer sections share the reader):
what the origin writes for the fields `fs`, followed by anything, is read back as exactly
`fs` — canonical names, values without optional whitespace, wire order — consuming exactly
the block. -/
theorem field_block_roundtrip (fs : List WField) (hfs : ∀ f ∈ fs, f.OK) (R : Bytes) :
    parseFieldBlock ((blockWire fs ++ R).length + 1) (blockWire fs ++ R) =
      some (fieldsOf fs, (blockWire fs).length) := by
  apply parseFieldBlock_block fs hfs R
  have : fs.length ≤ (blockWire fs).length := by
    clear hfs
    induction fs with
    | nil => simp
    | cons f fs ih =>
      rw [blockWire_cons]
      simp only [List.length_cons, List.length_append]
      omega
  simp only [List.length_append]
  omega

/-- **read_split_independent, chunked, Go's own encoder.** The origin wrote the non-empty
chunks `ds` exactly as Go's chunked writer does (`%x` CRLF, data, CRLF … `0` CRLF), then an
empty trailer section, then `rest`. For every segmentation, every connection end, every
buffer size ≥ 18 and every sequence of positive read sizes longer than the body: the caller
gets EXACTLY `ds.flatten`, then `io.EOF`, no trailer, and exactly `rest` is left. -/
theorem read_split_independent_chunked_canonical (cap : Nat) (hcap : 18 ≤ cap) (ds : List Bytes)
    (hds : ∀ d ∈ ds, d ≠ [] ∧ d.length < 16 ^ 16) (rest : Bytes)
    (segs : List Bytes) (hsegs : segs.flatten = canonWire ds (13 :: 10 :: rest)) (fin : NetEnd)
    (ks : List Nat) (hpos : ∀ k ∈ ks, 0 < k) (hlen : ds.flatten.length < ks.length) :
    let run := (H1Body.new .chunked (Bufio.new cap ⟨segs, fin⟩)).runReads ks
    outBytes run.1 = ds.flatten ∧ lastErr run.1 = some .eof ∧ run.2.trailer = none ∧ run.2.br.rem = rest := by
  have h := read_split_independent_chunked_no_trailer cap (by omega) (ds.map canonChunk)
    (canon_ok cap hcap ds hds) [48, 13] (lastOK_canonical cap (by omega)) rest segs
    (by rw [hsegs, canonWire_eq]) fin ks hpos (by rw [dataOf_canon]; exact hlen)
  rw [dataOf_canon] at h
  exact h

/-! Non-vacuity: `5\r\nhello\r\n3;x\r\nabc\r\n0\r\n\r\nN` cut into 7 segments, read with 4,4,4. -/
example :
    ((H1Body.new .chunked (Bufio.new 4096
        ⟨[[53, 13], [10, 104, 101], [108, 108, 111, 13, 10, 51], [59, 120, 13, 10, 97], [98, 99, 13],
          [10, 48, 13, 10, 13], [10, 78]], .eof⟩)).runReads [4, 4, 4, 4]).1 =
      [([104, 101, 108, 108], none), ([111], none), ([97, 98, 99], none), ([], some .eof)] := by decide

example : WChunk.OK 4096 ⟨[51, 59, 120, 13], [97, 98, 99]⟩ := by
  refine ⟨by decide, by decide, by rfl, by decide, by decide⟩

/-! Non-vacuity: chunk "hi", trailer `x-t:  v ` + `X-T: w`, then "N"; segments cut everywhere. -/
example :
    let run := (H1Body.new .chunked (Bufio.new 4096
        ⟨[[50, 13, 10, 104], [105, 13, 10, 48, 13, 10, 120, 45], [116, 58, 32, 32, 118, 32, 13],
          [10, 88, 45, 84, 58, 32, 119, 13, 10, 13], [10, 78]], .eof⟩)).runReads [9, 9]
    run.1 = [([104, 105], some .eof)] ∧
    run.2.trailer = some [([88, 45, 84], [118]), ([88, 45, 84], [119])] ∧ run.2.br.rem = [78] := by
  decide

example : WField.OK ⟨[120, 45, 116], [32, 32], [118], [32]⟩ := by
  refine ⟨by decide, by decide, ⟨by decide, ?_, ?_⟩, by decide, by decide⟩
  · intro a rest h; simp at h; rw [← h.1]; decide
  · intro a pre h
    have : pre = [] ∧ a = 118 := by
      cases pre with
      | nil => simp at h; exact ⟨rfl, h.symm⟩
      | cons p ps => cases ps <;> simp at h
    rw [this.2]; decide

example : LastOK 4096 [48, 13] := by
  refine ⟨by decide, by rfl, by decide, by decide⟩

/-! Non-vacuity: a 5-byte body + the start of the next response, delivered in 3 segments that
cut through the body, read with sizes 2,1,1,4,9. -/
example :
    ((H1Body.new (.length 5) (Bufio.new 4096 ⟨[[104, 101], [108], [108, 111, 72, 84]], .eof⟩)).runReads
        [2, 1, 1, 4, 9]).1 =
      [([104, 101], none), ([108], none), ([108], none), ([111], some .eof)] := by decide

/-! ## Part B — the caller-side `Response` machine -/

theorem restored_flatten (B : Bytes) : (Body.restored B).chunks.flatten = B := by
  unfold Body.restored
  cases B <;> simp

/-- A config in which `Client.roundTrip` auto-reads. -/
def AutoCfg (cfg : Cfg) : Prop := cfg.clientDisable = false ∧ cfg.reqDisable = false ∧ cfg.save = false

/-- **Auto-read, any interleaving.** Whatever segmentation `cks` the transport delivers the
body in, after auto-read EVERY sequence of observation ops — `ToBytes`, `ToString`, `Bytes`,
`String`, `Body.Read(n)`, `io.ReadAll(Body)`, `Body.Close`, in any order, any number of times
— shows the full body `cks.flatten` in every cache-reading op, and what is streamed from the
restored `Body` in between is a prefix of the same bytes. -/
theorem auto_read_views (cfg : Cfg) (hcfg : AutoCfg cfg) (st : Nat) (hst : 199 < st)
    (cks : List Bytes) (ops : List Op) :
    let r := afterRoundTrip cfg st (Body.transport cks .eof)
    r.err = none ∧ r.out = none ∧
    (∀ x ∈ (r.run ops).1, okAuto cks.flatten x) ∧
    ∃ t, cks.flatten = streamedOf (r.run ops).1 ++ t := by
  obtain ⟨h1, h2, h3⟩ := hcfg
  simp only [afterRoundTrip_auto cfg st cks h1 h2 h3 hst]
  have hinv : AutoInv cks.flatten
      { status := st, err := none, cache := some cks.flatten,
        body := some (Body.restored cks.flatten), out := none } [] := by
    refine ⟨rfl, rfl, Body.restored cks.flatten, rfl, rfl, rfl, ?_⟩
    simp only [List.nil_append]
    exact restored_flatten _
  obtain ⟨hall, t, ht⟩ := auto_run cks.flatten ops _ [] hinv
  exact ⟨by trivial, by trivial, hall, t, by simpa using ht⟩

/-- **Re-read after auto-read, any read sizes.** Streaming the restored `Body` with any
sequence of read sizes yields a prefix of the body; ending with `io.EOF` means exactly the
body; positive sizes and enough reads do end, and with `io.EOF`. -/
theorem reread_exact (B : Bytes) (ks : List Nat) :
    let rs := (runReads Body.readO (Body.restored B) ks).1
    (∃ t, B = outBytes rs ++ t) ∧ (lastErr rs = some .eof → outBytes rs = B) ∧
    ((∀ k ∈ ks, 0 < k) → B.length < ks.length → ∃ e, lastErr rs = some e) := by
  have hinv : BodyInvNE (Body.restored B) := by
    refine ⟨rfl, ?_⟩
    intro c hc
    simp only [Body.restored] at hc
    split at hc
    · simp at hc
    · simp only [List.mem_singleton] at hc
      subst hc
      intro h0; simp_all
  have hexp : bodyExp (Body.restored B) = B := restored_flatten B
  refine ⟨?_, ?_, ?_⟩
  · have := runReads_prefix body_refines_ne ks _ hinv
    rw [hexp] at this; exact this
  · intro he
    have := runReads_eof body_refines_ne ks _ hinv .eof he rfl
    rw [hexp] at this; exact this
  · intro hpos hlen
    exact runReads_terminates body_refines_ne body_progress ks _ hinv hpos (by rw [hexp]; exact hlen)

/-- **SetOutput / SetOutputFile.** Whatever the segmentation, the other switches (including a
result object, which makes `parseResponseBody` read the body first so that `handleDownload`
copies the cached bytes) and the status: exactly the body is written to the writer / file and
no error is recorded. -/
theorem save_output_exact (cfg : Cfg) (hs : cfg.save = true) (st : Nat) (cks : List Bytes) :
    let r := afterRoundTrip cfg st (Body.transport cks .eof)
    r.out = some cks.flatten ∧ r.err = none := by
  exact afterRoundTrip_save cfg st cks hs

/-- A config / status for which `Client.roundTrip` leaves the transport body to the caller:
not saved, auto-read off (or an informational status), and no result object (success or error
target) that would make `parseResponseBody` read the body of a response of this status. -/
def StreamCfg (cfg : Cfg) (st : Nat) : Prop :=
  cfg.save = false ∧ (cfg.clientDisable = true ∨ cfg.reqDisable = true ∨ st ≤ 199) ∧
  wantsBind cfg st = false

/-- **Streaming without auto-read, any read sizes, then optionally `ToBytes`.** The caller
gets the live transport body. For every segmentation and every read-size sequence: the
streamed bytes are a prefix of the body; ending with `io.EOF` means exactly the body; and if
the caller stops streaming at any point (no error yet) and calls `ToBytes`, the streamed
bytes followed by what `ToBytes` returns are exactly the body. -/
theorem stream_exact (cfg : Cfg) (st : Nat) (hcfg : StreamCfg cfg st) (cks : List Bytes) (ks : List Nat) :
    let r := afterRoundTrip cfg st (Body.transport cks .eof)
    r.cache = none ∧ r.err = none ∧ r.body = some (Body.transport cks .eof) ∧
    (let run := runReads Body.readO (Body.transport cks .eof) ks
     (∃ t, cks.flatten = outBytes run.1 ++ t) ∧
     (lastErr run.1 = some .eof → outBytes run.1 = cks.flatten) ∧
     (lastErr run.1 = none →
        outBytes run.1 ++ (({ r with body := some run.2 } : Resp).toBytes).1.1 = cks.flatten ∧
        (({ r with body := some run.2 } : Resp).toBytes).1.2 = .ok)) := by
  obtain ⟨hs, hd, hres⟩ := hcfg
  simp only [afterRoundTrip_stream cfg st cks .eof hs hd hres]
  refine ⟨by trivial, by trivial, by trivial, ?_, ?_, ?_⟩
  · exact runReads_prefix body_refines ks _ (rfl : BodyInv (Body.transport cks .eof))
  · intro he
    exact runReads_eof body_refines ks _ (rfl : BodyInv (Body.transport cks .eof)) .eof he rfl
  · intro hok
    obtain ⟨hinv', hsplit⟩ := runReads_ok_split body_refines ks _ (rfl : BodyInv (Body.transport cks .eof)) hok
    -- the stream's end marker is untouched by reads
    have hfin : ∀ (ks : List Nat) (b : Body), b.closed = false →
        (runReads Body.readO b ks).2.fin = b.fin := by
      intro ks
      induction ks with
      | nil => intro b _; rfl
      | cons k ks ih =>
        intro b hb
        unfold runReads
        rcases hr : b.readO k with ⟨⟨d, e⟩, b'⟩
        obtain ⟨_, hc', hf', _⟩ := Body.readO_spec b k hb d e b' hr
        cases e with
        | none => simp only; rw [ih b' hc', hf']
        | some e => exact hf'
    have hf := hfin ks (Body.transport cks .eof) rfl
    rw [toBytes_rest st _ hinv' (by rw [hf]; rfl)]
    exact ⟨hsplit.symm, rfl⟩

/-- **observe_paths_agree.** One transport body `B`, delivered to four different requests in
four arbitrary segmentations: (1) auto-read then any interleaving of cache ops, (2) re-read
of the restored `Body` to EOF with any read sizes, (3) `SetOutput`/`SetOutputFile`,
(4) streaming without auto-read to EOF with any read sizes. All four observe exactly `B`. -/
theorem observe_paths_agree (B : Bytes)
    (cks₁ cks₃ cks₄ : List Bytes) (h₁ : cks₁.flatten = B) (h₃ : cks₃.flatten = B) (h₄ : cks₄.flatten = B)
    (cfgA cfgS cfgD : Cfg) (stA stS stD : Nat)
    (hA : AutoCfg cfgA) (hstA : 199 < stA) (hS : cfgS.save = true) (hD : StreamCfg cfgD stD)
    (ops : List Op) (ks₂ ks₄ : List Nat)
    (he₂ : lastErr (runReads Body.readO (Body.restored B) ks₂).1 = some .eof)
    (he₄ : lastErr (runReads Body.readO (Body.transport cks₄ .eof) ks₄).1 = some .eof) :
    (∀ x ∈ ((afterRoundTrip cfgA stA (Body.transport cks₁ .eof)).run ops).1, okAuto B x) ∧
    outBytes (runReads Body.readO (Body.restored B) ks₂).1 = B ∧
    (afterRoundTrip cfgS stS (Body.transport cks₃ .eof)).out = some B ∧
    outBytes (runReads Body.readO (Body.transport cks₄ .eof) ks₄).1 = B := by
  refine ⟨?_, ?_, ?_, ?_⟩
  · have := (auto_read_views cfgA hA stA hstA cks₁ ops).2.2.1
    rw [h₁] at this; exact this
  · exact (reread_exact B ks₂).2.1 he₂
  · have := (save_output_exact cfgS hS stS cks₃).1
    rw [h₃] at this; exact this
  · have := (stream_exact cfgD stD hD cks₄ ks₄).2.2.2.2.1 he₄
    rw [h₄] at this; exact this

/-! Non-vacuity: body "hello" delivered as "he","","llo"; auto-read, then Bytes, Read(2),
ToBytes, Read(9), Read(1): the cache ops show "hello", the reads stream "he","llo", EOF. -/
example :
    ((afterRoundTrip ⟨false, false, false, false, false⟩ 200 (Body.transport [[104, 101], [], [108, 108, 111]] .eof)).run
        [.bytes, .read 2, .toBytes, .read 9, .read 1]).1 =
      [(.bytes, .cached (some [104, 101, 108, 108, 111])),
       (.read 2, .data [104, 101] .ok),
       (.toBytes, .data [104, 101, 108, 108, 111] .ok),
       (.read 9, .data [108, 108, 111] .ok),
       (.read 1, .data [] .eof)] := by decide

/-! Non-vacuity of the streaming hypotheses: DisableAutoReadResponse, reads 1,1 then ToBytes. -/
example :
    let r := afterRoundTrip ⟨false, true, false, false, false⟩ 200 (Body.transport [[104, 101], [108, 108, 111]] .eof)
    (r.run [.read 1, .read 1, .toBytes, .bytes]).1 =
      [(.read 1, .data [104] .ok), (.read 1, .data [101] .ok),
       (.toBytes, .data [108, 108, 111] .ok), (.bytes, .cached (some [108, 108, 111]))] := by decide

/-! ## Part C — HTTP/2 receive path -/

/-- **stream_body_exact (HTTP/2).** A conformant frame sequence `m` (up to five interim 1xx
HEADERS, the final HEADERS with status `code`, DATA frames — padded or not, empty or not —
and END_STREAM on the last DATA or on a trailer HEADERS; a `Content-Length`, if present, equal
to the total payload length). For EVERY interleaving `ops` of the read loop delivering a
prefix of these frames with the caller calling `Read` with any sizes at any moments:

* the bytes handed out are a prefix of the concatenated DATA payloads,
* no read ever reports anything but data or `io.EOF`,
* a read that reports `io.EOF` means the caller got EXACTLY the payload concatenation and
  `Response.Trailer` holds the trailer fields,
* once the head has been delivered the response carries the status and every regular field
  under its canonical name, in wire order. -/
theorem stream_body_exact_h2 (m : H2Msg) (code : Nat) (cl : Option Nat) (hc : m.Conformant code cl)
    (ops : List H2Op) (rest : List H2Ev) (hev : m.events = evsOf ops ++ rest) :
    let run := (H2Stream.init false).runOps ops
    (∃ t, m.body = readsOut run.1 ++ t) ∧
    (∀ o ∈ run.1, ObsOK o) ∧
    (SawEOF run.1 → readsOut run.1 = m.body ∧ run.2.resTrailer = lastTrailers m.last) ∧
    (rest.length ≤ m.datas.length + 1 →
      ∃ res, run.2.res = some res ∧ res.status = code ∧ res.fields = h2Fields m.head) := by
  have h0 : Ph m code cl (H2Stream.init false) (evsOf ops ++ rest) [] false := by
    rw [← hev]
    exact Ph.pre 0 m.interims (by simpa using hc.interims_le) hc.interims_ok
  obtain ⟨b', hph, hobs, _, hsaw⟩ := Ph.run hc ops _ rest [] false h0
  simp only [List.nil_append] at hph
  refine ⟨hph.prefix_body, hobs, ?_, ?_⟩
  · intro hs
    have hb := hsaw hs
    subst hb
    exact hph.seen
  · intro hrest
    generalize ((H2Stream.init false).runOps ops).2 = s2 at hph
    generalize readsOut ((H2Stream.init false).runOps ops).1 = c2 at hph
    cases hph with
    | pre j ints hj hok =>
      simp [H2Msg.tailEvents] at hrest
      omega
    | mid j arrived consumed ds hpre hbody => exact ⟨_, rfl, rfl, rfl⟩
    | fin j consumed eofSeen hpre hdone => exact ⟨_, rfl, rfl, rfl⟩

/-- **stream_body_exact (HTTP/2), completion.** After all frames of a conformant response
have arrived (in any interleaving with earlier reads), enough non-empty reads — one more than
the bytes still unread always suffices — end with `io.EOF`, hence (previous theorem) with
exactly the body. -/
theorem stream_body_complete_h2 (m : H2Msg) (code : Nat) (cl : Option Nat) (hc : m.Conformant code cl)
    (ops : List H2Op) (hev : m.events = evsOf ops) (ks : List Nat) (hpos : ∀ k ∈ ks, 0 < k)
    (hlen : m.body.length < ks.length) :
    let run := (H2Stream.init false).runOps (ops ++ ks.map H2Op.read)
    SawEOF run.1 ∧ readsOut run.1 = m.body ∧ run.2.resTrailer = lastTrailers m.last := by
  have hevs : evsOf (ops ++ ks.map H2Op.read) = evsOf ops := by
    rw [evsOf_append, evsOf_reads, List.append_nil]
  -- split the run at the point where all frames have arrived
  have hsplit : ∀ (ops₁ ops₂ : List H2Op) (s : H2Stream),
      (s.runOps (ops₁ ++ ops₂)).1 = (s.runOps ops₁).1 ++ ((s.runOps ops₁).2.runOps ops₂).1 := by
    intro ops₁ ops₂
    induction ops₁ with
    | nil => intro s; simp [H2Stream.runOps]
    | cons op ops₁ ih =>
      intro s
      cases op with
      | ev e => simpa [H2Stream.runOps] using ih (s.event e)
      | read k =>
        simp only [List.cons_append, H2Stream.runOps]
        cases hr : s.read k with
        | none => simp [ih s]
        | some x => simp [ih x.2]
  have h0 : Ph m code cl (H2Stream.init false) (evsOf ops ++ []) [] false := by
    rw [List.append_nil, ← hev]
    exact Ph.pre 0 m.interims (by simpa using hc.interims_le) hc.interims_ok
  obtain ⟨b', hph, _, _, _⟩ := Ph.run hc ops _ [] [] false h0
  simp only [List.nil_append] at hph
  have hdr := Ph.drain hc ks hpos _ _ b' hph (by omega)
  have hsaw : SawEOF ((H2Stream.init false).runOps (ops ++ ks.map H2Op.read)).1 := by
    obtain ⟨d, hd⟩ := hdr
    exact ⟨d, by rw [hsplit]; simp [hd]⟩
  have := (stream_body_exact_h2 m code cl hc (ops ++ ks.map H2Op.read) [] (by rw [hevs, List.append_nil]; exact hev)).2.2.1 hsaw
  exact ⟨hsaw, this⟩

/-! Non-vacuity: 103, then 200 with content-length 5, DATA "he" (padded), a read, DATA "llo"
with END_STREAM, reads of 2,2,9,1 bytes: a blocked read in between, then "he","l","lo", EOF. -/
example :
    ((H2Stream.init false).runOps
      [.read 4,
       .ev (.headers [([58, 115, 116, 97, 116, 117, 115], [49, 48, 51])] false),
       .ev (.headers [([58, 115, 116, 97, 116, 117, 115], [50, 48, 48]),
                      ([99, 111, 110, 116, 101, 110, 116, 45, 108, 101, 110, 103, 116, 104], [53])] false),
       .ev (.data [104, 101] true false), .read 2, .read 2,
       .ev (.data [108, 108, 111] false true), .read 1, .read 9, .read 1]).1 =
      [none, some ([104, 101], none), none, some ([108], none), some ([108, 111], none),
       some ([], some .eof)] := by decide

/-! ## Part D — HTTP/3 receive path -/

/-- **stream_body_exact (HTTP/3).** After the response head, the origin wrote the frames `frs`
(DATA frames — also empty ones — and frames of types the parser skips: unknown, GREASE,
CANCEL_PUSH …; every frame header any valid varint encoding of type and payload length),
optionally a trailer HEADERS frame `tr` (QPACK-decoded field list as side input, accepted by
`parseTrailers`), then FIN. A `Content-Length`, if declared (`cl`), equals the total DATA
payload length. For EVERY segmentation `segs` of that byte stream into QUIC stream reads and
EVERY sequence `ks` of caller read sizes:

* the bytes handed out are a prefix of the concatenated DATA payloads;
* a run that ends with an error ends with `io.EOF`; then the bytes are EXACTLY the payload
  concatenation and `Response.Trailer` holds the trailer fields;
* with positive read sizes and more reads than bytes on the stream the run does end. -/
theorem stream_body_exact_h3 (frs : List WFrame) (hfrs : ∀ f ∈ frs, BodyFrameOK f)
    (tr : Option WTrailer) (maxH : Nat) (htr : ∀ t, tr = some t → t.OK maxH)
    (cl : Option Nat) (hcl : cl = none ∨ cl = some (h3DataOf frs).length)
    (segs : List Bytes) (hsegs : segs.flatten = framesWire frs ++ trailerWire tr) (ks : List Nat) :
    let run := runReads H3Body.read (h3Start segs tr maxH cl) ks
    (∃ u, h3DataOf frs = outBytes run.1 ++ u) ∧
    (∀ e, lastErr run.1 = some e →
      e = .eof ∧ outBytes run.1 = h3DataOf frs ∧ ∀ t, tr = some t → run.2.str.trailer = some t.parsed) ∧
    ((∀ k ∈ ks, 0 < k) → segs.flatten.length < ks.length → ∃ e, lastErr run.1 = some e) := by
  have hpos := h3Start_pos segs frs hfrs tr maxH cl hcl hsegs
  have R := h3_refines tr maxH htr
  refine ⟨runReadsR_prefix R ks _ _ hpos, ?_, ?_⟩
  · intro e he
    have hfin := runReadsR_final R (fun e b' => e = .eof ∧ ∀ t, tr = some t → b'.str.trailer = some t.parsed)
      (fun b E k d e b' hr h => by
        obtain ⟨h1, _, _, h4⟩ := (h3_read tr maxH htr b E k hr d (some e) b' h).2 e rfl
        exact ⟨h1, h4⟩) ks _ _ hpos e he
    obtain ⟨rfl, h2⟩ := hfin
    exact ⟨rfl, runReadsR_eof R ks _ _ hpos .eof he rfl, h2⟩
  · intro hp hlen
    refine runReadsR_terminates R _ (h3_progress tr maxH htr) ks _ _ hpos hp ?_
    rcases hcl with rfl | rfl <;> simpa [h3Start] using hlen

/-! Non-vacuity: DATA "he" | GREASE frame (type 0x21, 1 byte) | empty DATA | DATA "llo",
Content-Length 5, the stream cut into 5 pieces, reads of 4 bytes. -/
example :
    (runReads H3Body.read
        (h3Start [[0, 2, 104], [101, 33, 1], [9, 0, 0, 0], [3, 108, 108], [111]] none 1000 (some 5))
        [4, 4, 4, 4, 4, 4, 4]).1 =
      [([104], none), ([101], none), ([], none), ([108, 108], none), ([111], none), ([], some .eof)] := by
  decide

example : BodyFrameOK ⟨[33, 1], 33, [9]⟩ := by
  refine ⟨fun R => by simp [decHdr, decVarint, decVarintTail], Or.inr (by simp [skippable])⟩

/-! ## Part E — the same header over the three protocols -/

/-- **cross_protocol_fields.** One response head — a status and a list `fs` of ordinary
fields (lower-case token names as HTTP/2 and HTTP/3 carry them; not pseudo, connection-
specific, `te`, `content-length` or `trailer`, which have their own handling) — written the
HTTP/1.1 way (`name ": " value CRLF` … CRLF, followed by anything) and read by the field-block
reader, delivered as an HTTP/2 HEADERS field list to `handleResponse`, and as an HTTP/3 field
list to `parseHeaders`/`updateResponseFromHeaders`: the caller's header is the same in all
three — every field under its canonical name, with its value, in the origin's order — and
HTTP/2 and HTTP/3 report the origin's status. (Body and trailers: the per-protocol exactness
theorems above all conclude "= the origin's bytes / fields".) -/
theorem cross_protocol_fields (fs : Fields) (hfs : ∀ kv ∈ fs, PlainField kv ∧ ValueOK kv.2)
    (sv : Bytes) (code : Nat) (hne : sv ≠ []) (hsv : natOfDigits sv = some code)
    (hval : validFieldValue sv = true) (R : Bytes) :
    let view := fs.map canonKV
    parseFieldBlock ((blockWire (fs.map toWField) ++ R).length + 1) (blockWire (fs.map toWField) ++ R) =
        some (view, (blockWire (fs.map toWField)).length) ∧
    h2StatusValue ((kStatus, sv) :: fs) = some sv ∧ h2Fields ((kStatus, sv) :: fs) = view ∧
    h3ParseHead ((kStatus, sv) :: fs) =
      some { status := code, fields := view, contentLength := none, trailerKeys := [] } := by
  have hplain : ∀ kv ∈ fs, PlainField kv := fun kv h => (hfs kv h).1
  have hw : ∀ f ∈ fs.map toWField, f.OK := by
    intro f hf
    simp only [List.mem_map] at hf
    obtain ⟨kv, hkv, rfl⟩ := hf
    exact toWField_ok kv (hfs kv hkv).1 (hfs kv hkv).2
  obtain ⟨h2a, h2b, _⟩ := h2_fields_plain fs hplain sv
  refine ⟨?_, h2a, h2b, h3_head_plain fs hplain sv code hne hsv hval⟩
  have := field_block_roundtrip (fs.map toWField) hw R
  rw [fieldsOf_toWField] at this
  exact this

end Req.Props.C02
