/-! C02 — property theorems (none yet). -/
