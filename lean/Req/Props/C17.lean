import Req.Lemmas.Form
/-!
C17 — form data, multipart uploads and marshalled bodies arrive exactly as supplied;
progress callbacks are truthful.

Part 1 (this section): form data.
* `ordered_form_roundtrip` — what `handleOrderedFormData` writes for ANY list of key/value byte
  strings is parsed by the server (`url.ParseQuery`) back to exactly that list, in order,
  without error.
* `ordered_args_roundtrip`, `ordered_odd_rejected` — the raw `SetOrderedFormData` argument list.
* `form_roundtrip` — `url.Values.Encode` of ANY map (any iteration order): the server holds,
  for every key, exactly the values supplied for it, in order, and reports no error.
-/
namespace Req.Props.C17
open Req.Proto Req.Form

/-- **ordered_form_roundtrip** -/
theorem ordered_form_roundtrip (ps : List Pair) : parseForm (encodePairs ps) = (ps, false) :=
  parseForm_encodePairs ps

example : parseForm (encodePairs [([97, 32, 38], [61, 37, 200]), ([], []), ([97, 32, 38], [43])])
    = ([([97, 32, 38], [61, 37, 200]), ([], []), ([97, 32, 38], [43])], false) := by decide

/-- The argument list `k1, v1, k2, v2, …` of `SetOrderedFormData`. -/
theorem ordered_args_roundtrip (ps : List Pair) :
    (encodeOrdered (ps.flatMap (fun p => [p.1, p.2]))).map parseForm = some (ps, false) := by
  simp [encodeOrdered, pairUp_flat, parseForm_encodePairs]

/-- An odd number of arguments is rejected (`errBadOrderedFormData`), nothing is encoded. -/
theorem ordered_odd_rejected (args : List Bytes) (h : args.length % 2 = 1) :
    encodeOrdered args = none := by
  suffices hp : pairUp args = none by simp [encodeOrdered, hp]
  induction args using pairUp.induct with
  | case1 => simp at h
  | case2 => simp [pairUp]
  | case3 k v rest ih =>
    have : rest.length % 2 = 1 := by simp at h; omega
    simp [pairUp, ih this]

example : encodeOrdered [[97], [98], [99]] = none := by decide

/-- **form_roundtrip** (multimap equality): no error, and under every key exactly the supplied
values in the supplied order — whatever the map's iteration order `m` was. -/
theorem form_roundtrip (m : Values) :
    (parseForm (encode m)).2 = false ∧
    ∀ k, valuesOfPairs (parseForm (encode m)).1 k = valuesOf m k := by
  unfold encode
  rw [parseForm_encodePairs]
  refine ⟨rfl, fun k => ?_⟩
  simp only
  rw [valuesOfPairs_flatten, valuesOf_sortKeys]

example : (parseForm (encode [([98], [[1], [2]]), ([97, 38], [[61]]), ([], [[]])])).1
    = [([], []), ([97, 38], [61]), ([98], [1]), ([98], [2])] := by decide

end Req.Props.C17
