import Req.Lemmas.Form
import Req.Lemmas.MultipartItems
import Req.Lemmas.Progress
import Req.Client.Body
/-!
C17 — form data, multipart uploads and marshalled bodies arrive exactly as supplied;
progress callbacks are truthful.

Part 1 (this section): form data.
* `ordered_form_roundtrip` — what `handleOrderedFormData` writes for ANY list of key/value byte
  strings is parsed by the server (`url.ParseQuery`) back to exactly that list, in order,
  without error.
* `ordered_args_roundtrip`, `ordered_odd_rejected` — the raw `SetOrderedFormData` argument list.
* `form_roundtrip` — `url.Values.Encode` of ANY map (any iteration order): the server holds,
  for every key, exactly the values supplied for it, in order, and reports no error.
-/
namespace Req.Props.C17
open Req.Proto Req.Form

/-- **ordered_form_roundtrip** -/
theorem ordered_form_roundtrip (ps : List Pair) : parseForm (encodePairs ps) = (ps, false) :=
  parseForm_encodePairs ps

example : parseForm (encodePairs [([97, 32, 38], [61, 37, 200]), ([], []), ([97, 32, 38], [43])])
    = ([([97, 32, 38], [61, 37, 200]), ([], []), ([97, 32, 38], [43])], false) := by decide

/-- The argument list `k1, v1, k2, v2, …` of `SetOrderedFormData`. -/
theorem ordered_args_roundtrip (ps : List Pair) :
    (encodeOrdered (ps.flatMap (fun p => [p.1, p.2]))).map parseForm = some (ps, false) := by
  simp [encodeOrdered, pairUp_flat, parseForm_encodePairs]

/-- An odd number of arguments is rejected (`errBadOrderedFormData`), nothing is encoded. -/
theorem ordered_odd_rejected (args : List Bytes) (h : args.length % 2 = 1) :
    encodeOrdered args = none := by
  suffices hp : pairUp args = none by simp [encodeOrdered, hp]
  induction args using pairUp.induct with
  | case1 => simp at h
  | case2 => simp [pairUp]
  | case3 k v rest ih =>
    have : rest.length % 2 = 1 := by simp at h; omega
    simp [pairUp, ih this]

example : encodeOrdered [[97], [98], [99]] = none := by decide

/-- **form_roundtrip** (multimap equality): no error, and under every key exactly the supplied
values in the supplied order — whatever the map's iteration order `m` was. -/
theorem form_roundtrip (m : Values) :
    (parseForm (encode m)).2 = false ∧
    ∀ k, valuesOfPairs (parseForm (encode m)).1 k = valuesOf m k := by
  unfold encode
  rw [parseForm_encodePairs]
  refine ⟨rfl, fun k => ?_⟩
  simp only
  rw [valuesOfPairs_flatten, valuesOf_sortKeys]

example : (parseForm (encode [([98], [[1], [2]]), ([97, 38], [[61]]), ([], [[]])])).1
    = [([], []), ([97, 38], [61]), ([98], [1]), ([98], [2])] := by decide

/-- **form_merge** — client-level form data merged into the request's
(`SetFormDataFromValues(c.FormData)`): under every key the server finds the request's values
followed by the client's, nothing lost, nothing duplicated. -/
theorem form_merge (req client : Values) (hreq : (req.map (·.1)).Nodup) (k : Bytes) :
    valuesOf (mergeForm req client) k = valuesOf req k ++ valuesOf client k ∧
    valuesOfPairs (parseForm (encode (mergeForm req client))).1 k = valuesOf req k ++ valuesOf client k := by
  have h := (valuesOf_addAll req client k hreq).2
  exact ⟨h, by rw [(form_roundtrip _).2 k]; exact h⟩

example : valuesOf (mergeForm [([97], [[1]]), ([98], [[2]])] [([98], [[3], [4]]), ([99], [[5]])]) [98]
    = [[2], [3], [4]] := by decide

/-! ## Part 2: quoting of Content-Disposition parameters -/

section Quoting
open Req.Multipart

/-- **quote_unquote** — for ALL byte strings `s`: a standard parser (`mime.consumeValue`) reads
the repaired quoting of `s` back as `arrive s`: every byte a header value can carry exactly,
the others (controls except TAB, DEL) percent-encoded. -/
theorem quote_unquote (s rest : Bytes) :
    consumeQuoted (quote s ++ 34 :: rest) = some (arrive s, rest) :=
  cq_quote_all s rest

/-- **quote_roundtrip** — `unquote (quote s) = s` for every `s` a header can carry at all
(TAB, quotes, backslashes, non-ASCII and invalid UTF-8 included). -/
theorem quote_roundtrip (s rest : Bytes) (h : ∀ c ∈ s, headerUnsafe c = false) :
    consumeQuoted (quote s ++ 34 :: rest) = some (s, rest) := by
  rw [cq_quote_all, arrive_safe s h]

example : consumeQuoted (quote [97, 9, 34, 92, 200, 98] ++ [34]) = some ([97, 9, 34, 92, 200, 98], []) := by
  decide

/-- The repaired quoting never produces a byte that `net/textproto` refuses in a header value:
no name, whatever its bytes, can break the part header or make the server reject the upload. -/
theorem quote_header_valid (s : Bytes) : ∀ c ∈ quote s, validValueByte c = true :=
  quote_valid s

set_option maxRecDepth 100000 in
theorem goQuoteByte_printable : ∀ c : UInt8, 32 ≤ c ∧ c < 127 →
    (c = 92 ∧ goQuoteByte c = some [92, 92]) ∨ (c = 34 ∧ goQuoteByte c = some [92, 34]) ∨
    (goQuoteByte c = some [c] ∧ (c == 34) = false ∧ (c == 92) = false ∧ (c == 13) = false ∧ (c == 10) = false) := by
  apply Req.Form.byte_forall
  decide

/-- What the UNPATCHED code does (Go's `%q`): the round trip holds for printable ASCII names… -/
theorem goquote_roundtrip_partial (s rest : Bytes) (h : ∀ c ∈ s, 32 ≤ c ∧ c < 127) :
    ∃ q, goQuoteAscii s = some q ∧ consumeQuoted (q ++ 34 :: rest) = some (s, rest) := by
  induction s with
  | nil => exact ⟨[], rfl, by simp [cq_quote]⟩
  | cons c cs ih =>
    obtain ⟨q, hq, hc⟩ := ih (fun x hx => h x (List.mem_cons_of_mem _ hx))
    have hb := h c (by simp)
    rcases goQuoteByte_printable c hb with ⟨rfl, hg⟩ | ⟨rfl, hg⟩ | ⟨hg, h34, h92, h13, h10⟩
    · refine ⟨[92, 92] ++ q, by simp [goQuoteAscii, hg, hq], ?_⟩
      rw [show ([92, 92] ++ q ++ 34 :: rest : Bytes) = 92 :: 92 :: (q ++ 34 :: rest) by simp,
        cq_esc 92 _ (by decide), hc]
      rfl
    · refine ⟨[92, 34] ++ q, by simp [goQuoteAscii, hg, hq], ?_⟩
      rw [show ([92, 34] ++ q ++ 34 :: rest : Bytes) = 92 :: 34 :: (q ++ 34 :: rest) by simp,
        cq_esc 34 _ (by decide), hc]
      rfl
    · refine ⟨[c] ++ q, by simp [goQuoteAscii, hg, hq], ?_⟩
      rw [show ([c] ++ q ++ 34 :: rest : Bytes) = c :: (q ++ 34 :: rest) by simp,
        cq_lit c _ h34 h92 h13 h10, hc]
      rfl

/-- …and FAILS outside: the name `a<TAB>b` arrives as the five bytes `a\tb` (the defect of
DESIGN section 5 row 19; replayed on the real code by the lanes `quote` and `cdheader`). -/
theorem goquote_tab_counterexample :
    (goQuoteAscii [97, 9, 98]).bind (fun q => consumeQuoted (q ++ [34]))
      = some ([97, 92, 116, 98], []) := by decide

end Quoting

/-! ## Part 3: multipart bodies -/

section Multipart
open Req.Multipart

private def partOf : Sum (Bytes × Bytes) File → Part × List (Bytes × Bytes)
  | .inl kv => (fieldPart kv, fieldHeaders kv)
  | .inr f => (filePart f, fileHeaders f)

private def itemS : Sum (Bytes × Bytes) File → Item
  | .inl kv => fieldItem kv
  | .inr f => fileItem f

/-- **multipart_roundtrip** — for every boundary without LF, all fields and all files that a
multipart body can carry (`FieldOK`, `FileOK`: non-empty names, delimiter-free contents; field
names, file names and parameter values may contain ANY bytes): the server reads back exactly the
fields, then the files, in order — names as `arrive` (exact for every byte a header can carry),
content types and file bytes exact. -/
theorem multipart_roundtrip (b : Bytes) (fields : List (Bytes × Bytes)) (files : List File)
    (hb : (10 : UInt8) ∉ b)
    (hfields : ∀ kv ∈ fields, FieldOK b kv) (hfiles : ∀ f ∈ files, FileOK b f) :
    serverForm b (write b fields files) = .ok (fields.map fieldItem ++ files.map fileItem) := by
  let l : List (Sum (Bytes × Bytes) File) := fields.map .inl ++ files.map .inr
  have hw : write b fields files = writeParts b ((l.map partOf).map (·.1)) := by
    simp [write, l, List.map_append, List.map_map, Function.comp_def, partOf]
  have hgood : ∀ q ∈ l.map partOf, GoodPart (delim b) q.1 q.2 := by
    intro q hq
    simp only [l, List.map_append, List.map_map, List.mem_append, List.mem_map, Function.comp] at hq
    rcases hq with ⟨kv, hkv, rfl⟩ | ⟨f, hf, rfl⟩
    · exact goodPart_field b kv (hfields kv hkv)
    · exact goodPart_file b f (hfiles f hf)
  have hitems : itemsOf ((l.map partOf).map fun q => ⟨q.2, q.1.content⟩) = .ok (l.map itemS) := by
    rw [List.map_map]
    apply itemsOf_map
    intro x hx
    simp only [l, List.mem_append, List.mem_map] at hx
    rcases hx with ⟨kv, hkv, rfl⟩ | ⟨f, hf, rfl⟩
    · have := hfields kv hkv
      exact itemOf_field kv this.name_ne
    · exact itemOf_file b f (hfiles f hf)
  unfold serverForm
  rw [hw, parseBody_write b _ hb hgood]
  simp only [hitems]
  simp [l, List.map_append, List.map_map, Function.comp_def, itemS]

/-- The exact form: when the names are made of bytes a header can carry (everything except
controls other than TAB, and DEL), the server holds exactly the supplied names. -/
theorem multipart_roundtrip_exact (b : Bytes) (fields : List (Bytes × Bytes)) (files : List File)
    (hb : (10 : UInt8) ∉ b)
    (hfields : ∀ kv ∈ fields, FieldOK b kv) (hfiles : ∀ f ∈ files, FileOK b f)
    (hfsafe : ∀ kv ∈ fields, ∀ c ∈ kv.1, headerUnsafe c = false)
    (hsafe : ∀ f ∈ files, (∀ c ∈ f.param, headerUnsafe c = false) ∧ (∀ c ∈ f.filename, headerUnsafe c = false)) :
    serverForm b (write b fields files) =
      .ok ((fields.map fun kv => .field kv.1 kv.2) ++
        files.map fun f => .file f.param f.filename (seenCType f) f.content) := by
  rw [multipart_roundtrip b fields files hb hfields hfiles]
  congr 2
  · apply List.map_congr_left
    intro kv hkv
    simp [fieldItem, arrive_safe _ (hfsafe kv hkv)]
  · apply List.map_congr_left
    intro f hf
    simp [fileItem, arrive_safe _ (hsafe f hf).1, arrive_safe _ (hsafe f hf).2]

/-- **The error branch, exactly** (`writeMultiPart` since fixes/C17-6, C17-7): the body is
written iff every field has a name, every file's content type is a valid header value and every
extra Content-Disposition parameter name a token; otherwise the call fails. -/
theorem writeChecked_ok_iff (b : Bytes) (fields : List (Bytes × Bytes)) (files : List File) :
    (∃ body, writeChecked b fields files = .ok body) ↔
      (∀ kv ∈ fields, kv.1 ≠ []) ∧
      (∀ f ∈ files, (∀ c ∈ f.ctype, headerUnsafe c = false) ∧
        ∀ p ∈ f.extra, p.1 ≠ [] ∧ ∀ c ∈ p.1, isTChar c = true) := by
  unfold writeChecked
  constructor
  · rintro ⟨body, h⟩
    cases h1 : checkAll checkField fields with
    | error e => simp [h1] at h
    | ok u =>
      cases u
      cases h2 : checkAll checkFile files with
      | error e => simp [h1, h2] at h
      | ok u =>
        cases u
        exact ⟨fun kv hkv => (checkField_ok kv).mp ((checkAll_ok _ _).mp h1 kv hkv),
          fun f hf => (checkFile_ok f).mp ((checkAll_ok _ _).mp h2 f hf)⟩
  · rintro ⟨h1, h2⟩
    have e1 : checkAll checkField fields = .ok () :=
      (checkAll_ok _ _).mpr fun kv hkv => (checkField_ok kv).mpr (h1 kv hkv)
    have e2 : checkAll checkFile files = .ok () :=
      (checkAll_ok _ _).mpr fun f hf => (checkFile_ok f).mpr (h2 f hf)
    exact ⟨write b fields files, by simp [e1, e2]⟩

theorem writeChecked_ok_eq (b : Bytes) (fields : List (Bytes × Bytes)) (files : List File) (body : Bytes)
    (h : writeChecked b fields files = .ok body) :
    body = write b fields files ∧ (∀ kv ∈ fields, checkField kv = .ok ()) ∧
      ∀ f ∈ files, checkFile f = .ok () := by
  unfold writeChecked at h
  cases h1 : checkAll checkField fields with
  | error e => simp [h1] at h
  | ok u =>
    cases u
    cases h2 : checkAll checkFile files with
    | error e => simp [h1, h2] at h
    | ok u =>
      cases u
      simp only [h1, h2, Except.ok.injEq] at h
      exact ⟨h.symm, (checkAll_ok _ _).mp h1, (checkAll_ok _ _).mp h2⟩

/-- **multipart_roundtrip for ALL names**: whenever `writeMultiPart` produces a body at all, the
server reads back the fields and files — for EVERY field name, file name and parameter value
(any bytes: quotes, backslashes, CR/LF, other controls, non-ASCII, invalid UTF-8, any length),
every content type and parameter name the writer accepted.  Nothing about names is assumed:
what cannot be carried was refused (`writeChecked_ok_iff`).  Left as DOMAIN (`FileDomain`, not
refused by the code and not a matter of bytes): file names non-empty (`SetFileUpload` refuses
them earlier), parameter names distinct and without `*`, content type without surrounding
blanks, contents free of the delimiter. -/
theorem multipart_roundtrip_all_names (b : Bytes) (fields : List (Bytes × Bytes)) (files : List File)
    (body : Bytes) (hb : (10 : UInt8) ∉ b)
    (hw : writeChecked b fields files = .ok body)
    (hfree : ∀ kv ∈ fields, BoundaryFree (delim b) (crlf ++ kv.2))
    (hfiles : ∀ f ∈ files, FileDomain b f) :
    serverForm b body = .ok (fields.map fieldItem ++ files.map fileItem) := by
  obtain ⟨rfl, h1, h2⟩ := writeChecked_ok_eq b fields files body hw
  exact multipart_roundtrip b fields files hb
    (fun kv hkv => ⟨(checkField_ok kv).mp (h1 kv hkv), hfree kv hkv⟩)
    (fun f hf => fileOK_of_checked b f (h2 f hf) (hfiles f hf))

/-- No part-header injection, for ALL inputs the writer accepts: every byte of every part header
line value is one `net/textproto` accepts (in particular no CR, no LF), so the header block of a
part consists of exactly the lines the writer meant to write. -/
theorem part_headers_valid (fields : List (Bytes × Bytes)) (files : List File)
    (hfiles : ∀ f ∈ files, checkFile f = .ok () ∧ f.param ≠ [] ∧ f.filename ≠ []) :
    (∀ kv ∈ fields, ∀ c ∈ fieldDisposition kv.1, validValueByte c = true) ∧
    (∀ f ∈ files, (∀ c ∈ fileDisposition f, validValueByte c = true) ∧
      (isStringEmpty f.ctype = false → ∀ c ∈ f.ctype, validValueByte c = true)) := by
  refine ⟨fun kv _ => (fieldDisposition_value kv.1).2.1, fun f hf => ?_⟩
  obtain ⟨hc, hp, hn⟩ := hfiles f hf
  obtain ⟨hct, hkeys⟩ := (checkFile_ok f).mp hc
  refine ⟨?_, fun _ c hcm => by simp [validValueByte, hct c hcm]⟩
  intro c hcm
  obtain ⟨-, -, -, -, hfd, -⟩ := header_consts
  simp only [fileDisposition, List.mem_append, List.mem_flatMap] at hcm
  rcases hcm with hcm | ⟨p, hpm, hcm⟩
  · exact hfd c hcm
  · apply cdParam_valid p ?_ c hcm
    rw [fileParams_shape f hp hn] at hpm
    simp only [List.mem_cons] at hpm
    rcases hpm with rfl | rfl | hpm
    · show ∀ x ∈ nameKey, isTokenChar x = true
      decide
    · show ∀ x ∈ filenameKey, isTokenChar x = true
      decide
    · exact fun x hx => tchar_token x ((hkeys p hpm).2 x hx)

/-- What the code did BEFORE fixes/C17-7 (Go's `WriteField`, only `\` and `"` escaped): the field
name `a` CR LF `X: y` puts a second header line `X: y"` into the part header — header injection
(replayed on the real code by lanes `mpwrite`, `e2e`; class `c17-field-name-ctl`). -/
theorem raw_field_name_injects :
    (readHeaders 10 true (headerLine cdHeader (rawFieldDisposition [97, 13, 10, 88, 58, 32, 121]) ++ crlf)).toOption.map
      (fun r => r.1.map (·.1)) = some [cdHeader, [88]] := by decide

/-- …and after: one header line, and the name arrives percent-encoded. -/
example :
    (readHeaders 10 true (headerLine cdHeader (fieldDisposition [97, 13, 10, 88, 58, 32, 121]) ++ crlf)).toOption.map
      (fun r => r.1.map (·.1)) = some [cdHeader] := by decide

/-- The hypothesis `BoundaryFree` of `multipart_roundtrip` in plain words: it holds whenever
the delimiter (CRLF `--` boundary) does not occur in CRLF ++ content and the boundary has no
CR — which is what "the boundary does not occur in the data" means for a multipart body. -/
theorem boundary_free_of_absent (b content : Bytes) (hcr : (13 : UInt8) ∉ b)
    (h : ¬ (delim b) <:+: (crlf ++ content)) : BoundaryFree (delim b) (crlf ++ content) :=
  boundaryFree_of_not_infix b (crlf ++ content) hcr h

/-- A boundary accepted by `Writer.SetBoundary` contains no LF. -/
theorem validBoundary_no_lf (b : Bytes) (h : validBoundary b = true) : (10 : UInt8) ∉ b := by
  intro hm
  simp only [validBoundary, Bool.and_eq_true, List.all_eq_true] at h
  have := h.1.2 10 hm
  exact absurd this (by decide)

/- Non-vacuity: a field, and a file whose name contains TAB, a quote, a backslash and a
non-ASCII byte and whose content contains CRLF and dashes, under the boundary `B`. -/
set_option maxRecDepth 100000 in
example : (serverForm [66] (write [66] [([107], [118, 13, 10, 45, 45])]
      [⟨[102], [97, 9, 34, 92, 200], [], [116, 47, 120], [13, 10, 45, 45, 65, 0]⟩])).toOption
    = some [.field [107] [118, 13, 10, 45, 45],
            .file [102] [97, 9, 34, 92, 200] [116, 47, 120] [13, 10, 45, 45, 65, 0]] := by decide

/- Non-vacuity of the hypotheses: the same field and file satisfy `FieldOK` / `FileOK`. -/
example : FieldOK [66] ([107], [118, 13, 10, 45, 45]) :=
  ⟨by decide, by unfold BoundaryFree; decide⟩

/- …and a field whose NAME is `a` CR LF `X: y` `"` `\` NUL: accepted, arrives percent-encoded. -/
set_option maxRecDepth 100000 in
example : (match writeChecked [66] [([97, 13, 10, 88, 58, 32, 121, 34, 92, 0], [118])] [] with
    | .ok body => (serverForm [66] body).toOption
    | .error _ => none)
    = some [.field [97, 37, 48, 68, 37, 48, 65, 88, 58, 32, 121, 34, 92, 37, 48, 48] [118]] := by decide

/- the error branch is reachable: empty field name, CR in a content type, `"` in a parameter name -/
example : writeChecked [66] [([], [118])] [] = .error .missingFieldName := rfl
example : writeChecked [66] [] [⟨[102], [97], [], [116, 13, 10, 88], []⟩] = .error .badContentType := rfl
example : writeChecked [66] [] [⟨[102], [97], [([120, 34], [1])], [116], []⟩] = .error .badParamKey := rfl

example : FileOK [66] ⟨[102], [97, 9, 34, 92, 200], [([120, 45, 97], [1, 2])], [116, 47, 120], [13, 10, 45, 45, 65, 0]⟩ :=
  ⟨by decide, by decide, by unfold GoodParams; decide, by unfold CTypeOK; decide, by unfold BoundaryFree; decide⟩

set_option maxRecDepth 100000 in
theorem boundaryChar_facts : ∀ c : UInt8, boundaryChar c = true →
    ((c == 34) = false ∧ (c == 92) = false ∧ (c == 13) = false ∧ (c == 10) = false) ∧
    ((isTSpecial c || c == 32) = false → isTokenChar c = true) := by
  apply Req.Form.byte_forall
  decide

/-- **content_type_matches_body** (the boundary) — for every boundary `Writer.SetBoundary`
accepts, the Content-Type header written by `FormDataContentType` (quoted when the boundary
contains tspecials or spaces) is parsed by the server (`mime.ParseMediaType`) as
`multipart/form-data` with exactly that boundary — the one the body was written with. -/
theorem content_type_boundary (b : Bytes) (hv : validBoundary b = true) :
    parseMediaType (formDataContentType b) = .ok (multipartFormData, [(boundaryKey, b)]) := by
  simp only [validBoundary, Bool.and_eq_true, List.all_eq_true, decide_eq_true_eq] at hv
  obtain ⟨⟨⟨hlen, -⟩, hchars⟩, -⟩ := hv
  have hne : b ≠ [] := by intro e; subst e; simp at hlen
  have hconst : Req.Ascii.lower (((multipartFormData.reverse.dropWhile isBlank).reverse).dropWhile isBlank) = multipartFormData ∧
      validType multipartFormData = true ∧ (∀ x ∈ multipartFormData, (fun c : UInt8 => c != 59) x = true) ∧
      boundaryKey ≠ [] ∧ (∀ x ∈ boundaryKey, isTokenChar x = true) ∧ Req.Ascii.lower boundaryKey = boundaryKey ∧
      boundaryKey.contains 42 = false := by decide
  obtain ⟨c1, c2, c3, c4, c5, c6, c7⟩ := hconst
  unfold formDataContentType
  split
  next hq =>
    -- quoted boundary
    have hshape : multipartFormData ++ [59, 32] ++ boundaryKey ++ [61] ++ ([34] ++ b ++ [34])
        = multipartFormData ++ ([59, 32] ++ boundaryKey ++ [61, 34] ++ b ++ [34] ++ []) := by simp
    rw [hshape]
    apply parseMediaType_typed _ _ _ c1 c2 c3
    · right; exact ⟨[32] ++ boundaryKey ++ [61, 34] ++ b ++ [34] ++ [], by simp⟩
    · have hcq : consumeQuoted (b ++ 34 :: []) = some (b, []) :=
        cq_plain b [] (fun c hc => (boundaryChar_facts c (hchars c hc)).1)
      rw [parseParams_step _ boundaryKey b b [] c4 c5 hcq]
      have : ∃ n, (multipartFormData ++ ([59, 32] ++ boundaryKey ++ [61, 34] ++ b ++ [34] ++ [])).length = n + 1 :=
        ⟨_, by simp [multipartFormData]; rfl⟩
      obtain ⟨n, hn⟩ := this
      rw [hn, parseParams_nil]
      simp [c6]
    · simp; decide
    · simp [dupConflict]
  next hq =>
    -- token boundary
    have hq' : ∀ c ∈ b, (isTSpecial c || c == 32) = false := by
      intro c hc
      rw [Bool.eq_false_iff]
      intro h
      exact hq (List.any_eq_true.mpr ⟨c, hc, h⟩)
    have htok : ∀ c ∈ b, isTokenChar c = true :=
      fun c hc => (boundaryChar_facts c (hchars c hc)).2 (hq' c hc)
    have hshape : multipartFormData ++ [59, 32] ++ boundaryKey ++ [61] ++ b
        = multipartFormData ++ ([59, 32] ++ boundaryKey ++ [61] ++ b) := by simp
    rw [hshape]
    apply parseMediaType_typed _ _ _ c1 c2 c3
    · right; exact ⟨[32] ++ boundaryKey ++ [61] ++ b, by simp⟩
    · have : ∃ n, (multipartFormData ++ ([59, 32] ++ boundaryKey ++ [61] ++ b)).length + 1 = n + 2 :=
        ⟨_, by simp [multipartFormData]; rfl⟩
      obtain ⟨n, hn⟩ := this
      rw [hn, parseParams_step_token n boundaryKey b c4 c5 hne htok, c6]
    · simp; decide
    · simp [dupConflict]

example : (parseMediaType (formDataContentType [97, 32, 98])).toOption = some (multipartFormData, [(boundaryKey, [97, 32, 98])])
    ∧ validBoundary [97, 32, 98] = true := by
  decide

end Multipart

/-! ## Part 4: body dispatch (`parseRequestBody`) -/

section Dispatch
open Req.Body Req.Multipart

/-- The method table of `isPayloadForbid`. -/
theorem isPayloadForbid_iff (m : String) (allow : Bool) :
    isPayloadForbid m allow = true ↔ m = "HEAD" ∨ m = "OPTIONS" ∨ (m = "GET" ∧ allow = false) := by
  simp only [isPayloadForbid, Bool.or_eq_true, Bool.and_eq_true, beq_iff_eq, Bool.not_eq_true']
  constructor
  · rintro ((⟨h, ha⟩ | h) | h)
    · exact Or.inr (Or.inr ⟨h, ha⟩)
    · exact Or.inl h
    · exact Or.inr (Or.inl h)
  · rintro (h | h | ⟨h, ha⟩)
    · exact Or.inl (Or.inr h)
    · exact Or.inr h
    · exact Or.inl (Or.inl ⟨h, ha⟩)

/-- **payload_forbidden_sends_none** — whatever body description the request carries (raw
body, value to marshal, form data, files), a method that must not carry a payload sends
none, and no error is raised. -/
theorem payload_forbidden_sends_none (c : Cfg) (h : isPayloadForbid c.method c.allowGet = true) :
    dispatch c = some ⟨.none, none, effCT c⟩ := by
  simp [dispatch, h]

private def exHead : Cfg :=
  { method := "HEAD", allowGet := true, multipart := true, clientForm := [([1], [ [2] ])],
    reqForm := [], ordered := [[1]], files := [], boundary := [66], marshal := some (some [1], none),
    body := some [1, 2], reqCT := [], clientCT := [], sniffed := [] }

example : (dispatch exHead).map (·.body) = some none := by decide

private def exGet : Cfg :=
  { method := "GET", allowGet := true, multipart := false, clientForm := [],
    reqForm := [], ordered := [], files := [], boundary := [66], marshal := none,
    body := some [1, 2], reqCT := [], clientCT := [], sniffed := [7] }

/- Conversely a body IS sent with every other method when one is described. -/
example : (dispatch exGet).map (·.body) = some (some [1, 2]) := by decide

/-- An odd number of ordered form data strings is refused by the call itself (repaired
behaviour, fixes/C17-2) — unless the method sends no payload at all. -/
theorem ordered_odd_fails (c : Cfg) (hm : isPayloadForbid c.method c.allowGet = false)
    (h : c.ordered.length % 2 = 1) : dispatch c = none := by
  have : pairUp c.ordered = none := by
    have := ordered_odd_rejected c.ordered h
    simpa [encodeOrdered] using this
  simp [dispatch, hm, this]

/-- **marshal_choice** — a value to marshal (and nothing that takes precedence: no form data,
no multipart): without any Content-Type preset the JSON marshaller is used and the JSON
content type is set; with a preset (request level first, else client level) containing
"xml" in any letter case (`+xml` suffixes and parameters included) the XML marshaller is used,
otherwise the JSON marshaller; the preset type is kept. -/
theorem marshal_choice (c : Cfg) (json xml : Option Bytes)
    (hm : isPayloadForbid c.method c.allowGet = false) (hmp : c.multipart = false)
    (ho : c.ordered = []) (hr : c.reqForm = []) (hc : c.clientForm = [])
    (hv : c.marshal = some (json, xml)) :
    dispatch c =
      if (effCT c).isEmpty then json.map (fun j => ⟨.marshalJson, some j, jsonCT⟩)
      else if isXMLType (effCT c) then xml.map (fun x => ⟨.marshalXml, some x, effCT c⟩)
      else json.map (fun j => ⟨.marshalJson, some j, effCT c⟩) := by
  simp only [dispatch, hm, hmp, ho, hr, hc, hv, pairUp, mergeForm, addAll, List.foldl_nil,
    List.isEmpty_nil, Bool.false_eq_true, ↓reduceIte, Bool.not_true, Bool.or_self]
  split
  · cases json <;> rfl
  · split
    · cases xml <;> rfl
    · cases json <;> rfl

theorem joinAmp_encodePairs (a b : List Pair) :
    joinAmp (encodePairs a) (encodePairs b) = encodePairs (a ++ b) := by
  have hne : ∀ (p : Pair) (l : List Pair), (encodePairs (p :: l)).isEmpty = false := by
    intro p l
    cases l with
    | nil => simp [encodePairs, encPair]
    | cons q qs => simp [encodePairs, encPair]
  induction a with
  | nil =>
    cases b with
    | nil => rfl
    | cons q qs => simp [joinAmp, encodePairs]
  | cons p ps ih =>
    cases b with
    | nil => simp [joinAmp, hne, encodePairs]
    | cons q qs =>
      cases ps with
      | nil =>
        have h1 := hne p []
        simp only [encodePairs] at h1
        simp [joinAmp, h1, hne, encodePairs]
      | cons r rs =>
        have h1 : encodePairs (p :: r :: rs) = encPair p ++ 38 :: encodePairs (r :: rs) := rfl
        have h2 : encodePairs (p :: r :: rs ++ q :: qs) = encPair p ++ 38 :: encodePairs (r :: rs ++ q :: qs) := rfl
        rw [h2, ← ih]
        simp [joinAmp, hne, h1]

/-- **content_type_matches_body** (urlencoded case) — whenever form data of either kind is
present (and the request is not multipart), the request goes out as
`application/x-www-form-urlencoded` — whatever Content-Type was preset — and the server's
`ParseForm` reads the body back, without error, as exactly the ordered pairs (in order)
followed by the merged request + client form data. -/
theorem form_dispatch_roundtrip (c : Cfg) (pairs : List Pair)
    (hm : isPayloadForbid c.method c.allowGet = false) (hmp : c.multipart = false)
    (ho : pairUp c.ordered = some pairs)
    (hne : (mergeForm c.reqForm c.clientForm).isEmpty = false ∨ pairs.isEmpty = false) :
    ∃ body, dispatch c = some ⟨.form, some body, formCT⟩ ∧
      parseForm body = (pairs ++ flatten (sortKeys (mergeForm c.reqForm c.clientForm)), false) := by
  refine ⟨joinAmp (encodePairs pairs) (encode (mergeForm c.reqForm c.clientForm)), ?_, ?_⟩
  · have : (!(mergeForm c.reqForm c.clientForm).isEmpty || !pairs.isEmpty) = true := by
      rcases hne with h | h <;> simp [h]
    simp [dispatch, hm, hmp, ho, this]
  · unfold encode
    rw [joinAmp_encodePairs, parseForm_encodePairs]

/-- **content_type_matches_body** (multipart case) — a multipart request goes out under
`multipart/form-data; boundary=<the boundary the body was written with>` and, for everything a
multipart body can carry, the server reads back the ordered pairs, then the merged form data
(in map order), then the files.  Field names: ANY non-empty byte strings. -/
theorem multipart_dispatch_roundtrip (c : Cfg) (pairs : List Pair)
    (hm : isPayloadForbid c.method c.allowGet = false) (hmp : c.multipart = true)
    (ho : pairUp c.ordered = some pairs) (hb : (10 : UInt8) ∉ c.boundary)
    (hfields : ∀ kv ∈ pairs ++ flatten (mergeForm c.reqForm c.clientForm), FieldOK c.boundary kv)
    (hfiles : ∀ f ∈ c.files, checkFile f = .ok () ∧ FileDomain c.boundary f) :
    ∃ body, dispatch c = some ⟨.multipart, some body, formDataContentType c.boundary⟩ ∧
      serverForm c.boundary body =
        .ok ((pairs ++ flatten (mergeForm c.reqForm c.clientForm)).map fieldItem ++ c.files.map fileItem) := by
  have e1 : checkAll checkField (pairs ++ flatten (mergeForm c.reqForm c.clientForm)) = .ok () :=
    (checkAll_ok _ _).mpr fun kv hkv => (checkField_ok kv).mpr (hfields kv hkv).name_ne
  have e2 : checkAll checkFile c.files = .ok () := (checkAll_ok _ _).mpr fun f hf => (hfiles f hf).1
  refine ⟨write c.boundary (pairs ++ flatten (mergeForm c.reqForm c.clientForm)) c.files,
    by simp [dispatch, hm, hmp, ho, writeChecked, e1, e2], ?_⟩
  exact multipart_roundtrip c.boundary _ c.files hb hfields
    (fun f hf => fileOK_of_checked c.boundary f (hfiles f hf).1 (hfiles f hf).2)

/-- The rejected class fails the CALL (nothing is sent): a field without a name, a content type
that is not a header value, a parameter name that is not a token. -/
theorem multipart_dispatch_rejects (c : Cfg) (pairs : List Pair)
    (hm : isPayloadForbid c.method c.allowGet = false) (hmp : c.multipart = true)
    (ho : pairUp c.ordered = some pairs)
    (hbad : (∃ kv ∈ pairs ++ flatten (mergeForm c.reqForm c.clientForm), kv.1 = []) ∨
      ∃ f ∈ c.files, checkFile f ≠ .ok ()) :
    dispatch c = none := by
  have hno : ¬ ∃ body, writeChecked c.boundary (pairs ++ flatten (mergeForm c.reqForm c.clientForm)) c.files = .ok body := by
    rintro ⟨body, hw⟩
    obtain ⟨-, h1, h2⟩ := writeChecked_ok_eq _ _ _ _ hw
    rcases hbad with ⟨kv, hkv, he⟩ | ⟨f, hf, he⟩
    · exact absurd he ((checkField_ok kv).mp (h1 kv hkv))
    · exact he (h2 f hf)
  cases hw : writeChecked c.boundary (pairs ++ flatten (mergeForm c.reqForm c.clientForm)) c.files with
  | ok body => exact absurd ⟨body, hw⟩ hno
  | error e => simp [dispatch, hm, hmp, ho, hw]

end Dispatch

/-! ## Part 5: progress callbacks -/

section Progress
open Req.Progress

/-- **progress_monotone** (upload, `callbackWriter`) — for every sequence of write results and
every behaviour of the clock: the reported counts are strictly increasing, every one of them
is the true number of bytes written after some call (`Sublist` of the running counts), and none
exceeds the bytes written in total. -/
theorem progress_monotone_upload (st : WState) (evs : List WEvent) :
    (runW st evs).Pairwise (· < ·) ∧ (runW st evs).Sublist (countsW st.written evs) ∧
    ∀ x ∈ runW st evs, st.written < x ∧ x ≤ st.written + bytesW evs := by
  have hs := runW_sublist st evs
  exact ⟨(countsW_increasing st.written evs).sublist hs, hs,
    fun x hx => countsW_bounds st.written evs x (hs.subset hx)⟩

/-- **progress_final** (upload) — when the size was known (`totalSize` = the bytes that are
really written) and not zero, the last reported count is that size. -/
theorem progress_final_upload (total : Int) (evs : List WEvent)
    (hknown : total = bytesW evs) (hpos : 0 < total) :
    (runW ⟨0, total⟩ evs).getLast? = some total := by
  have := runW_final ⟨0, total⟩ evs (by simp [hknown]) (by omega)
  simpa using this

example : runW ⟨0, 1000⟩ [⟨512, false⟩, ⟨0, true⟩, ⟨-1, true⟩, ⟨400, true⟩, ⟨88, false⟩] = [912, 1000] := by
  decide

/-- With an unknown size (`totalSize = 0`) nothing is promised about the end: the clock alone
decides (this is why the property says "uploads whose size was known"). -/
example : runW ⟨0, 0⟩ [⟨512, false⟩, ⟨488, false⟩] = [] := by decide

/-- **progress_monotone** (download, `callbackReader`). -/
theorem progress_monotone_download (evs : List REvent) :
    (runR ⟨0, 0⟩ evs).Pairwise (· < ·) ∧ (runR ⟨0, 0⟩ evs).Sublist (countsR 0 evs) ∧
    ∀ x ∈ runR ⟨0, 0⟩ evs, 0 < x ∧ x ≤ bytesR evs := by
  refine ⟨runR_increasing _ evs (by simp), runR_sublist _ evs, fun x hx => ?_⟩
  have := runR_bounds ⟨0, 0⟩ evs (by simp) x hx
  simpa using this

/-- **progress_final** (download) — once a read has delivered `io.EOF` (and nothing is read
after it), the last reported count is the total number of bytes read, for every split into
reads and every behaviour of the clock. -/
theorem progress_final_download (pre post : List REvent) (e : REvent)
    (heof : e.eof = true) (hpost : ∀ x ∈ post, x.n ≤ 0) (hpos : 0 < bytesR (pre ++ e :: post)) :
    (runR ⟨0, 0⟩ (pre ++ e :: post)).getLast? = some (bytesR (pre ++ e :: post)) := by
  have := runR_final ⟨0, 0⟩ pre post e (by simp) heof hpost (by simpa using hpos)
  simpa using this

example : runR ⟨0, 0⟩ [⟨100, false, false⟩, ⟨50, false, true⟩, ⟨0, false, true⟩, ⟨25, false, false⟩, ⟨0, true, false⟩,
    ⟨0, true, true⟩] = [150, 175] := by decide

end Progress

end Req.Props.C17
