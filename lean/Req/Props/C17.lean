/-! C17 — property theorems (none yet). -/
