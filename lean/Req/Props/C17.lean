import Req.Lemmas.Form
import Req.Lemmas.MultipartItems
import Req.Lemmas.Progress
import Req.Client.Body
/-!
C17 — form data, multipart uploads and marshalled bodies arrive exactly as supplied;
progress callbacks are truthful.

Part 1 (this section): form data.
* `ordered_form_roundtrip` — what `handleOrderedFormData` writes for ANY list of key/value byte
  strings is parsed by the server (`url.ParseQuery`) back to exactly that list, in order,
  without error.
* `ordered_args_roundtrip`, `ordered_odd_rejected` — the raw `SetOrderedFormData` argument list.
* `form_roundtrip` — `url.Values.Encode` of ANY map (any iteration order): the server holds,
  for every key, exactly the values supplied for it, in order, and reports no error.
-/
namespace Req.Props.C17
open Req.Proto Req.Form

/-- **ordered_form_roundtrip** -/
theorem ordered_form_roundtrip (ps : List Pair) : parseForm (encodePairs ps) = (ps, false) :=
  parseForm_encodePairs ps

example : parseForm (encodePairs [([97, 32, 38], [61, 37, 200]), ([], []), ([97, 32, 38], [43])])
    = ([([97, 32, 38], [61, 37, 200]), ([], []), ([97, 32, 38], [43])], false) := by decide

/-- The argument list `k1, v1, k2, v2, …` of `SetOrderedFormData`. -/
theorem ordered_args_roundtrip (ps : List Pair) :
    (encodeOrdered (ps.flatMap (fun p => [p.1, p.2]))).map parseForm = some (ps, false) := by
  simp [encodeOrdered, pairUp_flat, parseForm_encodePairs]

/-- An odd number of arguments is rejected (`errBadOrderedFormData`), nothing is encoded. -/
theorem ordered_odd_rejected (args : List Bytes) (h : args.length % 2 = 1) :
    encodeOrdered args = none := by
  suffices hp : pairUp args = none by simp [encodeOrdered, hp]
  induction args using pairUp.induct with
  | case1 => simp at h
  | case2 => simp [pairUp]
  | case3 k v rest ih =>
    have : rest.length % 2 = 1 := by simp at h; omega
    simp [pairUp, ih this]

example : encodeOrdered [[97], [98], [99]] = none := by decide

/-- **form_roundtrip** (multimap equality): no error, and under every key exactly the supplied
values in the supplied order — whatever the map's iteration order `m` was. -/
theorem form_roundtrip (m : Values) :
    (parseForm (encode m)).2 = false ∧
    ∀ k, valuesOfPairs (parseForm (encode m)).1 k = valuesOf m k := by
  unfold encode
  rw [parseForm_encodePairs]
  refine ⟨rfl, fun k => ?_⟩
  simp only
  rw [valuesOfPairs_flatten, valuesOf_sortKeys]

example : (parseForm (encode [([98], [[1], [2]]), ([97, 38], [[61]]), ([], [[]])])).1
    = [([], []), ([97, 38], [61]), ([98], [1]), ([98], [2])] := by decide

/-! ## Part 2: quoting of Content-Disposition parameters -/

section Quoting
open Req.Multipart

/-- **quote_unquote** — for ALL byte strings `s`: a standard parser (`mime.consumeValue`) reads
the repaired quoting of `s` back as `arrive s`: every byte a header value can carry exactly,
the others (controls except TAB, DEL) percent-encoded. -/
theorem quote_unquote (s rest : Bytes) :
    consumeQuoted (quote s ++ 34 :: rest) = some (arrive s, rest) :=
  cq_quote_all s rest

/-- **quote_roundtrip** — `unquote (quote s) = s` for every `s` a header can carry at all
(TAB, quotes, backslashes, non-ASCII and invalid UTF-8 included). -/
theorem quote_roundtrip (s rest : Bytes) (h : ∀ c ∈ s, headerUnsafe c = false) :
    consumeQuoted (quote s ++ 34 :: rest) = some (s, rest) := by
  rw [cq_quote_all, arrive_safe s h]

example : consumeQuoted (quote [97, 9, 34, 92, 200, 98] ++ [34]) = some ([97, 9, 34, 92, 200, 98], []) := by
  decide

/-- The repaired quoting never produces a byte that `net/textproto` refuses in a header value:
no name, whatever its bytes, can break the part header or make the server reject the upload. -/
theorem quote_header_valid (s : Bytes) : ∀ c ∈ quote s, validValueByte c = true :=
  quote_valid s

set_option maxRecDepth 100000 in
private theorem goQuoteByte_printable : ∀ c : UInt8, 32 ≤ c ∧ c < 127 →
    (c = 92 ∧ goQuoteByte c = some [92, 92]) ∨ (c = 34 ∧ goQuoteByte c = some [92, 34]) ∨
    (goQuoteByte c = some [c] ∧ (c == 34) = false ∧ (c == 92) = false ∧ (c == 13) = false ∧ (c == 10) = false) := by
  apply Req.Form.byte_forall
  decide

/-- What the UNPATCHED code does (Go's `%q`): the round trip holds for printable ASCII names… -/
theorem goquote_roundtrip_partial (s rest : Bytes) (h : ∀ c ∈ s, 32 ≤ c ∧ c < 127) :
    ∃ q, goQuoteAscii s = some q ∧ consumeQuoted (q ++ 34 :: rest) = some (s, rest) := by
  induction s with
  | nil => exact ⟨[], rfl, by simp [cq_quote]⟩
  | cons c cs ih =>
    obtain ⟨q, hq, hc⟩ := ih (fun x hx => h x (List.mem_cons_of_mem _ hx))
    have hb := h c (by simp)
    rcases goQuoteByte_printable c hb with ⟨rfl, hg⟩ | ⟨rfl, hg⟩ | ⟨hg, h34, h92, h13, h10⟩
    · refine ⟨[92, 92] ++ q, by simp [goQuoteAscii, hg, hq], ?_⟩
      rw [show ([92, 92] ++ q ++ 34 :: rest : Bytes) = 92 :: 92 :: (q ++ 34 :: rest) by simp,
        cq_esc 92 _ (by decide), hc]
      rfl
    · refine ⟨[92, 34] ++ q, by simp [goQuoteAscii, hg, hq], ?_⟩
      rw [show ([92, 34] ++ q ++ 34 :: rest : Bytes) = 92 :: 34 :: (q ++ 34 :: rest) by simp,
        cq_esc 34 _ (by decide), hc]
      rfl
    · refine ⟨[c] ++ q, by simp [goQuoteAscii, hg, hq], ?_⟩
      rw [show ([c] ++ q ++ 34 :: rest : Bytes) = c :: (q ++ 34 :: rest) by simp,
        cq_lit c _ h34 h92 h13 h10, hc]
      rfl

/-- …and FAILS outside: the name `a<TAB>b` arrives as the five bytes `a\tb` (the defect of
DESIGN section 5 row 19; replayed on the real code by the lanes `quote` and `cdheader`). -/
theorem goquote_tab_counterexample :
    (goQuoteAscii [97, 9, 98]).bind (fun q => consumeQuoted (q ++ [34]))
      = some ([97, 92, 116, 98], []) := by decide

end Quoting

/-! ## Part 3: multipart bodies -/

section Multipart
open Req.Multipart

private def partOf : Sum (Bytes × Bytes) File → Part × List (Bytes × Bytes)
  | .inl kv => (fieldPart kv, fieldHeaders kv)
  | .inr f => (filePart f, fileHeaders f)

private def itemS : Sum (Bytes × Bytes) File → Item
  | .inl kv => fieldItem kv
  | .inr f => fileItem f

/-- **multipart_roundtrip** — for every boundary without LF, all fields and all files that a
multipart body can carry (`FieldOK`, `FileOK`: non-empty names, delimiter-free contents; file
names may contain ANY bytes): the server reads back exactly the fields, then the files, in
order — names as `arrive` (exact for every byte a header can carry), content types and file
bytes exact. -/
theorem multipart_roundtrip (b : Bytes) (fields : List (Bytes × Bytes)) (files : List File)
    (hb : (10 : UInt8) ∉ b)
    (hfields : ∀ kv ∈ fields, FieldOK b kv) (hfiles : ∀ f ∈ files, FileOK b f) :
    serverForm b (write b fields files) = .ok (fields.map fieldItem ++ files.map fileItem) := by
  let l : List (Sum (Bytes × Bytes) File) := fields.map .inl ++ files.map .inr
  have hw : write b fields files = writeParts b ((l.map partOf).map (·.1)) := by
    simp [write, l, List.map_append, List.map_map, Function.comp_def, partOf]
  have hgood : ∀ q ∈ l.map partOf, GoodPart (delim b) q.1 q.2 := by
    intro q hq
    simp only [l, List.map_append, List.map_map, List.mem_append, List.mem_map, Function.comp] at hq
    rcases hq with ⟨kv, hkv, rfl⟩ | ⟨f, hf, rfl⟩
    · exact goodPart_field b kv (hfields kv hkv)
    · exact goodPart_file b f (hfiles f hf)
  have hitems : itemsOf ((l.map partOf).map fun q => ⟨q.2, q.1.content⟩) = .ok (l.map itemS) := by
    rw [List.map_map]
    apply itemsOf_map
    intro x hx
    simp only [l, List.mem_append, List.mem_map] at hx
    rcases hx with ⟨kv, hkv, rfl⟩ | ⟨f, hf, rfl⟩
    · have := hfields kv hkv
      exact itemOf_field kv this.name_ne this.name_safe
    · exact itemOf_file b f (hfiles f hf)
  unfold serverForm
  rw [hw, parseBody_write b _ hb hgood]
  simp only [hitems]
  simp [l, List.map_append, List.map_map, Function.comp_def, itemS]

/-- The exact form: when the names are made of bytes a header can carry (everything except
controls other than TAB, and DEL), the server holds exactly the supplied names. -/
theorem multipart_roundtrip_exact (b : Bytes) (fields : List (Bytes × Bytes)) (files : List File)
    (hb : (10 : UInt8) ∉ b)
    (hfields : ∀ kv ∈ fields, FieldOK b kv) (hfiles : ∀ f ∈ files, FileOK b f)
    (hsafe : ∀ f ∈ files, (∀ c ∈ f.param, headerUnsafe c = false) ∧ (∀ c ∈ f.filename, headerUnsafe c = false)) :
    serverForm b (write b fields files) =
      .ok (fields.map fieldItem ++ files.map fun f => .file f.param f.filename (seenCType f) f.content) := by
  rw [multipart_roundtrip b fields files hb hfields hfiles]
  congr 2
  apply List.map_congr_left
  intro f hf
  simp [fileItem, arrive_safe _ (hsafe f hf).1, arrive_safe _ (hsafe f hf).2]

/-- A boundary accepted by `Writer.SetBoundary` contains no LF. -/
theorem validBoundary_no_lf (b : Bytes) (h : validBoundary b = true) : (10 : UInt8) ∉ b := by
  intro hm
  simp only [validBoundary, Bool.and_eq_true, List.all_eq_true] at h
  have := h.1.2 10 hm
  exact absurd this (by decide)

/- Non-vacuity: a field, and a file whose name contains TAB, a quote, a backslash and a
non-ASCII byte and whose content contains CRLF and dashes, under the boundary `B`. -/
set_option maxRecDepth 100000 in
example : (serverForm [66] (write [66] [([107], [118, 13, 10, 45, 45])]
      [⟨[102], [97, 9, 34, 92, 200], [], [116, 47, 120], [13, 10, 45, 45, 65, 0]⟩])).toOption
    = some [.field [107] [118, 13, 10, 45, 45],
            .file [102] [97, 9, 34, 92, 200] [116, 47, 120] [13, 10, 45, 45, 65, 0]] := by decide

end Multipart

end Req.Props.C17
