import Req.Pool.DecodeOwner
/-!
# C09, round 6: the decoder state of a response body is owned by the response

Model `Req/Pool/DecodeOwner.lean`.  `decoder_state_per_response`: for EVERY streaming codec
(any state type, any `feed`), every op list — any number of responses alive at the same time,
their callers reading in any interleaving, in steps of any size — what the caller of response r
has been delivered is exactly what a decoder of its own produces from the chunks of r's body
(`own r ops` mentions no op of any other response), and the cell r decodes through is in the
state that decoder is in.  This is the pairing statement (`pairing`, `h2_pairing`: the i-th
response / the frames of stream id reach the caller that asked) carried through the stateful
readers `handleResponseBody` stacks on the body.  Hypothesis `cfg.shared = false` = a fresh
decoder per wrap (`enc.NewDecoder()`); `sharing_breaks_pairing` shows the statement is false for a
cache of decoder objects keyed by charset label (seed C09-r6-2), with the real ISO-2022-JP decoder.
-/
namespace Req.Props.C09Decode
open Req.Pool.DecodeOwner Req.Proto

theorem upd_same {β : Type} (f : Nat → β) (k : Nat) (v : β) : upd f k v k = v := by simp [upd]

theorem upd_other {β : Type} (f : Nat → β) (k x : Nat) (v : β) (h : x ≠ k) : upd f k v x = f x := by
  simp [upd, h]

theorem solo_snoc {σ : Type} (c : Codec σ) (l : List (Bytes × Bool)) (ch : Bytes × Bool) :
    solo c (l ++ [ch]) = soloStep c (solo c l) ch := by
  simp [solo, List.foldl_append]

theorem fed_step {σ : Type} (cfg : Cfg) (c : Codec σ) (s : St σ) (op : Op) (r : Nat) :
    (step cfg c s op).fed r = ownStep r (s.fed r) op := by
  cases op with
  | wrap r' l =>
    by_cases h : r' = r
    · subst h; simp [step, ownStep, upd]
    · have h' : r ≠ r' := fun e => h e.symm
      simp [step, ownStep, upd, h, h']
  | feed r' ch e =>
    by_cases h : r' = r
    · subst h; simp [step, ownStep, upd]
    · have h' : r ≠ r' := fun e => h e.symm
      simp [step, ownStep, upd, h, h']

theorem fed_foldl {σ : Type} (cfg : Cfg) (c : Codec σ) (ops : List Op) (r : Nat) (s : St σ) :
    (ops.foldl (step cfg c) s).fed r = ops.foldl (ownStep r) (s.fed r) := by
  induction ops generalizing s with
  | nil => rfl
  | cons op rest ih => simp only [List.foldl_cons]; rw [ih, fed_step]

/-- The ghost really is "the chunks of r since its wrap", whoever owns the decoders. -/
theorem fed_is_own {σ : Type} (cfg : Cfg) (c : Codec σ) (ops : List Op) (r : Nat) :
    (run cfg c ops).fed r = own r ops := by
  simp [run, own, fed_foldl, start]

/-- Per-response invariant of the owning configuration. -/
def Owned {σ : Type} (c : Codec σ) (s : St σ) : Prop :=
  ∀ r, s.cell (2 * r) = (solo c (s.fed r)).1 ∧ s.out r = (solo c (s.fed r)).2

theorem owned_step {σ : Type} (cfg : Cfg) (hc : cfg.shared = false) (c : Codec σ) (s : St σ) (op : Op)
    (h : Owned c s) : Owned c (step cfg c s op) := by
  intro r
  cases op with
  | wrap r' l =>
    by_cases e : r = r'
    · subst e; simp [step, key, hc, upd, solo]
    · have e2 : ¬ (2 * r = 2 * r') := by omega
      have := h r
      simp [step, key, hc, upd, e, e2, this.1, this.2]
  | feed r' ch eof =>
    by_cases e : r = r'
    · subst e
      have := h r
      simp only [step, key, hc, Bool.false_eq_true, if_false, upd_same, solo_snoc, soloStep]
      rw [this.1, this.2]
      simp
    · have e2 : ¬ (2 * r = 2 * r') := by omega
      have := h r
      simp [step, key, hc, upd, e, e2, this.1, this.2]

theorem owned_foldl {σ : Type} (cfg : Cfg) (hc : cfg.shared = false) (c : Codec σ) (ops : List Op)
    (s : St σ) (h : Owned c s) : Owned c (ops.foldl (step cfg c) s) := by
  induction ops generalizing s with
  | nil => exact h
  | cons op rest ih => simp only [List.foldl_cons]; exact ih _ (owned_step cfg hc c s op h)

theorem owned_run {σ : Type} (cfg : Cfg) (hc : cfg.shared = false) (c : Codec σ) (ops : List Op) :
    Owned c (run cfg c ops) := by
  apply owned_foldl cfg hc c ops
  intro r; simp [start, solo]

/-- **Decoder state per response.**  For every codec, every interleaving of wraps and reads of
any number of responses: the bytes delivered to the caller of r are what a decoder of r's own
makes of r's own chunks, and r's decoder is in exactly that decoder's state — nothing any other
response has read plays a part. -/
theorem decoder_state_per_response {σ : Type} (cfg : Cfg) (hc : cfg.shared = false) (c : Codec σ)
    (ops : List Op) (r : Nat) :
    (run cfg c ops).out r = (solo c (own r ops)).2 ∧
    (run cfg c ops).cell (key cfg r ((run cfg c ops).label r)) = (solo c (own r ops)).1 := by
  have h := owned_run cfg hc c ops r
  rw [fed_is_own] at h
  refine ⟨h.2, ?_⟩
  simp only [key, hc, Bool.false_eq_true, if_false]
  exact h.1

/-- Ops of other responses can be dropped or added at will: the caller of r sees the same bytes. -/
theorem others_do_not_matter {σ : Type} (cfg : Cfg) (hc : cfg.shared = false) (c : Codec σ)
    (ops ops' : List Op) (r : Nat) (h : own r ops = own r ops') :
    (run cfg c ops).out r = (run cfg c ops').out r := by
  rw [(decoder_state_per_response cfg hc c ops r).1, (decoder_state_per_response cfg hc c ops' r).1, h]

/-! ## Non-vacuity and the counter-example (ISO-2022-JP, katakana mode: no table needed)

Response 0 is `ESC ( I 1` (ｱ, left in katakana mode), response 1 is the ASCII text `t1`;
both are wrapped, caller 0 reads, then caller 1. -/
def demoOps : List Op :=
  [.wrap 0 7, .wrap 1 7, .feed 0 [0x1b, 0x28, 0x49, 0x31] false, .feed 1 [0x74, 0x31] false,
   .feed 0 [] true, .feed 1 [] true]

example : (run {} (iso []) demoOps).out 0 = [0xEF, 0xBD, 0xB1] ∧
    (run {} (iso []) demoOps).out 1 = [0x74, 0x31] := by decide

example : own 1 demoOps = [([0x74, 0x31], false), ([], true)] := by decide

example : (solo (iso []) (own 1 demoOps)).2 = [0x74, 0x31] := by decide

/-- With one decoder object per charset label (seed C09-r6-2) the statement is false: caller 1's
ASCII body is decoded in the mode caller 0's body left behind (`t` → U+FFFD, `1` → ｱ). -/
theorem sharing_breaks_pairing :
    (run { shared := true } (iso []) demoOps).out 1 ≠ (solo (iso []) (own 1 demoOps)).2 := by decide

example : (run { shared := true } (iso []) demoOps).out 1 = [0xEF, 0xBF, 0xBD, 0xEF, 0xBD, 0xB1] := by decide

/-- Two-byte mode with a table entry (日 = JIS X 0208 row 38 cell 92: index 37·94+91), split over
two reads: the first byte is held back, not lost. -/
example : (run {} (iso [(3569, 0x65E5)])
    [.wrap 0 1, .feed 0 [0x1b, 0x24, 0x42, 0x46] false, .feed 0 [0x7c] false]).out 0 = [0xE6, 0x97, 0xA5] := by
  decide

end Req.Props.C09Decode
