import Req.C03.GzipCut
import Req.Props.C03
/-!
C03 — gzip: every strict prefix of a compressed HTTP/1.1 response is an error, never a clean
shortened body — with the one exception that is the known finding `gzip-close-empty`.

The framing layer is the whole-stream HTTP/1.1 model (`parseFinal`), the decompressor the codec
`gzCodec` of `Req/C03/GzipCut.lean` (the proved toy codec of C14 behind a gzip-like header that is
read the way `gzip.NewReader` reads it).  For the real `compress/gzip` the two laws used here are
assumptions (external code): an error of the underlying body surfaces (`gz_err_surfaces`), and no
strict non-empty prefix of a complete stream ends cleanly (`gz_prefix_free`).
-/
namespace Req.Props.C03Gzip
open Req.Proto Req.Compress Req.H1 Req.C03 Req.Props.C03

theorem gz_total_cons (a b : UInt8) (rest : Bytes) (fin : Term) :
    gzCodec.total ⟨a :: b :: rest, fin⟩ =
      if a = 31 ∧ b = 139 then Toy.codec.total ⟨rest, fin⟩ else ([], Toy.errCorrupt) := by
  by_cases hm : a = 31 ∧ b = 139
  · simp only [Codec.total, gzCodec, gzOpen, hm, and_self, if_true]; rfl
  · simp only [Codec.total, gzCodec, gzOpen, hm, if_false]

theorem restW_err_ne_eof (w : Bytes) (e : Nat) : (Toy.restW w (.err e)).2 ≠ .eof := by
  match w with
  | [] => simp [Toy.restW, Toy.trunc]
  | [k] => simp only [Toy.restW]; split <;> simp [Toy.trunc]
  | k :: b :: tl =>
    simp only [Toy.restW]
    split
    · simp [Toy.errCorrupt]
    · exact restW_err_ne_eof tl e

/-- **gz_err_surfaces.** An error of the underlying (framing-level) body is never turned into a
clean end by the decompressing reader, whatever was received before it. -/
theorem gz_err_surfaces (d : Bytes) (e : Nat) : (gzCodec.total ⟨d, .err e⟩).2 ≠ .eof := by
  match d with
  | [] => simp [Codec.total, gzCodec, gzOpen]
  | [a] => simp [Codec.total, gzCodec, gzOpen, Toy.trunc]
  | a :: b :: rest =>
    rw [gz_total_cons]
    split
    · rw [Toy.total_eq]; exact restW_err_ne_eof rest e
    · simp [Toy.errCorrupt]

/-- **gz_prefix_free.** No strict, non-empty prefix of a complete compressed stream ends cleanly. -/
theorem gz_prefix_free (p : Bytes) (j : Nat) (hj0 : 0 < j) (hj : j < (gzEncode p).length) :
    (gzCodec.total ⟨(gzEncode p).take j, .eof⟩).2 ≠ .eof := by
  match j, hj0 with
  | 1, _ => simp [gzEncode, Codec.total, gzCodec, gzOpen, Toy.trunc, Toy.errUnexpectedEOF]
  | j + 2, _ =>
    simp only [gzEncode, List.take_succ_cons, List.length_cons] at hj ⊢
    rw [gz_total_cons]
    simp only [and_self, if_true]
    rw [Toy.truncated_is_error p j (by omega)]
    simp [Toy.errUnexpectedEOF]

/-- The round trip: the whole stream decodes to the payload and ends cleanly (non-vacuity). -/
theorem gz_roundtrip (p : Bytes) : gzCodec.total ⟨gzEncode p, .eof⟩ = (p, .eof) := by
  simp only [gzEncode]
  rw [gz_total_cons]
  simp only [and_self, if_true]
  exact Toy.roundtrip p

/-- **The excluded point** (known finding `gzip-close-empty`): on an EMPTY body that ends with a
clean `io.EOF` the constructor's `io.ReadFull` returns that `io.EOF`, and it is passed on: a clean
end with no data. -/
theorem gzip_close_empty_witness : gzCodec.total ⟨[], .eof⟩ = ([], .eof) := by decide

/-- **gzip_cut_never_success** (Content-Length and chunked framing). A complete response with
nothing after it, cut at ANY strict prefix: the call fails, or the decoded body ends with an error
— never a clean, shortened decoded body.  (No assumption on the compressed bytes is even needed:
the framing error reaches the caller through the decompressor.) -/
theorem gzip_cut_never_success {B : Nat} {s : Bytes} {m : Msg} {b : BodyRes}
    (h : parseFinal false B s = .resp m b) (hf : m.framing ≠ .untilClose) (hrest : b.rest = [])
    (k : Nat) (hk : k < s.length) :
    ∀ out t, gzOutcome B (s.take k) = some (out, t) → t ≠ .eof := by
  intro out t ho
  have hns := final_cut_never_success h hf hrest k hk
  unfold gzOutcome at ho
  cases hc : parseFinal false B (s.take k) with
  | reject => rw [hc] at ho; simp at ho
  | resp m' b' =>
    rw [hc] at ho hns
    simp only [Option.some.injEq] at ho
    have hok : b'.ok = false := by
      cases hb : b'.ok with
      | false => rfl
      | true => simp [Outcome.isSuccess, hb] at hns
    rw [hok] at ho
    have := gz_err_surfaces b'.data 10
    simp only [framingFin, Bool.false_eq_true, if_false] at ho
    rw [ho] at this
    exact this

/-- **gzip_close_delimited_cut.** A close-delimited response whose body is a complete compressed
stream, cut at any strict prefix: the call fails, or the decoded body ends with an error, or —
the excluded point — not a single byte of the body arrived (`gzip_close_empty_witness`). -/
theorem gzip_close_delimited_cut {B : Nat} {s : Bytes} {m : Msg} {b : BodyRes} (p : Bytes)
    (h : parseFinal false B s = .resp m b) (hf : m.framing = .untilClose) (hz : b.data = gzEncode p)
    (k : Nat) (hk : k < s.length) :
    parseFinal false B (s.take k) = .reject ∨
    ∃ b', parseFinal false B (s.take k) = .resp m b' ∧
      (b'.data = [] ∨ (gzCodec.total ⟨b'.data, framingFin b'.ok⟩).2 ≠ .eof) := by
  unfold parseFinal at h ⊢
  cases hp : parseFinalHead 6 false (s.take k) with
  | none => left; rfl
  | some q =>
    obtain ⟨m', r'⟩ := q
    right
    have hs : s = s.take k ++ s.drop k := (List.take_append_drop k s).symm
    have hfull := final_head_deterministic_end hp (s.drop k)
    rw [← hs] at hfull
    simp only [hfull, Outcome.resp.injEq] at h
    obtain ⟨rfl, rfl⟩ := h
    refine ⟨_, rfl, ?_⟩
    simp only [readBody, hf] at hz ⊢
    by_cases hr : r' = []
    · left; exact hr
    · right
      simp only [framingFin, if_true]
      have hlen : r'.length < (gzEncode p).length := by
        rw [← hz, List.length_append]
        have : 0 < (s.drop k).length := by rw [List.length_drop]; omega
        omega
      have hpre : r' = (gzEncode p).take r'.length := by rw [← hz]; simp
      rw [hpre]
      exact gz_prefix_free p r'.length (List.length_pos_iff.mpr hr) hlen

-- a Content-Length response carrying gzEncode "hi": success for the whole, an error for every strict prefix
example :
    let s : Bytes := [72,84,84,80,47,49,46,49,32,50,48,48,32,79,75,13,10,
      67,111,110,116,101,110,116,45,76,101,110,103,116,104,58,32,55,13,10,13,10,
      31,139,1,104,1,105,0]
    gzOutcome 4096 s = some ([104, 105], .eof) ∧
    ∀ k, k < s.length → (gzOutcome 4096 (s.take k)).map (·.2) ≠ some .eof := by decide

-- close-delimited (HTTP/1.0): cut right after the header block = the excluded point, success with no data;
-- one byte later: an error
example :
    let s : Bytes := [72,84,84,80,47,49,46,48,32,50,48,48,32,79,75,13,10,13,10,31,139,1,104,0]
    gzOutcome 4096 s = some ([104], .eof) ∧ gzOutcome 4096 (s.take 19) = some ([], .eof) ∧
    ∀ k, k < s.length → 19 < k → (gzOutcome 4096 (s.take k)).map (·.2) ≠ some .eof := by decide

end Req.Props.C03Gzip
