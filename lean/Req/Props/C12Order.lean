import Req.Lemmas.TlsOrder
/-!
# C12 — the order of setters does not matter for what a handshake presents

The property's quantifier lists `SetTLSClientConfig`, accessor mutation, `SetDialTLS`,
`SetTLSHandshake` (and the fingerprint presets built on it) side by side: a client is
configured by calling them in SOME order. These theorems are about the pointer-level client
of `Req.Pool.TLS.PClient` (`Pool/TlsOrder.lean`): the configuration the governing handshake
of any dial path presents is a function of the TLS setters (in their order) and of the hook
setters (in theirs) — how the two families are interleaved is irrelevant, because the
fingerprint closure dereferences `Options.TLSClientConfig` when the handshake is made
(`FpRead.atHandshake`). With a closure that fetched the configuration when it was installed
(`FpRead.atSetter`) the theorem fails (`captured_config_goes_stale`). Tied to the code by lane
`c12path` (hook setters at every position of the setter sequence).
-/
namespace Req.Props.C12
open Req.Pool.TLS

/-- **The pointer model refines the value model**, for every setter sequence: the object
`Options.TLSClientConfig` designates in the end holds the value of `run` over the TLS
setters alone; the hooks in force are the hook setters alone. -/
theorem setters_split (ops : List POp) (s : PClient) (h : s.WF) :
    view (prun .atHandshake s ops) = run (view s) (tlsOps ops)
    ∧ hooksOf (prun .atHandshake s ops) = hookRun (hooksOf s) (hookOps ops) :=
  ⟨(prun_split ops s h).2.1, (prun_split ops s h).2.2⟩

example : view (prun .atHandshake PClient.init
    [.hook .fingerprint, .tls (.setConfig none), .tls (.insecure true), .hook (.dialTLS true)])
    = some { lazyCfg with insecure := true } := by decide

/-- **The fingerprint handshake reads the CURRENT configuration.** For every setter sequence
(TLS setters, Clone, fingerprint / handshake / dialer setters in any interleaving), every
dial path, host and mode: what the governing handshake presents on a new connection is
`pathCfg` of the hooks set last and the value the TLS setters produced — in particular a
configuration installed with `SetTLSClientConfig` AFTER `SetTLSFingerprint*` governs the
uTLS handshake exactly as it governs the built-in one and QUIC's. -/
theorem fingerprint_reads_current_config (copied : List FpField) (ops : List POp) (s : PClient)
    (h : s.WF) (p : DialPath) (onlyH1 : Bool) (host : Nat) :
    presentedCfg .atHandshake copied (prun .atHandshake s ops) p onlyH1 host
      = pathCfg copied (hookRun (hooksOf s) (hookOps ops)) p onlyH1 host (run (view s) (tlsOps ops)) := by
  obtain ⟨v, k⟩ := setters_split ops s h
  simp [presentedCfg, readFor, v, k]

example : presentedCfg .atHandshake [.serverName, .rootCAs, .insecureSkipVerify, .certificates]
    (prun .atHandshake PClient.init
      [.hook .fingerprint, .tls (.setConfig (some { emptyCfg with roots := some [7], serverName := 5 }))])
    .h2Own false 1
    = some { serverName := 5, insecure := false, roots := some [7], certs := [], protos := [.h2, .http11] } := by
  decide

/-- **Order independence.** Two setter sequences with the same TLS setters (in the same
relative order) and the same hook setters (in theirs) — i.e. any two interleavings of the two
families — present the same configuration on every path. -/
theorem setter_order_irrelevant (copied : List FpField) (ops₁ ops₂ : List POp) (s : PClient) (h : s.WF)
    (ht : tlsOps ops₁ = tlsOps ops₂) (hh : hookOps ops₁ = hookOps ops₂)
    (p : DialPath) (onlyH1 : Bool) (host : Nat) :
    presentedCfg .atHandshake copied (prun .atHandshake s ops₁) p onlyH1 host
      = presentedCfg .atHandshake copied (prun .atHandshake s ops₂) p onlyH1 host := by
  rw [fingerprint_reads_current_config _ _ _ h, fingerprint_reads_current_config _ _ _ h, ht, hh]

example : tlsOps [.hook .fingerprint, .tls (.addRoot 3)] = tlsOps [.tls (.addRoot 3), .hook .fingerprint]
    ∧ hookOps [.hook .fingerprint, .tls (.addRoot 3)] = hookOps [.tls (.addRoot 3), .hook .fingerprint] := by
  decide

/-- **All stacks agree whatever the order**: with the closure copying every verification
field, the fingerprint handshake of a TCP path and QUIC (which no hook governs) verify with
the same settings after ANY setter sequence in which no user function is installed last. -/
theorem fingerprint_matches_quic_any_order (copied : List FpField) (hc : fpCovers copied = true)
    (ops : List POp) (s : PClient) (h : s.WF) (p : DialPath) (host : Nat) (onlyH1 : Bool)
    (hu : governs (hookRun (hooksOf s) (hookOps ops)) p = .fingerprint) (c c3 : TlsCfg)
    (h1 : presentedCfg .atHandshake copied (prun .atHandshake s ops) p onlyH1 host = some c)
    (h3 : presentedCfg .atHandshake copied (prun .atHandshake s ops) .h3Quic false host = some c3) :
    c.toVerifyCfg = c3.toVerifyCfg := by
  rw [fingerprint_reads_current_config _ _ _ h] at h1 h3
  have hp : p ≠ .h3Quic := by intro e; subst e; simp [governs] at hu
  have hcov : copied.contains .serverName = true ∧ copied.contains .rootCAs = true
      ∧ copied.contains .insecureSkipVerify = true ∧ copied.contains .certificates = true := by
    simpa [fpCovers, fpVerifyFields] using hc
  obtain ⟨a1, a2, a3, a4⟩ := hcov
  have m1 : FpField.serverName ∈ copied := by simpa using a1
  have m2 : FpField.rootCAs ∈ copied := by simpa using a2
  have m3 : FpField.insecureSkipVerify ∈ copied := by simpa using a3
  have m4 : FpField.certificates ∈ copied := by simpa using a4
  have e3 : c3 = effective .h3 false host (run (view s) (tlsOps ops)) := by
    simp [pathCfg, governs, DialPath.stack] at h3; exact h3.symm
  have e1 : c = effectiveFp copied (.bare host) (run (view s) (tlsOps ops)) := by
    cases p <;> simp_all [pathCfg, handshakeGiven]
  subst e1 e3
  cases hr : run (view s) (tlsOps ops) with
  | none =>
    simp [effectiveFp, effective, getCfg, lazyCfg, emptyCfg, stripPort]
  | some r =>
    by_cases hz : r.serverName = 0 <;>
      simp [effectiveFp, effective, getCfg, stripPort, m1, m2, m3, m4, hz]

example : governs (hookRun (hooksOf PClient.init) (hookOps [.hook .fingerprint, .tls (.insecure true)])) .h1Tunnel
    = .fingerprint := by decide

/-- **Necessity.** A closure that fetched the configuration when it was installed keeps
presenting the replaced object: `SetTLSFingerprint*` then `SetTLSClientConfig(roots 7)` —
HTTP/1.1 and HTTP/2 verify against the OLD settings (no roots), HTTP/3 against the new. -/
theorem captured_config_goes_stale :
    let ops : List POp := [.hook .fingerprint, .tls (.setConfig (some { emptyCfg with roots := some [7] }))]
    let full : List FpField := [.serverName, .rootCAs, .insecureSkipVerify, .certificates]
    (presentedCfg .atSetter full (prun .atSetter PClient.init ops) .h1Direct false 1).map (·.roots) = some none
    ∧ (presentedCfg .atSetter full (prun .atSetter PClient.init ops) .h3Quic false 1).map (·.roots) = some (some [7])
    ∧ (presentedCfg .atHandshake full (prun .atHandshake PClient.init ops) .h1Direct false 1).map (·.roots)
        = some (some [7]) := by
  decide

/-- The stale closure still follows IN-PLACE changes (same object) and a configuration
replaced BEFORE the fingerprint was chosen: the failure needs the order hook-then-replace. -/
theorem captured_config_sees_in_place_changes :
    let full : List FpField := [.serverName, .rootCAs, .insecureSkipVerify, .certificates]
    (presentedCfg .atSetter full (prun .atSetter PClient.init [.hook .fingerprint, .tls (.addRoot 7)])
        .h1Direct false 1).map (·.roots) = some (some [7])
    ∧ (presentedCfg .atSetter full (prun .atSetter PClient.init
        [.tls (.setConfig (some { emptyCfg with roots := some [7] })), .hook .fingerprint])
        .h1Direct false 1).map (·.roots) = some (some [7]) := by
  decide

end Req.Props.C12
