import Req.Pool.AltSvcClient
import Req.Props.C12
/-!
# C12 — forcing a version AFTER an alternative was learned and confirmed

Theorems about `Req.Pool.AltSvc.cstep` (Alt-Svc state machine + protocol setters) and the
dispatch model: whatever the client learned before — pending or confirmed in the jar — once a
version is forced the Alt-Svc shortcut is not taken (seed C12-r4-2). Tied to the code by the
sequence lane `c12altsm` (setter events between header / request events, requests through
the real `Transport.RoundTrip`) and `c12seq` (f) (learn, CONFIRM, then force, on loopback).
-/
namespace Req.Props.C12
open Req.Pool.Dispatch Req.Pool.AltSvc

/-- **A forced request never takes the Alt-Svc shortcut and leaves the learned state alone**,
whatever that state is. -/
theorem forced_request_skips_altsvc (sup : Bool) (c : Client) (v : Ver) (o : Origin) (now : Nat) (ok : Bool)
    (hf : c.cfg.force = some v) :
    cstep sup c (.alt (.request o now ok)) = (c, some .normal) := by
  simp [cstep, consults, hf]

/-- A forced client learns nothing either. -/
theorem forced_client_learns_nothing (sup : Bool) (c : Client) (v : Ver) (o : Origin) (now : Nat)
    (mas : List (Option Nat)) (hf : c.cfg.force = some v) :
    cstep sup c (.alt (.header o now mas)) = (c, none) := by
  simp [cstep, consults, hf]

/-- **Forcing overrides a confirmed entry**: after ANY history (settings, headers, dials,
requests — so with any pending or confirmed entries), `EnableForceHTTP1` / `EnableForceHTTP2`
makes the next request of every origin go to the normal dispatch, where `forced_no_fallback`
applies; the learned state is kept as it was. -/
theorem forcing_overrides_confirmed_entry (sup : Bool) (evs : List CEvent) (s : Setting)
    (hs : s = .forceH1 ∨ s = .forceH2) (o : Origin) (now : Nat) (ok : Bool) :
    let c := crun sup Client.init evs
    let c' := (cstep sup c (.setting s)).1
    cstep sup c' (.alt (.request o now ok)) = (c', some .normal) ∧ c'.alt = c.alt := by
  intro c c'
  have hf : ∃ v, c'.cfg.force = some v := by
    rcases hs with rfl | rfl
    · exact ⟨.h1, rfl⟩
    · exact ⟨.h2, rfl⟩
  obtain ⟨v, hv⟩ := hf
  refine ⟨forced_request_skips_altsvc sup c' v o now ok hv, ?_⟩
  rcases hs with rfl | rfl <;> rfl

/-- Un-forcing brings the learned state back into play unchanged. -/
theorem unforce_resumes (sup : Bool) (c : Client) (s : Setting) (hs : s = .forceH1 ∨ s = .forceH2)
    (hf : c.cfg.force = none) :
    (crun sup c [.setting s, .setting .unforce]).alt = c.alt
    ∧ (crun sup c [.setting s, .setting .unforce]).cfg = c.cfg := by
  rcases hs with rfl | rfl <;> simp [crun, cstep, altAfter, applySetting] <;>
    (cases c with | mk cfg alt => cases cfg; simp_all)

/-- The seeded shape: learn, dial, confirm over HTTP/3, then force HTTP/1.1 — the request is
dispatched normally; un-forced again it takes the shortcut. -/
example :
    let o : Origin := ⟨.https, 1, 443⟩
    let hist : List CEvent := [.setting .enableH3, .alt (.header o 0 [some 3600]), .alt (.dialed o [true]),
      .alt (.request o 1 true)]
    (cstep true (crun true Client.init hist) (.alt (.request o 2 true))).2 = some (.alt true)
    ∧ (cstep true (crun true Client.init (hist ++ [.setting .forceH1])) (.alt (.request o 2 true))).2 = some .normal
    ∧ (cstep true (crun true Client.init (hist ++ [.setting .forceH1, .setting .unforce])) (.alt (.request o 3 true))).2
        = some (.alt true) := by decide

/-- At the dispatch level: with a version forced the route does not depend on the Alt-Svc flag at
all — it is `dispatch`, which never reads it. -/
theorem forced_route_ignores_altsvc (cfg : Cfg) (req : Req) (net : Net) (a : Bool) (v : Ver)
    (hf : cfg.force = some v) :
    route cfg req { net with alt := a } = dispatch cfg req net := by
  unfold route
  simp [hf]
  rfl

/-- `DisableHTTP3` and `Clone` forget everything that was learned. -/
theorem disable_and_clone_forget (sup : Bool) (c : Client) (s : Setting) (hs : s = .disableH3 ∨ s = .clone)
    (o : Origin) (now : Nat) :
    usable (cstep sup c (.setting s)).1.alt o now = false := by
  rcases hs with rfl | rfl <;> simp [cstep, altAfter, usable, State.empty, jarLive]

end Req.Props.C12
