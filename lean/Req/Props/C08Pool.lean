import Req.Pool.CancelPool
import Req.Lemmas.CancelPool
/-!
C08 — property theorems, multi-request part ("… and the client remains fully usable").

Model: C09's pool state machine `Req/Pool/H1Pool.lean` (an op list = one interleaving of the
pool's critical sections at lock granularity; `Op.cancel w` = `wantConn.cancel`, which leaves
the cancelled want in every queue it is in), read through `Req/Pool/CancelPool.lean`.

* `no_stranded_waiter`   : ∀ interleavings, somebody queued in `connsPerHostWait[k]` ⇒
                           `MaxConnsPerHost > 0` and `connsPerHost[k] = MaxConnsPerHost`: nobody waits
                           for a slot while a slot is free — whatever was cancelled, and when.
* `freed_slot_leaves_no_waiter` : the op-level reading: whenever a critical section lowers
                           `connsPerHost[k]`, the wait queue of `k` is empty afterwards.
* `cancelled_waiter_never_blocks_others` : `decConnsPerHost` on ANY state whose queue is
                           `dead ++ w :: rest` (`dead` all cancelled / delivered, `w` waiting): exactly
                           one dial is started, for `w`; the queue is `rest`; the count is unchanged.
* `slot_release_dials_first_live_waiter` : ∀ interleavings, closing a live connection of key `k`
                           while a live waiter is queued for `k` starts the dial for the FIRST live
                           waiter (FIFO among the living), skipping every cancelled one in front.
* `dead_dial_passes_slot_on` : the same for the dial goroutine that finds its own want cancelled
                           before it started (`getCtxForDial() == nil`).
* `idle_handoff_skips_cancelled` : `tryPutIdleConn` on ANY state whose `idleConnWait[k]` is
                           `dead ++ w :: rest` delivers the connection to `w`.
* `late_conn_goes_to_transit` : a dial that completes after its want was cancelled does not
                           deliver; the connection is held by the dial goroutine (`transit`) …
* `late_conn_not_leaked`  : … and `putOrCloseIdleConn` settles it: afterwards it is in no
                           goroutine's hands and is either handed to a waiting request, listed
                           idle, or closed (its slot given back through `decConnsPerHost`).
* `cancel_is_lazy`        : `wantConn.cancel` of a waiting want changes nothing but the want.
* `sample_ok`             : the judgement the crowd lanes apply to in-package samples of the real
                           pool (`Sample.verdict`) is `ok` on the sample of every key of every
                           reachable model state.
* `loop_is_necessary`     : with the loop of `decConnsPerHost` replaced by a single `popFront`
                           (`decConnsFirstOnly`) a reachable state has a live waiter stranded
                           (`Sample.verdict = stranded`): the defect class the lanes look for.
-/
namespace Req.Props.C08Pool
open Req.Pool.H1Pool Req.Pool.CancelPool Req.Lemmas.CancelPool
open Req.Lemmas.C09Pool Req.Lemmas.C09PoolExcl Req.Lemmas.C09PoolCount Req.Lemmas.C09PoolLru

theorem run_snoc (cfg : Cfg) (s : St) (ops : List Op) (op : Op) :
    run cfg s (ops ++ [op]) = (step cfg (run cfg s ops) op).1 := by
  induction ops generalizing s with
  | nil => rfl
  | cons a t ih => exact ih _

/-- **no_stranded_waiter** -/
theorem no_stranded_waiter (cfg : Cfg) (ops : List Op) (k : Key)
    (h : (run cfg {} ops).dialWait k ≠ []) :
    cfg.maxConnsPerHost > 0 ∧ ((run cfg {} ops).cph k : Int) = cfg.maxConnsPerHost := by
  obtain ⟨hpos, hge⟩ := NSW_run cfg {} ops (NSW_init cfg) k h
  have hle := CL_run cfg {} ops (by intro hpos k; simp; omega) hpos k
  exact ⟨hpos, by omega⟩

/-- **freed_slot_leaves_no_waiter** -/
theorem freed_slot_leaves_no_waiter (cfg : Cfg) (ops : List Op) (op : Op) (k : Key)
    (hdec : (step cfg (run cfg {} ops) op).1.cph k < (run cfg {} ops).cph k) :
    (step cfg (run cfg {} ops) op).1.dialWait k = [] := by
  rw [← run_snoc] at hdec ⊢
  cases hq : (run cfg {} (ops ++ [op])).dialWait k with
  | nil => rfl
  | cons a t =>
    obtain ⟨hpos, heq⟩ := no_stranded_waiter cfg (ops ++ [op]) k (by rw [hq]; simp)
    have hle := CL_run cfg {} ops (by intro hpos k; simp; omega) hpos k
    omega

/-- **cancelled_waiter_never_blocks_others** -/
theorem cancelled_waiter_never_blocks_others (cfg : Cfg) (s : St) (k : Key)
    (dead : List Want) (w : Want) (rest : List Want)
    (hpos : cfg.maxConnsPerHost > 0) (hc : s.cph k ≠ 0)
    (hq : s.dialWait k = dead ++ w :: rest)
    (hdead : ∀ d ∈ dead, s.wst d ≠ .waiting) (hw : s.wst w = .waiting) :
    (decConns cfg s k).dialing = w :: s.dialing ∧ (decConns cfg s k).dialWait k = rest ∧
    (decConns cfg s k).cph k = s.cph k ∧ (decConns cfg s k).wst = s.wst := by
  have hf : firstLive s.wst (s.dialWait k) = some (w, rest) := by
    rw [hq]; exact firstLive_of_split s.wst dead w rest hdead hw
  rw [decConns_firstLive_some cfg s k w rest hpos hc hf]
  simp [startDial]

/-- a live connection of key `k` holds one of the `connsPerHost[k]` slots -/
theorem cph_pos_of_live_conn (cfg : Cfg) (ops : List Op) (c : Conn) (k : Key)
    (hpos : cfg.maxConnsPerHost > 0)
    (hk : (run cfg {} ops).ckey c = some k) (hopen : (run cfg {} ops).closed c = false) :
    (run cfg {} ops).cph k ≠ 0 := by
  have he := Excl_run cfg {} ops Excl_init
  have ha := Excl_Acct_run cfg hpos {} ops Excl_init Acct_init
  have hmem : c ∈ (run cfg {} ops).conns := (he.connsCreated c).mpr (by rw [hk]; simp)
  have := cnt_pos_of_mem (fun c => (run cfg {} ops).ckey c == some k && !(run cfg {} ops).closed c)
    (run cfg {} ops).conns c hmem (by simp [hk, hopen])
  have hb := ha.bal k
  unfold liveCnt at hb
  omega

/-- **slot_release_dials_first_live_waiter** -/
theorem slot_release_dials_first_live_waiter (cfg : Cfg) (ops : List Op) (c : Conn) (k : Key)
    (hpos : cfg.maxConnsPerHost > 0)
    (hk : (run cfg {} ops).ckey c = some k) (hopen : (run cfg {} ops).closed c = false)
    (hlive : hasLive (run cfg {} ops).wst ((run cfg {} ops).dialWait k) = true) :
    ∃ dead w rest, (run cfg {} ops).dialWait k = dead ++ w :: rest ∧
      (∀ d ∈ dead, (run cfg {} ops).wst d ≠ .waiting) ∧ (run cfg {} ops).wst w = .waiting ∧
      (closeConn cfg (run cfg {} ops) c).closed c = true ∧
      (closeConn cfg (run cfg {} ops) c).dialing = w :: (run cfg {} ops).dialing ∧
      (closeConn cfg (run cfg {} ops) c).dialWait k = rest ∧
      (closeConn cfg (run cfg {} ops) c).cph k = (run cfg {} ops).cph k := by
  obtain ⟨w, rest, hf⟩ := firstLive_isSome_of_hasLive _ _ hlive
  obtain ⟨dead, hq, hdead, hw⟩ := firstLive_some _ _ w rest hf
  have hc := cph_pos_of_live_conn cfg ops c k hpos hk hopen
  refine ⟨dead, w, rest, hq, hdead, hw, ?_⟩
  generalize run cfg {} ops = s at *
  have hclose : closeConn cfg s c = decConns cfg { s with closed := upd s.closed c true } k := by
    unfold closeConn; simp [hopen, hk]
  rw [hclose]
  obtain ⟨h1, h2, h3, _⟩ := cancelled_waiter_never_blocks_others cfg
    { s with closed := upd s.closed c true } k dead w rest hpos hc hq hdead hw
  refine ⟨?_, h1, h2, h3⟩
  simp

/-- **dead_dial_passes_slot_on** — a dial goroutine that finds its own want cancelled before it
started (`getCtxForDial() == nil`) hands its slot to the first live waiter of the key. -/
theorem dead_dial_passes_slot_on (cfg : Cfg) (ops : List Op) (b : Want) (k : Key)
    (hpos : cfg.maxConnsPerHost > 0)
    (hk : (run cfg {} ops).wkey b = some k) (hd : b ∈ (run cfg {} ops).dialing)
    (hgone : (run cfg {} ops).wst b ≠ .waiting)
    (hlive : hasLive (run cfg {} ops).wst ((run cfg {} ops).dialWait k) = true) :
    ∃ dead w rest, (run cfg {} ops).dialWait k = dead ++ w :: rest ∧
      (∀ d ∈ dead, (run cfg {} ops).wst d ≠ .waiting) ∧ (run cfg {} ops).wst w = .waiting ∧
      (step cfg (run cfg {} ops) (.dialBegin b)).1.dialing = w :: (run cfg {} ops).dialing.erase b ∧
      (step cfg (run cfg {} ops) (.dialBegin b)).1.dialWait k = rest ∧
      (step cfg (run cfg {} ops) (.dialBegin b)).1.cph k = (run cfg {} ops).cph k := by
  obtain ⟨w, rest, hf⟩ := firstLive_isSome_of_hasLive _ _ hlive
  obtain ⟨dead, hq, hdead, hw⟩ := firstLive_some _ _ w rest hf
  have ha := Excl_Acct_run cfg hpos {} ops Excl_init Acct_init
  have hc : (run cfg {} ops).cph k ≠ 0 := by
    have := cnt_pos_of_mem (fun w => (run cfg {} ops).wkey w == some k) (run cfg {} ops).dialing b hd (by simp [hk])
    have hb := ha.bal k
    unfold dialCnt at hb
    omega
  refine ⟨dead, w, rest, hq, hdead, hw, ?_⟩
  generalize run cfg {} ops = s at *
  have hstep : (step cfg s (.dialBegin b)).1 = decConns cfg { s with dialing := s.dialing.erase b } k := by
    simp [step, hk, hd, hgone]
  rw [hstep]
  obtain ⟨h1, h2, h3, _⟩ := cancelled_waiter_never_blocks_others cfg
    { s with dialing := s.dialing.erase b } k dead w rest hpos hc hq hdead hw
  exact ⟨h1, h2, h3⟩

/-- **idle_handoff_skips_cancelled** — `tryPutIdleConn` hands a healthy connection to the first
want of `idleConnWait[k]` that is still waiting, however many cancelled ones are in front. -/
theorem idle_handoff_skips_cancelled (cfg : Cfg) (s : St) (c : Conn) (k : Key)
    (dead : List Want) (w : Want) (rest : List Want)
    (hka : cfg.disableKeepAlives = false) (hmi : ¬ cfg.maxIdlePerHost < 0) (hopen : s.closed c = false)
    (hq : s.idleWait k = dead ++ w :: rest)
    (hdead : ∀ d ∈ dead, s.wst d ≠ .waiting) (hw : s.wst w = .waiting) :
    (tryPut cfg s c k).2 = .ok ∧ (tryPut cfg s c k).1.wst w = .gotConn c ∧
    (tryPut cfg s c k).1.idleWait k = rest ∧ (tryPut cfg s c k).1.idle = s.idle := by
  have hf : firstLive s.wst (s.idleWait k) = some (w, rest) := by
    rw [hq]; exact firstLive_of_split s.wst dead w rest hdead hw
  unfold tryPut
  simp [hka, hmi, hopen, popUntilWaiting_firstLive, hf]

/-- **late_conn_goes_to_transit** -/
theorem late_conn_goes_to_transit (cfg : Cfg) (s : St) (b : Want) (c : Conn) (k : Key)
    (hk : s.wkey b = some k) (hfresh : s.ckey c = none) (hd : b ∈ s.dialing)
    (hgone : s.wst b ≠ .waiting) :
    (step cfg s (.dialOk b c)).2 = .bool false ∧
    c ∈ (step cfg s (.dialOk b c)).1.transit ∧ (step cfg s (.dialOk b c)).1.wst = s.wst ∧
    (step cfg s (.dialOk b c)).1.ckey c = some k ∧ (step cfg s (.dialOk b c)).1.closed c = false := by
  simp [step, hk, hfresh, hd, hgone]

/-- `putOrCloseIdleConn(c)` for a connection a pool routine holds: `tryPutIdleConn`, and
`pconn.close(err)` when that refuses. -/
def putOrClose (cfg : Cfg) (s : St) (c : Conn) : St :=
  match (step cfg s (.putT c)).2 with
  | .put .ok => (step cfg s (.putT c)).1
  | .put _ => (step cfg (step cfg s (.putT c)).1 (.closeT c)).1
  | _ => (step cfg s (.putT c)).1

/-- **late_conn_not_leaked** — ∀ interleavings: a connection some pool routine holds in its hands
(`transit`: delivered by a dial after its want was cancelled, taken back from a cancelled want,
or taken out of the idle list by `CloseIdleConnections`) is, after `putOrCloseIdleConn`, in nobody's
hands any more and is handed to a waiting request, listed idle, or closed. -/
theorem late_conn_not_leaked (cfg : Cfg) (ops : List Op) (c : Conn) (k : Key)
    (hk : (run cfg {} ops).ckey c = some k) (ht : c ∈ (run cfg {} ops).transit) :
    c ∉ (putOrClose cfg (run cfg {} ops) c).transit ∧
    ((∃ w, (putOrClose cfg (run cfg {} ops) c).wst w = .gotConn c) ∨
      c ∈ (putOrClose cfg (run cfg {} ops) c).idle k ∨
      (putOrClose cfg (run cfg {} ops) c).closed c = true) := by
  obtain ⟨he, hl⟩ := Excl_LruAll_run cfg {} ops Excl_init (LruAll_init cfg)
  generalize run cfg {} ops = s at *
  have hnot : c ∉ s.transit.erase c := fun h => (List.Nodup.mem_erase_iff he.transitNodup).mp h |>.1 rfl
  -- the connection is not in the LRU: LRU entries are idle-listed (hence not in transit) or closed
  have hstep : step cfg s (.putT c) =
      (if (tryPut cfg { s with transit := s.transit.erase c } c k).2 = .ok
        then ((tryPut cfg { s with transit := s.transit.erase c } c k).1,
              Out.put (tryPut cfg { s with transit := s.transit.erase c } c k).2)
        else ({ (tryPut cfg { s with transit := s.transit.erase c } c k).1 with
                  transit := c :: (tryPut cfg { s with transit := s.transit.erase c } c k).1.transit },
              Out.put (tryPut cfg { s with transit := s.transit.erase c } c k).2)) := by
    simp [step, hk, ht]
  unfold putOrClose
  rw [hstep]
  by_cases hok : (tryPut cfg { s with transit := s.transit.erase c } c k).2 = .ok
  · simp only [if_pos hok, hok]
    refine ⟨by simpa using hnot, ?_⟩
    rcases tryPut_ok_places cfg { s with transit := s.transit.erase c } c k hk hok with h | h | h | h
    · exact Or.inl h
    · exact Or.inr (Or.inl h)
    · exact Or.inr (Or.inr h)
    · -- unreachable: c ∈ lru
      exfalso
      have hcl : s.closed c = false := by
        cases hc : s.closed c with
        | false => rfl
        | true =>
          have : (tryPut cfg { s with transit := s.transit.erase c } c k).2 ≠ .ok := by
            unfold tryPut; split
            · simp
            · simp [hc]
          exact absurd hok this
      rcases hl.1.lruIdleOrClosed c h with ⟨k', hk'⟩ | hc
      · exact he.idleNotTransit k' c hk' ht
      · rw [hcl] at hc; cases hc
  · simp only [if_neg hok]
    have hne : (tryPut cfg { s with transit := s.transit.erase c } c k).2 ≠ .ok := hok
    cases hp : (tryPut cfg { s with transit := s.transit.erase c } c k).2 with
    | ok => exact absurd hp hne
    | keepAlivesDisabled | broken | closeIdle | tooManyIdleHost =>
      simp only [step, List.contains_cons, beq_self_eq_true, Bool.true_or, Bool.not_true, Bool.false_eq_true,
        if_false, List.erase_cons_head]
      refine ⟨by simpa using hnot, Or.inr (Or.inr ?_)⟩
      exact (closeConn_closed cfg _ c c).mpr (Or.inr ⟨rfl, by simp [hk]⟩)

/-- **cancel_is_lazy** -/
theorem cancel_is_lazy (cfg : Cfg) (s : St) (w : Want) (k : Key) (hk : s.wkey w = some k)
    (hw : s.wst w = .waiting) :
    (step cfg s (.cancel w)).1 = cancelOnly s w := by
  simp [step, hk, hw, cancelOnly]

/-- **sample_ok** -/
theorem sample_ok (cfg : Cfg) (ops : List Op) (k : Key) :
    (sampleOf cfg (run cfg {} ops) k).verdict = .ok := by
  have hcl := CL_run cfg {} ops (by intro hpos k; simp; omega)
  have hnsw := NSW_run cfg {} ops (NSW_init cfg) k
  have hiw := IW_run cfg {} ops (by intro k hk; simp at hk) k
  unfold Sample.verdict sampleOf
  simp only
  rw [if_neg, if_neg, if_neg]
  · rintro ⟨h1, h2⟩
    have : (run cfg {} ops).idleWait k ≠ [] := by
      intro h; rw [h] at h1; simp at h1
    rw [hiw this] at h2; simp at h2
  · rintro ⟨h1, h2⟩
    have : (run cfg {} ops).dialWait k ≠ [] := by
      intro h; rw [h] at h1; simp at h1
    obtain ⟨hpos, hge⟩ := hnsw this
    omega
  · rintro ⟨hpos, hgt⟩
    have := hcl hpos k
    omega

/-! ### Non-vacuity and sharpness -/

/-- MaxConnsPerHost = 1, keep-alives off: request 0 owns connection 7; requests 1 and 2 queue for
the slot in that order; request 1 is cancelled while queued. -/
def exCfg : Cfg := ⟨0, 0, 1, true⟩
def exOps : List Op :=
  [.newWant 0 0, .queueIdle 0, .queueDial 0, .dialOk 0 7, .recv 0,
   .newWant 1 0, .queueIdle 1, .queueDial 1,
   .newWant 2 0, .queueIdle 2, .queueDial 2,
   .cancel 1]

example : (run exCfg {} exOps).dialWait 0 = [1, 2] ∧ (run exCfg {} exOps).wst 1 = .canceled ∧
    (run exCfg {} exOps).wst 2 = .waiting ∧ (run exCfg {} exOps).cph 0 = 1 := by decide
/-- request 0 finishes, its connection is closed: the dial is started for request 2 -/
example : (run exCfg {} (exOps ++ [.finishClose 0])).dialing = [2] ∧
    (run exCfg {} (exOps ++ [.finishClose 0])).dialWait 0 = [] ∧
    (run exCfg {} (exOps ++ [.finishClose 0])).cph 0 = 1 := by decide
example : hasLive (run exCfg {} exOps).wst ((run exCfg {} exOps).dialWait 0) = true := by decide
example : (sampleOf exCfg (run exCfg {} exOps) 0).verdict = .ok := by decide

/-- **loop_is_necessary** — with a single `popFront` instead of the loop, the same reachable
state leaves request 2 waiting for a slot while the count says a slot is free. -/
theorem loop_is_necessary :
    let s := run exCfg {} exOps
    let bad := decConnsFirstOnly exCfg { s with closed := upd s.closed 7 true } 0
    (sampleOf exCfg bad 0).verdict = .stranded ∧ bad.wst 2 = .waiting ∧ bad.dialing = [] ∧
    (decConns exCfg { s with closed := upd s.closed 7 true } 0).dialing = [2] := by decide

/-- the idle hand-off: keep-alives on, the connection of request 0 is put back while 1 (cancelled)
and 2 (waiting) are queued in `idleConnWait`: request 2 gets it. -/
def exCfgKA : Cfg := ⟨0, 0, 1, false⟩
example : (run exCfgKA {} (exOps ++ [.finishPut 0])).wst 2 = .gotConn 7 ∧
    (run exCfgKA {} (exOps ++ [.finishPut 0])).idleWait 0 = [] := by decide

/-- the late connection: request 1's dial completes after request 1 was cancelled (no limit):
not delivered, held by the dial goroutine, then parked in the idle list by `putOrClose`. -/
def exLate : List Op := [.newWant 1 0, .queueIdle 1, .queueDial 1, .cancel 1, .dialOk 1 9]
def exCfgFree : Cfg := ⟨0, 0, 0, false⟩
example : (run exCfgFree {} exLate).transit = [9] ∧ (run exCfgFree {} exLate).wst 1 = .canceled := by decide
example : (putOrClose exCfgFree (run exCfgFree {} exLate) 9).idle 0 = [9] ∧
    (putOrClose exCfgFree (run exCfgFree {} exLate) 9).transit = [] := by decide
/-- … and closed (slot given back) when keep-alives are off -/
example : (putOrClose exCfg (run exCfg {} exLate) 9).closed 9 = true ∧
    (putOrClose exCfg (run exCfg {} exLate) 9).transit = [] ∧
    (putOrClose exCfg (run exCfg {} exLate) 9).cph 0 = 0 := by decide

end Req.Props.C08Pool
