import Req.Lemmas.C06Recv
import Req.Lemmas.C06Acks
import Req.Lemmas.C06Credit
import Req.Lemmas.C06Pump
import Req.Lemmas.C06Extra
/-!
C06 — HTTP/2 connections respect everything the peer advertised: property theorems.

The model (`Req.H2.Conn`) is one `ClientConn` of `internal/http2/transport.go` as a state machine
over caller operations and peer frames; `Req.H2.Monitor` is the strict peer. `Fixes.all` is the
code with `fixes/C06-1..4` applied; the counter-example theorems at the end show, for each of
the four repairs, an input on which the unchanged code fails the monitor (these inputs are the
directed scripts `caller-max-frame`, `chrome-receive-window`, `prio-even`, `big-headers-*` of the
script lane, which replays them on the implementation).

Assumptions of the main theorems (all decidable, see the `example`s):
* `cfg.ok` — the caller's fingerprint advertises legal values (windows ≤ 2^31-1);
* `Op.ok` — a request has a non-empty header block; the peer's SETTINGS_MAX_FRAME_SIZE is in the
  legal range (≥ 16384) and WINDOW_UPDATE increments are 31-bit numbers.
Nothing is assumed about the order or content of the peer's frames otherwise: RST_STREAM, GOAWAY,
SETTINGS changing windows up and down (negative windows included), WINDOW_UPDATE overflow, DATA
outside the windows, HEADERS after END_STREAM … are all covered.
-/
set_option linter.unusedSimpArgs false
namespace Req.Props.C06
open Req.H2 Req.H2.Flow Req.H2.Conn Req.H2.Monitor Req.Lemmas.C06

/-- **conn_conforms**: for every caller fingerprint, every operation list — i.e. every
interleaving of uploads, downloads, cancellations and peer frames at lock granularity — the
strict peer accepts every frame the client sends (flow-control windows incl. retroactive
SETTINGS_INITIAL_WINDOW_SIZE changes, MAX_FRAME_SIZE, MAX_CONCURRENT_STREAMS, odd increasing
stream ids, contiguous header blocks, nothing but RST_STREAM/WINDOW_UPDATE/PRIORITY on a closed
stream, legal WINDOW_UPDATEs) and is owed no SETTINGS acknowledgement at the end. -/
theorem conn_conforms (cfg : Cfg) (hfix : cfg.fixes = Fixes.all) (hcfg : cfg.ok)
    (ops : List Op) (hops : ∀ op ∈ ops, op.ok) :
    Monitor (history (run cfg ops)) = true := by
  unfold history run
  obtain ⟨m, r, h1, h2, h3, _⟩ := joint_runFrom ops hops (preface_run cfg) (rpreface_run cfg hfix hcfg)
    (sinv_init cfg hfix) (rinv_init cfg hfix hcfg)
  obtain ⟨q0, hq0, hq0s⟩ := push_run_clients Push.init rfl (newConn cfg).2
  obtain ⟨h4, q, h5⟩ := extra_runFrom ops (st := (newConn cfg).1) (ping_run_pf Ping.init (pf_newConn cfg)) hq0
    (fun hx => by rw [hq0s] at hx; cases hx)
  unfold Monitor
  rw [h1, h2, h4, h5]
  simp [Send.final, h3.pending, h3.hdr, Ping.final, Ping.init]

/-- a default connection, three uploads around the window and frame boundaries, the peer
changing SETTINGS_INITIAL_WINDOW_SIZE down to a negative window and up again: the hypotheses
of `conn_conforms` are satisfiable and the run is not trivial (it emits DATA frames) -/
def exampleCfg : Cfg :=
  { settings := [], connFlow := 0, prio := [], hdrPrio := false, maxHeaderList := 10485760, strict := false,
    fixes := Fixes.all }

def exampleOps : List Op :=
  [.peer (.settings [(sInitialWindowSize, 20000)]), .openStream 40 60000 true, .feed 1 0, .write 1, .feed 1 0, .write 1,
   .peer (.settings [(sInitialWindowSize, 10000)]), .peer (.windowUpdate 1 9999), .write 1,
   .peer (.windowUpdate 1 2), .write 1, .peer (.headers 1 false), .peer (.data 1 5000 10 false), .read 1 5000]

example : exampleCfg.fixes = Fixes.all := rfl
example : exampleCfg.ok := by
  refine ⟨fun v h => ?_, by decide⟩
  simp [exampleCfg, lastSetting] at h
example : ∀ op ∈ exampleOps, op.ok := by
  intro op h
  simp only [exampleOps, List.mem_cons, List.mem_nil_iff, or_false] at h
  rcases h with rfl | rfl | rfl | rfl | rfl | rfl | rfl | rfl | rfl | rfl | rfl | rfl | rfl | rfl <;>
    simp [Op.ok, PFrame.ok, sInitialWindowSize, sMaxFrameSize]
/-- the window goes negative (-10000, then -1) and the client sends exactly one byte once it is 1 -/
example : (history (run exampleCfg exampleOps)).filterMap (fun e => match e with
    | .c (.data id len _) => some (id, len) | _ => none) = [(1, 16384), (1, 3616), (1, 1)] := by decide


/-! ### stream identifiers -/

/-- **stream_ids**: the streams the client has opened (one HEADERS frame each, seen by the
strict peer in this order: `m.streams`) carry odd, strictly increasing ids — for every
PRIORITY-frame fingerprint, including even, zero and descending ids. -/
theorem stream_ids (cfg : Cfg) (hfix : cfg.fixes = Fixes.all) (ops : List Op) (hops : ∀ op ∈ ops, op.ok) :
    let st := (run cfg ops).1
    (st.streams.map (·.id)).Pairwise (· < ·) ∧ (∀ s ∈ st.streams, s.id % 2 = 1) ∧
    ∃ m, Send.run Send.init (history (run cfg ops)) = .ok m ∧
      m.streams.map (·.id) = st.streams.map (·.id) := by
  unfold history run
  obtain ⟨m, h1, h2⟩ := sim_runFrom ops hops (preface_run cfg) (sinv_init cfg hfix)
  exact ⟨h2.sorted, h2.oddIds, m, h1, rels_ids h2.rel⟩

/-- PRIORITY frames naming streams 9 and 4 (descending, the last one even): requests use 7, 9 -/
example : ((run { exampleCfg with prio := [9, 4] }
    [.peer (.settings []), .openStream 30 0 true, .openStream 30 0 true]).1.streams.map (·.id)) = [7, 9] := by decide

/-! ### SETTINGS acknowledgements -/

/-- **settings_acked**: in every run the client has written exactly one SETTINGS acknowledgement
per SETTINGS frame of the peer (frames that are themselves a protocol violation — an
INITIAL_WINDOW_SIZE above 2^31-1, answered by closing the connection — excepted), whatever else
happened in between. -/
theorem settings_acked (cfg : Cfg) (hfix : cfg.fixes = Fixes.all) (ops : List Op) (hops : ∀ op ∈ ops, op.ok) :
    ackCount (history (run cfg ops)) = settingsCount (history (run cfg ops)) := by
  have hrun : run cfg ops = runFrom (newConn cfg).1 ((newConn cfg).2.map Event.c) ops := rfl
  rw [hrun]
  unfold history
  obtain ⟨m, h1, h2⟩ := sim_runFrom ops hops (preface_run cfg) (sinv_init cfg hfix)
  have := pending_count _ h1
  simp only [h2.pending, Send.init, List.length_nil] at this
  omega

example : ackCount (history (run exampleCfg exampleOps)) = 2 := by decide

/-! ### WINDOW_UPDATE overflow -/

/-- **window_update_overflow**: `outflow.add` (the `(sum > n) == (f.n > 0)` test on the wrapped
`int32` sum) accepts an increment exactly when the true sum stays ≤ 2^31-1, and then stores the
true sum. -/
theorem window_update_overflow (w : Int) (inc : Nat) (hw : In32 w) (h1 : 1 ≤ inc) (h2 : inc ≤ 2147483647) :
    addWindow w inc = if w + inc ≤ 2147483647 then some (w + inc) else none := by
  rw [addWindow_spec w inc hw (by unfold In32; omega)]
  unfold In32 at *
  by_cases h : w + (inc : Int) ≤ 2147483647
  · have : -2147483648 ≤ w + (inc : Int) ∧ w + (inc : Int) ≤ 2147483647 := by omega
    simp [h, this]
  · have : ¬ (-2147483648 ≤ w + (inc : Int) ∧ w + (inc : Int) ≤ 2147483647) := by omega
    simp [h, this]

example : addWindow 2147418112 65535 = some 2147483647 := by decide
example : addWindow 2147418113 65535 = none := by decide
example : addWindow (-5) 2147483647 = some 2147483642 := by decide

/-- on the connection window an overflow closes the connection (FLOW_CONTROL_ERROR), on a stream
window it resets the stream; no window is changed -/
theorem window_update_overflow_conn (st : State) (inc : Nat) (hw : In32 st.connOut)
    (h1 : 1 ≤ inc) (h2 : inc ≤ 2147483647) (hov : st.connOut + inc > 2147483647) :
    peerWindowUpdate st 0 inc = ({ st with closed := true }, []) := by
  have hne : ¬ inc = 0 := by omega
  have : ¬ st.connOut + (inc : Int) ≤ 2147483647 := by omega
  simp [peerWindowUpdate, hne, window_update_overflow st.connOut inc hw h1 h2, this, connError]

/-! ### receive windows never go negative (the hypothesis of the bridging theorems) -/

/-- **inflow_nonneg**: in every reachable state the connection-level receive window satisfies
`0 ≤ avail`, `0 ≤ unsent`, `avail + unsent ≤ 2^31-1` — so `inflow.add` cannot overflow and the
`uint32` conversions in `inflow.take` are exact. -/
theorem inflow_nonneg (cfg : Cfg) (hfix : cfg.fixes = Fixes.all) (hcfg : cfg.ok)
    (ops : List Op) (hops : ∀ op ∈ ops, op.ok) :
    let st := (run cfg ops).1
    0 ≤ st.connIn.avail ∧ 0 ≤ st.connIn.unsent ∧ st.connIn.avail + st.connIn.unsent ≤ 2147483647 := by
  unfold run
  obtain ⟨m, r, _, _, _, h4⟩ := joint_runFrom ops hops (preface_run cfg) (rpreface_run cfg hfix hcfg)
    (sinv_init cfg hfix) (rinv_init cfg hfix hcfg)
  exact ⟨h4.connOK.avail, h4.connOK.unsent, h4.connOK.sum⟩

/-! ### credit -/

/-- **credit_conservation**: in every reachable state (unless the model has stopped at a Go
`panic`, which `inflow.add` reserves for an overflowing window) every byte of receive window the
client ever advertised is in exactly one place —
connection level: `avail + unsent + Σ buffered = int32(connFlow) + 65535`;
per stream whose body has not been closed: `avail + unsent + buffered = the stream's initial window` —
and nothing is held back (`unsent`) unless it is below `inflowMinRefresh` and below what the peer
still has. DATA for cancelled, reset and closed streams and all padding is refunded at once. -/
theorem credit_conservation (cfg : Cfg) (hfix : cfg.fixes = Fixes.all) (ops : List Op) (hops : ∀ op ∈ ops, op.ok) :
    let st := (run cfg ops).1
    st.panicked = true ∨
    (st.connIn.avail + st.connIn.unsent + sumBuffered st.streams = connInflowInit cfg.connFlow ∧
     Fresh st.connIn ∧
     ∀ s ∈ st.streams, Fresh s.inflow ∧
       (s.broken = false → s.readErr = false →
         s.inflow.avail + s.inflow.unsent + s.buffered = streamInflow0 cfg)) := by
  have hrun : run cfg ops = runFrom (newConn cfg).1 ((newConn cfg).2.map Event.c) ops := rfl
  rw [hrun]
  have := k_runFrom (T := connInflowInit cfg.connFlow) (S := streamInflow0 cfg) ops hops (preface_run cfg)
    (sinv_init cfg hfix) (Or.inr (cinv_init cfg))
  rcases this with ⟨h1, _⟩ | h
  · exact Or.inl h1
  · exact Or.inr ⟨h.conn, h.connFresh, fun s hs => ⟨h.strmFresh s hs, h.strm s hs⟩⟩

/-- **no_permanent_stall**: once the caller has consumed (read or closed) everything, the peer
has connection-level window: more than half of what was advertised — it is never left waiting
for credit that the client is sitting on. The same holds per stream. -/
theorem no_permanent_stall (cfg : Cfg) (hfix : cfg.fixes = Fixes.all) (ops : List Op) (hops : ∀ op ∈ ops, op.ok)
    (hp : (run cfg ops).1.panicked = false) (hz : sumBuffered (run cfg ops).1.streams = 0) :
    connInflowInit cfg.connFlow < 2 * (run cfg ops).1.connIn.avail ∨
    (run cfg ops).1.connIn.avail = connInflowInit cfg.connFlow := by
  rcases credit_conservation cfg hfix ops hops with h | ⟨h1, h2, _⟩
  · rw [hp] at h; cases h
  · rw [hz] at h1
    rcases h2 with h0 | ⟨_, hlt⟩
    · right; omega
    · left; omega

theorem no_permanent_stall_stream (cfg : Cfg) (hfix : cfg.fixes = Fixes.all) (ops : List Op)
    (hops : ∀ op ∈ ops, op.ok) (hp : (run cfg ops).1.panicked = false)
    (s : Stream) (hs : s ∈ (run cfg ops).1.streams) (hb : s.broken = false) (hre : s.readErr = false)
    (hz : s.buffered = 0) :
    streamInflow0 cfg < 2 * s.inflow.avail ∨ s.inflow.avail = streamInflow0 cfg := by
  rcases credit_conservation cfg hfix ops hops with h | ⟨_, _, h3⟩
  · rw [hp] at h; cases h
  · obtain ⟨hf, hc⟩ := h3 s hs
    have hc' := hc hb hre
    rw [hz] at hc'
    rcases hf with h0 | ⟨_, hlt⟩
    · right; omega
    · left; omega

/-- the download of `exampleOps`: 5010 bytes taken from both windows, 5000 buffered, then read -/
example : (run exampleCfg exampleOps).1.connIn = ⟨1073807359, 0⟩ := by decide
example : sumBuffered (run exampleCfg exampleOps).1.streams = 0 := by decide

/-! ### what the script lane observes is covered -/

/-- **script_covered**: the pumped execution the deterministic script lane compares with the
implementation (`scriptStep`: a scripted operation, then all body writers run until they block)
is the run of the machine on that operation, a wake-up (`Op.wake`: the lane broadcasts on
`cc.cond` after every operation) and `write` operations — one of the operation lists the
theorems above quantify over. -/
theorem script_covered (st : State) (hist : List Event) (op : Op) :
    ∃ ws : List Op, (∀ o ∈ ws, ∃ id, o = Op.write id) ∧
      (runFrom st hist (op :: Op.wake :: ws)).1 = (scriptStep st op).1 :=
  pump_is_run st hist op

/-! ### the unchanged code: one counter-example per repair (replayed on the implementation by the
directed scripts of the script lane) -/

/-- a fingerprint that advertises SETTINGS_MAX_FRAME_SIZE = 1 MiB -/
def cfgBigFrame (fx : Fixes) : Cfg :=
  { settings := [(sMaxFrameSize, 1048576), (sInitialWindowSize, 4194304)], connFlow := 0, prio := [],
    hdrPrio := false, maxHeaderList := 10485760, strict := false, fixes := fx }

def opsUpload : List Op := [.peer (.settings []), .openStream 54 100000 true, .feed 1 0, .write 1]

/-- unchanged code: a peer that advertised nothing receives a 65535-byte DATA frame -/
theorem caller_max_frame_size_counterexample :
    Monitor (history (run (cfgBigFrame { Fixes.all with maxFrame := false }) opsUpload)) = false ∧
    (history (run (cfgBigFrame { Fixes.all with maxFrame := false }) opsUpload)).getLast? = some (.c (.data 1 65535 false)) ∧
    Monitor (history (run (cfgBigFrame Fixes.all) opsUpload)) = true := by decide

/-- a fingerprint that advertises a 6 MiB stream window and 16 MiB frames -/
def cfgBigWindow (fx : Fixes) : Cfg :=
  { settings := [(sInitialWindowSize, 6291456), (sMaxFrameSize, 16777215)], connFlow := 15663105, prio := [],
    hdrPrio := false, maxHeaderList := 10485760, strict := false, fixes := fx }

/-- the peer sends 5 MiB on one stream: inside the 6 MiB it was granted -/
def opsDownload : List Op :=
  [.peer (.settings []), .openStream 51 0 true, .peer (.headers 1 false),
   .peer (.data 1 1048576 0 false), .peer (.data 1 1048576 0 false), .peer (.data 1 1048576 0 false),
   .peer (.data 1 1048576 0 false), .peer (.data 1 1048576 0 false)]

/-- unchanged code: the client closes the connection (FLOW_CONTROL_ERROR) on a peer that stayed
inside the advertised window; repaired code: it does not -/
theorem stream_receive_window_counterexample :
    (run (cfgBigWindow { Fixes.all with streamInflow := false }) opsDownload).1.closed = true ∧
    (run (cfgBigWindow Fixes.all) opsDownload).1.closed = false := by decide

/-- a PRIORITY fingerprint that names an even stream -/
def cfgPrioEven (fx : Fixes) : Cfg :=
  { settings := [], connFlow := 0, prio := [2], hdrPrio := false, maxHeaderList := 10485760, strict := false,
    fixes := fx }

def opsOpen : List Op := [.peer (.settings []), .openStream 51 0 true]

/-- unchanged code: the first request uses stream 4 -/
theorem even_stream_id_counterexample :
    Monitor (history (run (cfgPrioEven { Fixes.all with prioIds := false }) opsOpen)) = false ∧
    (history (run (cfgPrioEven { Fixes.all with prioIds := false }) opsOpen)).getLast? = some (.c (.headers 4 51 true true)) ∧
    (history (run (cfgPrioEven Fixes.all) opsOpen)).getLast? = some (.c (.headers 5 51 true true)) := by decide

/-- a header priority (all three browser presets) and a header block of 20000 bytes -/
def cfgHdrPrio (fx : Fixes) : Cfg :=
  { settings := [], connFlow := 0, prio := [], hdrPrio := true, maxHeaderList := 10485760, strict := false,
    fixes := fx }

def opsBigHeaders : List Op := [.peer (.settings []), .openStream 20000 0 true]

/-- unchanged code: a HEADERS frame of 16389 bytes for a peer whose limit is 16384 -/
theorem headers_priority_frame_size_counterexample :
    Monitor (history (run (cfgHdrPrio { Fixes.all with hdrPrio := false }) opsBigHeaders)) = false ∧
    (history (run (cfgHdrPrio { Fixes.all with hdrPrio := false }) opsBigHeaders)).drop 4 =
      [.c (.headers 1 16389 true false), .c (.continuation 1 3616 true)] ∧
    (history (run (cfgHdrPrio Fixes.all) opsBigHeaders)).drop 4 =
      [.c (.headers 1 16384 true false), .c (.continuation 1 3621 true)] := by decide


/-! ### below lock granularity: the SETTINGS-acknowledgement race (not repaired, known finding)

`conn_conforms` treats "decide the size of a DATA frame" (`awaitFlowControl`, under `cc.mu`) and
"write it" (under `cc.wmu`) as one step. The real code releases the lock in between, and
`processSettings` — which applies the peer's SETTINGS and writes the acknowledgement while
holding both locks — can run there. The frame then arrives after the acknowledgement although it
was sized under the old values. The history below is that interleaving: the frame comes from the
model's own `writeStep`, only its position is later. The strict peer rejects it; the
race-tolerant reading used to classify this known finding in the monitor lane accepts it. The
concurrent monitor lane observes this on the implementation (finding `c06-settings-ack-race`). -/

def raceHistory : List Event :=
  let r := run exampleCfg [.peer (.settings [(sInitialWindowSize, 65535)]), .openStream 40 60000 true, .feed 1 0]
  match findStream r.1.streams 1 with
  | none => []
  | some s =>
    match writeStep r.1.connOut r.1.maxFrameSize s with
    | none => []
    | some (_, _, f) => r.2 ++ [.p (.settings [(sInitialWindowSize, 4096)]), .c .settingsAck, .c f]

theorem settings_ack_race_counterexample :
    raceHistory.getLast? = some (.c (.data 1 16384 false)) ∧
    Monitor raceHistory = false ∧
    (match Tolerant.init.run raceHistory with | .ok _ => true | .error _ => false) = true := by decide

end Req.Props.C06
