import Req.Lemmas.C06Recv
/-!
C06 — HTTP/2 connections respect everything the peer advertised: property theorems.

The model (`Req.H2.Conn`) is one `ClientConn` of `internal/http2/transport.go` as a state machine
over caller operations and peer frames; `Req.H2.Monitor` is the strict peer. `Fixes.all` is the
code with `fixes/C06-1..4` applied; the counter-example theorems at the end show, for each of
the four repairs, an input on which the unchanged code fails the monitor (these inputs are the
directed scripts `caller-max-frame`, `chrome-receive-window`, `prio-even`, `big-headers-*` of the
script lane, which replays them on the implementation).

Assumptions of the main theorems (all decidable, see the `example`s):
* `cfg.ok` — the caller's fingerprint advertises legal values (windows ≤ 2^31-1);
* `Op.ok` — a request has a non-empty header block; the peer's SETTINGS_MAX_FRAME_SIZE is in the
  legal range (≥ 16384) and WINDOW_UPDATE increments are 31-bit numbers.
Nothing is assumed about the order or content of the peer's frames otherwise: RST_STREAM, GOAWAY,
SETTINGS changing windows up and down (negative windows included), WINDOW_UPDATE overflow, DATA
outside the windows, HEADERS after END_STREAM … are all covered.
-/
namespace Req.Props.C06
open Req.H2 Req.H2.Flow Req.H2.Conn Req.H2.Monitor Req.Lemmas.C06

/-- **conn_conforms**: for every caller fingerprint, every operation list — i.e. every
interleaving of uploads, downloads, cancellations and peer frames at lock granularity — the
strict peer accepts every frame the client sends (flow-control windows incl. retroactive
SETTINGS_INITIAL_WINDOW_SIZE changes, MAX_FRAME_SIZE, MAX_CONCURRENT_STREAMS, odd increasing
stream ids, contiguous header blocks, nothing but RST_STREAM/WINDOW_UPDATE/PRIORITY on a closed
stream, legal WINDOW_UPDATEs) and is owed no SETTINGS acknowledgement at the end. -/
theorem conn_conforms (cfg : Cfg) (hfix : cfg.fixes = Fixes.all) (hcfg : cfg.ok)
    (ops : List Op) (hops : ∀ op ∈ ops, op.ok) :
    Monitor (history (run cfg ops)) = true := by
  unfold history run
  obtain ⟨m, r, h1, h2, h3, _⟩ := joint_runFrom ops hops (preface_run cfg) (rpreface_run cfg hfix hcfg)
    (sinv_init cfg hfix) (rinv_init cfg hfix hcfg)
  unfold Monitor
  rw [h1, h2]
  simp [Send.final, h3.pending, h3.hdr]

/-- a default connection, three uploads around the window and frame boundaries, the peer
changing SETTINGS_INITIAL_WINDOW_SIZE down to a negative window and up again: the hypotheses
of `conn_conforms` are satisfiable and the run is not trivial (it emits DATA frames) -/
def exampleCfg : Cfg :=
  { settings := [], connFlow := 0, prio := [], hdrPrio := false, maxHeaderList := 10485760, strict := false,
    fixes := Fixes.all }

def exampleOps : List Op :=
  [.peer (.settings [(sInitialWindowSize, 20000)]), .openStream 40 60000 true, .feed 1 0, .write 1, .feed 1 0, .write 1,
   .peer (.settings [(sInitialWindowSize, 10000)]), .peer (.windowUpdate 1 9999), .write 1,
   .peer (.windowUpdate 1 2), .write 1, .peer (.headers 1 false), .peer (.data 1 5000 10 false), .read 1 5000]

example : exampleCfg.fixes = Fixes.all := rfl
example : exampleCfg.ok := by
  refine ⟨fun v h => ?_, by decide⟩
  simp [exampleCfg, lastSetting] at h
example : ∀ op ∈ exampleOps, op.ok := by
  intro op h
  simp only [exampleOps, List.mem_cons, List.mem_nil_iff, or_false] at h
  rcases h with rfl | rfl | rfl | rfl | rfl | rfl | rfl | rfl | rfl | rfl | rfl | rfl | rfl | rfl <;>
    simp [Op.ok, PFrame.ok, sInitialWindowSize, sMaxFrameSize]
/-- the window goes negative (-10000, then -1) and the client sends exactly one byte once it is 1 -/
example : (history (run exampleCfg exampleOps)).filterMap (fun e => match e with
    | .c (.data id len _) => some (id, len) | _ => none) = [(1, 16384), (1, 3616), (1, 1)] := by decide

end Req.Props.C06
