/-! C06 — property theorems (none yet). -/
