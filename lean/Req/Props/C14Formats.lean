import Req.Lemmas.C14Formats
import Req.Props.C14
/-!
C14 — "exactly the original bytes … corrupt data yields a read error", for REAL container
formats.

`Req.Props.C14` Part 2 states the reader half of the property for an abstract `Codec` with a
streaming law. Here the parameter is instantiated by the formats `Content-Encoding: gzip` and
`deflate` actually carry — RFC 1952 members around RFC 1951 stored blocks, as Go's
`compress/gzip` / `compress/flate` read them (`Req.Client.CompressFormats`) — and the
statements are proved outright:

* round trip for every payload, every split into blocks, every combination of header fields
  (FTEXT, FHCRC, FEXTRA, FNAME, FCOMMENT, MTIME/XFL/OS), any number of members, an empty body;
* a stream cut anywhere inside a member ends in an error after a prefix of the payload; cut at a
  member boundary it ends the way the framing layer says (the reason the `short` lanes need the
  Content-Length accounting of the transport: seeded/C14-1);
* wrong magic / method, wrong FHCRC, NLEN ≠ ~LEN, reserved block type, wrong CRC-32, wrong
  ISIZE, bytes after the last member: an error, never a clean end — for ANY check-sum function
  (the check compares what is carried with what is computed);
* `deflate` is a RAW stream for imroc/req: a zlib-wrapped body (RFC 9110's deflate) and a gzip
  body are read errors, trailing bytes after the final block go unnoticed;
* the automata are `Codec`s (`Auto.codec`, streaming law proved in `Req.Lemmas.C14Auto`), so
  `read_size_independent`, `delivered_original`, `corrupt_yields_error`, `sticky_error` … apply:
  `stored_gzip_any_schedule`, `truncated_gzip_any_schedule`.

Tie: lanes `containers` (internal/compress) and `containers_e2e` (root, three protocols) feed
the model ENCODER's output — and damaged versions of it — to the real readers and compare what
they deliver with the model DECODER (driver lanes `c14enc`, `c14dec`).
-/
namespace Req.Props.C14Formats
open Req.Proto Req.Compress Req.Compress.Fmt Req.Compress.Auto

/-- what the encoder is asked for: header fields, the payload cut into blocks -/
structure Member where
  hdr : GzHeader
  blocks : List Bytes
  last : Bytes

def Member.payload (m : Member) : Bytes := m.blocks.flatten ++ m.last
def Member.bytes (S : Sums) (m : Member) : Bytes := gzMember S m.hdr m.blocks m.last
def Member.OK (m : Member) : Prop := m.hdr.WF ∧ okChunks m.blocks m.last

def wireOf (S : Sums) (ms : List Member) : Bytes := (ms.map (·.bytes S)).flatten
def payloadOf (ms : List Member) : Bytes := (ms.map (·.payload)).flatten

/-- what `compress/gzip.Reader` makes of a body that ends with `fin` -/
def gunzip (S : Sums) (fin : Term) (wire : Bytes) : Bytes × Term := (gzip S).mean fin wire gInit
/-- what `compress/flate`'s reader makes of it -/
def inflate (fin : Term) (wire : Bytes) : Bytes × Term := deflate.mean fin wire .hdr

variable (S : Sums)

theorem units_of (ms : List Member) (hok : ∀ m ∈ ms, m.OK) :
    ∀ u ∈ ms.map (fun m => (m.bytes S, m.payload)), (gzip1 S).IsUnit u.1 u.2 := by
  intro u hu
  obtain ⟨m, hm, rfl⟩ := List.mem_map.mp hu
  exact member_unit S m.hdr (hok m hm).1 m.blocks m.last (hok m hm).2

theorem wire_eq (ms : List Member) :
    ((ms.map (fun m => (m.bytes S, m.payload))).map (·.1)).flatten = wireOf S ms := by
  simp [wireOf, List.map_map, Function.comp_def]

theorem payload_eq (ms : List Member) :
    ((ms.map (fun m => (m.bytes S, m.payload))).map (·.2)).flatten = payloadOf ms := by
  simp [payloadOf, List.map_map, Function.comp_def]

/-! ### gzip: what is delivered -/

/-- **gunzip_members** — any number of members (none: an empty body), each with any header
fields and any block structure: exactly the payloads, in order, and the end of the underlying
body — a clean `io.EOF` when the body ends cleanly. -/
theorem gunzip_members (ms : List Member) (hok : ∀ m ∈ ms, m.OK) (fin : Term) :
    gunzip S fin (wireOf S ms) = (payloadOf ms, fin) := by
  have := mean_many_units (gzip1 S) (gzip1_lawful S) rfl _ (units_of S ms hok) fin
  rw [wire_eq, payload_eq] at this
  exact this

/-- `Content-Encoding: gzip` with an empty body: empty, ending as the body ends. -/
theorem gunzip_empty_body (fin : Term) : gunzip S fin [] = ([], fin) :=
  gunzip_members S [] (by simp) fin

/-- **gunzip_truncated** — complete members followed by a strict, non-empty prefix of one more:
the complete payloads, a prefix of the next one, then `io.ErrUnexpectedEOF` (or the underlying
body's own error). Never a clean end, never a byte that is not the payload's. -/
theorem gunzip_truncated (ms : List Member) (hok : ∀ m ∈ ms, m.OK) (m : Member) (hm : m.OK)
    (p q : Bytes) (hw : m.bytes S = p ++ q) (hp : p ≠ []) (hq : q ≠ []) (fin : Term) :
    ∃ y z, m.payload = y ++ z ∧ gunzip S fin (wireOf S ms ++ p) = (payloadOf ms ++ y, noEOF fin) := by
  have hu := member_unit S m.hdr hm.1 m.blocks m.last hm.2
  obtain ⟨y, z, hyz, h⟩ := mean_many_truncated (gzip1 S) (gzip1_lawful S) rfl _ (units_of S ms hok)
    (m.bytes S) m.payload p q hu hw hp hq fin
  rw [wire_eq, payload_eq] at h
  exact ⟨y, z, hyz, h⟩

/-- **gunzip_member_boundary_needs_framing** — a multi-member message that stops after a
complete member: the decoder sees a valid end. Whether the caller gets an error depends on the
framing layer alone: `io.ErrUnexpectedEOF` from the Content-Length accounting comes through,
a clean end of the body reads as a clean end of the (shortened) payload. -/
theorem gunzip_member_boundary_needs_framing (ms more : List Member) (hok : ∀ m ∈ ms, m.OK)
    (_hmore : more ≠ []) :
    gunzip S (.err 1) (wireOf S ms) = (payloadOf ms, .err 1) ∧
    gunzip S .eof (wireOf S ms) = (payloadOf ms, .eof) :=
  ⟨gunzip_members S ms hok _, gunzip_members S ms hok _⟩

/-! ### gzip: damaged streams -/

theorem after_members (ms : List Member) (hok : ∀ m ∈ ms, m.OK) (r : Bytes) (hr : r ≠ []) (fin : Term) :
    gunzip S fin (wireOf S ms ++ r) =
      (payloadOf ms ++ (gunzip S fin r).1, (gunzip S fin r).2) := by
  have := mean_many_units_then (gzip1 S) (gzip1_lawful S) rfl _ (units_of S ms hok) r hr fin
  rw [wire_eq, payload_eq] at this
  exact this

/-- **gunzip_bad_magic** — where a member must start, ten or more bytes that do not begin with
`1f 8b 08`: `gzip.ErrHeader`. With `ms = []`: a body that is not gzip at all; with members
before: trailing garbage. -/
theorem gunzip_bad_magic (ms : List Member) (hok : ∀ m ∈ ms, m.OK)
    (b0 b1 b2 b3 b4 b5 b6 b7 b8 b9 : UInt8) (r : Bytes) (h : ¬(b0 = 0x1f ∧ b1 = 0x8b ∧ b2 = 8))
    (fin : Term) :
    gunzip S fin (wireOf S ms ++ b0 :: b1 :: b2 :: b3 :: b4 :: b5 :: b6 :: b7 :: b8 :: b9 :: r) =
      (payloadOf ms, errCorrupt) := by
  rw [after_members S ms hok _ (by simp)]
  have := mean_many_of_failed (gzip1 S) _ errCorrupt [] r _ rfl
    (run_bad_magic S b0 b1 b2 b3 b4 b5 b6 b7 b8 b9 r h) rfl fin
  have this' : gunzip S fin (b0 :: b1 :: b2 :: b3 :: b4 :: b5 :: b6 :: b7 :: b8 :: b9 :: r) =
      ([], errCorrupt) := this
  rw [this']; simp

/-- **gunzip_stray_bytes** — one to nine bytes after the last member (or as the whole body):
`io.ErrUnexpectedEOF`, whatever the bytes are. Together with `gunzip_bad_magic`: bytes after the
last member never go unnoticed. -/
theorem gunzip_stray_bytes (ms : List Member) (hok : ∀ m ∈ ms, m.OK) (g : Bytes)
    (h0 : g ≠ []) (h9 : g.length ≤ 9) (fin : Term) :
    gunzip S fin (wireOf S ms ++ g) = (payloadOf ms, noEOF fin) := by
  rw [after_members S ms hok _ h0]
  obtain ⟨b, g', rfl⟩ := List.exists_cons_of_ne_nil h0
  obtain ⟨ok', flg', hc', hrun⟩ := run_fixed_partial S 0 true 0 0 (b :: g') (by simpa using h9)
  have := mean_many_of_working (gzip1 S) (gzip1_lawful S) b g' [] _ rfl hrun rfl fin
  have this' : gunzip S fin (b :: g') = ([], noEOF fin) := this
  rw [this']; simp

/-- **gunzip_bad_trailer** — a member whose eight trailer bytes are not the CRC-32 and the size
of what was decoded: the payload is delivered, then `gzip.ErrChecksum` — for ANY check-sum
function `S`. -/
theorem gunzip_bad_trailer (ms : List Member) (hok : ∀ m ∈ ms, m.OK) (m : Member) (hm : m.OK)
    (t0 t1 t2 t3 t4 t5 t6 t7 : UInt8) (r : Bytes)
    (h : [t0, t1, t2, t3, t4, t5, t6, t7] ≠
      le32 (S.crc 0 m.payload) ++ le32 (UInt32.ofNat m.payload.length)) (fin : Term) :
    gunzip S fin (wireOf S ms ++ (m.hdr.bytes S ++ stored m.blocks m.last ++
        t0 :: t1 :: t2 :: t3 :: t4 :: t5 :: t6 :: t7 :: r)) =
      (payloadOf ms ++ m.payload, errCorrupt) := by
  have hne : m.hdr.bytes S ++ stored m.blocks m.last ++
      t0 :: t1 :: t2 :: t3 :: t4 :: t5 :: t6 :: t7 :: r ≠ [] := by
    simp [GzHeader.bytes, GzHeader.covered, GzHeader.fixedPart]
  rw [after_members S ms hok _ hne]
  have hb := run_body S (stored m.blocks m.last) .hdr 0 0 m.payload rfl (run_stored _ _ hm.2)
  have hrun : (gzip1 S).run (m.hdr.bytes S ++ stored m.blocks m.last ++
      t0 :: t1 :: t2 :: t3 :: t4 :: t5 :: t6 :: t7 :: r) gInit =
      (.failed errCorrupt, m.payload, r) := by
    rw [List.append_assoc, run_header S m.hdr hm.1, enterBody,
      run_seq (gzip1 S) _ _ _ _ _ hb]
    simp only [Nat.zero_add]
    rw [run_trailer_bad S _ _ t0 t1 t2 t3 t4 t5 t6 t7 r h]
    simp
  have := mean_many_of_failed (gzip1 S) _ errCorrupt m.payload r _ rfl hrun rfl fin
  have this' : gunzip S fin (m.hdr.bytes S ++ stored m.blocks m.last ++
      t0 :: t1 :: t2 :: t3 :: t4 :: t5 :: t6 :: t7 :: r) = (m.payload, errCorrupt) := this
  rw [this']

/-- **gunzip_bad_hcrc** — FHCRC set and not the low 16 bits of the header's CRC-32:
`gzip.ErrHeader`, nothing of that member delivered. -/
theorem gunzip_bad_hcrc (ms : List Member) (hok : ∀ m ∈ ms, m.OK) (h : GzHeader) (wf : h.WF)
    (hh : h.hcrc = true) (x y : UInt8) (r : Bytes)
    (hne : [x, y] ≠ (le32 (S.crc 0 h.covered)).take 2) (fin : Term) :
    gunzip S fin (wireOf S ms ++ (h.covered ++ x :: y :: r)) = (payloadOf ms, errCorrupt) := by
  rw [after_members S ms hok _ (by simp [GzHeader.covered, GzHeader.fixedPart])]
  have := mean_many_of_failed (gzip1 S) _ errCorrupt [] r _ rfl
    (run_header_bad_hcrc S h wf hh x y r hne) rfl fin
  have this' : gunzip S fin (h.covered ++ x :: y :: r) = ([], errCorrupt) := this
  rw [this']; simp

/-- **gunzip_bad_block** — inside a member, a stored block whose NLEN is not the complement of
its LEN (after any number of good blocks): the good blocks' bytes, then
`flate.CorruptInputError`. -/
theorem gunzip_bad_block (h : GzHeader) (wf : h.WF) (cs : List Bytes) (hcs : ∀ c ∈ cs, c.length < 65536)
    (b l0 l1 n0 n1 : UInt8) (r : Bytes) (hb : (b >>> 1) &&& 3 = 0)
    (hbad : ¬(l0 ^^^ n0 = 255 ∧ l1 ^^^ n1 = 255)) (fin : Term) :
    gunzip S fin (h.bytes S ++ ((cs.map (block false)).flatten ++ b :: l0 :: l1 :: n0 :: n1 :: r)) =
      (cs.flatten, errCorrupt) := by
  have hd : deflate.run ((cs.map (block false)).flatten ++ b :: l0 :: l1 :: n0 :: n1 :: r) .hdr =
      (.failed errCorrupt, cs.flatten, r) := by
    induction cs with
    | nil => simpa using run_bad_nlen b l0 l1 n0 n1 r hb hbad
    | cons c cs ih =>
      have := ih (fun x hx => hcs x (by simp [hx]))
      simp only [List.map_cons, List.flatten_cons, List.append_assoc]
      rw [run_seq deflate _ _ .hdr (afterBlock false) c (run_block false c (hcs c (by simp)))]
      show ((deflate.run _ .hdr).1, c ++ (deflate.run _ .hdr).2.1, (deflate.run _ .hdr).2.2) = _
      rw [this]
  have hrun : (gzip1 S).run (h.bytes S ++ ((cs.map (block false)).flatten ++
      b :: l0 :: l1 :: n0 :: n1 :: r)) gInit = (.failed errCorrupt, cs.flatten, r) := by
    rw [run_header S h wf, enterBody]
    exact run_body_failed S _ .hdr 0 0 _ _ _ rfl hd
  exact mean_many_of_failed (gzip1 S) _ errCorrupt cs.flatten r _ rfl hrun rfl fin

/-! ### `deflate` is a raw stream for imroc/req -/

/-- **inflate_stored** — a stored-block stream, then anything: the payload and a clean end.
Bytes after the final block are NOT noticed (`compress/flate` stops reading there, and
`internal/compress.DeflateReader` hands its verdict on). -/
theorem inflate_stored (cs : List Bytes) (last : Bytes) (h : okChunks cs last) (r : Bytes)
    (fin : Term) : inflate fin (stored cs last ++ r) = (cs.flatten ++ last, .eof) :=
  mean_unit deflate _ _ r (stored_unit cs last h) fin

/-- **inflate_truncated** — a strict, non-empty prefix: a prefix of the payload, then an error. -/
theorem inflate_truncated (cs : List Bytes) (last : Bytes) (h : okChunks cs last) (p q : Bytes)
    (hw : stored cs last = p ++ q) (hp : p ≠ []) (hq : q ≠ []) (fin : Term) :
    ∃ y z, cs.flatten ++ last = y ++ z ∧ inflate fin p = (y, noEOF fin) :=
  mean_unit_truncated deflate deflate_lawful rfl _ _ p q (stored_unit cs last h) hw hp hq fin

/-- `Content-Encoding: deflate` with an empty body is an error (unlike gzip). -/
theorem inflate_empty_body (fin : Term) : inflate fin [] = ([], noEOF fin) := rfl

theorem inflate_reserved_type (b : UInt8) (r : Bytes) (h : (b >>> 1) &&& 3 = 3) (fin : Term) :
    inflate fin (b :: r) = ([], errCorrupt) := by
  have h1 := run_reserved_type b r h
  show ((deflate.run (b :: r) .hdr).2.1, deflate.verdict fin (deflate.run (b :: r) .hdr).1) = _
  rw [h1]; rfl

theorem inflate_bad_nlen (b l0 l1 n0 n1 : UInt8) (r : Bytes) (hb : (b >>> 1) &&& 3 = 0)
    (h : ¬(l0 ^^^ n0 = 255 ∧ l1 ^^^ n1 = 255)) (fin : Term) :
    inflate fin (b :: l0 :: l1 :: n0 :: n1 :: r) = ([], errCorrupt) := by
  have h1 := run_bad_nlen b l0 l1 n0 n1 r hb h
  show ((deflate.run (b :: l0 :: l1 :: n0 :: n1 :: r) .hdr).2.1,
    deflate.verdict fin (deflate.run (b :: l0 :: l1 :: n0 :: n1 :: r) .hdr).1) = _
  rw [h1]; rfl

/-- **gzip_under_deflate** — a gzip body labelled `deflate`: the magic byte 0x1f reads as a
final block of the reserved type: a read error at once, nothing delivered. -/
theorem gzip_under_deflate (m : Member) (r : Bytes) (fin : Term) :
    inflate fin (m.bytes S ++ r) = ([], errCorrupt) := by
  have : m.bytes S ++ r = 0x1f :: ((m.bytes S ++ r).drop 1) := by
    simp [Member.bytes, gzMember, GzHeader.bytes, GzHeader.covered, GzHeader.fixedPart]
  rw [this]
  exact inflate_reserved_type 0x1f _ (by decide) fin

def firstBlockLen : List Bytes → Bytes → Nat
  | [], last => last.length
  | c :: _, _ => c.length

theorem stored_head (cs : List Bytes) (last : Bytes) :
    ∃ hb tl, stored cs last = hb :: UInt8.ofNat (firstBlockLen cs last % 256) ::
      UInt8.ofNat (firstBlockLen cs last / 256) :: tl := by
  cases cs with
  | nil => exact ⟨1, _, by simp [stored, block, le16, firstBlockLen]; rfl⟩
  | cons c cs => exact ⟨0, _, by simp [stored, block, le16, firstBlockLen]; rfl⟩

/-- **zlib_under_deflate** — RFC 9110 defines the `deflate` coding as the zlib format; the fork
reads it as a raw DEFLATE stream. The zlib header byte 0x78 then reads as a stored block whose
LEN/NLEN are the next four bytes; unless the first real block happens to be 0x..63 bytes long
that is a read error — a standards-conforming `deflate` response cannot be decoded (but is never
delivered as garbage). -/
theorem zlib_under_deflate (cs : List Bytes) (last adler r : Bytes)
    (hlen : firstBlockLen cs last % 256 ≠ 99) (fin : Term) :
    inflate fin (zlibWrap (stored cs last) adler ++ r) = ([], errCorrupt) := by
  obtain ⟨hb, tl, hst⟩ := stored_head cs last
  have hx : ¬((0x9c : UInt8) ^^^ UInt8.ofNat (firstBlockLen cs last % 256) = 255 ∧
      hb ^^^ UInt8.ofNat (firstBlockLen cs last / 256) = 255) := by
    intro ⟨h1, _⟩
    have h2 : UInt8.ofNat (firstBlockLen cs last % 256) = 0x63 := by
      have : (0x9c : UInt8) ^^^ ((0x9c : UInt8) ^^^ UInt8.ofNat (firstBlockLen cs last % 256)) =
          (0x9c : UInt8) ^^^ 255 := by rw [h1]
      rw [← UInt8.xor_assoc, UInt8.xor_self, UInt8.zero_xor] at this
      rw [this]; decide
    have h3 := congrArg UInt8.toNat h2
    simp [UInt8.toNat_ofNat'] at h3
    omega
  simp only [zlibWrap, hst, List.cons_append, List.nil_append]
  exact inflate_bad_nlen 0x78 0x9c hb _ _ _ (by decide) hx fin

/-! ### the formats are `Codec`s: Part 2 of `Req.Props.C14` applies -/

def gzipCodec : Codec := (gzip S).codec
def deflateCodec : Codec := deflate.codec

theorem gzipCodec_total (src : Src) : (gzipCodec S).total src = gunzip S src.fin src.data := rfl
theorem deflateCodec_total (src : Src) : deflateCodec.total src = inflate src.fin src.data := rfl

/-- **stored_gzip_any_schedule** — the gzip reader the caller finds in `Response.Body` (either
one: `transport.go gzipReader`, `compress.GzipReader`), on any stack, over a body of gzip
members, read with ANY sequence of buffer sizes: when a `Read` reports the end, everything read
is exactly the payloads and the end is `io.EOF`. -/
theorem stored_gzip_any_schedule (codecs : Alg → Codec) (hc : codecs .gzip = gzipCodec S)
    (site : Site) (ms : List Member) (hok : ∀ m ∈ ms, m.OK) (k : BodyKind)
    (hk : k = .gunzip ∨ k = .decode .gzip) (ns : List Nat) (t : Term)
    (h : (drain (C14.bodyReader codecs site ⟨wireOf S ms, .eof⟩ k).R
      (C14.bodyReader codecs site ⟨wireOf S ms, .eof⟩ k).s ns).2.2 = some t) :
    (drain (C14.bodyReader codecs site ⟨wireOf S ms, .eof⟩ k).R
      (C14.bodyReader codecs site ⟨wireOf S ms, .eof⟩ k).s ns).2.1 = payloadOf ms ∧ t = .eof := by
  have := C14.read_size_independent codecs site ⟨wireOf S ms, .eof⟩ k ns t h
  have hd : C14.delivered codecs ⟨wireOf S ms, .eof⟩ k = (payloadOf ms, .eof) := by
    rcases hk with rfl | rfl <;>
      simp [C14.delivered, deliver, hc, gzipCodec_total, gunzip_members S ms hok]
  rw [hd] at this
  exact ⟨congrArg Prod.fst this, congrArg Prod.snd this⟩

/-- **truncated_gzip_any_schedule** — the same readers over a body cut inside a member: every
read schedule ends in `io.ErrUnexpectedEOF`; what was read before is the complete members'
payloads and a prefix of the cut one's. -/
theorem truncated_gzip_any_schedule (codecs : Alg → Codec) (hc : codecs .gzip = gzipCodec S)
    (site : Site) (ms : List Member) (hok : ∀ m ∈ ms, m.OK) (m : Member) (hm : m.OK)
    (p q : Bytes) (hw : m.bytes S = p ++ q) (hp : p ≠ []) (hq : q ≠ []) (k : BodyKind)
    (hk : k = .gunzip ∨ k = .decode .gzip) (ns : List Nat) (t : Term)
    (h : (drain (C14.bodyReader codecs site ⟨wireOf S ms ++ p, .eof⟩ k).R
      (C14.bodyReader codecs site ⟨wireOf S ms ++ p, .eof⟩ k).s ns).2.2 = some t) :
    t = .err 1 ∧ ∃ y z, m.payload = y ++ z ∧
      (drain (C14.bodyReader codecs site ⟨wireOf S ms ++ p, .eof⟩ k).R
        (C14.bodyReader codecs site ⟨wireOf S ms ++ p, .eof⟩ k).s ns).2.1 = payloadOf ms ++ y := by
  obtain ⟨y, z, hyz, hg⟩ := gunzip_truncated S ms hok m hm p q hw hp hq .eof
  have := C14.read_size_independent codecs site ⟨wireOf S ms ++ p, .eof⟩ k ns t h
  have hd : C14.delivered codecs ⟨wireOf S ms ++ p, .eof⟩ k = (payloadOf ms ++ y, .err 1) := by
    rcases hk with rfl | rfl <;> simp [C14.delivered, deliver, hc, gzipCodec_total, hg, noEOF]
  rw [hd] at this
  exact ⟨congrArg Prod.snd this, y, z, hyz, congrArg Prod.fst this⟩

/-! ### non-vacuity: real bytes, the real CRC-32 -/

/-- "hello" as two stored blocks in a member with FHCRC, FEXTRA and FNAME -/
def demoHeader : GzHeader := ⟨false, true, some [1, 2, 3], some [110], none, 0, 0, 0, 0, 0, 255⟩
def demoMember : Member := ⟨demoHeader, [[104, 101]], [108, 108, 111]⟩

theorem demoMember_ok : demoMember.OK := by
  refine ⟨⟨?_, ?_, ?_⟩, ?_, ?_⟩
  · intro e he; cases he; decide
  · exact ⟨by intro b hb; simp [demoMember, demoHeader] at hb; subst hb; decide, by decide⟩
  · trivial
  · intro c hc; simp [demoMember] at hc; subst hc; decide
  · decide

-- 1f 8b 08 0e … the bytes every gzip implementation accepts
example : (demoMember.bytes ieee).take 12 = [0x1f, 0x8b, 8, 14, 0, 0, 0, 0, 0, 255, 3, 0] := by
  decide
example : gunzip ieee .eof (wireOf ieee [demoMember, demoMember]) =
    ([104, 101, 108, 108, 111, 104, 101, 108, 108, 111], .eof) :=
  gunzip_members ieee [demoMember, demoMember] (by intro m hm; simp at hm; subst hm; exact demoMember_ok) .eof
example : inflate .eof (stored [[104, 101]] [108, 108, 111] ++ [9, 9]) = ([104, 101, 108, 108, 111], .eof) :=
  inflate_stored _ _ ⟨by intro c hc; simp at hc; subst hc; decide, by decide⟩ _ _
example : inflate .eof (zlibWrap (stored [] [1, 2, 3]) (adler32 [1, 2, 3])) = ([], .err 2) := by
  decide

end Req.Props.C14Formats
