import Req.Pool.H1PoolDial
import Req.Lemmas.C09PoolOnce
/-!
# C09, round 5: `CloseIdleConnections` running concurrently with requests that are dialling

Model `Req/Pool/H1PoolDial.lean` (the pool model plus the dial contexts).  For every op list
(= interleaving at lock granularity of any number of `getConn` calls, dial goroutines, returns
to the pool and `CloseIdleConnections` calls):

* `close_idle_keeps_wanted_dials` — a dial whose context has been cancelled belongs to a want that
  is no longer waiting: a caller in the middle of getting a connection never has its dial
  cancelled by somebody else's `CloseIdleConnections` (seed C09-r5-1 dropped the `!w.waiting()` test);
* `cancelled_dial_reports_to_nobody` — when such a dial then fails (`dialFail`), `tryDeliver` finds
  the want done: no caller is handed the cancellation error, no want changes state;
* `close_idle_cancels_unwanted` — conversely the dials it is meant to stop ARE stopped.
-/
namespace Req.Props.C09Dial
open Req.Pool.H1Pool Req.Pool.H1PoolDial

def DInv (d : DSt) : Prop := ∀ w, d.ctxCancelled w = true → d.s.wst w ≠ .waiting

theorem dstep_s (cfg : Cfg) (d : DSt) (op : Op) : (dstep cfg d op).1.s = (step cfg d.s op).1 := by
  cases op <;> rfl

theorem drun_s (cfg : Cfg) : ∀ (ops : List Op) (d : DSt), (drun cfg d ops).s = run cfg d.s ops
  | [], _ => rfl
  | op :: ops, d => by
    simp only [drun, run]
    rw [drun_s cfg ops, dstep_s]

theorem mem_cancelTargets (s : St) (w : Want) :
    w ∈ cancelTargets s ↔ w ∈ s.dip ∧ s.cancelNil w = false ∧ s.wst w ≠ .waiting := by
  simp [cancelTargets]

theorem DInv_step (cfg : Cfg) (d : DSt) (op : Op) (h : DInv d) : DInv (dstep cfg d op).1 := by
  intro w hw
  rw [dstep_s]
  have keep := (Req.Lemmas.C09PoolOnce.WstOK_step cfg d.s op w).1
  by_cases hold : d.ctxCancelled w = true
  · exact keep (h w hold)
  · cases op
    case closeIdleConnections =>
      simp only [dstep, Bool.or_eq_true, hold] at hw
      have hm : w ∈ cancelTargets d.s := by simpa using hw
      exact keep ((mem_cancelTargets d.s w).1 hm).2.2
    all_goals exact absurd hw hold

theorem DInv_run (cfg : Cfg) : ∀ (ops : List Op) (d : DSt), DInv d → DInv (drun cfg d ops)
  | [], _, h => h
  | op :: ops, d, h => DInv_run cfg ops _ (DInv_step cfg d op h)

/-- **CloseIdleConnections keeps the dials somebody waits for.** -/
theorem close_idle_keeps_wanted_dials (cfg : Cfg) (ops : List Op) (w : Want)
    (h : (drun cfg {} ops).s.wst w = .waiting) : (drun cfg {} ops).ctxCancelled w = false := by
  cases hc : (drun cfg {} ops).ctxCancelled w
  · rfl
  · exact absurd h (DInv_run cfg ops {} (fun _ h => by cases h) w hc)

/-- A dial that fails because `CloseIdleConnections` cancelled it hands its error to nobody and
changes no want. -/
theorem cancelled_dial_reports_to_nobody (cfg : Cfg) (ops : List Op) (w : Want)
    (h : (drun cfg {} ops).ctxCancelled w = true) :
    (step cfg (drun cfg {} ops).s (.dialFail w)).2 ≠ .bool true ∧
    (step cfg (drun cfg {} ops).s (.dialFail w)).1.wst = (drun cfg {} ops).s.wst := by
  have hw := DInv_run cfg ops {} (fun _ h => by cases h) w h
  generalize (drun cfg {} ops).s = s at hw
  simp only [step]
  cases hk : s.wkey w with
  | none => simp
  | some k =>
    simp only
    split
    · simp
    · refine ⟨by simp [hw], ?_⟩
      simp [decConns]
      split
      · rfl
      · split
        · rfl
        · split <;> simp [startDial]

/-- The dials nobody waits for are cancelled by the call. -/
theorem close_idle_cancels_unwanted (cfg : Cfg) (d : DSt) (w : Want) (hd : w ∈ d.s.dip)
    (hn : d.s.cancelNil w = false) (hw : d.s.wst w ≠ .waiting) :
    (dstep cfg d .closeIdleConnections).1.ctxCancelled w = true := by
  have : w ∈ cancelTargets d.s := (mem_cancelTargets d.s w).2 ⟨hd, hn, hw⟩
  simp [dstep, this]

/-! ### non-vacuity -/

def exCfg : Cfg := ⟨0, 0, 2, false⟩

/-- want 0 dials (dial running), gets connection 7 handed over by want 1's return instead, so its
own dial is unwanted; want 2 is dialling and waiting. `CloseIdleConnections` cancels the dial of 0
and not that of 2. -/
def exOps : List Op :=
  [.newWant 1 0, .queueIdle 1, .queueDial 1, .dialOk 1 7, .recv 1,
   .newWant 0 0, .queueIdle 0, .queueDial 0,
   .finishPut 1,
   .newWant 2 0, .queueIdle 2, .queueDial 2,
   .closeIdleConnections]

example : (drun exCfg {} exOps).ctxCancelled 0 = true ∧ (drun exCfg {} exOps).ctxCancelled 2 = false ∧
    (drun exCfg {} exOps).s.wst 2 = .waiting ∧ (drun exCfg {} exOps).s.wst 0 = .gotConn 7 := by decide

end Req.Props.C09Dial
