import Req.Lemmas.H1Framing
/-!
C04 — the framing table and the keep-alive decision as iff-theorems (full strength: every
accepted head, every method, every status line).

* `framing_exclusive` — each of the four framings {no body, declared length n, chunked, until
  close} characterised by an iff over (method, status, Transfer-Encoding verdict,
  ContentLength); the four right-hand sides are pairwise exclusive and exhaustive.
* `head_never_has_body` — a response to HEAD has no body whatever its headers say, and reading
  its body consumes nothing of the stream.
* `hasBody_iff_framing` — `readLoop`'s `hasBody` test (`method != HEAD && ContentLength != 0`)
  is exactly "the framing is not `none`".
* `close_iff` — `resp.Close` by (proto, Connection tokens, framing).
* `keepalive_iff` — the connection goes back to the idle pool iff … (proto, Connection tokens,
  framing, status, caller read the body to EOF, no EOF seen, request written, pool accepts).
-/
namespace Req.Props.C04
open Req.Proto Req.H1 Req.Lemmas.H1Framing

/-- **framing_exclusive.** -/
theorem framing_exclusive {isHead : Bool} {sl : StatusLine} {h0 : HeaderMap} {m : Msg}
    (h : readTransfer isHead sl h0 = some m) :
    (m.framing = .none ↔
      (isHead = true ∨ bodyAllowedForStatus sl.code = false ∨
        (m.teChunked = false ∧ m.contentLength = 0))) ∧
    (m.framing = .chunked ↔
      (isHead = false ∧ bodyAllowedForStatus sl.code = true ∧ m.teChunked = true)) ∧
    (∀ n, m.framing = .length n ↔
      (isHead = false ∧ bodyAllowedForStatus sl.code = true ∧ m.teChunked = false ∧
        0 < n ∧ m.contentLength = (n : Int))) ∧
    (m.framing = .untilClose ↔
      (isHead = false ∧ bodyAllowedForStatus sl.code = true ∧ m.teChunked = false ∧
        m.contentLength = -1)) := by
  obtain ⟨chunked, h2, rl, h3, hfl, _, hte, _, hcl, hfr⟩ := readTransfer_inv h
  obtain ⟨hfH, hfB, hfC, hfge⟩ := fixLength_facts hfl
  rw [hfr, hte]
  cases hH : isHead with
  | true =>
    have h0' := hfH hH
    subst h0'
    cases chunked <;> simp
  | false =>
    have hcl' := hcl hH
    rw [hcl']
    cases hba : bodyAllowedForStatus sl.code with
    | false =>
      have h0' := hfB hba
      subst h0'
      cases chunked <;> simp
    | true =>
      cases hc : chunked with
      | true =>
        have := hfC hc hH hba
        subst this
        simp
      | false =>
        simp only [Bool.false_eq_true, if_false, Bool.not_false, Bool.and_true]
        by_cases hz : rl = 0
        · subst hz
          simp
          intro n hn; omega
        · by_cases hp : rl > 0
          · simp only [hz, hp, if_false, if_true]
            refine ⟨by simp, by simp, ?_, ?_⟩
            · intro n
              simp only [RespFraming.length.injEq]
              constructor
              · intro hn; subst hn; simp; omega
              · intro ⟨_, _, _, _, hn⟩; omega
            · simp; omega
          · have hm1 : rl = -1 := by omega
            subst hm1
            simp

/-- The four framings exclude each other for one and the same accepted head (immediate from
the datatype; stated for the record: "exactly one"). -/
theorem framing_exactly_one (f : RespFraming) :
    (f = .none ∧ f ≠ .chunked ∧ f ≠ .untilClose ∧ ∀ n, f ≠ .length n) ∨
    (f = .chunked ∧ f ≠ .none ∧ f ≠ .untilClose ∧ ∀ n, f ≠ .length n) ∨
    (f = .untilClose ∧ f ≠ .none ∧ f ≠ .chunked ∧ ∀ n, f ≠ .length n) ∨
    (∃ n, f = .length n ∧ f ≠ .none ∧ f ≠ .chunked ∧ f ≠ .untilClose ∧ ∀ k, f = .length k → k = n) := by
  cases f with
  | none => simp
  | chunked => simp
  | untilClose => simp
  | length n => simp

/-- **head_never_has_body.** -/
theorem head_never_has_body {sl : StatusLine} {h0 : HeaderMap} {m : Msg}
    (h : readTransfer true sl h0 = some m) (B : Nat) (s : Bytes) :
    m.framing = .none ∧ readBody B m s = ⟨[], true, declMap m.trailerDecl, s⟩ := by
  have hf : m.framing = .none := (framing_exclusive h).1.mpr (Or.inl rfl)
  exact ⟨hf, by simp [readBody, hf]⟩

/-- `Transfer-Encoding: chunked`, `Content-Length: 5`, then bytes: for HEAD none is body. -/
example : parseResponse true 4096
    [72,84,84,80,47,49,46,49,32,50,48,48,32,79,75,13,10,
     84,114,97,110,115,102,101,114,45,69,110,99,111,100,105,110,103,58,32,99,104,117,110,107,101,100,13,10,
     13,10, 53,13,10] =
    .resp ⟨⟨[72,84,84,80,47,49,46,49], [50,48,48,32,79,75], 200, 1, 1⟩,
           [], -1, true, false, [], .none⟩
          ⟨[], true, [], [53,13,10]⟩ := by decide

/-- **hasBody_iff_framing.** `readLoop`'s `hasBody`. -/
theorem hasBody_iff_framing {isHead : Bool} {sl : StatusLine} {h0 : HeaderMap} {m : Msg}
    (h : readTransfer isHead sl h0 = some m) :
    (!isHead && m.contentLength != 0) = true ↔ m.framing ≠ .none := by
  obtain ⟨hn, hc, hl, hu⟩ := framing_exclusive h
  cases hf : m.framing with
  | none =>
    rcases hn.mp hf with hH | hb | ⟨_, hz⟩
    · simp [hH]
    · -- body not allowed: the declared length was forced to 0
      obtain ⟨chunked, h2, rl, h3, hfl, _, _, _, hcl, _⟩ := readTransfer_inv h
      cases hH : isHead with
      | true => simp
      | false =>
        have := (fixLength_facts hfl).2.1 hb
        simp [hcl hH, this]
    · simp [hz]
  | chunked =>
    obtain ⟨hH, _, _⟩ := hc.mp hf
    have := chunked_content_length h hf
    simp [hH, this]
  | untilClose =>
    obtain ⟨hH, _, _, hcl⟩ := hu.mp hf
    simp [hH, hcl]
  | length n =>
    obtain ⟨hH, _, _, hpos, hcl⟩ := (hl n).mp hf
    simp [hH, hcl]
    omega

/-- `Connection` values of the header block as read. -/
def connValues (h0 : HeaderMap) : List Bytes :=
  match HeaderMap.get h0 kConnection with | some vs => vs | none => []

/-- `shouldClose`'s verdict by protocol version and `Connection` tokens. -/
theorem shouldClose_fst_iff (major minor : Nat) (h0 : HeaderMap) :
    (shouldClose major minor h0).1 = true ↔
      (major < 1 ∨
       (major = 1 ∧ minor = 0 ∧
          (valuesContainToken (connValues h0) vClose = true ∨
           valuesContainToken (connValues h0) vKeepAlive = false)) ∨
       (1 ≤ major ∧ ¬ (major = 1 ∧ minor = 0) ∧
          valuesContainToken (connValues h0) vClose = true)) := by
  have key : ∀ conv : List Bytes,
      (if major < 1 then (true, h0)
       else if major = 1 ∧ minor = 0 then
         (valuesContainToken conv vClose || !valuesContainToken conv vKeepAlive, h0)
       else if valuesContainToken conv vClose = true then (true, h0.del kConnection)
       else (false, h0)).1 = true ↔
      (major < 1 ∨
       (major = 1 ∧ minor = 0 ∧
          (valuesContainToken conv vClose = true ∨ valuesContainToken conv vKeepAlive = false)) ∨
       (1 ≤ major ∧ ¬ (major = 1 ∧ minor = 0) ∧ valuesContainToken conv vClose = true)) := by
    intro conv
    by_cases h1 : major < 1
    · simp [h1]
    · have hge : 1 ≤ major := by omega
      by_cases h10 : major = 1 ∧ minor = 0
      · simp [h10]
      · simp only [h1, h10, if_false]
        by_cases hc : valuesContainToken conv vClose = true <;> simp [hc, h10, hge]
        intro ha hb; exact absurd ⟨ha, hb⟩ h10
  cases hg : HeaderMap.get h0 kConnection with
  | none => simpa [shouldClose, connValues, hg] using key []
  | some vs => simpa [shouldClose, connValues, hg] using key vs

/-- **close_iff.** `resp.Close` by protocol version, `Connection` tokens and framing. -/
theorem close_iff {isHead : Bool} {sl : StatusLine} {h0 : HeaderMap} {m : Msg}
    (h : readTransfer isHead sl h0 = some m) :
    m.close = true ↔
      (sl.major < 1 ∨
       (sl.major = 1 ∧ sl.minor = 0 ∧
          (valuesContainToken (connValues h0) vClose = true ∨
           valuesContainToken (connValues h0) vKeepAlive = false)) ∨
       (1 ≤ sl.major ∧ ¬ (sl.major = 1 ∧ sl.minor = 0) ∧
          valuesContainToken (connValues h0) vClose = true) ∨
       m.framing = .untilClose) := by
  obtain ⟨_, _, _, hu⟩ := framing_exclusive h
  obtain ⟨chunked, h2, rl, h3, hfl, _, hte, hclose, hcl, _⟩ := readTransfer_inv h
  obtain ⟨hfH, hfB, hfC, hfge⟩ := fixLength_facts hfl
  -- the second disjunct of `close` is "until close"
  have hsecond : (decide (rl = -1) && !chunked && bodyAllowedForStatus sl.code) = true ↔
      m.framing = .untilClose := by
    rw [hu, hte]
    constructor
    · intro hc
      simp only [Bool.and_eq_true, decide_eq_true_eq, Bool.not_eq_true'] at hc
      obtain ⟨⟨hrl, hch⟩, hba⟩ := hc
      have hH : isHead = false := by
        cases hi : isHead with
        | false => rfl
        | true => have := hfH hi; omega
      exact ⟨hH, hba, hch, by rw [hcl hH, hrl]⟩
    · intro ⟨hH, hba, hch, hm1⟩
      rw [hcl hH] at hm1
      simp [hm1, hch, hba]
  rw [hclose, Bool.or_eq_true, hsecond]
  have hfirst := shouldClose_fst_iff sl.major sl.minor h0
  rw [hfirst]
  simp only [or_assoc]

/-- **keepalive_iff.** After one exchange the connection goes back to the idle pool iff:
neither side asked to close (`close_iff` spells out the response's side by protocol,
`Connection` tokens and framing), the status is at least 200, the body is not a writable
protocol-switch body, there is no body or the caller read it to `io.EOF`, the connection has
not seen EOF, the request was written and the pool takes the connection. -/
theorem keepalive_iff {isHead : Bool} {sl : StatusLine} {h0 : HeaderMap} {m : Msg}
    (h : readTransfer isHead sl h0 = some m) (e : ReuseEnv) (he : e.isHead = isHead) :
    mayReuse m e = true ↔
      (m.close = false ∧ e.reqClose = false ∧ 200 ≤ sl.code ∧ e.bodyWritable = false ∧
       (m.framing = .none ∨ e.bodyEOF = true) ∧
       e.sawEOF = false ∧ e.wroteRequest = true ∧ e.poolAccepts = true) := by
  have hb := hasBody_iff_framing h
  obtain ⟨_, _, _, _, _, hsl, _⟩ := readTransfer_inv h
  have h200 : 199 < sl.code ↔ 200 ≤ sl.code := by omega
  unfold mayReuse
  rw [he, hsl]
  by_cases hfn : m.framing = .none
  · have hnb : (!isHead && m.contentLength != 0) = false := by
      cases hx : (!isHead && m.contentLength != 0) with
      | false => rfl
      | true => exact absurd hfn (hb.mp hx)
    simp only [hnb, hfn]
    cases e.bodyWritable <;> simp [h200, and_assoc]
  · have hnb : (!isHead && m.contentLength != 0) = true := hb.mpr hfn
    simp only [hnb, hfn]
    cases e.bodyWritable <;> simp [h200, and_assoc]

example : ∃ m : Msg, ∃ r, parseHead false
    [72,84,84,80,47,49,46,48,32,50,48,48,32,79,75,13,10,13,10] = some (m, r) ∧
    m.close = true ∧ m.framing = .untilClose := by
  refine ⟨_, _, rfl, ?_, ?_⟩ <;> decide

end Req.Props.C04
