import Req.Props.C20Set
/-!
C20 — the setters, complete characterisation: for EVERY sequence of configuration calls the
`Authorization` value that leaves is determined by the LAST request-level call and the LAST
client-level call alone (nothing accumulates, nothing is skipped, no value — however degenerate —
is treated as "not configured").
-/
namespace Req.Props.C20
open Req.Proto Req.Auth Req.Ascii

/-- the field value a setter stores -/
def _root_.Req.Auth.SetOp.value : SetOp → Bytes
  | .clientBasic u p => basic u p
  | .clientBearer t => bearer t
  | .reqBasic u p => basic u p
  | .reqBearer t => bearer t

def lastValue (ops : List SetOp) (client : Bool) : Option Bytes :=
  ((ops.filter fun o => o.isClient == client).getLast?).map SetOp.value

theorem foldl_applyOp_spec : ∀ (ops : List SetOp) (c : Conf),
    (ops.foldl applyOp c).request = (lastValue ops false).or c.request ∧
    (ops.foldl applyOp c).client = (lastValue ops true).or c.client := by
  intro ops
  induction ops with
  | nil => intro c; exact ⟨rfl, rfl⟩
  | cons o rest ih =>
    intro c
    obtain ⟨ihr, ihc⟩ := ih (applyOp c o)
    rw [List.foldl_cons, ihr, ihc]
    unfold lastValue at *
    cases o with
    | clientBasic u p =>
      constructor
      · simp [SetOp.isClient, applyOp]
      · simp only [List.filter_cons, SetOp.isClient, beq_self_eq_true, if_true, applyOp, List.getLast?_cons]
        generalize (List.filter _ rest).getLast? = g
        cases g <;> simp [SetOp.value]
    | clientBearer t =>
      constructor
      · simp [SetOp.isClient, applyOp]
      · simp only [List.filter_cons, SetOp.isClient, beq_self_eq_true, if_true, applyOp, List.getLast?_cons]
        generalize (List.filter _ rest).getLast? = g
        cases g <;> simp [SetOp.value]
    | reqBasic u p =>
      constructor
      · simp only [List.filter_cons, SetOp.isClient, beq_self_eq_true, if_true, applyOp, List.getLast?_cons]
        generalize (List.filter _ rest).getLast? = g
        cases g <;> simp [SetOp.value]
      · simp [SetOp.isClient, applyOp]
    | reqBearer t =>
      constructor
      · simp only [List.filter_cons, SetOp.isClient, beq_self_eq_true, if_true, applyOp, List.getLast?_cons]
        generalize (List.filter _ rest).getLast? = g
        cases g <;> simp [SetOp.value]
      · simp [SetOp.isClient, applyOp]

/-- **setters_characterised**: for EVERY sequence of calls and every URL: the value sent is
`effective` of what the last request-level call stored, what the last client-level call stored, and
the URL user information. -/
theorem setters_characterised (ops : List SetOp) (urlUser : Option (Bytes × Bytes)) :
    sent ops urlUser = effective (lastValue ops false) (lastValue ops true) urlUser := by
  unfold sent configure
  obtain ⟨hr, hc⟩ := foldl_applyOp_spec ops {}
  rw [hr, hc]
  simp

theorem lastValue_snoc (ops : List SetOp) (o : SetOp) : lastValue (ops ++ [o]) o.isClient = some o.value := by
  unfold lastValue
  have hf : ([o].filter fun x => x.isClient == o.isClient) = [o] := by simp
  rw [List.filter_append, hf, List.getLast?_concat]
  rfl

/-- a setter call is never a no-op: after it, its level holds a value — also for `("", "")` -/
theorem setter_always_stores (ops : List SetOp) (o : SetOp) (urlUser : Option (Bytes × Bytes)) :
    sent (ops ++ [o]) urlUser ≠ none := by
  rw [setters_characterised]
  have h := lastValue_snoc ops o
  cases ho : o.isClient with
  | true =>
    rw [ho] at h
    rw [h]
    cases lastValue (ops ++ [o]) false <;> simp [effective]
  | false =>
    rw [ho] at h
    rw [h]
    simp [effective]

example : lastValue [.clientBasic [97] [98], .reqBasic [] [], .clientBearer [116]] false = some (basic [] []) := by decide
example : sent [.clientBasic [97] [98], .reqBasic [] [], .clientBearer [116]] (some ([117], [112])) = some (basic [] []) := by
  decide

end Req.Props.C20
