import Req.Lemmas.C02TrailerMap
/-!
C02 round 5 — `Response.Trailer` as the merged Go map (announced keys ∪ received fields), in the
three protocols.  Models: `Req/C02/TrailerMap.lean`.  Tie: lane `trailermap` (.) — real
HTTP/1.1 (raw peer, chunked), HTTP/2 (Go h2 server) and HTTP/3 (quic-go server) responses with
generated `Trailer` announcements (keys sent, keys never sent, sent-but-unannounced keys,
repeated names), the caller's `resp.Trailer` dumped WITH its nil-valued keys and compared with
`trailerMapMerged` / `trailerMapH3`.
-/
namespace Req.C02
open Req.Proto Req.H1

/-- **HTTP/1.1 and HTTP/2.**  For every list of announced keys and every received trailer
section (any fields, repeated names, announced or not): under every key `k` the map holds
exactly the received values of `k` in wire order; an announced key that was never sent is
present with a nil value; nothing else is in the map. -/
theorem trailer_map_merged (decl : List Bytes) (recv : List (Bytes × Bytes)) (k : Bytes) :
    (trailerMapMerged decl recv).get k =
      if valuesOf k recv ≠ [] then some (valuesOf k recv)
      else if k ∈ decl then some [] else none := by
  unfold trailerMapMerged
  rw [get_mergeSet _ _ _ (nodup_hmapOf recv), get_hmapOf, get_declMap]
  by_cases h : valuesOf k recv = []
  · simp [h]
  · simp [h]

/-- **HTTP/3.**  Until the trailer HEADERS frame: the announced keys with nil values.
Afterwards exactly the received fields — the announced-but-unsent keys are gone (`rsp.Trailer =
hdr` replaces the map where HTTP/1.1 and HTTP/2 merge). -/
theorem trailer_map_h3 (decl : List Bytes) (recv : List (Bytes × Bytes)) (k : Bytes) :
    (trailerMapH3 decl none).get k = (if k ∈ decl then some [] else none) ∧
    (trailerMapH3 decl (some recv)).get k =
      if valuesOf k recv ≠ [] then some (valuesOf k recv) else none := by
  constructor
  · exact get_declMap decl k
  · simp only [trailerMapH3, get_hmapOf]
    by_cases h : valuesOf k recv = [] <;> simp [h]

/-- **The three protocols agree on every trailer VALUE**: read as a value list (`nil` for an
absent key — what `Header.Values(k)` / `Header.Get(k)` show) the maps are equal under every
key, and equal to the origin's values in wire order.  They differ only in whether an
announced key that was never sent is still a (nil-valued) key of the map: HTTP/1.1 and HTTP/2
keep it, HTTP/3 drops it once trailers arrived. -/
theorem trailer_values_cross_protocol (decl : List Bytes) (recv : List (Bytes × Bytes)) (k : Bytes) :
    getL (trailerMapMerged decl recv) k = valuesOf k recv ∧
    getL (trailerMapH3 decl (some recv)) k = valuesOf k recv := by
  constructor
  · simp only [getL, trailer_map_merged]
    by_cases h : valuesOf k recv = []
    · by_cases hd : k ∈ decl <;> simp [h, hd]
    · simp [h]
  · simp only [getL, (trailer_map_h3 decl recv k).2]
    by_cases h : valuesOf k recv = [] <;> simp [h]

/-! Non-vacuity (keys `a`=97, `b`=98, `c`=99): announced a, b; received b: 1, c: 2, b: 3. -/
example : trailerMapMerged [[97], [98]] [([98], [49]), ([99], [50]), ([98], [51])] =
    [([97], []), ([98], [[49], [51]]), ([99], [[50]])] := by decide

example : trailerMapH3 [[97], [98]] (some [([98], [49]), ([99], [50]), ([98], [51])]) =
    [([98], [[49], [51]]), ([99], [[50]])] := by decide

example : trailerMapH3 [[97], [98]] none = [([97], []), ([98], [])] := by decide

end Req.C02
