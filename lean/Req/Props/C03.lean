import Req.Props.C04
/-!
C03 — a truncated, over-long or spliced body is never reported as success; a broken connection
is not reused.  HTTP/1.1 part, on the whole-stream model `Req.H1.parseResponse` whose stream
argument means "exactly these bytes, then the connection ends (EOF or reset)".

* `cut_never_success` — if a stream holds a complete response with a declared length or chunked
  framing (and nothing after it), then for EVERY strict prefix the outcome is an error: from
  the call (`reject`) or from reading the body (`ok = false`).  No serialiser is assumed: the
  statement covers every accepted byte string, hence every message any origin can produce.
* `cut_delivers_prefix` — at every cut (any framing) the response head is either refused or the
  same head, and the bytes handed out before the error are a prefix of the true body: nothing
  padded, nothing spliced in.
* `declared_length_exact`, `length_short_is_error` — Content-Length bodies: exactly `n` bytes
  or an error; surplus bytes stay in the stream (`overlong_not_delivered`).
* `broken_not_reused`, `reject_not_reused`, `saw_eof_not_reused`,
  `close_delimited_reuse_never` — the keep-alive decision of `readLoop`.
-/
namespace Req.Props.C03
open Req.Proto Req.H1 Req.Props.C04

theorem readBody_chunked_data {B : Nat} {m : Msg} (s : Bytes) (hf : m.framing = .chunked) :
    (readBody B m s).data = (decodeChunked B s).1 := by
  unfold readBody
  simp only [hf]
  cases hd : decodeChunked B s with
  | mk d e =>
    cases e with
    | none => rfl
    | some r =>
      simp only
      cases readTrailer B (declMap m.trailerDecl) r with
      | none => rfl
      | some p => rfl

theorem readBody_data_prefix (B : Nat) (m : Msg) (s t : Bytes) :
    (readBody B m s).data <+: (readBody B m (s ++ t)).data := by
  cases hfr : m.framing with
  | none => simp [readBody, hfr]
  | untilClose => simp [readBody, hfr]
  | length n =>
    unfold readBody
    simp only [hfr]
    split
    · next hle =>
      have hle' : n ≤ s.length + t.length := by omega
      simp [hle', List.take_append_of_le_length hle]
    · next hlt =>
      have hle : s.length ≤ n := by omega
      have : s <+: (s ++ t).take n := by
        rw [List.take_append, List.take_of_length_le hle]
        exact List.prefix_append _ _
      split
      · exact this
      · exact List.prefix_append _ _
  | chunked =>
    rw [readBody_chunked_data s hfr, readBody_chunked_data (s ++ t) hfr]
    exact chunkLoop_data_prefix (s.length + 1) B 0 s t ((s ++ t).length + 1) (by simp)

/-- **cut_delivers_prefix.** Cut the stream of an accepted response anywhere: the call either
fails, or returns the same head and hands out a prefix of the true body. -/
theorem cut_delivers_prefix {isHead : Bool} {B : Nat} {s : Bytes} {m : Msg} {b : BodyRes}
    (h : parseResponse isHead B s = .resp m b) (k : Nat) :
    parseResponse isHead B (s.take k) = .reject ∨
    ∃ b', parseResponse isHead B (s.take k) = .resp m b' ∧ b'.data <+: b.data := by
  unfold parseResponse at h ⊢
  cases hp : parseHead isHead (s.take k) with
  | none => left; rfl
  | some q =>
    obtain ⟨m', r'⟩ := q
    right
    have hs : s = s.take k ++ s.drop k := (List.take_append_drop k s).symm
    have hfull := head_deterministic_end hp (s.drop k)
    rw [← hs] at hfull
    simp only [hfull, Outcome.resp.injEq] at h
    obtain ⟨rfl, rfl⟩ := h
    exact ⟨_, rfl, readBody_data_prefix B _ r' (s.drop k)⟩

/-- **cut_never_success.** A response with declared-length or chunked framing (or no body) that
ends exactly where the stream ends — in particular every complete response with nothing after
it: every strict prefix followed by end-of-input is an error outcome. -/
theorem cut_never_success {isHead : Bool} {B : Nat} {s : Bytes} {m : Msg} {b : BodyRes}
    (h : parseResponse isHead B s = .resp m b)
    (hf : m.framing ≠ .untilClose) (hrest : b.rest = [])
    (k : Nat) (hk : k < s.length) :
    (parseResponse isHead B (s.take k)).isSuccess = false := by
  cases hcut : parseResponse isHead B (s.take k) with
  | reject => rfl
  | resp m' b' =>
    cases hb : b'.ok with
    | false => simp [Outcome.isSuccess, hb]
    | true =>
      exfalso
      -- the cut response has the same head …
      rcases cut_delivers_prefix h k with hr | ⟨b'', hr, _⟩
      · rw [hr] at hcut; cases hcut
      · rw [hr] at hcut
        simp only [Outcome.resp.injEq] at hcut
        obtain ⟨rfl, rfl⟩ := hcut
        -- … so extending it back to `s` leaves the dropped bytes unread: contradiction
        have hs : s = s.take k ++ s.drop k := (List.take_append_drop k s).symm
        have hext := parse_deterministic_end hr hb hf (s.drop k)
        rw [← hs, h] at hext
        simp only [Outcome.resp.injEq] at hext
        have : b.rest = b''.rest ++ s.drop k := by rw [hext.2]
        rw [hrest] at this
        have hnil : s.drop k = [] := by
          have := congrArg List.length this
          simp at this
          exact List.eq_nil_of_length_eq_zero (by simp; omega)
        have : (s.drop k).length = s.length - k := List.length_drop
        rw [hnil] at this
        simp at this
        omega

/-- A complete 5-byte Content-Length response; every one of its 42 strict prefixes fails. -/
example : ∀ k, k < 43 → (parseResponse false 4096 (List.take k
    [72,84,84,80,47,49,46,49,32,50,48,48,32,79,75,13,10,
     67,111,110,116,101,110,116,45,76,101,110,103,116,104,58,32,53,13,10,13,10,
     104,101,108,108,111])).isSuccess = false := by decide

/-- Chunked with a trailer: `HTTP/1.1 200 OK / Transfer-Encoding: chunked // 2 hi 0 X: y //`. -/
example :
    let s : Bytes := [72,84,84,80,47,49,46,49,32,50,48,48,32,79,75,13,10,
      84,114,97,110,115,102,101,114,45,69,110,99,111,100,105,110,103,58,32,99,104,117,110,107,101,100,13,10,13,10,
      50,13,10,104,105,13,10,48,13,10,88,58,32,121,13,10,13,10]
    (parseResponse false 4096 s).isSuccess = true ∧
    ∀ k, k < s.length → (parseResponse false 4096 (s.take k)).isSuccess = false := by decide

/-! ### serialised chunked bodies -/

/-- Every strict prefix of what the chunked writer produces for ANY split of a body into
non-empty chunks (followed by the final CRLF) is an error for the body reader, and what was
handed out before the error is a prefix of the body. -/
theorem serialized_chunked_cut {B : Nat} (hB : 18 ≤ B) {m : Msg} (hf : m.framing = .chunked)
    (chunks : List Bytes) (hne : ∀ c ∈ chunks, c ≠ []) (hsz : ∀ c ∈ chunks, c.length < 2 ^ 61)
    (k : Nat) (hk : k < (encodeChunked chunks ++ [CR, LF]).length) :
    (readBody B m ((encodeChunked chunks ++ [CR, LF]).take k)).ok = false ∧
    (readBody B m ((encodeChunked chunks ++ [CR, LF]).take k)).data <+: chunks.flatten := by
  have hfull := chunked_body_roundtrip hB hf chunks hne hsz []
  simp only [List.append_nil] at hfull
  generalize hw : encodeChunked chunks ++ [CR, LF] = w at *
  have hs : w = w.take k ++ w.drop k := (List.take_append_drop k w).symm
  constructor
  · cases hok : (readBody B m (w.take k)).ok with
    | false => rfl
    | true =>
      exfalso
      have hext := body_deterministic_end hok (by rw [hf]; simp) (w.drop k)
      rw [← hs, hfull] at hext
      have hrest := congrArg BodyRes.rest hext
      simp only at hrest
      have hnil : w.drop k = [] := by
        have := congrArg List.length hrest
        simp at this
        exact List.eq_nil_of_length_eq_zero (by simp; omega)
      have : (w.drop k).length = w.length - k := List.length_drop
      rw [hnil] at this
      simp at this
      omega
  · have := readBody_data_prefix B m (w.take k) (w.drop k)
    rw [← hs, hfull] at this
    exact this

/-! ### the same at round-trip level (`readResponse`: informational responses skipped) -/

theorem final_head_deterministic_end {fuel : Nat} {isHead : Bool} {s r : Bytes} {m : Msg}
    (h : parseFinalHead fuel isHead s = some (m, r)) (t : Bytes) :
    parseFinalHead fuel isHead (s ++ t) = some (m, r ++ t) := by
  induction fuel generalizing s with
  | zero => simp [parseFinalHead] at h
  | succ f ih =>
    simp only [parseFinalHead] at h ⊢
    cases hp : parseHead isHead s with
    | none => simp [hp] at h
    | some q =>
      obtain ⟨m1, r1⟩ := q
      simp only [hp] at h
      rw [head_deterministic_end hp t]
      simp only
      split at h
      · next hc => rw [if_pos hc]; exact ih h
      · next hc =>
        rw [if_neg hc]
        simp only [Option.some.injEq, Prod.mk.injEq] at h
        obtain ⟨rfl, rfl⟩ := h
        rfl

theorem final_deterministic_end {isHead : Bool} {B : Nat} {s : Bytes} {m : Msg} {b : BodyRes}
    (h : parseFinal isHead B s = .resp m b) (hok : b.ok = true)
    (hf : m.framing ≠ .untilClose) (t : Bytes) :
    parseFinal isHead B (s ++ t) = .resp m { b with rest := b.rest ++ t } := by
  unfold parseFinal at h ⊢
  cases hh : parseFinalHead 6 isHead s with
  | none => simp [hh] at h
  | some p =>
    obtain ⟨m', r⟩ := p
    simp only [hh, Outcome.resp.injEq] at h
    obtain ⟨rfl, rfl⟩ := h
    simp only [final_head_deterministic_end hh t]
    rw [body_deterministic_end hok hf t]

/-- `cut_delivers_prefix` for the response a round trip returns. -/
theorem final_cut_delivers_prefix {isHead : Bool} {B : Nat} {s : Bytes} {m : Msg} {b : BodyRes}
    (h : parseFinal isHead B s = .resp m b) (k : Nat) :
    parseFinal isHead B (s.take k) = .reject ∨
    ∃ b', parseFinal isHead B (s.take k) = .resp m b' ∧ b'.data <+: b.data := by
  unfold parseFinal at h ⊢
  cases hp : parseFinalHead 6 isHead (s.take k) with
  | none => left; rfl
  | some q =>
    obtain ⟨m', r'⟩ := q
    right
    have hs : s = s.take k ++ s.drop k := (List.take_append_drop k s).symm
    have hfull := final_head_deterministic_end hp (s.drop k)
    rw [← hs] at hfull
    simp only [hfull, Outcome.resp.injEq] at h
    obtain ⟨rfl, rfl⟩ := h
    exact ⟨_, rfl, readBody_data_prefix B _ r' (s.drop k)⟩

/-- `cut_never_success` for the response a round trip returns (any number of informational
responses in front): every strict prefix of the exchange is an error. -/
theorem final_cut_never_success {isHead : Bool} {B : Nat} {s : Bytes} {m : Msg} {b : BodyRes}
    (h : parseFinal isHead B s = .resp m b)
    (hf : m.framing ≠ .untilClose) (hrest : b.rest = [])
    (k : Nat) (hk : k < s.length) :
    (parseFinal isHead B (s.take k)).isSuccess = false := by
  cases hcut : parseFinal isHead B (s.take k) with
  | reject => rfl
  | resp m' b' =>
    cases hb : b'.ok with
    | false => simp [Outcome.isSuccess, hb]
    | true =>
      exfalso
      rcases final_cut_delivers_prefix h k with hr | ⟨b'', hr, _⟩
      · rw [hr] at hcut; cases hcut
      · rw [hr] at hcut
        simp only [Outcome.resp.injEq] at hcut
        obtain ⟨rfl, rfl⟩ := hcut
        have hs : s = s.take k ++ s.drop k := (List.take_append_drop k s).symm
        have hext := final_deterministic_end hr hb hf (s.drop k)
        rw [← hs, h] at hext
        simp only [Outcome.resp.injEq] at hext
        have : b.rest = b''.rest ++ s.drop k := by rw [hext.2]
        rw [hrest] at this
        have hnil : s.drop k = [] := by
          have := congrArg List.length this
          simp at this
          exact List.eq_nil_of_length_eq_zero (by simp; omega)
        have : (s.drop k).length = s.length - k := List.length_drop
        rw [hnil] at this
        simp at this
        omega

/-- `100 Continue` in front of a 2-byte Content-Length response: success only for the whole. -/
example :
    let s : Bytes := [72,84,84,80,47,49,46,49,32,49,48,48,32,67,13,10,13,10,
      72,84,84,80,47,49,46,49,32,50,48,48,32,79,75,13,10,
      67,111,110,116,101,110,116,45,76,101,110,103,116,104,58,32,50,13,10,13,10,104,105]
    (parseFinal false 4096 s).isSuccess = true ∧
    ∀ k, k < s.length → (parseFinal false 4096 (s.take k)).isSuccess = false := by decide

/-! ### declared length -/

theorem declared_length_exact {B : Nat} {m : Msg} {n : Nat} (s : Bytes)
    (hf : m.framing = .length n) (hok : (readBody B m s).ok = true) :
    (readBody B m s).data = s.take n ∧ (readBody B m s).data.length = n ∧
    (readBody B m s).rest = s.drop n := by
  unfold readBody at hok ⊢
  simp only [hf] at hok ⊢
  split
  · next hle => simp; omega
  · next hlt => simp [hlt] at hok

theorem length_short_is_error {B : Nat} {m : Msg} {n : Nat} (s : Bytes)
    (hf : m.framing = .length n) (hshort : s.length < n) :
    (readBody B m s).ok = false ∧ (readBody B m s).data = s := by
  unfold readBody
  simp only [hf]
  have : ¬ n ≤ s.length := by omega
  simp [this]

/-- Bytes beyond the declared length are never part of the body: they stay in the stream. -/
theorem overlong_not_delivered {B : Nat} {m : Msg} {n : Nat} (body extra : Bytes)
    (hf : m.framing = .length n) (hb : body.length = n) :
    readBody B m (body ++ extra) = ⟨body, true, declMap m.trailerDecl, extra⟩ := by
  unfold readBody
  simp only [hf]
  simp [← hb]

/-! ### the connection after a failure -/

theorem reject_not_reused (e : ReuseEnv) : connReusable .reject e = false := rfl

/-- `pc.sawEOF`: once the conn's Read has returned io.EOF the connection never goes back to
the pool, complete message or not. -/
theorem saw_eof_not_reused (m : Msg) (e : ReuseEnv) (h : e.sawEOF = true) :
    mayReuse m e = false := by
  unfold mayReuse
  simp [h]

/-- The body of a response with a body did not end in io.EOF (read error, or closed early). -/
theorem body_not_eof_not_reused (m : Msg) (e : ReuseEnv)
    (hbody : (!e.isHead && m.contentLength != 0) = true) (hw : e.bodyWritable = false)
    (hb : e.bodyEOF = false) : mayReuse m e = false := by
  unfold mayReuse
  simp only [hbody, hw, hb]
  simp

/-- **broken_not_reused.** Whatever the stream, if the outcome is not a success (the call
failed, or the body read ended in an error) the connection is not reused. -/
theorem broken_not_reused {isHead : Bool} {B : Nat} (s : Bytes) (e : ReuseEnv)
    (he : e.isHead = isHead) (hw : e.bodyWritable = false)
    (hfail : (parseResponse isHead B s).isSuccess = false) :
    connReusable (parseResponse isHead B s) e = false := by
  cases ho : parseResponse isHead B s with
  | reject => rfl
  | resp m b =>
    rw [ho] at hfail
    simp only [Outcome.isSuccess] at hfail
    simp only [connReusable]
    -- a body error needs a body reader: declared length or chunked, so `hasBody` holds
    unfold parseResponse at ho
    cases hp : parseHead isHead s with
    | none => simp [hp] at ho
    | some q =>
      obtain ⟨m', r⟩ := q
      simp only [hp, Outcome.resp.injEq] at ho
      obtain ⟨rfl, rfl⟩ := ho
      unfold parseHead at hp
      cases hl : readLine s with
      | none => simp [hl] at hp
      | some p1 =>
        obtain ⟨line, r1⟩ := p1
        simp only [hl] at hp
        cases hs : parseStatusLine line with
        | none => simp [hs] at hp
        | some sl =>
          simp only [hs] at hp
          cases hm : readMIMEHeader r1 with
          | none => simp [hm] at hp
          | some q2 =>
            obtain ⟨hd, r2⟩ := q2
            simp only [hm] at hp
            cases ht : readTransfer isHead sl (fixPragmaCacheControl hd) with
            | none => simp [ht] at hp
            | some m0 =>
              simp only [ht, Option.some.injEq, Prod.mk.injEq] at hp
              obtain ⟨rfl, rfl⟩ := hp
              obtain ⟨hch, _, hlen⟩ := framing_table ht
              have hcl := chunked_content_length ht
              apply body_not_eof_not_reused
              · -- hasBody
                simp only [he]
                unfold readBody at hfail
                cases hfr : m0.framing with
                | none => simp [hfr] at hfail
                | untilClose => simp [hfr] at hfail
                | length n =>
                  obtain ⟨_, hpos, hc, hH⟩ := hlen n hfr
                  simp [hH, hc]; omega
                | chunked =>
                  obtain ⟨_, hH, _⟩ := hch.mp hfr
                  simp [hH, hcl hfr]
              · exact hw
              · simp [hfail]

/-- **close_delimited_reuse_never.** A response whose body is delimited by connection close
never leaves a reusable connection. -/
theorem close_delimited_reuse_never {isHead : Bool} {sl : StatusLine} {h0 : HeaderMap} {m : Msg}
    (h : readTransfer isHead sl h0 = some m) (hf : m.framing = .untilClose) (e : ReuseEnv) :
    mayReuse m e = false := by
  obtain ⟨_, huc, _⟩ := framing_table h
  obtain ⟨_, hclose, _⟩ := huc hf
  unfold mayReuse
  simp [hclose]

end Req.Props.C03
