/-! C03 — property theorems (none yet). -/
