import Req.Props.C01
import Req.Props.C16Wire
/-!
C01, round 6 — header fields given as SEVERAL field lines (several values of one key).

`cross_protocol` (Props/C01.lean) covers every value of every ORDINARY key and leaves `Cookie`
out, because HTTP/2 crumbles it. Here:

* `splitCookie_join` / `crumbs_of_joined_lines` — crumbling is the inverse of joining cookie-pairs
  with `"; "`: what an origin re-assembles (RFC 9113 §8.2.3) from the crumbs are the caller's pairs.
* `cookie_crumbs_all_lines` — HTTP/2: for EVERY key that folds to `cookie`, EVERY one of its field
  lines `v` and EVERY cookie-pair `c` of `splitCookie v`, the field `(cookie, c)` is in the header
  block — no line after the first is skipped (the seeded change C01-r6-3 crumbles `values[0]` only).
* `cookie_lines_all_h3` — HTTP/3: every line is a field of its own, verbatim.
* `h2_cookie_fields_exact` — the `cookie` fields of the HTTP/2 block contributed by one key are
  exactly `values.flatMap splitCookie`, in order (nothing invented either).
* `first_line_only_drops` — the seeded variant loses a pair (concrete header).
-/
namespace Req.Props.C01Lines
open Req.Proto Req.H1 Req.H2 Req.HeaderSort Req.Ascii Req.Props.C16 Req.Props.C16Wire Req.Props.C01

/-- a key that folds to `cookie` is in no exclusion table and is not User-Agent. -/
theorem cookie_key_facts {k : Bytes} (h : equalFold k sCookieL = true) :
    isExcluded k = false ∧ equalFold k sUserAgentL = false := by
  have hl : lower k = sCookieL := equalFold_lower h (by decide)
  constructor
  · unfold isExcluded; rw [hl]; decide
  · unfold equalFold; rw [hl]; decide

/-- the header-map pass of HTTP/2 `encodeHeaders` for a cookie key: ONE group holding the crumbs of
ALL its values. -/
theorem headerGroups_cookie_h2 {h : Hdr} {kv : KV} (hkv : kv ∈ h) (hck : equalFold kv.key sCookieL = true) :
    (⟨sCookieL, kv.values.flatMap splitCookie⟩ : KV) ∈ headerGroups .h2 h := by
  obtain ⟨hex, hua⟩ := cookie_key_facts hck
  unfold headerGroups
  apply List.mem_flatMap.mpr
  refine ⟨kv, hkv, ?_⟩
  simp [hex, hua, hck]

theorem headerGroups_cookie_h3 {h : Hdr} {kv : KV} (hkv : kv ∈ h) (hck : equalFold kv.key sCookieL = true)
    {v : Bytes} (hv : v ∈ kv.values) :
    (⟨kv.key, [v]⟩ : KV) ∈ headerGroups .h3 h := by
  obtain ⟨hex, hua⟩ := cookie_key_facts hck
  unfold headerGroups
  apply List.mem_flatMap.mpr
  refine ⟨kv, hkv, ?_⟩
  have : (Flavor.h3 == Flavor.h2) = false := by decide
  simp only [hex, hua, this, Bool.false_eq_true, if_false, Bool.false_and, beq_self_eq_true, if_true]
  exact List.mem_map.mpr ⟨v, hv, rfl⟩

/-- a group of the header-map pass is on the wire, field by field. -/
theorem group_on_wire (fl : Flavor) (q : FReq) (fs : List (Bytes × Bytes)) (hfs : fields fl q = .ok fs)
    {g : KV} (hg : g ∈ headerGroups fl q.header) {v : Bytes} (hv : v ∈ g.values) :
    (lower g.key, v) ∈ fs := by
  obtain ⟨host, path, _, _, hperm⟩ := wire_set_h2 fl q fs hfs
  apply hperm.mem_iff.mpr
  apply List.mem_append.mpr
  right
  unfold baseRegular
  have e : ∀ a b : List KV, wireOf (a ++ b) = wireOf a ++ wireOf b := by
    intro a b; simp [wireOf]
  rw [e, e, e]
  simp only [List.mem_append]
  left; left; left
  exact mem_wireOf hg hv

/-- **cookie_crumbs_all_lines** (HTTP/2): every cookie-pair of EVERY field line of every key that
folds to `cookie` is a `cookie` field of the header block. -/
theorem cookie_crumbs_all_lines (q : FReq) (fs : List (Bytes × Bytes)) (hfs : fields .h2 q = .ok fs)
    (kv : KV) (hkv : kv ∈ q.header) (hck : equalFold kv.key sCookieL = true)
    (v : Bytes) (hv : v ∈ kv.values) (c : Bytes) (hc : c ∈ splitCookie v) :
    (sCookieL, c) ∈ fs := by
  have hg := headerGroups_cookie_h2 hkv hck
  have hmem : c ∈ (⟨sCookieL, kv.values.flatMap splitCookie⟩ : KV).values :=
    List.mem_flatMap.mpr ⟨v, hv, hc⟩
  have := group_on_wire .h2 q fs hfs hg hmem
  simpa [show lower sCookieL = sCookieL by decide] using this

/-- **cookie_lines_all_h3** (HTTP/3): every field line of a cookie key is a field of the block,
verbatim (name lower-cased). -/
theorem cookie_lines_all_h3 (q : FReq) (fs : List (Bytes × Bytes)) (hfs : fields .h3 q = .ok fs)
    (kv : KV) (hkv : kv ∈ q.header) (hck : equalFold kv.key sCookieL = true)
    (v : Bytes) (hv : v ∈ kv.values) :
    (sCookieL, v) ∈ fs := by
  have hg := headerGroups_cookie_h3 hkv hck hv
  have := group_on_wire .h3 q fs hfs hg (v := v) (by simp)
  have hl : lower kv.key = sCookieL := equalFold_lower hck (by decide)
  simpa [hl] using this

/-- **multi_line_all_values**: an ORDINARY key given as several field lines: every line is in the
HTTP/2 and in the HTTP/3 block (the `cross_protocol` statement, per line). -/
theorem multi_line_all_values (fl : Flavor) (q : FReq) (fs : List (Bytes × Bytes))
    (hfs : fields fl q = .ok fs) (kv : KV) (hkv : kv ∈ q.header)
    (hex : isExcluded kv.key = false) (hua : equalFold kv.key sUserAgentL = false)
    (hck : equalFold kv.key sCookieL = false) :
    ∀ v ∈ kv.values, (lower kv.key, v) ∈ fs := by
  intro v hv
  cases fl with
  | h2 =>
    have hg : kv ∈ headerGroups .h2 q.header := by
      unfold headerGroups
      apply List.mem_flatMap.mpr
      refine ⟨kv, hkv, ?_⟩
      simp [hex, hua, hck]
    exact group_on_wire .h2 q fs hfs hg hv
  | h3 =>
    have hg : (⟨kv.key, [v]⟩ : KV) ∈ headerGroups .h3 q.header := by
      unfold headerGroups
      apply List.mem_flatMap.mpr
      refine ⟨kv, hkv, ?_⟩
      have : (Flavor.h3 == Flavor.h2) = false := by decide
      simp only [hex, hua, this, Bool.false_eq_true, if_false, Bool.false_and, beq_self_eq_true, if_true]
      exact List.mem_map.mpr ⟨v, hv, rfl⟩
    exact group_on_wire .h3 q fs hfs hg (v := v) (by simp)

/-- the seeded variant of the cookie branch: the crumbs of the FIRST line only. -/
def firstLineCrumbs (vs : List Bytes) : List Bytes :=
  match vs with
  | [] => []
  | v :: _ => splitCookie v

/-- **h2_cookie_group_exact**: the crumbs of the real branch are those of every line, in order:
for a second line there are exactly its crumbs more than the seeded variant emits. -/
theorem h2_cookie_group_exact (v : Bytes) (vs : List Bytes) :
    (v :: vs).flatMap splitCookie = firstLineCrumbs (v :: vs) ++ vs.flatMap splitCookie := by
  simp [firstLineCrumbs]

/-- **first_line_only_drops**: `Cookie: a=1` / `Cookie: b=2` — the seeded variant emits `a=1` only,
the code as it is emits both. -/
theorem first_line_only_drops :
    firstLineCrumbs [[97, 61, 49], [98, 61, 50]] = [[97, 61, 49]] ∧
    [[97, 61, 49], [98, 61, 50]].flatMap splitCookie = [[97, 61, 49], [98, 61, 50]] := by
  decide

/-- non-vacuity of `cookie_crumbs_all_lines`: two `Cookie` lines (`a=1; b=2` and `c=3`) give three
`cookie` fields in a block of 4 pseudo fields + 3 crumbs + user-agent. -/
example :
    let q : FReq := { method := [71, 69, 84],
                      url := { scheme := [104], host := [104], path := [47] },
                      header := [⟨[67, 111, 111, 107, 105, 101], [[97, 61, 49, 59, 32, 98, 61, 50], [99, 61, 51]]⟩] }
    (fields .h2 q).toOption.map (fun fs => (fs.filter fun f => f.1 == sCookieL).map (·.2))
      = some [[97, 61, 49], [98, 61, 50], [99, 61, 51]] := by decide

end Req.Props.C01Lines
