import Req.Props.C17
import Req.Client.Utf8
/-!
C17 — non-ASCII names: the repaired Content-Disposition quoting (`req.go quoteParamValue`) leaves
every byte ≥ 0x80 alone — UTF-8 multi-byte sequences in field names, file-parameter names, file
names and extra parameter values go on the wire byte for byte (no `%XX`, no escape) and are read
back exactly.  (The class of seed C17-r5-2: `c == 0x7f` widened to `c >= 0x7f`.)
-/
namespace Req.Props.C17Utf8
open Req.Proto Req.Multipart

set_option maxRecDepth 100000 in
/-- the byte table of `quoteParamValue`, complete: `\` and `"` are backslash-escaped, the controls
other than TAB and DEL are percent-encoded, EVERY other byte — 0x80 … 0xFF included — is copied -/
theorem quoteByte_table : ∀ c : UInt8,
    quoteByte c =
      if c = 92 then [92, 92] else if c = 34 then [92, 34]
      else if (c < 32 ∧ c ≠ 9) ∨ c = 127 then pctByte c else [c] := by
  apply Req.Form.byte_forall
  decide

set_option maxRecDepth 100000 in
theorem quoteByte_high : ∀ c : UInt8, 128 ≤ c → quoteByte c = [c] ∧ headerUnsafe c = false := by
  apply Req.Form.byte_forall
  decide

/-- bytes that go on the wire unchanged: everything from 0x80 up, TAB, and printable ASCII other
than `"` and `\` -/
def Plain (c : UInt8) : Prop := 128 ≤ c ∨ c = 9 ∨ (32 ≤ c ∧ c < 127 ∧ c ≠ 34 ∧ c ≠ 92)

set_option maxRecDepth 100000 in
theorem quoteByte_plain : ∀ c : UInt8, Plain c → quoteByte c = [c] := by
  unfold Plain
  apply Req.Form.byte_forall
  decide

/-- **quote_identity_on_utf8** — a name made of bytes ≥ 0x80 (any UTF-8 multi-byte text, any
legacy 8-bit text), TAB and printable ASCII other than `"` `\` is written VERBATIM. -/
theorem quote_identity_on_utf8 (s : Bytes) (h : ∀ c ∈ s, Plain c) : quote s = s := by
  induction s with
  | nil => rfl
  | cons c t ih =>
    have hc := quoteByte_plain c (h c (by simp))
    have ht := ih fun x hx => h x (by simp [hx])
    simp only [quote, List.flatMap_cons] at ht ⊢
    rw [hc, ht]; rfl

set_option maxRecDepth 100000 in
theorem quoteByte_filter_high : ∀ c : UInt8,
    (quoteByte c).filter (fun c => decide (128 ≤ c)) = [c].filter (fun c => decide (128 ≤ c)) := by
  apply Req.Form.byte_forall
  decide

/-- **quote_high_bytes_verbatim** — for ALL names: the bytes ≥ 0x80 of the quoted form are exactly
the bytes ≥ 0x80 of the name, in order: none is encoded away, none is introduced. -/
theorem quote_high_bytes_verbatim (s : Bytes) :
    (quote s).filter (fun c => decide (128 ≤ c)) = s.filter (fun c => decide (128 ≤ c)) := by
  induction s with
  | nil => rfl
  | cons c t ih =>
    simp only [quote, List.flatMap_cons, List.filter_append] at ih ⊢
    rw [ih, quoteByte_filter_high c, ← List.filter_append]; rfl

theorem ofNat_high (n : Nat) (h1 : 128 ≤ n) (h2 : n < 256) : (128 : UInt8) ≤ UInt8.ofNat n := by
  rw [UInt8.le_iff_toNat_le]
  simp only [UInt8.toNat_ofNat']
  have : n % 2 ^ 8 = n := Nat.mod_eq_of_lt (by omega)
  rw [this]; exact h1

/-- every byte of the encoding of a non-ASCII code point is ≥ 0x80 -/
theorem utf8Enc_high (cp : Nat) (h1 : 0x80 ≤ cp) (h2 : cp < 0x110000) : ∀ b ∈ utf8Enc cp, 128 ≤ b := by
  intro b hb
  unfold utf8Enc at hb
  split at hb
  · omega
  · split at hb
    · simp only [List.mem_cons, List.not_mem_nil, or_false] at hb
      rcases hb with rfl | rfl <;> apply ofNat_high <;> omega
    · split at hb
      · simp only [List.mem_cons, List.not_mem_nil, or_false] at hb
        rcases hb with rfl | rfl | rfl <;> apply ofNat_high <;> omega
      · simp only [List.mem_cons, List.not_mem_nil, or_false] at hb
        rcases hb with rfl | rfl | rfl | rfl <;> apply ofNat_high <;> omega

/-- **utf8_names_roundtrip** — a name that is the UTF-8 encoding of ANY sequence of non-ASCII code
points (U+0080 … U+10FFFF: two-, three- and four-byte sequences) is written verbatim and a standard
parser reads it back exactly. -/
theorem utf8_names_roundtrip (cps : List Nat) (h : ∀ cp ∈ cps, 0x80 ≤ cp ∧ cp < 0x110000) (rest : Bytes) :
    quote (cps.flatMap utf8Enc) = cps.flatMap utf8Enc ∧
    consumeQuoted (quote (cps.flatMap utf8Enc) ++ 34 :: rest) = some (cps.flatMap utf8Enc, rest) := by
  have hi : ∀ b ∈ cps.flatMap utf8Enc, 128 ≤ b := by
    intro b hb
    obtain ⟨cp, hcp, hb⟩ := List.mem_flatMap.mp hb
    exact utf8Enc_high cp (h cp hcp).1 (h cp hcp).2 b hb
  exact ⟨quote_identity_on_utf8 _ fun c hc => Or.inl (hi c hc),
    C17.quote_roundtrip _ rest fun c hc => (quoteByte_high c (hi c hc)).2⟩

/-- 名字 / é / 🙂 (3-, 2-, 4-byte sequences) -/
example : [0x540D, 0x5B57, 0xE9, 0x1F642].flatMap utf8Enc =
    [0xE5, 0x90, 0x8D, 0xE5, 0xAD, 0x97, 0xC3, 0xA9, 0xF0, 0x9F, 0x99, 0x82] ∧
    quote ([0x540D, 0x5B57, 0xE9, 0x1F642].flatMap utf8Enc) = [0x540D, 0x5B57, 0xE9, 0x1F642].flatMap utf8Enc := by decide

/-- the seeded variant (`c >= 0x7f` percent-encoded) would send `%E5%90%8D`; the model does not -/
example : quote [0xE5, 0x90, 0x8D, 34, 0x7F] = [0xE5, 0x90, 0x8D, 92, 34, 37, 55, 70] := by decide

end Req.Props.C17Utf8
