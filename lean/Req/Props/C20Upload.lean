import Req.Client.DigestResend
/-!
C20 — "the original body is sent again intact" for multipart uploads, buffered and STREAMED, from
every kind of part source, with client-level form data (code as repaired by fixes/C20-6).
-/
namespace Req.Props.C20
open Req.Proto Req.DigestAuth

theorem readSource_rewound (s : Source) (h : s.isOneShot = false) :
    readSource true true s = readSource false false s := by
  cases s with
  | content b => rfl
  | seekable b => rfl
  | oneShot b => cases h

/-- **upload_resent_intact**: for EVERY upload — any ordered pairs, request-level and client-level
form pairs, any number of file parts from any sources, buffered or streamed: when the body is sent
again, its parts are exactly the parts of the first request (names, file names, contents, order;
no field twice, no file empty). -/
theorem upload_resent_intact (u : Upload) (ps : List Part) (h : resendParts .repaired u = some ps) :
    ps = firstParts u := by
  unfold resendParts at h
  by_cases hs : u.streamed = true
  · simp only [hs, Bool.not_true, Bool.false_eq_true, if_false] at h
    split at h
    · cases h
    · rename_i hany
      simp only [Option.some.injEq] at h
      subst h
      unfold firstParts writeParts
      congr 1
      apply List.map_congr_left
      intro f hf
      have : f.src.isOneShot = false := by
        cases hb : f.src.isOneShot with
        | false => rfl
        | true => exact absurd (List.any_eq_true.mpr ⟨f, hf, hb⟩) hany
      rw [readSource_rewound f.src this]
  · simp only [hs, Bool.not_false, if_true, Option.some.injEq] at h
    exact h.symm

/-- **unreplayable_upload_refused**: the body is refused (an error, nothing is sent) exactly when
the upload is streamed and one of its parts comes from a reader that cannot be read again — never
sent with that part empty. -/
theorem unreplayable_upload_refused (u : Upload) :
    resendParts .repaired u = none ↔ (u.streamed = true ∧ ∃ f ∈ u.files, f.src.isOneShot = true) := by
  unfold resendParts
  by_cases hs : u.streamed = true
  · simp only [hs, Bool.not_true, Bool.false_eq_true, if_false, true_and]
    by_cases hany : (u.files.any (·.src.isOneShot)) = true
    · simp only [hany, if_true, true_iff]
      obtain ⟨f, hf, hb⟩ := List.any_eq_true.mp hany
      exact ⟨f, hf, hb⟩
    · simp only [hany, Bool.false_eq_true, if_false]
      constructor
      · intro h; cases h
      · rintro ⟨f, hf, hb⟩
        exact absurd (List.any_eq_true.mpr ⟨f, hf, hb⟩) hany
  · simp [hs]

/-- the middleware: a re-sent upload carries the parts of the first request; an unanswerable
challenge is an error before any body is written -/
theorem upload_outcome (answer : Option (Except Req.Digest.Err Bytes)) (u : Upload) (ps : List Part)
    (h : handleUpload .repaired answer u = .resend ps) :
    ps = firstParts u ∧ ∃ hdr, answer = some (.ok hdr) ∧ hdr.all isFieldByte = true := by
  unfold handleUpload at h
  split at h
  · cases h
  · cases h
  · rename_i hdr
    split at h
    · cases h
    · rename_i ps' hr
      split at h
      · rename_i hall
        simp only [UploadOutcome.resend.injEq] at h
        subst h
        exact ⟨upload_resent_intact u _ hr, hdr, rfl, hall⟩
      · cases h

/-! non-vacuity and the code AS FOUND (what fixes/C20-6 repairs): a streamed upload of a client
with common form data `k=v`, a file from a seekable reader -/

def exUpload : Upload :=
  { form := [([102], [49])], clientForm := [([107], [118])],
    files := [{ param := [102, 105, 108, 101], filename := [97], src := .seekable [1, 2, 3] }], streamed := true }

example : resendParts .repaired exUpload = some (firstParts exUpload) := by decide
example : (firstParts exUpload).length = 3 := by decide

/-- as found, the same upload was re-sent with the client-level field twice and the file EMPTY -/
theorem as_found_upload_damaged :
    resendParts .asFound exUpload = some [
      { name := [102], filename := [], content := [49] },
      { name := [107], filename := [], content := [118] },
      { name := [107], filename := [], content := [118] },
      { name := [102, 105, 108, 101], filename := [97], content := [] }] ∧
    resendParts .asFound exUpload ≠ some (firstParts exUpload) := by decide

def exOneShot : Upload := { exUpload with files := [{ param := [102], filename := [97], src := .oneShot [1] }] }

example : resendParts .repaired exOneShot = none := by decide
-- buffered: every source is replayed from the buffer, nothing refused
example : resendParts .repaired { exOneShot with streamed := false } =
    some (firstParts { exOneShot with streamed := false }) := by decide

end Req.Props.C20
