import Req.Props.C16
import Req.Props.C16Resend
/-!
C16, the statements that tie the three wire renderings to ONE description of the request:

* `order_never_changes_multiset_h1 / _h23` — specifying a header order and/or a pseudo-header order
  never adds, drops or duplicates a field: the wire multiset equals the one of the same request
  with the two order lists removed;
* `order_respected_lines_h1 / _h23`, `pseudo_respected_fields` — at the level of the header LINES /
  FIELDS a peer sees (one per value), the listed ones are in list order, for ANY list
  (duplicates, unknown names, mixed case) and any number of other headers;
* `name_count_h1 / _h23`, `same_description_three_stacks` — for every ordinary name, the number of
  fields with that (lower-cased) name on the wire is the number of values the caller gave under
  all spellings of the name — the same number on HTTP/1.1, HTTP/2 and HTTP/3.
-/
namespace Req.Props.C16Wire
open Req.Proto Req.Ascii Req.HeaderSort Req.H1 Req.H2 Req.Validate Req.Props.C16 Req.Props.C16Resend

/-- the header map without the two in-band order lists. -/
def stripOrder (h : Hdr) : Hdr := h.filter fun kv => !isBookkeeping kv.key

theorem bookkeeping_excluded_h1 {k : Bytes} (h : isBookkeeping k = true) :
    reqWriteExcludeHeader.contains k = true := by
  unfold isBookkeeping at h
  rcases Bool.or_eq_true _ _ |>.mp h with h1 | h1
  · have : k = headerOrderKey := by simpa using h1
    subst this; decide
  · have : k = pseudoHeaderOrderKey := by simpa using h1
    subst this; decide

theorem bookkeeping_excluded_h2 {k : Bytes} (h : isBookkeeping k = true) : isExcluded k = true := by
  unfold isBookkeeping at h
  rcases Bool.or_eq_true _ _ |>.mp h with h1 | h1
  · have : k = headerOrderKey := by simpa using h1
    subst this; decide
  · have : k = pseudoHeaderOrderKey := by simpa using h1
    subst this; decide

theorem hdrGet?_stripOrder (h : Hdr) (k : Bytes) (hk : isBookkeeping k = false) :
    hdrGet? (stripOrder h) k = hdrGet? h k := by
  unfold hdrGet? stripOrder
  rw [find?_filter_untouched (fun x => !isBookkeeping x) k (by simp [hk]) h]

theorem callerFields_stripOrder (h : Hdr) :
    callerFields (stripOrder h) reqWriteExcludeHeader = callerFields h reqWriteExcludeHeader := by
  unfold callerFields stripOrder
  rw [List.filter_filter]
  congr 1
  apply List.filter_congr
  intro kv _
  cases hb : isBookkeeping kv.key with
  | false => simp
  | true =>
    have hin : kv.key ∈ reqWriteExcludeHeader := by simpa using bookkeeping_excluded_h1 hb
    simp [hin]

/-- **order_never_changes_multiset (HTTP/1.1)**: the multiset of header lines written with the
order lists in place equals the multiset written for the same request without them. -/
theorem order_never_changes_multiset_h1 (r : WReq) (host : Bytes) (f : Framing) :
    (linesOf (h1Fields r host f)).Perm
      (linesOf (h1Fields { r with header := stripOrder r.header } host f)) := by
  refine (wire_set_h1 r host f).trans (List.Perm.trans ?_ (wire_set_h1 _ host f).symm)
  have hown : ownFieldsH1 { r with header := stripOrder r.header } host f = ownFieldsH1 r host f := by
    unfold ownFieldsH1 framingFields hdrFirst
    simp only [hdrGet?_stripOrder r.header sUserAgent (by decide),
      hdrGet?_stripOrder r.header sConnection (by decide)]
  rw [hown]
  simp only [callerFields_stripOrder]
  exact List.Perm.refl _

theorem flatMap_filter_of_nil {α β} (p : α → Bool) (g : α → List β)
    (hg : ∀ a, p a = false → g a = []) (l : List α) : (l.filter p).flatMap g = l.flatMap g := by
  induction l with
  | nil => rfl
  | cons x xs ih =>
    cases hp : p x with
    | true => simp [hp, ih]
    | false => simp [hp, ih, hg x hp]

theorem any_filter_of_false {α} (p q : α → Bool) (hq : ∀ a, p a = false → q a = false)
    (l : List α) : (l.filter p).any q = l.any q := by
  induction l with
  | nil => rfl
  | cons x xs ih =>
    cases hp : p x with
    | true => simp [hp, ih]
    | false => simp [hp, ih, hq x hp]

theorem headerGroups_stripOrder (fl : Flavor) (h : Hdr) :
    headerGroups fl (stripOrder h) = headerGroups fl h := by
  unfold headerGroups stripOrder
  apply flatMap_filter_of_nil
  intro kv hp
  have hb : isBookkeeping kv.key = true := by simpa using hp
  simp [bookkeeping_excluded_h2 hb]

theorem didUA_stripOrder (h : Hdr) : didUA (stripOrder h) = didUA h := by
  unfold didUA stripOrder
  apply any_filter_of_false
  intro kv hp
  have hb : isBookkeeping kv.key = true := by simpa using hp
  simp [bookkeeping_excluded_h2 hb]

theorem baseRegular_stripOrder (fl : Flavor) (r : FReq) :
    baseRegular fl { r with header := stripOrder r.header } = baseRegular fl r := by
  unfold baseRegular
  simp only [headerGroups_stripOrder, didUA_stripOrder]
  rfl

/-- **order_never_changes_multiset (HTTP/2, HTTP/3)**: when both the request with its order lists
and the same request without them produce a header block, the two field lists are permutations
of each other. -/
theorem order_never_changes_multiset_h23 (fl : Flavor) (r : FReq) (fs fs' : List (Bytes × Bytes))
    (h : fields fl r = .ok fs) (h' : fields fl { r with header := stripOrder r.header } = .ok fs') :
    fs.Perm fs' := by
  obtain ⟨host, path, hh, hp, hperm⟩ := wire_set_h2 fl r fs h
  obtain ⟨host', path', hh', hp', hperm'⟩ := wire_set_h2 fl _ fs' h'
  have e1 : host' = host := by
    have : fieldHost { r with header := stripOrder r.header } = fieldHost r := rfl
    rw [this, hh] at hh'; exact (Except.ok.inj hh').symm
  subst e1
  have e2 : path' = path := by
    have : fieldPath { r with header := stripOrder r.header } host' = fieldPath r host' := rfl
    rw [this, hp] at hp'; exact (Except.ok.inj hp').symm
  subst e2
  refine hperm.trans (List.Perm.trans ?_ hperm'.symm)
  rw [baseRegular_stripOrder]
  exact List.Perm.refl _

/-- non-vacuity: an order list that reorders three fields leaves the set alone. -/
example :
    (fields .h2 { method := [71, 69, 84], url := { scheme := [104], host := [104], path := [47] }, header :=
        [⟨[88, 45, 65], [[49]]⟩, ⟨[88, 45, 66], [[50]]⟩,
         ⟨headerOrderKey, [[120, 45, 98], [120, 45, 97]]⟩] }).toOption.map (·.map (·.1)) =
      some [sAuthority, sMethod, sPath, sScheme, [120, 45, 98], [120, 45, 97], sUserAgentL] := by
  decide

/-! ### order at the level of lines / fields -/

theorem pairwise_lines {idx : Bytes → Option Nat} (l : List KV)
    (h : (l.filterMap fun kv => idx kv.key).Pairwise (· ≤ ·)) :
    ((linesOf l).filterMap fun kv => idx kv.1).Pairwise (· ≤ ·) := by
  induction l with
  | nil => simp [linesOf]
  | cons x xs ih =>
    have e : linesOf (x :: xs) = linesOf [x] ++ linesOf xs := by simp [linesOf]
    rw [e, List.filterMap_append, List.pairwise_append]
    have hx : ∀ a ∈ (linesOf [x]).filterMap (fun kv => idx kv.1), idx x.key = some a := by
      intro a ha
      obtain ⟨⟨k, v⟩, hm, hk⟩ := List.mem_filterMap.mp ha
      obtain ⟨kv, hkv, hke, _⟩ := mem_linesOf hm
      simp at hkv; subst hkv
      simp only at hk; rw [← hke] at hk; exact hk
    cases hi : idx x.key with
    | none =>
      have hnil : (linesOf [x]).filterMap (fun kv => idx kv.1) = [] := by
        apply List.eq_nil_iff_forall_not_mem.mpr
        intro a ha
        have := hx a ha
        rw [hi] at this; exact absurd this (by simp)
      rw [hnil]
      simp only [List.filterMap_cons, hi] at h
      exact ⟨List.Pairwise.nil, ih h, by simp⟩
    | some i =>
      simp only [List.filterMap_cons, hi, List.pairwise_cons] at h
      refine ⟨?_, ih h.2, ?_⟩
      · apply List.pairwise_of_forall_mem_list
        intro a ha b hb
        have h1 := hx a ha; have h2 := hx b hb
        rw [hi] at h1 h2
        cases h1; cases h2; exact Nat.le_refl _
      · intro a ha b hb
        have h1 := hx a ha
        rw [hi] at h1; cases h1
        obtain ⟨⟨k, v⟩, hm, hk⟩ := List.mem_filterMap.mp hb
        obtain ⟨kv, hkv, hke, _⟩ := mem_linesOf hm
        apply h.1
        apply List.mem_filterMap.mpr
        exact ⟨kv, hkv, by simp only at hk; rw [hke]; exact hk⟩

/-- **order_respected (HTTP/1.1, header lines)**: reading the header LINES of the request top to
bottom, the positions their names have in the order list (last occurrence, case-insensitive)
never decrease — for any list and any number of unlisted lines in between. -/
theorem order_respected_lines_h1 (r : WReq) (host : Bytes) (f : Framing)
    (hmode : (orderList r.header).isEmpty = false) :
    ((linesOf (h1Fields r host f)).filterMap
      (fun l => lastIndex (orderList r.header) l.1)).Pairwise (· ≤ ·) :=
  pairwise_lines _ (header_order_h1 r host f hmode)

theorem wireOf_eq (kvs : List KV) : wireOf kvs = (linesOf kvs).map fun l => (lower l.1, l.2) := by
  unfold wireOf linesOf
  induction kvs with
  | nil => rfl
  | cons x xs ih => simp [List.flatMap_cons, ih, List.map_append, List.map_map, Function.comp]

/-- **order_respected (HTTP/2, HTTP/3, regular fields)** in arrival order. The index of a field
is looked up by the name its group was collected under (the caller's spelling; the order list is
matched case-insensitively). -/
theorem order_respected_lines_h23 (fl : Flavor) (r : FReq)
    (hmode : ¬ (orderList r.header).isEmpty) :
    ((linesOf (regularKVs fl r)).filterMap
      (fun l => lastIndex (orderList r.header) l.1)).Pairwise (· ≤ ·) :=
  pairwise_lines _ ((header_order_h2 fl r).2 hmode)

/-- **pseudo-header order** at field level. -/
theorem pseudo_respected_fields (fl : Flavor) (r : FReq) (host path : Bytes) :
    ((linesOf (pseudoKVs fl r host path)).filterMap
      (fun l => lastIndex (pseudoOrderList r.header) l.1)).Pairwise (· ≤ ·) :=
  pairwise_lines _ (pseudo_order fl r host path).2

/-- order list with a duplicate, an unknown name and other case; three values under one name stay
together and in their order. -/
example :
    (linesOf (h1Fields
      { method := [71, 69, 84], url := {}, header :=
          [⟨[88, 45, 65], [[49], [50], [51]]⟩, ⟨[88, 45, 66], [[52]]⟩,
           ⟨headerOrderKey, [[120, 45, 98], [120, 45, 122], [88, 45, 65], [120, 45, 66]]⟩] }
      [104] ⟨false, false, 0⟩))
    = [(sHost, [104]), (sUserAgent, defaultUserAgent), ([88, 45, 65], [49]), ([88, 45, 65], [50]),
       ([88, 45, 65], [51]), ([88, 45, 66], [52])] := by decide

/-! ### one description, three stacks: per-name value counts -/

/-- lower-cased names some writer treats specially (writes itself, forbids, splits or uses as
bookkeeping). Every other name is "ordinary". -/
def special : List Bytes :=
  [sHostL, sUserAgentL, sContentLengthL, sTransferEncodingL, lower sTrailer, sConnectionL,
   sProxyConnectionL, sUpgradeL, sKeepAliveL, sCookieL, sAcceptEncodingL, headerOrderKey,
   pseudoHeaderOrderKey]

def ordinary (n : Bytes) : Bool := !special.contains n && n.head? != some 58

/-- the caller's lines with name `n` (any spelling). -/
def nameIs (n : Bytes) (l : Bytes × Bytes) : Bool := lower l.1 == n

theorem countP_linesOf_single (n : Bytes) (kv : KV) :
    (linesOf [kv]).countP (nameIs n) = if lower kv.key == n then kv.values.length else 0 := by
  simp only [linesOf, List.flatMap_cons, List.flatMap_nil, List.append_nil, List.countP_map]
  split
  next h =>
    rw [List.countP_eq_length.mpr]
    intro v _; simpa [nameIs, Function.comp] using h
  next h =>
    apply List.countP_eq_zero.mpr
    intro v _; simpa [nameIs, Function.comp] using h

theorem linesOf_cons (x : KV) (xs : List KV) : linesOf (x :: xs) = linesOf [x] ++ linesOf xs := by
  simp [linesOf]

theorem countP_linesOf_zero (n : Bytes) (l : List KV) (h : ∀ kv ∈ l, (lower kv.key == n) = false) :
    (linesOf l).countP (nameIs n) = 0 := by
  induction l with
  | nil => rfl
  | cons x xs ih =>
    rw [linesOf_cons, List.countP_append, countP_linesOf_single, h x (List.mem_cons_self ..),
      ih (fun kv hkv => h kv (List.mem_cons_of_mem _ hkv))]
    rfl

theorem ordinary_not_special {n : Bytes} (hn : ordinary n = true) {k : Bytes}
    (hk : special.contains (lower k) = true) : (lower k == n) = false := by
  cases hb : lower k == n with
  | false => rfl
  | true =>
    have : lower k = n := by simpa using hb
    rw [this] at hk
    have hin : n ∈ special := by simpa using hk
    simp [ordinary] at hn
    exact absurd hin hn.1

theorem exclude_h1_special : ∀ k ∈ reqWriteExcludeHeader, special.contains (lower k) = true := by decide
theorem ownKeys_special : ∀ k ∈ ownKeysH1, special.contains (lower k) = true := by decide
theorem excludeLower_special : ∀ k ∈ excludeLower, special.contains k = true := by decide

theorem callerFields_cons (x : KV) (xs : Hdr) (ex : List Bytes) :
    callerFields (x :: xs) ex =
      (if !ex.contains x.key && validHeaderFieldName x.key then
        [⟨x.key, x.values.map sanitizeValue⟩] else []) ++ callerFields xs ex := by
  unfold callerFields
  simp only [List.filter_cons]
  split <;> simp

/-- **HTTP/1.1**: for an ordinary name `n`, the number of header lines on the wire whose name is
`n` (in any spelling) is the number of values the caller gave under all spellings of `n`. -/
theorem name_count_h1 (r : WReq) (host : Bytes) (f : Framing) (n : Bytes) (hn : ordinary n = true)
    (hvalid : ∀ kv ∈ r.header, validHeaderFieldName kv.key = true)
    (hextra : ∀ kv ∈ r.extra, (lower kv.key == n) = false) :
    (linesOf (h1Fields r host f)).countP (nameIs n) = (linesOf r.header).countP (nameIs n) := by
  rw [(wire_set_h1 r host f).countP_eq]
  simp only [List.countP_append]
  have hown : (linesOf (ownFieldsH1 r host f)).countP (nameIs n) = 0 :=
    countP_linesOf_zero n _ fun kv hkv =>
      ordinary_not_special hn (ownKeys_special _ (ownFieldsH1_keys r host f kv hkv))
  have hex : (linesOf (callerFields r.extra [])).countP (nameIs n) = 0 := by
    apply countP_linesOf_zero
    intro kv hkv
    unfold callerFields at hkv
    obtain ⟨kv0, h0, rfl⟩ := List.mem_map.mp hkv
    exact hextra kv0 (List.mem_filter.mp h0).1
  rw [hown, hex]
  have hc : ∀ h : Hdr, (∀ kv ∈ h, validHeaderFieldName kv.key = true) →
      (linesOf (callerFields h reqWriteExcludeHeader)).countP (nameIs n) =
        (linesOf h).countP (nameIs n) := by
    intro h
    induction h with
    | nil => intro _; rfl
    | cons x xs ih =>
      intro hv
      have ihx := ih (fun kv hkv => hv kv (List.mem_cons_of_mem _ hkv))
      have hvx := hv x (List.mem_cons_self ..)
      rw [linesOf_cons x xs, List.countP_append, ← ihx, callerFields_cons, linesOf_append,
        List.countP_append]
      congr 1
      by_cases hexx : reqWriteExcludeHeader.contains x.key = true
      · have hne := ordinary_not_special hn (exclude_h1_special x.key (by simpa using hexx))
        simp only [hexx, Bool.not_true, Bool.false_and, Bool.false_eq_true, if_false]
        rw [countP_linesOf_single, hne]
        rfl
      · have hexx' : reqWriteExcludeHeader.contains x.key = false := by simpa using hexx
        simp only [hexx', hvx, Bool.not_false, Bool.and_self, if_true]
        rw [countP_linesOf_single, countP_linesOf_single]
        simp
  rw [hc r.header hvalid]
  omega

theorem countP_wireOf_single (n : Bytes) (kv : KV) :
    (wireOf [kv]).countP (fun f => f.1 == n) = if lower kv.key == n then kv.values.length else 0 := by
  simp only [wireOf, List.flatMap_cons, List.flatMap_nil, List.append_nil, List.countP_map]
  split
  next h =>
    rw [List.countP_eq_length.mpr]
    intro v _; simpa [Function.comp] using h
  next h =>
    apply List.countP_eq_zero.mpr
    intro v _; simpa [Function.comp] using h

theorem wireOf_append (a b : List KV) : wireOf (a ++ b) = wireOf a ++ wireOf b := by
  simp [wireOf]

theorem countP_wireOf_zero (n : Bytes) (l : List KV) (h : ∀ kv ∈ l, (lower kv.key == n) = false) :
    (wireOf l).countP (fun f => f.1 == n) = 0 := by
  induction l with
  | nil => rfl
  | cons x xs ih =>
    have e : x :: xs = [x] ++ xs := rfl
    rw [e, wireOf_append, List.countP_append, countP_wireOf_single, h x (List.mem_cons_self ..),
      ih (fun kv hkv => h kv (List.mem_cons_of_mem _ hkv))]
    rfl

theorem isExcluded_special {k : Bytes} (h : isExcluded k = true) :
    special.contains (lower k) = true :=
  excludeLower_special _ (by simpa [isExcluded] using h)

theorem equalFold_lower {k c : Bytes} (h : equalFold k c = true) (hc : lower c = c) :
    lower k = c := by
  unfold equalFold at h
  have : lower k = lower c := by simpa using h
  rw [this, hc]

theorem countP_wireOf_split (n key : Bytes) (vs : List Bytes) :
    (wireOf (vs.map fun v => (⟨key, [v]⟩ : KV))).countP (fun f => f.1 == n) =
      if lower key == n then vs.length else 0 := by
  induction vs with
  | nil => simp [wireOf]
  | cons v vs ih =>
    have e : (v :: vs).map (fun v => (⟨key, [v]⟩ : KV)) = [⟨key, [v]⟩] ++ vs.map fun v => ⟨key, [v]⟩ := rfl
    rw [e, wireOf_append, List.countP_append, ih, countP_wireOf_single]
    split <;> simp <;> omega

/-- the regular fields collected from the header map: per ordinary name as many as the caller
gave values. -/
theorem countP_headerGroups (fl : Flavor) (n : Bytes) (hn : ordinary n = true) (h : Hdr) :
    (wireOf (headerGroups fl h)).countP (fun f => f.1 == n) = (linesOf h).countP (nameIs n) := by
  induction h with
  | nil => rfl
  | cons x xs ih =>
    have e : headerGroups fl (x :: xs) = headerGroups fl [x] ++ headerGroups fl xs := by
      simp [headerGroups]
    rw [e, wireOf_append, List.countP_append, ih, linesOf_cons, List.countP_append,
      countP_linesOf_single]
    congr 1
    unfold headerGroups
    simp only [List.flatMap_cons, List.flatMap_nil, List.append_nil]
    by_cases hex : isExcluded x.key = true
    · simp [hex, ordinary_not_special hn (isExcluded_special hex), wireOf]
    · simp only [hex, Bool.false_eq_true, if_false]
      by_cases hua : equalFold x.key sUserAgentL = true
      · have hl : lower x.key = sUserAgentL := equalFold_lower hua (by decide)
        have hne : (lower x.key == n) = false :=
          ordinary_not_special hn (by rw [hl]; decide)
        simp only [hua, if_true, hne, Bool.false_eq_true, if_false]
        apply countP_wireOf_zero
        intro kv hkv
        have : kv.key = x.key := by
          split at hkv
          · simp at hkv
          · split at hkv
            · simp at hkv
            · simp at hkv; rw [hkv]
        rw [this]; exact hne
      · simp only [hua, Bool.false_eq_true, if_false]
        by_cases hck : (fl == Flavor.h2 && equalFold x.key sCookieL) = true
        · have hck2 : equalFold x.key sCookieL = true := by
            simp only [Bool.and_eq_true] at hck; exact hck.2
          have hl : lower x.key = sCookieL := equalFold_lower hck2 (by decide)
          have hne : (lower x.key == n) = false :=
            ordinary_not_special hn (by rw [hl]; decide)
          simp only [hck, if_true, hne, Bool.false_eq_true, if_false]
          apply countP_wireOf_zero
          intro kv hkv
          simp at hkv
          rw [hkv]
          have : lower sCookieL = sCookieL := by decide
          simp only [this]
          rw [← hl]; exact hne
        · simp only [hck, Bool.false_eq_true, if_false]
          by_cases h3 : (fl == Flavor.h3) = true
          · simp only [h3, if_true]
            exact countP_wireOf_split n x.key x.values
          · simp only [h3, Bool.false_eq_true, if_false]
            exact countP_wireOf_single n x

/-- **HTTP/2 and HTTP/3**: for an ordinary name `n`, the number of fields named `n` in the header
block is the number of values the caller gave under all spellings of `n`. -/
theorem name_count_h23 (fl : Flavor) (r : FReq) (fs : List (Bytes × Bytes)) (n : Bytes)
    (hn : ordinary n = true) (h : fields fl r = .ok fs) :
    fs.countP (fun f => f.1 == n) = (linesOf r.header).countP (nameIs n) := by
  obtain ⟨host, path, _, _, hperm⟩ := wire_set_h2 fl r fs h
  rw [hperm.countP_eq, List.countP_append]
  have hps : (wireOf (basePseudo fl r host path)).countP (fun f => f.1 == n) = 0 := by
    apply List.countP_eq_zero.mpr
    intro f hf
    have hcolon : f.1.head? = some 58 := by
      unfold basePseudo wireOf at hf
      simp only [List.mem_flatMap, List.mem_append, List.mem_cons, List.mem_map] at hf
      obtain ⟨kv, hkv, v, _, rfl⟩ := hf
      rcases hkv with (hkv | hkv | hkv) | hkv
      · subst hkv; rfl
      · subst hkv; rfl
      · simp at hkv
      · split at hkv
        · simp at hkv
        · simp at hkv
          rcases hkv with hkv | hkv <;> (subst hkv; rfl)
    intro hfn
    have : f.1 = n := by simpa using hfn
    rw [this] at hcolon
    simp [ordinary, hcolon] at hn
  rw [hps, Nat.zero_add]
  unfold baseRegular
  simp only [wireOf_append, List.countP_append]
  rw [countP_headerGroups fl n hn]
  have z : ∀ (c : Prop) [Decidable c] (k : Bytes) (vs : List Bytes),
      special.contains k = true → lower k = k →
      (wireOf (if c then [(⟨k, vs⟩ : KV)] else [])).countP (fun f => f.1 == n) = 0 := by
    intro c _ k vs hk hl
    apply countP_wireOf_zero
    intro kv hkv
    split at hkv
    · simp at hkv; rw [hkv]; exact ordinary_not_special hn (by simp only [hl]; exact hk)
    · simp at hkv
  have z' : ∀ (c : Prop) [Decidable c] (k : Bytes) (vs : List Bytes),
      special.contains k = true → lower k = k →
      (wireOf (if c then [] else [(⟨k, vs⟩ : KV)])).countP (fun f => f.1 == n) = 0 := by
    intro c _ k vs hk hl
    apply countP_wireOf_zero
    intro kv hkv
    split at hkv
    · simp at hkv
    · simp at hkv; rw [hkv]; exact ordinary_not_special hn (by simp only [hl]; exact hk)
  rw [z _ sContentLengthL _ (by decide) (by decide), z _ sAcceptEncodingL _ (by decide) (by decide),
    z' _ sUserAgentL _ (by decide) (by decide)]
  rfl

/-- **One description, three stacks.** Take any request description: the same method, URL and
header map handed to the HTTP/1.1 writer, the HTTP/2 encoder and the HTTP/3 encoder. For every
ordinary header name, the three wires carry the SAME number of fields of that name — the number of
values the caller set under all spellings of the name; no stack drops, duplicates or merges a
value. (Hypotheses: the header names are valid field names — HTTP/2 and HTTP/3 refuse the request
otherwise, HTTP/1.1 omits the invalid name — and the HTTP/1.1 transport's extra headers
(`Accept-Encoding`, `Connection`) are not called `n`.) -/
theorem same_description_three_stacks
    (w : WReq) (r : FReq) (hsame : r.header = w.header) (host : Bytes) (f : Framing)
    (fs2 fs3 : List (Bytes × Bytes)) (n : Bytes) (hn : ordinary n = true)
    (hvalid : ∀ kv ∈ w.header, validHeaderFieldName kv.key = true)
    (hextra : ∀ kv ∈ w.extra, (lower kv.key == n) = false)
    (h2 : fields .h2 r = .ok fs2) (h3 : fields .h3 r = .ok fs3) :
    (linesOf (h1Fields w host f)).countP (nameIs n) = fs2.countP (fun f => f.1 == n) ∧
    fs2.countP (fun f => f.1 == n) = fs3.countP (fun f => f.1 == n) ∧
    fs3.countP (fun f => f.1 == n) = (linesOf w.header).countP (nameIs n) := by
  rw [name_count_h1 w host f n hn hvalid hextra, name_count_h23 .h2 r fs2 n hn h2,
    name_count_h23 .h3 r fs3 n hn h3, hsame]
  exact ⟨rfl, rfl, rfl⟩

/-- non-vacuity: `X-A` with two values and `x-a` with one: three fields named `x-a` on HTTP/2. -/
example :
    ((fields .h2 { method := [71, 69, 84], url := { scheme := [104], host := [104], path := [47] }, header :=
        [⟨[88, 45, 65], [[49], [50]]⟩, ⟨[120, 45, 97], [[51]]⟩] }).toOption.map
      (·.countP (fun f => f.1 == [120, 45, 97]))) = some 3 ∧ ordinary [120, 45, 97] = true := by
  decide

/-! ### the writer's own fields next to the caller's (HTTP/1.1): exactly once -/

theorem countP_key_linesOf_single (k : Bytes) (kv : KV) :
    (linesOf [kv]).countP (fun l => l.1 == k) = if kv.key == k then kv.values.length else 0 := by
  simp only [linesOf, List.flatMap_cons, List.flatMap_nil, List.append_nil, List.countP_map]
  split
  next h =>
    rw [List.countP_eq_length.mpr]
    intro v _; simpa [Function.comp] using h
  next h =>
    apply List.countP_eq_zero.mpr
    intro v _; simpa [Function.comp] using h

theorem countP_key_linesOf_zero (k : Bytes) (l : List KV) (h : ∀ kv ∈ l, (kv.key == k) = false) :
    (linesOf l).countP (fun l => l.1 == k) = 0 := by
  induction l with
  | nil => rfl
  | cons x xs ih =>
    rw [linesOf_cons, List.countP_append, countP_key_linesOf_single, h x (List.mem_cons_self ..),
      ih (fun kv hkv => h kv (List.mem_cons_of_mem _ hkv))]
    rfl

/-- a name the HTTP/1.1 writer excludes from the caller's map (exact spelling) is written by the
writer alone: the number of such lines is the number of lines the writer itself produces. -/
theorem excluded_key_count (r : WReq) (host : Bytes) (f : Framing) (k : Bytes)
    (hk : reqWriteExcludeHeader.contains k = true) (hextra : ∀ kv ∈ r.extra, (kv.key == k) = false) :
    (linesOf (h1Fields r host f)).countP (fun l => l.1 == k) =
      (linesOf (ownFieldsH1 r host f)).countP (fun l => l.1 == k) := by
  rw [(wire_set_h1 r host f).countP_eq]
  simp only [List.countP_append]
  have h1 : (linesOf (callerFields r.header reqWriteExcludeHeader)).countP (fun l => l.1 == k) = 0 := by
    apply countP_key_linesOf_zero
    intro kv hkv
    cases hb : kv.key == k with
    | false => rfl
    | true =>
      have : kv.key = k := by simpa using hb
      have := (callerFields_mem_key hkv).1
      simp_all
  have h2 : (linesOf (callerFields r.extra [])).countP (fun l => l.1 == k) = 0 := by
    apply countP_key_linesOf_zero
    intro kv hkv
    unfold callerFields at hkv
    obtain ⟨kv0, h0, rfl⟩ := List.mem_map.mp hkv
    exact hextra kv0 (List.mem_filter.mp h0).1
  omega

/-- **`Host` exactly once**, whatever the caller put under `Host` in the header map (the caller's
override travels in `Request.Host`) and whatever the order list. -/
theorem host_exactly_once (r : WReq) (host : Bytes) (f : Framing)
    (hextra : ∀ kv ∈ r.extra, (kv.key == sHost) = false) :
    (linesOf (h1Fields r host f)).countP (fun l => l.1 == sHost) = 1 := by
  rw [excluded_key_count r host f sHost (by decide) hextra]
  unfold ownFieldsH1
  simp only [linesOf_append, List.countP_append]
  have h1 : (linesOf [(⟨sHost, [host]⟩ : KV)]).countP (fun l => l.1 == sHost) = 1 := by
    rw [countP_key_linesOf_single]; simp
  have h2 : ∀ (c : Prop) [Decidable c] (v : List Bytes),
      (linesOf (if c then [] else [(⟨sUserAgent, v⟩ : KV)])).countP (fun l => l.1 == sHost) = 0 := by
    intro c _ v
    apply countP_key_linesOf_zero
    intro kv hkv
    rw [mem_ite_r hkv]; exact (by decide : (sUserAgent == sHost) = false)
  have h3 : (linesOf (framingFields r f)).countP (fun l => l.1 == sHost) = 0 := by
    apply countP_key_linesOf_zero
    intro kv hkv
    have hk : kv.key ∈ ownKeysH1 := ownFieldsH1_keys r host f kv (by
      unfold ownFieldsH1; exact List.mem_append_right _ hkv)
    unfold framingFields at hkv
    simp only [List.mem_append] at hkv
    rcases hkv with hkv | hkv
    · rw [mem_ite_l hkv]; exact (by decide : (sConnection == sHost) = false)
    · rcases mem_ite_lr hkv with h | h
      · rw [h]; exact (by decide : (sContentLength == sHost) = false)
      · rw [h]; exact (by decide : (sTransferEncoding == sHost) = false)
  rw [h1, h2, h3]

/-- **`User-Agent` at most once; the caller's empty value suppresses it**: with a `User-Agent`
entry whose first value is empty (or that has no value) no `User-Agent` line is written; otherwise
exactly one (the caller's first value, or the default). -/
theorem user_agent_once (r : WReq) (host : Bytes) (f : Framing)
    (hextra : ∀ kv ∈ r.extra, (kv.key == sUserAgent) = false) :
    (linesOf (h1Fields r host f)).countP (fun l => l.1 == sUserAgent) =
      if (hdrGet? r.header sUserAgent).isSome && (hdrFirst r.header sUserAgent).isEmpty then 0 else 1 := by
  rw [excluded_key_count r host f sUserAgent (by decide) hextra]
  unfold ownFieldsH1
  simp only [linesOf_append, List.countP_append]
  have h1 : (linesOf [(⟨sHost, [host]⟩ : KV)]).countP (fun l => l.1 == sUserAgent) = 0 := by
    rw [countP_key_linesOf_single]; simp; decide
  have h3 : (linesOf (framingFields r f)).countP (fun l => l.1 == sUserAgent) = 0 := by
    apply countP_key_linesOf_zero
    intro kv hkv
    unfold framingFields at hkv
    simp only [List.mem_append] at hkv
    rcases hkv with hkv | hkv
    · rw [mem_ite_l hkv]; exact (by decide : (sConnection == sUserAgent) = false)
    · rcases mem_ite_lr hkv with h | h
      · rw [h]; exact (by decide : (sContentLength == sUserAgent) = false)
      · rw [h]; exact (by decide : (sTransferEncoding == sUserAgent) = false)
  rw [h1, h3]
  cases hs : (hdrGet? r.header sUserAgent).isSome with
  | false =>
    simp only [Bool.false_eq_true, if_false, Bool.false_and]
    have : defaultUserAgent.isEmpty = false := by decide
    simp [this, countP_key_linesOf_single]
  | true =>
    simp only [if_true, Bool.true_and]
    cases he : (hdrFirst r.header sUserAgent).isEmpty with
    | true => simp [linesOf]
    | false => simp [countP_key_linesOf_single]

/-- **the caller's `Accept-Encoding` suppresses the transport's**: when the caller set a
non-empty `Accept-Encoding` the transport adds none of its own (so the caller's values are the
only ones on the wire, by `wire_set_h1`). -/
theorem accept_encoding_caller_wins (dc dk : Bool) (r : WReq)
    (h : (Req.Resend.hget r.header Req.Resend.sAcceptEncoding).isEmpty = false) :
    ∀ kv ∈ Req.Resend.transportExtra dc dk r, (kv.key == Req.Resend.sAcceptEncoding) = false := by
  intro kv hkv
  unfold Req.Resend.transportExtra at hkv
  simp only [h, Bool.and_false, Bool.false_and, Bool.false_eq_true, if_false, List.nil_append] at hkv
  rw [mem_ite_l hkv]; decide

example :
    (linesOf (h1Fields { method := [71, 69, 84], url := {}, header :=
      [⟨sHost, [[120]]⟩, ⟨sUserAgent, [[]]⟩, ⟨[104, 111, 115, 116], [[121]]⟩] } [104] ⟨false, false, 0⟩))
    = [(sHost, [104]), ([104, 111, 115, 116], [121])] := by decide

/-! ### multi-valued headers: value order within a name -/

/-- the key/value GROUPS the HTTP/1.1 writer emits are a permutation of: own fields, caller
fields, extra fields (group level; `wire_set_h1` is the line-level consequence). -/
theorem h1Fields_perm (r : WReq) (host : Bytes) (f : Framing) :
    (h1Fields r host f).Perm
      (ownFieldsH1 r host f ++ callerFields r.header reqWriteExcludeHeader ++ callerFields r.extra []) := by
  have hcol : ∀ mode : Bool,
      (ownFieldsH1 r host f ++ writeSubset r.header reqWriteExcludeHeader mode ++
        writeSubset r.extra [] mode).Perm
      (ownFieldsH1 r host f ++ callerFields r.header reqWriteExcludeHeader ++ callerFields r.extra []) :=
    fun mode => List.Perm.append (List.Perm.append (List.Perm.refl _) (writeSubset_perm _ _ _))
      (writeSubset_perm _ _ _)
  unfold h1Fields
  simp only
  split
  · refine (sort_perm _ _).trans ?_
    simpa [ownFieldsH1, List.append_assoc] using hcol (!(orderList r.header).isEmpty)
  · simpa [ownFieldsH1, List.append_assoc] using hcol (!(orderList r.header).isEmpty)

theorem filter_linesOf_key (k : Bytes) (l : List KV) :
    (linesOf l).filter (fun x => x.1 == k) = linesOf (l.filter fun kv => kv.key == k) := by
  induction l with
  | nil => rfl
  | cons x xs ih =>
    rw [linesOf_cons, List.filter_append, ih]
    cases hk : x.key == k with
    | true =>
      simp only [List.filter_cons, hk, if_true]
      have hx : (linesOf [x]).filter (fun y => y.1 == k) = linesOf [x] := by
        apply List.filter_eq_self.mpr
        intro a ha
        obtain ⟨kv, hkv, hke, _⟩ := mem_linesOf (k := a.1) (v := a.2) ha
        simp at hkv; subst hkv; rw [← hke]; exact hk
      rw [hx]
      exact (linesOf_cons x _).symm
    | false =>
      simp only [List.filter_cons, hk, Bool.false_eq_true, if_false]
      have : (linesOf [x]).filter (fun y => y.1 == k) = [] := by
        apply List.filter_eq_nil_iff.mpr
        intro a ha
        obtain ⟨kv, hkv, hke, _⟩ := mem_linesOf (k := a.1) (v := a.2) ha
        simp at hkv; subst hkv; rw [← hke]; simp [hk]
      rw [this]; rfl

theorem filter_key_nodup (h : Hdr) (hnd : (h.map (·.key)).Nodup) (kv : KV) (hm : kv ∈ h) :
    h.filter (fun x => x.key == kv.key) = [kv] := by
  induction h with
  | nil => simp at hm
  | cons x xs ih =>
    simp only [List.map_cons, List.nodup_cons] at hnd
    rcases List.mem_cons.mp hm with he | hin
    · subst he
      simp only [List.filter_cons, beq_self_eq_true, if_true]
      congr 1
      apply List.filter_eq_nil_iff.mpr
      intro a ha hk
      have : a.key = kv.key := by simpa using hk
      exact hnd.1 (this ▸ List.mem_map_of_mem (f := (·.key)) ha)
    · have hne : (x.key == kv.key) = false := by
        cases hb : x.key == kv.key with
        | false => rfl
        | true =>
          have : x.key = kv.key := by simpa using hb
          exact absurd (this ▸ List.mem_map_of_mem (f := (·.key)) hin) hnd.1
      simp only [List.filter_cons, hne, Bool.false_eq_true, if_false]
      exact ih hnd.2 hin

/-- **Multi-valued headers keep their values, once each and in the caller's order (HTTP/1.1)**:
for a key of the header map (a Go map: keys distinct) that is a valid field name, not one the
writer handles itself and not an extra-header name, the header lines with exactly that name are —
top to bottom — the caller's values in the caller's order (each sanitised), header-order mode or
not, wherever the sort puts the group. -/
theorem value_order_h1 (r : WReq) (host : Bytes) (f : Framing) (kv : KV)
    (hnd : (r.header.map (·.key)).Nodup) (hm : kv ∈ r.header)
    (hex : reqWriteExcludeHeader.contains kv.key = false)
    (hname : validHeaderFieldName kv.key = true)
    (hown : kv.key ∉ ownKeysH1) (hextra : ∀ e ∈ r.extra, (e.key == kv.key) = false) :
    (linesOf (h1Fields r host f)).filter (fun l => l.1 == kv.key) =
      kv.values.map fun v => (kv.key, sanitizeValue v) := by
  rw [filter_linesOf_key]
  have hp := (h1Fields_perm r host f).filter (fun x => x.key == kv.key)
  have hrhs : (ownFieldsH1 r host f ++ callerFields r.header reqWriteExcludeHeader ++
      callerFields r.extra []).filter (fun x => x.key == kv.key) =
      [⟨kv.key, kv.values.map sanitizeValue⟩] := by
    rw [List.filter_append, List.filter_append]
    have h1 : (ownFieldsH1 r host f).filter (fun x => x.key == kv.key) = [] := by
      apply List.filter_eq_nil_iff.mpr
      intro a ha hk
      have : a.key = kv.key := by simpa using hk
      exact hown (this ▸ ownFieldsH1_keys r host f a ha)
    have h3 : (callerFields r.extra []).filter (fun x => x.key == kv.key) = [] := by
      apply List.filter_eq_nil_iff.mpr
      intro a ha
      unfold callerFields at ha
      obtain ⟨e, he, rfl⟩ := List.mem_map.mp ha
      simp [hextra e (List.mem_filter.mp he).1]
    have h2 : (callerFields r.header reqWriteExcludeHeader).filter (fun x => x.key == kv.key) =
        [⟨kv.key, kv.values.map sanitizeValue⟩] := by
      unfold callerFields
      rw [List.filter_map, List.filter_filter]
      have e : (r.header.filter fun a =>
          ((fun x : KV => x.key == kv.key) ∘ fun kv : KV => (⟨kv.key, kv.values.map sanitizeValue⟩ : KV)) a &&
            (!reqWriteExcludeHeader.contains a.key && validHeaderFieldName a.key)) =
          r.header.filter (fun x => x.key == kv.key) := by
        apply List.filter_congr
        intro a _
        cases hk : a.key == kv.key with
        | false => simp [Function.comp, hk]
        | true =>
          have : a.key = kv.key := by simpa using hk
          have hex' : ¬ kv.key ∈ reqWriteExcludeHeader := by simpa using hex
          simp [Function.comp, this, hex', hname]
      rw [e, filter_key_nodup r.header hnd kv hm]
      rfl
    rw [h1, h2, h3]; rfl
  rw [hrhs] at hp
  rw [List.perm_singleton.mp hp]
  simp [linesOf]

example :
    (linesOf (h1Fields { method := [71, 69, 84], url := {}, header :=
      [⟨[88, 45, 77], [[51], [49], [50]]⟩, ⟨[88, 45, 65], [[57]]⟩,
       ⟨headerOrderKey, [[120, 45, 109], [120, 45, 97]]⟩] } [104] ⟨false, false, 0⟩)).filter
      (fun l => l.1 == [88, 45, 77]) = [([88, 45, 77], [51]), ([88, 45, 77], [49]), ([88, 45, 77], [50])] := by
  decide

/-! ### the statements under the names of the task description -/

/-- the regular fields the HTTP/2 / HTTP/3 encoders add themselves. -/
def ownFieldsH23 (fl : Flavor) (r : FReq) : List KV :=
  (if shouldSendReqContentLength r.method (actualContentLength fl r) then
      [⟨sContentLengthL, [Req.BStr.natToDec (actualContentLength fl r).toNat]⟩] else [])
  ++ (if r.addGzip then [⟨sAcceptEncodingL, [sGzip]⟩] else [])
  ++ (if didUA r.header then [] else [⟨sUserAgentL, [defaultUserAgent]⟩])

theorem baseRegular_eq (fl : Flavor) (r : FReq) :
    baseRegular fl r = headerGroups fl r.header ++ ownFieldsH23 fl r := by
  unfold baseRegular ownFieldsH23
  simp [List.append_assoc]

/-- fields a protocol forbids (connection-specific names, bookkeeping keys) are OMITTED, and that
is all that happens: the collected groups are those of the header map without them. -/
theorem forbidden_omitted (fl : Flavor) (h : Hdr) :
    headerGroups fl h = headerGroups fl (h.filter fun kv => !isExcluded kv.key) := by
  unfold headerGroups
  symm
  apply flatMap_filter_of_nil
  intro kv hp
  have : isExcluded kv.key = true := by simpa using hp
  simp [this]

/-- **wire_multiset_exact (HTTP/1.1)** = `wire_set_h1`: lines on the wire ≃ writer's own fields ⊎
caller fields (minus the names the writer handles itself and the bookkeeping keys, minus invalid
names; values sanitised) ⊎ the transport's extra fields — for every order list and every map
iteration order. -/
theorem wire_multiset_exact_h1 (r : WReq) (host : Bytes) (f : Framing) :
    (linesOf (h1Fields r host f)).Perm
      (linesOf (ownFieldsH1 r host f) ++ linesOf (callerFields r.header reqWriteExcludeHeader) ++
        linesOf (callerFields r.extra [])) := wire_set_h1 r host f

/-- **wire_multiset_exact (HTTP/2, HTTP/3)**: fields in the header block ≃ pseudo fields ⊎ the
groups collected from the caller's map without the forbidden / bookkeeping names ⊎ the encoder's
own fields — for every header-order list, every pseudo-header-order list, every map order. -/
theorem wire_multiset_exact_h23 (fl : Flavor) (r : FReq) (fs : List (Bytes × Bytes))
    (h : fields fl r = .ok fs) :
    ∃ host path, fieldHost r = .ok host ∧ fieldPath r host = .ok path ∧
      fs.Perm (wireOf (basePseudo fl r host path) ++
        (wireOf (headerGroups fl (r.header.filter fun kv => !isExcluded kv.key)) ++
          wireOf (ownFieldsH23 fl r))) := by
  obtain ⟨host, path, hh, hp, hperm⟩ := wire_set_h2 fl r fs h
  refine ⟨host, path, hh, hp, ?_⟩
  rw [baseRegular_eq, wireOf_append, forbidden_omitted] at hperm
  exact hperm

/-- **order_respected_all**: on all three stacks, for ANY order list (duplicates, unknown names,
mixed case) and ANY number of other headers, the listed lines / fields appear in list order;
likewise the pseudo fields for any pseudo-header order list. -/
theorem order_respected_all (w : WReq) (host : Bytes) (f : Framing) (fl : Flavor) (r : FReq)
    (phost ppath : Bytes)
    (hw : (orderList w.header).isEmpty = false) (hr : ¬ (orderList r.header).isEmpty) :
    ((linesOf (h1Fields w host f)).filterMap
      (fun l => lastIndex (orderList w.header) l.1)).Pairwise (· ≤ ·) ∧
    ((linesOf (regularKVs fl r)).filterMap
      (fun l => lastIndex (orderList r.header) l.1)).Pairwise (· ≤ ·) ∧
    ((linesOf (pseudoKVs fl r phost ppath)).filterMap
      (fun l => lastIndex (pseudoOrderList r.header) l.1)).Pairwise (· ≤ ·) :=
  ⟨order_respected_lines_h1 w host f hw, order_respected_lines_h23 fl r hr,
    pseudo_respected_fields fl r phost ppath⟩

/-! ### value order within a name on HTTP/2 -/

theorem fields_eq (fl : Flavor) (r : FReq) (fs : List (Bytes × Bytes)) (h : fields fl r = .ok fs) :
    ∃ host path, fs = wireOf (pseudoKVs fl r host path ++ regularKVs fl r) := by
  unfold fields at h
  cases hh : fieldHost r with
  | error e => simp [hh, bind, Except.bind] at h
  | ok host =>
    cases hp : fieldPath r host with
    | error e => simp [hh, hp, bind, Except.bind] at h
    | ok path =>
      refine ⟨host, path, ?_⟩
      simp only [hh, hp, bind, Except.bind] at h
      split at h
      · simp [throw, throwThe, MonadExceptOf.throw] at h
      · simp only [pure, Except.pure] at h
        split at h
        · split at h
          · simp [throw, throwThe, MonadExceptOf.throw] at h
          · simp only [Except.ok.injEq] at h; exact h.symm
        · simp only [Except.ok.injEq] at h; exact h.symm

theorem filter_wireOf_name (n : Bytes) (l : List KV) :
    (wireOf l).filter (fun f => f.1 == n) = wireOf (l.filter fun kv => lower kv.key == n) := by
  induction l with
  | nil => rfl
  | cons x xs ih =>
    have e : ∀ t : List KV, wireOf (x :: t) = wireOf [x] ++ wireOf t := by
      intro t; simp [wireOf]
    rw [e, List.filter_append, ih]
    cases hk : lower x.key == n with
    | true =>
      simp only [List.filter_cons, hk, if_true]
      have hx : (wireOf [x]).filter (fun f => f.1 == n) = wireOf [x] := by
        apply List.filter_eq_self.mpr
        intro a ha
        simp only [wireOf, List.flatMap_cons, List.flatMap_nil, List.append_nil, List.mem_map] at ha
        obtain ⟨v, _, rfl⟩ := ha
        exact hk
      rw [hx]
      exact (e _).symm
    | false =>
      simp only [List.filter_cons, hk, Bool.false_eq_true, if_false]
      have : (wireOf [x]).filter (fun f => f.1 == n) = [] := by
        apply List.filter_eq_nil_iff.mpr
        intro a ha
        simp only [wireOf, List.flatMap_cons, List.flatMap_nil, List.append_nil, List.mem_map] at ha
        obtain ⟨v, _, rfl⟩ := ha
        simp [hk]
      rw [this]; rfl

theorem headerGroups_h2_none_single (n : Bytes) (hn : ordinary n = true) (x : KV)
    (hx : (lower x.key == n) = false) :
    (headerGroups .h2 [x]).filter (fun g => lower g.key == n) = [] := by
  apply List.filter_eq_nil_iff.mpr
  intro g hg
  unfold headerGroups at hg
  simp only [List.flatMap_cons, List.flatMap_nil, List.append_nil] at hg
  split at hg
  · simp at hg
  · split at hg
    · split at hg
      · simp at hg
      · split at hg
        · simp at hg
        · simp at hg; subst hg; simp [hx]
    · split at hg
      · simp at hg; subst hg
        have : (lower sCookieL == n) = false := ordinary_not_special hn (by decide)
        simp [this]
      · simp at hg; subst hg; simp [hx]

theorem headerGroups_h2_cons (x : KV) (xs : Hdr) :
    headerGroups .h2 (x :: xs) = headerGroups .h2 [x] ++ headerGroups .h2 xs := by
  simp [headerGroups]

theorem headerGroups_h2_none (n : Bytes) (hn : ordinary n = true) (xs : Hdr)
    (hall : ∀ y ∈ xs, (lower y.key == n) = false) :
    (headerGroups .h2 xs).filter (fun g => lower g.key == n) = [] := by
  induction xs with
  | nil => rfl
  | cons y ys ih =>
    rw [headerGroups_h2_cons, List.filter_append,
      headerGroups_h2_none_single n hn y (hall y (List.mem_cons_self ..)),
      ih (fun z hz => hall z (List.mem_cons_of_mem _ hz))]
    rfl

/-- on HTTP/2 a key with an ordinary name keeps its group whole. -/
theorem headerGroups_h2_filter (n : Bytes) (hn : ordinary n = true) (kv : KV) :
    ∀ (h : Hdr), (h.map (·.key)).Nodup → kv ∈ h → lower kv.key = n →
      (∀ kv' ∈ h, lower kv'.key = n → kv' = kv) →
      (headerGroups .h2 h).filter (fun g => lower g.key == n) = [kv] := by
  have hself : lower kv.key = n → (headerGroups .h2 [kv]).filter (fun g => lower g.key == n) = [kv] := by
    intro hk
    have hsp : special.contains (lower kv.key) = false := by
      rw [hk]; simp only [ordinary, Bool.and_eq_true, Bool.not_eq_true'] at hn; exact hn.1
    have hex : isExcluded kv.key = false := by
      cases hb : isExcluded kv.key with
      | false => rfl
      | true => rw [isExcluded_special hb] at hsp; exact absurd hsp (by decide)
    have hua : equalFold kv.key sUserAgentL = false := by
      cases hb : equalFold kv.key sUserAgentL with
      | false => rfl
      | true =>
        rw [equalFold_lower hb (by decide)] at hsp; exact absurd hsp (by decide)
    have hck : equalFold kv.key sCookieL = false := by
      cases hb : equalFold kv.key sCookieL with
      | false => rfl
      | true =>
        rw [equalFold_lower hb (by decide)] at hsp; exact absurd hsp (by decide)
    unfold headerGroups
    simp [hex, hua, hck, hk]
  intro h
  induction h with
  | nil => intro _ hm; simp at hm
  | cons x xs ih =>
    intro hnd hm hk huniq
    simp only [List.map_cons, List.nodup_cons] at hnd
    rw [headerGroups_h2_cons, List.filter_append]
    rcases List.mem_cons.mp hm with he | hin
    · subst he
      rw [hself hk]
      have hall : ∀ y ∈ xs, (lower y.key == n) = false := by
        intro y hy
        cases hb : lower y.key == n with
        | false => rfl
        | true =>
          have hy2 : y = kv := huniq y (List.mem_cons_of_mem _ hy) (by simpa using hb)
          exact absurd (hy2 ▸ List.mem_map_of_mem (f := (·.key)) hy) hnd.1
      rw [headerGroups_h2_none n hn xs hall]
      rfl
    · have hx : (lower x.key == n) = false := by
        cases hb : lower x.key == n with
        | false => rfl
        | true =>
          have hx2 : x = kv := huniq x (List.mem_cons_self ..) (by simpa using hb)
          exact absurd (hx2 ▸ List.mem_map_of_mem (f := (·.key)) hin) hnd.1
      rw [headerGroups_h2_none_single n hn x hx,
        ih hnd.2 hin hk (fun kv' hkv' => huniq kv' (List.mem_cons_of_mem _ hkv'))]
      rfl

/-- **Multi-valued headers on HTTP/2**: for a key with an ordinary name that has a single spelling
in the header map, the fields of that name in the header block are — in arrival order — the
caller's values in the caller's order, whatever the two order lists do. -/
theorem value_order_h2 (r : FReq) (fs : List (Bytes × Bytes)) (h : fields .h2 r = .ok fs)
    (kv : KV) (n : Bytes) (hn : ordinary n = true) (hnd : (r.header.map (·.key)).Nodup)
    (hm : kv ∈ r.header) (hk : lower kv.key = n)
    (huniq : ∀ kv' ∈ r.header, lower kv'.key = n → kv' = kv) :
    fs.filter (fun f => f.1 == n) = kv.values.map fun v => (n, v) := by
  obtain ⟨host, path, rfl⟩ := fields_eq .h2 r fs h
  rw [filter_wireOf_name]
  have hperm : (pseudoKVs .h2 r host path ++ regularKVs .h2 r).Perm
      (basePseudo .h2 r host path ++ (headerGroups .h2 r.header ++ ownFieldsH23 .h2 r)) := by
    rw [← baseRegular_eq]
    exact List.Perm.append (pseudo_order .h2 r host path).1 (header_order_h2 .h2 r).1
  have hf := hperm.filter (fun g => lower g.key == n)
  have hrhs : (basePseudo .h2 r host path ++ (headerGroups .h2 r.header ++ ownFieldsH23 .h2 r)).filter
      (fun g => lower g.key == n) = [kv] := by
    rw [List.filter_append, List.filter_append, headerGroups_h2_filter n hn kv r.header hnd hm hk huniq]
    have h1 : (basePseudo .h2 r host path).filter (fun g => lower g.key == n) = [] := by
      apply List.filter_eq_nil_iff.mpr
      intro g hg hgn
      have hcolon : g.key.head? = some 58 := by
        unfold basePseudo at hg
        simp only [List.mem_append, List.mem_cons] at hg
        rcases hg with (hg | hg | hg) | hg
        · subst hg; rfl
        · subst hg; rfl
        · simp at hg
        · split at hg
          · simp at hg
          · simp at hg
            rcases hg with hg | hg <;> (subst hg; rfl)
      have hl : (lower g.key).head? = some 58 := by
        cases hgk : g.key with
        | nil => rw [hgk] at hcolon; simp at hcolon
        | cons c t =>
          rw [hgk] at hcolon
          have : c = 58 := by simpa using hcolon
          subst this; rfl
      have : lower g.key = n := by simpa using hgn
      rw [this] at hl
      simp [ordinary, hl] at hn
    have h3 : (ownFieldsH23 .h2 r).filter (fun g => lower g.key == n) = [] := by
      apply List.filter_eq_nil_iff.mpr
      intro g hg
      unfold ownFieldsH23 at hg
      simp only [List.mem_append] at hg
      have hsp : special.contains (lower g.key) = true := by
        rcases hg with (hg | hg) | hg
        · rw [mem_ite_l hg]; exact (by decide : special.contains (lower sContentLengthL) = true)
        · rw [mem_ite_l hg]; exact (by decide : special.contains (lower sAcceptEncodingL) = true)
        · rw [mem_ite_r hg]; exact (by decide : special.contains (lower sUserAgentL) = true)
      simp [ordinary_not_special hn hsp]
    rw [h1, h3]; rfl
  rw [hrhs] at hf
  rw [List.perm_singleton.mp hf]
  simp [wireOf, hk]

example :
    ((fields .h2 { method := [71, 69, 84], url := { scheme := [104], host := [104], path := [47] }, header :=
        [⟨[88, 45, 77], [[51], [49], [50]]⟩, ⟨[88, 45, 65], [[57]]⟩,
         ⟨headerOrderKey, [[120, 45, 97], [120, 45, 109]]⟩] }).toOption.map
      (·.filter (fun f => f.1 == [120, 45, 109]))) =
      some [([120, 45, 109], [51]), ([120, 45, 109], [49]), ([120, 45, 109], [50])] := by decide

end Req.Props.C16Wire
