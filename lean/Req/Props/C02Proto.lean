import Req.Props.C02
import Req.Props.C02Msg
import Req.Lemmas.C02Proto
import Req.Lemmas.C02H3Head
/-!
C02 — **whole-message round trips over HTTP/2 and HTTP/3, and the three protocols side by
side.**

One protocol-independent origin message `M : AMsg` (status, ordinary fields, body, trailer
fields).

* HTTP/2: the origin sends 0..5 interim HEADERS, the final HEADERS (`:status`, optionally
  `content-length`, the fields), the body as DATA frames in ANY split (padded or not, empty
  frames allowed), END_STREAM on the last DATA frame or on a trailer HEADERS frame. The read
  loop delivers these frames to `H2Stream` in ANY interleaving with the caller's reads.
* HTTP/3: the origin writes on the request stream 0..5 interim HEADERS frames, the final
  HEADERS frame, DATA frames in any split, optionally a trailer HEADERS frame, with unknown /
  GREASE frames interleaved anywhere and any valid varint encodings, then FIN. The QUIC stream
  delivers these bytes in ANY segmentation; the caller reads with any sizes.
* HTTP/1.1: `Req.Props.C02Msg`.

In all three the caller gets exactly `M`: the status, every field under its canonical name
with its value in the origin's order, the body bytes, the trailer fields.
-/
namespace Req.Props.C02
open Req.Proto Req.Ascii Req.C02

/-! ## HTTP/2 -/

/-- The frame carrying END_STREAM: the last DATA frame, or the trailer HEADERS frame. -/
def h2Last (M : AMsg) : Option (Bytes × Bool) → H2Ev
  | some (p, pad) => .data p pad true
  | none => .headers M.trailers true

/-- The frames of one response. -/
def h2MsgOf (M : AMsg) (declare : Option Bytes) (interims : List Fields) (datas : List (Bytes × Bool))
    (lastData : Option (Bytes × Bool)) : H2Msg :=
  { interims := interims, head := M.h2Head declare, datas := datas, last := h2Last M lastData }

def lastDataBytes : Option (Bytes × Bool) → Bytes
  | some (p, _) => p
  | none => []

theorem h2MsgOf_conformant (M : AMsg) (hM : M.OK) (declare : Option Bytes)
    (hdecl : ∀ cb, declare = some cb → natOfDigits cb = some M.body.length)
    (interims : List Fields) (hint : ∀ fs ∈ interims, InterimOK fs) (hn : interims.length ≤ 5)
    (datas : List (Bytes × Bool)) (lastData : Option (Bytes × Bool))
    (hsplit : (datas.map (·.1)).flatten ++ lastDataBytes lastData = M.body) :
    (h2MsgOf M declare interims datas lastData).body = M.body ∧
    (h2MsgOf M declare interims datas lastData).Conformant M.code (declare.map fun _ => M.body.length) := by
  have hbody : (h2MsgOf M declare interims datas lastData).body = M.body := by
    rw [← hsplit]
    cases lastData with
    | none => simp [H2Msg.body, h2MsgOf, h2Last, lastPayload, lastDataBytes]
    | some p => rcases p with ⟨p, pad⟩; simp [H2Msg.body, h2MsgOf, h2Last, lastPayload, lastDataBytes]
  obtain ⟨h1, _, _, h4⟩ := h2Head_spec M hM declare
  refine ⟨hbody, ⟨hint, hn, ⟨M.sv, h1, hM.svNe, hM.svCode, hM.final⟩, ?_, ?_⟩⟩
  · cases declare with
    | none => exact Or.inl ⟨h4, rfl⟩
    | some cb =>
      refine Or.inr ⟨cb, h4, ?_, ?_⟩
      · rw [hbody]; exact hdecl cb rfl
      · rw [hbody]; rfl
  · cases lastData with
    | none => exact Or.inr ⟨M.trailers, rfl, hM.trailersOK⟩
    | some p => rcases p with ⟨p, pad⟩; exact Or.inl ⟨p, pad, rfl⟩

/-- **h2_message_roundtrip.** For EVERY origin message, every choice of announcing the length,
0..5 interim responses, EVERY split of the body into DATA frames (padded or not, empty ones
included), END_STREAM on a last DATA frame (then there are no trailers) or on the trailer
HEADERS — and EVERY interleaving `ops` of the read loop delivering a prefix of these frames
with the caller calling `Read` with any sizes at any moments:

* what the caller has read is a prefix of the origin's body; no read reports anything but data
  or `io.EOF`;
* a read that reports `io.EOF` means the caller got EXACTLY the body and `Response.Trailer`
  holds exactly the origin's trailer fields (canonical names, wire order);
* once the final HEADERS has been delivered the response carries the origin's status and
  exactly the origin's fields (canonical names, wire order; preceded by `Content-Length` if the
  origin announced it);
* after all frames have arrived, enough non-empty reads do reach `io.EOF`. -/
theorem h2_message_roundtrip (M : AMsg) (hM : M.OK) (declare : Option Bytes)
    (hdecl : ∀ cb, declare = some cb → natOfDigits cb = some M.body.length)
    (interims : List Fields) (hint : ∀ fs ∈ interims, InterimOK fs) (hn : interims.length ≤ 5)
    (datas : List (Bytes × Bool)) (lastData : Option (Bytes × Bool))
    (hsplit : (datas.map (·.1)).flatten ++ lastDataBytes lastData = M.body)
    (htr : lastData.isSome = true → M.trailers = []) :
    let m := h2MsgOf M declare interims datas lastData
    (∀ (ops : List H2Op) (rest : List H2Ev), m.events = evsOf ops ++ rest →
      let run := (H2Stream.init false).runOps ops
      (∃ t, M.body = readsOut run.1 ++ t) ∧ (∀ o ∈ run.1, ObsOK o) ∧
      (SawEOF run.1 → readsOut run.1 = M.body ∧ run.2.resTrailer = M.trailer) ∧
      (rest.length ≤ datas.length + 1 →
        ∃ res, run.2.res = some res ∧ res.status = M.code ∧
          res.fields = clEntry declare ++ M.header)) ∧
    (∀ (ops : List H2Op) (ks : List Nat), m.events = evsOf ops → (∀ k ∈ ks, 0 < k) → M.body.length < ks.length →
      let run := (H2Stream.init false).runOps (ops ++ ks.map H2Op.read)
      SawEOF run.1 ∧ readsOut run.1 = M.body ∧ run.2.resTrailer = M.trailer) := by
  intro m
  obtain ⟨hbody, hconf⟩ := h2MsgOf_conformant M hM declare hdecl interims hint hn datas lastData hsplit
  have htrail : lastTrailers m.last = M.trailer := by
    cases lastData with
    | none => rfl
    | some p =>
      rcases p with ⟨p, pad⟩
      have := htr rfl
      simp [m, h2MsgOf, h2Last, lastTrailers, AMsg.trailer, this]
  have hfields : h2Fields m.head =
      clEntry declare ++ M.header :=
    (h2Head_spec M hM declare).2.1
  refine ⟨?_, ?_⟩
  · intro ops rest hev
    have h := stream_body_exact_h2 m M.code _ hconf ops rest hev
    simp only at h
    rw [hbody, htrail, hfields] at h
    exact h
  · intro ops ks hev hpos hlen
    have h := stream_body_complete_h2 m M.code _ hconf ops hev ks hpos (by rw [hbody]; exact hlen)
    simp only at h
    rw [hbody, htrail] at h
    exact h

/-- **h2_message_roundtrip, HEADERS only.** An origin message with an empty body and no
trailers sent as 0..5 interim HEADERS and the final HEADERS frame carrying END_STREAM (no DATA
frame at all): the response has the origin's status and fields, `ContentLength` 0, and the body
is `http.NoBody` — every read returns `io.EOF` at once; nothing is reported as an error. -/
theorem h2_message_roundtrip_empty (M : AMsg) (hM : M.OK)
    (interims : List Fields) (hint : ∀ fs ∈ interims, InterimOK fs) (hn : interims.length ≤ 5) :
    let s := ((interims.map fun fs => H2Ev.headers fs false) ++ [H2Ev.headers (M.h2Head none) true]).foldl
      H2Stream.event (H2Stream.init false)
    s.res = some { status := M.code, fields := M.header, declaredTrailers := [], contentLength := some 0,
                   body := .noBody } ∧
    s.headErr = none ∧ H2BodyKind.noBody.readFixed = some .eof := by
  intro s
  -- the interim responses are skipped
  have hskip : ∀ (ints : List Fields) (j : Nat), j + ints.length ≤ 5 → (∀ fs ∈ ints, InterimOK fs) →
      (ints.map fun fs => H2Ev.headers fs false).foldl H2Stream.event (st0 j) = st0 (j + ints.length) := by
    intro ints
    induction ints with
    | nil => intro j _ _; rfl
    | cons fs ints ih =>
      intro j hj hok
      simp only [List.map_cons, List.foldl_cons]
      rw [st0_interim j fs (by simp at hj; omega) (hok fs (by simp))]
      rw [ih (j + 1) (by simp at hj ⊢; omega) (fun g hg => hok g (by simp [hg]))]
      simp only [List.length_cons]
      congr 1
      omega
  have h0 : H2Stream.init false = st0 0 := rfl
  have hs : s = (st0 interims.length).event (.headers (M.h2Head none) true) := by
    simp only [s, List.foldl_append, h0, hskip interims 0 (by omega) hint, List.foldl_cons, List.foldl_nil,
      Nat.zero_add]
  obtain ⟨h1, h2, h3, h4⟩ := h2Head_spec M hM none
  have hemp : M.sv.isEmpty = false := by
    have := hM.svNe
    cases hsv : M.sv <;> simp_all
  have hfin := hM.final
  refine ⟨?_, ?_, rfl⟩
  · rw [hs]
    simp [st0, H2Stream.event, H2Stream.processHeaders, H2Stream.init, H2Stream.handleResponse, h1, hemp,
      hM.svCode, hfin, h2, h3, h4, clEntry, clValues, H2Stream.endStream, Pipe.closeWithError, Pipe.empty]
  · rw [hs]
    simp [st0, H2Stream.event, H2Stream.processHeaders, H2Stream.init, H2Stream.handleResponse, h1, hemp,
      hM.svCode, hfin, h2, h3, h4, clEntry, clValues, H2Stream.endStream, Pipe.closeWithError, Pipe.empty]

/-! ## HTTP/3 -/

/-- `parseHeaders` + `updateResponseFromHeaders` on the origin's final HEADERS (the same field
list as over HTTP/2). -/
theorem h3Head_spec (M : AMsg) (hM : M.OK) (declare : Option Bytes)
    (hdecl : ∀ cb, declare = some cb → natOfDigits cb = some M.body.length ∧ validFieldValue cb = true) :
    h3ParseHead (M.h2Head declare) =
      some { status := M.code, fields := M.header, contentLength := declare.map (fun _ => M.body.length),
             trailerKeys := [] } := by
  cases declare with
  | none =>
    have := h3_head_plain M.fields hM.plain M.sv M.code hM.svNe hM.svCode hM.svValid
    simpa [AMsg.h2Head, AMsg.header] using this
  | some cb =>
    obtain ⟨hcb, hval⟩ := hdecl cb rfl
    have hcbne : cb.isEmpty = false := by
      cases cb with
      | nil => simp [natOfDigits] at hcb
      | cons a as => rfl
    have hgo : h3ParseHead.go (M.h2Head (some cb)) false none none [] =
        some (some M.sv, some cb, M.fields.map canonKV) := by
      unfold AMsg.h2Head
      simp only [List.cons_append, List.nil_append]
      unfold h3ParseHead.go
      have hup : kStatus.any isUpper = false := by decide
      have hps : isPseudo kStatus = true := by decide
      have heq : (kStatus == [58, 115, 116, 97, 116, 117, 115]) = true := by decide
      simp only [hup, hM.svValid, hps, heq, Bool.false_eq_true, if_false, Bool.not_true, if_true]
      unfold h3ParseHead.go
      have c1 : kContentLengthLower.any isUpper = false := by decide
      have c2 : isPseudo kContentLengthLower = false := by decide
      have c3 : validFieldName kContentLengthLower = true := by decide
      have c4 : invalidH3Names.contains kContentLengthLower = false := by decide
      have c5 : (kContentLengthLower == [116, 101]) = false := by decide
      have c6 : (kContentLengthLower ==
          [99, 111, 110, 116, 101, 110, 116, 45, 108, 101, 110, 103, 116, 104]) = true := by decide
      simp only [c1, hval, c2, c3, c4, c5, c6, Bool.false_eq_true, if_false, Bool.not_true, false_and,
        if_true, Bool.not_false]
      rw [h3_go_plain M.fields hM.plain true (some M.sv) (some cb) []]
      simp
    unfold h3ParseHead
    rw [hgo]
    have hemp : M.sv.isEmpty = false := by
      have := hM.svNe
      cases hsv : M.sv <;> simp_all
    have hnotr : ∀ kv ∈ M.fields.map canonKV, (kv.1 != [84, 114, 97, 105, 108, 101, 114]) = true := by
      intro kv hkv
      simp only [List.mem_map] at hkv
      obtain ⟨kv0, h0, rfl⟩ := hkv
      have := (hM.plain kv0 h0).2.2.2.2.2.2.1
      simp only [canonKV, bne_iff_ne, ne_eq]
      intro heq
      simp [Req.C02.kTrailer, heq] at this
    have hfilter : (M.fields.map canonKV).filter (fun x => x.1 != [84, 114, 97, 105, 108, 101, 114]) =
        M.fields.map canonKV := List.filter_eq_self.mpr hnotr
    have hfilter2 : (M.fields.map canonKV).filter (fun x => x.1 == [84, 114, 97, 105, 108, 101, 114]) = [] := by
      apply List.filter_eq_nil_iff.mpr
      intro kv hkv
      have := hnotr kv hkv
      simpa using this
    simp only [hemp, hcbne, parseStatus, hM.svCode, hcb, Bool.false_eq_true, if_false, hfilter, hfilter2,
      List.map_nil, Option.map_some, AMsg.header]

/-- The request stream right after the request was sent: nothing read yet, the QPACK-decoded
field lists of the HEADERS frames that will arrive as side input. -/
def h3Stream0 (segs : List Bytes) (lists : List Fields) (maxH : Nat) : H3Stream :=
  { net := ⟨segs, .eof⟩, remInFrame := 0, parsedTrailer := false, trailer := none,
    fieldLists := lists, maxHeaderBytes := maxH }

/-- **h3_message_roundtrip.** For EVERY origin message, every choice of announcing the length,
0..5 interim HEADERS frames, the final HEADERS frame, the body as DATA frames in ANY split
(empty ones included), optionally the trailer HEADERS frame — unknown / GREASE frames
interleaved anywhere, every frame header in any valid varint encoding — then FIN: for EVERY
segmentation `segs` of that byte stream into QUIC stream reads and EVERY sequence `ks` of
caller read sizes, `doRequest` returns the origin's status and exactly the origin's fields
(canonical names, wire order), and the body reads

* hand out a prefix of the origin's body;
* end, if they end, with `io.EOF`, and then the caller got EXACTLY the body and
  `Response.Trailer` holds exactly the origin's trailer fields;
* do end with positive read sizes and more reads than bytes on the stream. -/
theorem h3_message_roundtrip (M : AMsg) (hM : M.OK) (declare : Option Bytes)
    (hdecl : ∀ cb, declare = some cb → natOfDigits cb = some M.body.length ∧ validFieldValue cb = true)
    (maxH : Nat) (is : List WHead) (his : ∀ i ∈ is, i.OK maxH ∧ i.Interim) (hn : is.length ≤ 5)
    (w : WHead) (hw : w.OK maxH) (hwf : w.fields = M.h2Head declare)
    (frs : List WFrame) (hfrs : ∀ f ∈ frs, BodyFrameOK f) (hdata : h3DataOf frs = M.body)
    (tr : Option WTrailer) (htr : ∀ t, tr = some t → t.OK maxH ∧ t.fields = M.trailers)
    (htn : tr = none → M.trailers = [])
    (segs : List Bytes)
    (hsegs : segs.flatten = headsWire is ++ (w.wire ++ (framesWire frs ++ trailerWire tr)))
    (ks : List Nat) :
    ∃ h s1, (h3Stream0 segs (is.map (·.fields) ++ (w.fields :: trailerLists tr)) maxH).readFinalResponse 7 0 =
        (.ok h, s1) ∧
      h.status = M.code ∧ h.fields = M.header ∧
      (let run := runReads H3Body.read (H3Body.new false h s1) ks
       (∃ u, M.body = outBytes run.1 ++ u) ∧
       (∀ e, lastErr run.1 = some e →
         e = .eof ∧ outBytes run.1 = M.body ∧ (tr.isSome = true → run.2.str.trailer = some M.trailer)) ∧
       ((∀ k ∈ ks, 0 < k) → (framesWire frs ++ trailerWire tr).length < ks.length →
         ∃ e, lastErr run.1 = some e)) := by
  -- the head
  have hparsed : w.parsed = (⟨M.code, M.header, declare.map (fun _ => M.body.length), []⟩ : H3Head) := by
    have h1 := hw.2.2.2.2
    rw [hwf, h3Head_spec M hM declare hdecl] at h1
    exact (Option.some.inj h1).symm
  have hfinal : ¬ w.Interim := by
    unfold WHead.Interim
    rw [hparsed]
    intro h
    exact hM.final ⟨h.1, h.2.1⟩
  obtain ⟨s1, hrf, hfl1, hfin1, hl1, hrem1, hpt1, htr1, hmax1⟩ :=
    readFinalResponse_spec is maxH his w hw hfinal 7 0 (by omega) (by omega)
      (h3Stream0 segs (is.map (·.fields) ++ (w.fields :: trailerLists tr)) maxH)
      (framesWire frs ++ trailerWire tr) (trailerLists tr) (by simpa [h3Stream0] using hsegs) rfl rfl
  refine ⟨w.parsed, s1, hrf, by rw [hparsed], by rw [hparsed], ?_⟩
  -- the body reader starts at the frames
  have htrOK : ∀ t, tr = some t → t.OK maxH := fun t ht => (htr t ht).1
  have hpos : H3Pos tr maxH (H3Body.new false w.parsed s1) (h3DataOf frs) := by
    have hb : ∀ b : H3Body, b.str = s1 → (b.hasCL = true → b.remaining = M.body.length) →
        H3Pos tr maxH b (h3DataOf frs) := by
      intro b hbs hbcl
      have := H3Pos.frames (tr := tr) (maxH := maxH) b [] frs (by rw [hbs, hrem1]; rfl)
        (by rw [hbs]; simpa using hfl1) hfrs (by rw [hbs, hpt1]; rfl) (by rw [hbs, hl1])
        (by rw [hbs, hfin1]; rfl) (by rw [hbs, hmax1]; rfl)
        (by intro h; simpa [hdata] using hbcl h)
      simpa using this
    unfold H3Body.new
    split
    · exact hb _ rfl (by simp)
    · rw [hparsed]
      cases declare with
      | none => exact hb _ rfl (by simp)
      | some cb => exact hb _ rfl (by simp)
  have R := h3_refines tr maxH htrOK
  simp only
  refine ⟨?_, ?_, ?_⟩
  · have := runReadsR_prefix R ks _ _ hpos
    rw [hdata] at this
    exact this
  · intro e he
    have hfin := runReadsR_final R
      (fun e b' => e = .eof ∧ ∀ t, tr = some t → b'.str.trailer = some t.parsed)
      (fun b E k d e b' hr h => by
        obtain ⟨h1, _, _, h4⟩ := (h3_read tr maxH htrOK b E k hr d (some e) b' h).2 e rfl
        exact ⟨h1, h4⟩) ks _ _ hpos e he
    obtain ⟨rfl, h2⟩ := hfin
    have hout := runReadsR_eof R ks _ _ hpos .eof he rfl
    rw [hdata] at hout
    refine ⟨rfl, hout, ?_⟩
    intro hsome
    cases htrc : tr with
    | none => rw [htrc] at hsome; cases hsome
    | some t =>
      rw [h2 t htrc]
      obtain ⟨⟨_, _, _, hp⟩, hf⟩ := htr t htrc
      rw [hf] at hp
      have : h3ParseTrailers M.trailers = some M.trailer := by
        unfold h3ParseTrailers
        have : M.trailers.any (fun kv => isPseudo kv.1) = false := by
          rw [List.any_eq_false]
          intro kv hkv
          simp [hM.trailersOK kv hkv]
        simp [this, AMsg.trailer, canonKV]
      rw [this] at hp
      exact congrArg some (Option.some.inj hp).symm
  · intro hp hlen
    refine runReadsR_terminates R _ (h3_progress tr maxH htrOK) ks _ _ hpos hp ?_
    have : (H3Body.new false w.parsed s1).str = s1 := by
      unfold H3Body.new
      split
      · rfl
      · split <;> rfl
    rw [this, hfl1]
    exact hlen

end Req.Props.C02

namespace Req.Props.C02
open Req.Proto Req.Ascii Req.C02 Req.H1

/-! ## The three protocols side by side -/

def kPragmaLower : Bytes := [112, 114, 97, 103, 109, 97]

/-- What the abstract message needs to be writable as an HTTP/1.1 head as well: a three-digit
status, values without leading / trailing optional white space (HTTP/1.1 strips it), token
names for the trailer fields too, and no `pragma` field (over HTTP/1.1 net/http's
`fixPragmaCacheControl` turns `Pragma: no-cache` into an additional `Cache-Control`). -/
structure H1Able (M : AMsg) (d1 d2 d3 : UInt8) : Prop where
  sv : M.sv = [d1, d2, d3]
  digits : isDigit d1 = true ∧ isDigit d2 = true ∧ isDigit d3 = true
  values : ∀ kv ∈ M.fields ++ M.trailers, ValueOK kv.2
  trailersPlain : ∀ kv ∈ M.trailers, PlainField kv
  noPragma : ∀ kv ∈ M.fields, kv.1 ≠ kPragmaLower

theorem natOfDigits_three (d1 d2 d3 : UInt8) (h1 : isDigit d1 = true) (h2 : isDigit d2 = true)
    (h3 : isDigit d3 = true) : natOfDigits [d1, d2, d3] = some (codeOf d1 d2 d3) := by
  simp [natOfDigits, List.foldlM, h1, h2, h3, codeOf]

/-- The ordinary fields of an abstract message carry none of the keys HTTP/1.1 framing uses. -/
theorem header_no_special (M : AMsg) (hM : M.OK) (hp : ∀ kv ∈ M.fields, kv.1 ≠ kPragmaLower) (k : Bytes)
    (hk : k = kPragma ∨ k = kConnection ∨ k = kTransferEncoding ∨ k = Req.H1.kContentLength ∨ k = Req.H1.kTrailer) :
    valuesOf k M.header = [] := by
  unfold valuesOf AMsg.header
  have : (M.fields.map canonKV).filter (fun kv => kv.1 == k) = [] := by
    apply List.filter_eq_nil_iff.mpr
    intro kv hkv
    simp only [List.mem_map] at hkv
    obtain ⟨kv0, h0, rfl⟩ := hkv
    obtain ⟨p1, _, _, p4, _, p6, p7, _⟩ := hM.plain kv0 h0
    simp only [canonKV, beq_iff_eq]
    intro heq
    have hlow := canonical_eq_lower kv0.1 k p1 heq
    rcases hk with rfl | rfl | rfl | rfl | rfl
    · exact hp kv0 h0 (by rw [hlow]; decide)
    · have : invalidH3Names.contains (lower kConnection) = true := by decide
      rw [← hlow, p4] at this; cases this
    · have : invalidH3Names.contains (lower kTransferEncoding) = true := by decide
      rw [← hlow, p4] at this; cases this
    · have : (lower Req.H1.kContentLength == kContentLengthLower) = true := by decide
      rw [← hlow, p6] at this; cases this
    · have : (canonicalMIMEHeaderKey kv0.1 == Req.C02.kTrailer) = true := by
        rw [heq]; decide
      rw [p7] at this; cases this
  rw [this]
  rfl

/-- The HTTP/1.1 head the origin writes for `M` with chunked coding: the framing field, then
the fields as `name ": " value`. -/
def h1ChunkedHead (M : AMsg) (d1 d2 d3 : UInt8) (reason : Bytes) : OHead :=
  ⟨d1, d2, d3, reason, ⟨kTransferEncoding, [32], vChunked, []⟩ :: M.fields.map toWField⟩

theorem h1ChunkedHead_fields (M : AMsg) (d1 d2 d3 : UInt8) (reason : Bytes) :
    fieldsOf (h1ChunkedHead M d1 d2 d3 reason).fs = (kTransferEncoding, vChunked) :: M.header := by
  have : canonicalMIMEHeaderKey kTransferEncoding = kTransferEncoding := by decide
  simp [h1ChunkedHead, fieldsOf, this, AMsg.header, toWField, canonKV, List.map_map, Function.comp_def]

/-- **cross_protocol_message.** ONE origin message `M`, sent three ways — over HTTP/1.1 with
chunked coding (any chunk split, any chunk-size spelling, the trailer section), over HTTP/2
(any DATA split, trailer HEADERS or END_STREAM on the last DATA), over HTTP/3 (any frame split,
interleaved GREASE frames, trailer HEADERS) — and received through the three reader models
under every segmentation / interleaving / read-size sequence. The three views are EQUAL: each
one is `M` itself:

* status: `M.code` in all three;
* header: under every ordinary key exactly `valuesOf k M.header` (HTTP/1.1 as lookups in Go's
  header map, HTTP/2 and HTTP/3 as the field list `M.header` itself);
* body: a complete read yields exactly `M.body` in all three;
* trailers: exactly `M.trailer` in all three. -/
theorem cross_protocol_message (M : AMsg) (hM : M.OK) (d1 d2 d3 : UInt8) (hA : H1Able M d1 d2 d3) :
    -- HTTP/1.1
    (∀ (reason : Bytes), (10 : UInt8) ∉ reason → Req.H1.bodyAllowedForStatus M.code = true →
      ∀ (cap : Nat), 2 ≤ cap → ∀ (cs : List WChunk), (∀ c ∈ cs, c.OK cap) → dataOf cs = M.body →
      ∀ (last : Bytes), LastOK cap last → (blockWire (M.trailers.map toWField)).length ≤ cap → ∀ (rest : Bytes),
      let after := wireFrom cs last (trailerSection (M.trailers.map toWField) ++ rest)
      ∃ msg, Req.H1.parseFinalHead 6 false ((h1ChunkedHead M d1 d2 d3 reason).wire ++ after) = some (msg, after) ∧
        msg.sl.code = M.code ∧
        (∀ k, OrdinaryKey k → msg.header.get k =
          if valuesOf k M.header = [] then none else some (valuesOf k M.header)) ∧
        ∀ br : Bufio, br.rem = after → br.WF → br.Fits → br.cap = cap →
          BodyExact (H1Body.new .chunked br) M.body (if M.trailers = [] then none else some M.trailer) rest) ∧
    -- HTTP/2
    (∀ (datas : List (Bytes × Bool)) (lastData : Option (Bytes × Bool)),
      (datas.map (·.1)).flatten ++ lastDataBytes lastData = M.body → (lastData.isSome = true → M.trailers = []) →
      ∀ (ops : List H2Op) (ks : List Nat), (h2MsgOf M none [] datas lastData).events = evsOf ops →
        (∀ k ∈ ks, 0 < k) → M.body.length < ks.length →
        let run := (H2Stream.init false).runOps (ops ++ ks.map H2Op.read)
        (∃ res, run.2.res = some res ∧ res.status = M.code ∧ res.fields = M.header) ∧
        SawEOF run.1 ∧ readsOut run.1 = M.body ∧ run.2.resTrailer = M.trailer) ∧
    -- HTTP/3
    (∀ (maxH : Nat) (w : WHead), w.OK maxH → w.fields = M.h2Head none →
      ∀ (frs : List WFrame), (∀ f ∈ frs, BodyFrameOK f) → h3DataOf frs = M.body →
      ∀ (tr : Option WTrailer), (∀ t, tr = some t → t.OK maxH ∧ t.fields = M.trailers) → (tr = none → M.trailers = []) →
      ∀ (segs : List Bytes), segs.flatten = w.wire ++ (framesWire frs ++ trailerWire tr) →
      ∀ (ks : List Nat), (∀ k ∈ ks, 0 < k) → (framesWire frs ++ trailerWire tr).length < ks.length →
      ∃ h s1, (h3Stream0 segs (w.fields :: trailerLists tr) maxH).readFinalResponse 7 0 = (.ok h, s1) ∧
        h.status = M.code ∧ h.fields = M.header ∧
        (let run := runReads H3Body.read (H3Body.new false h s1) ks
         lastErr run.1 = some .eof ∧ outBytes run.1 = M.body ∧
         (tr.isSome = true → run.2.str.trailer = some M.trailer))) := by
  obtain ⟨hsv, ⟨hd1, hd2, hd3⟩, hvals, htp, hnp⟩ := hA
  have hcode : M.code = codeOf d1 d2 d3 := by
    have := hM.svCode
    rw [hsv, natOfDigits_three d1 d2 d3 hd1 hd2 hd3] at this
    exact (Option.some.inj this).symm
  refine ⟨?_, ?_, ?_⟩
  · -- HTTP/1.1
    intro reason hreason hba cap hcap cs hcs hdata last hl hfit rest after
    let o := h1ChunkedHead M d1 d2 d3 reason
    have hfs : ∀ f ∈ o.fs, f.OK := by
      intro f hf
      simp only [o, h1ChunkedHead, List.mem_cons, List.mem_map] at hf
      rcases hf with rfl | ⟨kv, hkv, rfl⟩
      · exact wfield_ok_of_bool _ (by decide)
      · exact toWField_ok kv (hM.plain kv hkv) (hvals kv (by simp [hkv]))
    have ho : o.OK := ⟨hd1, hd2, hd3, hreason, hfs⟩
    have hocode : o.code = M.code := by rw [hcode]; rfl
    have hfo := h1ChunkedHead_fields M d1 d2 d3 reason
    have hno := header_no_special M hM hnp
    have hF : OriginFraming o false true vChunked none none := by
      refine ⟨?_, ?_, ?_, by decide, ?_, by simp, ?_⟩
      · show valuesOf kPragma (fieldsOf o.fs) = []
        rw [hfo, valuesOf_cons_ne _ _ _ (by decide)]
        exact hno _ (Or.inl rfl)
      · show valuesOf kConnection (fieldsOf o.fs) = _
        rw [hfo, valuesOf_cons_ne _ _ _ (by decide)]
        simpa using hno _ (Or.inr (Or.inl rfl))
      · show valuesOf kTransferEncoding (fieldsOf o.fs) = _
        rw [hfo]
        have := valuesOf_cons_self (kTransferEncoding, vChunked) M.header
        simp only at this
        rw [this, hno _ (Or.inr (Or.inr (Or.inl rfl)))]
        rfl
      · show valuesOf Req.H1.kContentLength (fieldsOf o.fs) = _
        rw [hfo, valuesOf_cons_ne _ _ _ (by decide)]
        simpa using hno _ (Or.inr (Or.inr (Or.inr (Or.inl rfl))))
      · show valuesOf Req.H1.kTrailer (fieldsOf o.fs) = _
        rw [hfo, valuesOf_cons_ne _ _ _ (by decide)]
        simpa using hno _ (Or.inr (Or.inr (Or.inr (Or.inr rfl))))
    have hts : ∀ f ∈ M.trailers.map toWField, f.OK := by
      intro f hf
      simp only [List.mem_map] at hf
      obtain ⟨kv, hkv, rfl⟩ := hf
      exact toWField_ok kv (htp kv hkv) (hvals kv (by simp [hkv]))
    have hfc : FinalCode o.code := by
      unfold FinalCode
      rw [hocode]
      intro h
      exact hM.final ⟨h.1, h.2.1⟩
    obtain ⟨msg, h1, h2, h3, _, _, h6⟩ :=
      h1_response_roundtrip_chunked [] (by simp) (by simp) o ho hfc (by rw [hocode]; exact hba) false vChunked none hF
        (by simp) cap hcap cs hcs last hl (M.trailers.map toWField) hts hfit rest
    have hw0 : interimsWire [] ++ (o.wire ++ after) = o.wire ++ after := by simp [interimsWire]
    rw [hw0] at h1
    refine ⟨msg, h1, by rw [h2, hocode], ?_, ?_⟩
    · intro k hk
      rw [h3 k hk, hfo, valuesOf_cons_ne _ _ _ (fun h => hk.2.1 h.symm)]
    · intro br a b c d
      have := h6 br a b c d
      rw [hdata] at this
      have htg : trailerGot (M.trailers.map toWField) = if M.trailers = [] then none else some M.trailer := by
        unfold trailerGot
        by_cases hte : M.trailers = []
        · simp [hte]
        · have : M.trailers.map toWField ≠ [] := by simpa using hte
          simp only [this, hte, if_false]
          rw [fieldsOf_toWField]
          rfl
      rw [htg] at this
      exact this
  · -- HTTP/2
    intro datas lastData hsplit htr ops ks hev hpos hlen
    obtain ⟨hA1, hA2⟩ := h2_message_roundtrip M hM none (by simp) [] (by simp) (by simp) datas lastData hsplit htr
    have hc := hA2 ops ks hev hpos hlen
    have hhead := hA1 (ops ++ ks.map H2Op.read) [] (by rw [evsOf_append, evsOf_reads]; simpa using hev)
    simp only at hc hhead ⊢
    obtain ⟨res, hr1, hr2, hr3⟩ := hhead.2.2.2 (by simp)
    exact ⟨⟨res, hr1, hr2, by simpa [clEntry] using hr3⟩, hc⟩
  · -- HTTP/3
    intro maxH w hw hwf frs hfrs hdata tr htr htn segs hsegs ks hpos hlen
    obtain ⟨h, s1, g1, g2, g3, g4⟩ :=
      h3_message_roundtrip M hM none (by simp) maxH [] (by simp) (by simp) w hw hwf frs hfrs hdata tr htr htn segs
        (by simpa [headsWire] using hsegs) ks
    refine ⟨h, s1, by simpa using g1, g2, g3, ?_⟩
    simp only at g4 ⊢
    obtain ⟨e, he⟩ := g4.2.2 hpos hlen
    obtain ⟨rfl, ho, ht⟩ := g4.2.1 e he
    exact ⟨he, ho, ht⟩

/-! ## Non-vacuity

`M`: status 200, fields `x-a: b`, `x-a: c`, body `hello`, trailer `x-t: v`. -/

def exM : AMsg :=
  { code := 200, sv := [50, 48, 48], fields := [([120, 45, 97], [98]), ([120, 45, 97], [99])],
    body := [104, 101, 108, 108, 111], trailers := [([120, 45, 116], [118])] }

theorem exM_ok : exM.OK := by
  refine ⟨by decide, by decide, by decide, by decide, ?_, ?_⟩
  · intro kv hkv
    simp only [exM, List.mem_cons, List.mem_nil_iff, or_false] at hkv
    rcases hkv with rfl | rfl <;> (unfold PlainField; decide)
  · intro kv hkv
    simp only [exM, List.mem_cons, List.mem_nil_iff, or_false] at hkv
    subst hkv
    decide

theorem exM_h1able : H1Able exM 50 48 48 := by
  refine ⟨rfl, by decide, ?_, ?_, ?_⟩
  · intro kv hkv
    simp only [exM, List.cons_append, List.nil_append, List.mem_cons, List.mem_nil_iff, or_false] at hkv
    rcases hkv with rfl | rfl | rfl <;> exact valueOK_of_bool _ (by decide)
  · intro kv hkv
    simp only [exM, List.mem_cons, List.mem_nil_iff, or_false] at hkv
    subst hkv
    unfold PlainField; decide
  · intro kv hkv
    simp only [exM, List.mem_cons, List.mem_nil_iff, or_false] at hkv
    rcases hkv with rfl | rfl <;> decide

/-! HTTP/2: one interim 103, HEADERS, DATA `he` (padded), an empty DATA, DATA `llo`, trailer
HEADERS with END_STREAM; reads interleaved with the frames, then drained. -/
example :
    let i103 : Fields := [([58, 115, 116, 97, 116, 117, 115], [49, 48, 51])]
    let datas : List (Bytes × Bool) := [([104, 101], true), ([], false), ([108, 108, 111], false)]
    let ops : List H2Op :=
      [.read 3, .ev (.headers i103 false), .ev (.headers (exM.h2Head none) false), .ev (.data [104, 101] true false),
       .read 1, .ev (.data [] false false), .ev (.data [108, 108, 111] false false), .read 9,
       .ev (.headers exM.trailers true)]
    let run := (H2Stream.init false).runOps (ops ++ [9, 9, 9, 9, 9, 9].map H2Op.read)
    SawEOF run.1 ∧ readsOut run.1 = exM.body ∧ run.2.resTrailer = exM.trailer := by
  intro i103 datas ops
  have hint : ∀ fs ∈ [i103], InterimOK fs := by
    intro fs hfs
    simp only [List.mem_singleton] at hfs
    subst hfs
    exact ⟨[49, 48, 51], 103, by decide, by decide, by decide, by decide, by decide⟩
  exact (h2_message_roundtrip exM exM_ok none (by simp) [i103] hint (by simp) datas none (by decide) (by simp)).2
    ops [9, 9, 9, 9, 9, 9] (by decide) (by decide) (by decide)

/-! HTTP/3: GREASE frame (type 0x21), HEADERS frame (3 opaque payload bytes), DATA `he`, an
empty DATA, GREASE, DATA `llo`, trailer HEADERS frame (2 opaque bytes), FIN — the stream cut
into pieces that split frame headers and payloads. -/
example :
    let grease : WFrame := ⟨[33, 1], 33, [9]⟩
    let w : WHead := ⟨[grease], ⟨[1, 3], 1, [7, 7, 7]⟩, exM.h2Head none, ⟨200, exM.header, none, []⟩⟩
    let frs : List WFrame := [⟨[0, 2], 0, [104, 101]⟩, ⟨[0, 0], 0, []⟩, grease, ⟨[0, 3], 0, [108, 108, 111]⟩]
    let tr : WTrailer := ⟨⟨[1, 2], 1, [8, 8]⟩, exM.trailers, exM.trailer⟩
    let segs : List Bytes := [[33], [1, 9, 1], [3, 7, 7], [7, 0, 2, 104], [101, 0], [0, 33, 1, 9, 0, 3, 108], [108, 111, 1, 2, 8], [8]]
    ∃ h s1, (h3Stream0 segs (w.fields :: trailerLists (some tr)) 1000).readFinalResponse 7 0 = (.ok h, s1) ∧
      h.status = 200 ∧ h.fields = exM.header ∧
      (let run := runReads H3Body.read (H3Body.new false h s1) (List.replicate 20 4)
       lastErr run.1 = some .eof ∧ outBytes run.1 = exM.body ∧ run.2.str.trailer = some exM.trailer) := by
  intro grease w frs tr segs
  have hg : grease.OK ∧ skippable grease.typ :=
    ⟨fun R => by simp [grease, decHdr, decVarint, decVarintTail], by simp [grease, skippable]⟩
  have hw : w.OK 1000 := by
    refine ⟨?_, fun R => by simp [w, decHdr, decVarint, decVarintTail], rfl, by decide, ?_⟩
    · intro g hgm
      simp only [w, List.mem_singleton] at hgm
      subst hgm
      exact hg
    · exact h3Head_spec exM exM_ok none (by simp)
  have hfrs : ∀ f ∈ frs, BodyFrameOK f := by
    intro f hf
    simp only [frs, List.mem_cons, List.mem_nil_iff, or_false] at hf
    rcases hf with rfl | rfl | rfl | rfl
    · exact ⟨fun R => by simp [decHdr, decVarint, decVarintTail], Or.inl rfl⟩
    · exact ⟨fun R => by simp [decHdr, decVarint, decVarintTail], Or.inl rfl⟩
    · exact ⟨hg.1, Or.inr hg.2⟩
    · exact ⟨fun R => by simp [decHdr, decVarint, decVarintTail], Or.inl rfl⟩
  have htr : ∀ t, some tr = some t → t.OK 1000 ∧ t.fields = exM.trailers := by
    intro t ht
    simp only [Option.some.injEq] at ht
    subst ht
    exact ⟨⟨fun R => by simp [tr, decHdr, decVarint, decVarintTail], rfl, by decide, by decide⟩, rfl⟩
  obtain ⟨h, s1, g1, g2, g3, g4⟩ := h3_message_roundtrip exM exM_ok none (by simp) 1000 [] (by simp) (by simp)
    w hw rfl frs hfrs (by decide) (some tr) htr (by simp) segs (by decide) (List.replicate 20 4)
  refine ⟨h, s1, by simpa using g1, g2, g3, ?_⟩
  simp only at g4 ⊢
  obtain ⟨e, he⟩ := g4.2.2 (by intro k hk; simp at hk; omega) (by decide)
  obtain ⟨rfl, ho, ht⟩ := g4.2.1 e he
  exact ⟨he, ho, ht rfl⟩

/-! HTTP/2, HEADERS only: the same status and fields with an empty body and no trailers, one
interim 103 before. -/
example :
    let M0 : AMsg := { exM with body := [], trailers := [] }
    let s := ([H2Ev.headers [([58, 115, 116, 97, 116, 117, 115], [49, 48, 51])] false,
               H2Ev.headers (M0.h2Head none) true]).foldl H2Stream.event (H2Stream.init false)
    (s.res.map fun r => (r.status, r.fields, r.body)) = some (200, exM.header, .noBody) := by
  decide

end Req.Props.C02
