import Req.Pool.TlsPaths
import Req.Props.C12
/-!
# C12 — uniformity over the dial paths (proxy tunnel, own HTTP/2 dial, uTLS fingerprint),
what the hooks are handed, and the ALPN list offered per mode

Theorems about `Req.Pool.TLS.pathCfg` / `governs` / `handshakeGiven` (`Pool/TlsPaths.lean`)
and `Req.Pool.Dispatch.offered`. Tied to the code by lane `c12path` (real `dialConn` —
direct, through an in-process CONNECT proxy, through a SOCKS5 stub — and the real HTTP/2
dial, against a loopback TLS server that records the ClientHello) and by the regenerated
fact `Generated.C12Facts.fpCopied` (bridge `Bridge.C12.fp_covers_or_known`).
-/
namespace Req.Props.C12
open Req.Pool.Dispatch Req.Pool.TLS

/-! ## what the hooks are handed -/

/-- **Every path hands `TLSHandshakeContext` the bare host** (never `host:port`): direct
HTTP/1.1 dial, tunnel through a proxy, HTTP/2's own dial. -/
theorem handshake_given_is_bare_host (host : Nat) (p : DialPath) (g : Given)
    (h : handshakeGiven host p = some g) : g = .bare host := by
  cases p <;> simp [handshakeGiven] at h <;> exact h.symm

/-- Hence a handshake function that verifies the peer against the name it is given decides
alike on every path that consults it. -/
theorem verifying_hook_uniform (host : Nat) (p q : DialPath) (g g' : Given) (trustOK : Bool) (names : List Nat)
    (hp : handshakeGiven host p = some g) (hq : handshakeGiven host q = some g') :
    hookAccepts trustOK names g = hookAccepts trustOK names g' := by
  rw [handshake_given_is_bare_host host p g hp, handshake_given_is_bare_host host q g' hq]

/-- Necessity: handed `host:port`, such a function rejects every certificate. -/
theorem verifying_hook_rejects_host_port (trustOK : Bool) (names : List Nat) (host : Nat) :
    hookAccepts trustOK names (.withPort host) = false := rfl

example : hookAccepts true [1, 2] (.bare 1) = true := by decide

/-- `DialTLSContext` gets `host:port` wherever it is consulted. -/
theorem dialtls_given_has_port (host : Nat) (p : DialPath) (g : Given)
    (h : dialTLSGiven host p = some g) : g = .withPort host := by
  cases p <;> simp [dialTLSGiven] at h <;> exact h.symm

/-! ## the hypothesis boundary: which paths a user function can govern -/

/-- HTTP/3 is never governed by a hook ("only valid for HTTP1 and HTTP2"). -/
theorem h3_never_hooked (h : Hooks) : governs h .h3Quic = .clientConfig := rfl

/-- Behind a proxy `DialTLSContext` does not govern the handshake with the origin. -/
theorem tunnel_ignores_dialtls (h : Hooks) : governs h .h1Tunnel ≠ .userDialTLS := by
  unfold governs
  cases h.handshake with
  | none => simp [hsGoverns]
  | some k => cases k <;> simp [hsGoverns]

/-- The direct HTTP/1.1 dial and HTTP/2's own dial use the same precedence. -/
theorem tcp_paths_same_governor (h : Hooks) : governs h .h1Direct = governs h .h2Own := rfl

/-- `pathCfg` promises a configuration exactly when no USER function governs. -/
theorem user_functions_are_the_boundary (copied : List FpField) (h : Hooks) (p : DialPath) (o : Bool)
    (host : Nat) (read : Option TlsCfg) :
    pathCfg copied h p o host read = none ↔
      (governs h p = .userHandshake ∨ governs h p = .userDialTLS) := by
  unfold pathCfg
  cases hg : governs h p <;> simp
  cases handshakeGiven host p <;> simp

/-- Without `SetDialTLS` and `SetTLSHandshake` every path has a configuration. -/
theorem no_user_function_no_escape (copied : List FpField) (h : Hooks) (p : DialPath) (o : Bool) (host : Nat)
    (read : Option TlsCfg) (hd : h.dialTLS = false) (hh : h.handshake ≠ some .user) :
    ∃ c, pathCfg copied h p o host read = some c := by
  have hg : governs h p ≠ .userHandshake ∧ governs h p ≠ .userDialTLS := by
    unfold governs
    cases p <;> simp [hd] <;> (cases hk : h.handshake with
      | none => simp [hsGoverns]
      | some k => cases k <;> simp_all [hsGoverns])
  cases hc : pathCfg copied h p o host read with
  | some c => exact ⟨c, rfl⟩
  | none =>
    rcases (user_functions_are_the_boundary copied h p o host read).1 hc with h1 | h1
    · exact absurd h1 hg.1
    · exact absurd h1 hg.2

/-! ## uniformity -/

/-- The fingerprint closure, when it copies the four fields verification and client
authentication look at, verifies with exactly what the built-in handshake verifies with. -/
theorem fp_verify_eq (copied : List FpField) (hcov : fpCovers copied = true) (host : Nat) (g : Given)
    (hg : stripPort g = host) (s : Stack) (o : Bool) (read : Option TlsCfg) :
    verifyPart (effectiveFp copied g read) = verifyPart (effective s o host read) := by
  simp [fpCovers, fpVerifyFields] at hcov
  obtain ⟨h1, h2, h3, h4⟩ := hcov
  cases read with
  | none => cases s <;> simp [effectiveFp, effective, verifyPart, getCfg, lazyCfg, emptyCfg, h1, h2, h3, h4, hg]
  | some c =>
    cases s <;> simp [effectiveFp, effective, verifyPart, getCfg, h1, h2, h3, h4, hg] <;>
      (by_cases hz : c.serverName = 0 <;> simp [hz])

/-- **TLS settings govern every path identically** — direct, through a proxy tunnel, HTTP/2's
own dial, QUIC; with the built-in handshake or the uTLS fingerprint one; whatever hooks are
set, on every path on which no user function governs: the configuration in force has the
verification part of the client's settings (`ServerName` defaulting to the dialled host). -/
theorem path_cfg_is_client_config (copied : List FpField) (hcov : fpCovers copied = true) (h : Hooks)
    (p : DialPath) (o : Bool) (host : Nat) (read : Option TlsCfg) (c : TlsCfg)
    (hc : pathCfg copied h p o host read = some c) :
    verifyPart c = verifyPart (effective .h1 false host read) := by
  unfold pathCfg at hc
  split at hc
  · cases hc; exact effective_verify _ _ _ _
  · split at hc
    · rename_i g hg
      cases hc
      have := handshake_given_is_bare_host host p g hg
      subst this
      exact fp_verify_eq copied hcov host _ rfl .h1 false read
    · cases hc; exact effective_verify _ _ _ _
  · cases hc

theorem tls_uniform_paths (copied : List FpField) (hcov : fpCovers copied = true) (h : Hooks)
    (accepts : VerifyCfg → ServerCert → Bool) (p q : DialPath) (o o' : Bool) (host : Nat)
    (read : Option TlsCfg) (c c' : TlsCfg) (cert : ServerCert)
    (hp : pathCfg copied h p o host read = some c) (hq : pathCfg copied h q o' host read = some c') :
    accepts (verifyPart c) cert = accepts (verifyPart c') cert ∧ c.certs = c'.certs := by
  have e1 := path_cfg_is_client_config copied hcov h p o host read c hp
  have e2 := path_cfg_is_client_config copied hcov h q o' host read c' hq
  refine ⟨by rw [e1, e2], ?_⟩
  have := e1.trans e2.symm
  simp only [verifyPart] at this
  exact congrArg VerifyCfg.certs this

/-- Non-vacuity: fingerprint on the TCP paths, QUIC with the built-in handshake — one verdict. -/
example :
    let copied := [FpField.serverName, .rootCAs, .insecureSkipVerify, .certificates, .nextProtos]
    let h : Hooks := ⟨false, some .fingerprint⟩
    let read := some { initialCfg with serverName := 2, roots := some [0], certs := [4] }
    (pathCfg copied h .h2Own false 1 read).map verifyPart = (pathCfg copied h .h3Quic false 1 read).map verifyPart
    ∧ (pathCfg copied h .h1Tunnel true 1 read).map verifyPart = (pathCfg copied h .h3Quic false 1 read).map verifyPart := by
  decide

/-- Necessity (finding class `fingerprint-ignores-servername-certs`): a closure that does not
take `ServerName` / `Certificates` from the client's configuration makes the TCP paths
disagree with HTTP/3 — a certificate acceptable under a `ServerName` override is rejected,
and no client certificate is presented. -/
theorem fp_unpatched_disagrees :
    let h : Hooks := ⟨false, some .fingerprint⟩
    let read := some { initialCfg with serverName := 2, roots := some [0], certs := [4] }
    let cert : ServerCert := ⟨0, [2]⟩
    (pathCfg fpCopiedUnpatched h .h1Direct false 1 read).map (fun c => (acceptsStd (verifyPart c) cert, c.certs))
      = some (false, [])
    ∧ (pathCfg fpCopiedUnpatched h .h3Quic false 1 read).map (fun c => (acceptsStd (verifyPart c) cert, c.certs))
      = some (true, [4]) := by decide

/-! ## ALPN: what is offered per mode, and what the outcome does to dispatch -/

/-- **The offered ALPN list matches the mode.** Forced HTTP/1.1 (or a request that requires
it): nothing is offered, `h2` cannot be selected. Forced HTTP/2: `h2` is offered, first when
the client's list lacks it, and the rest of the client's list is kept. Forced HTTP/3: `h3`
only. Otherwise the client's `NextProtos` verbatim; `EnableHTTP3` (`cfg.h3`) is irrelevant. -/
theorem offered_alpn_matches_mode (cfg : Cfg) (req : Req) :
    (cfg.force = some .h1 ∨ (cfg.force = none ∧ req.requiresH1 = true) → offered cfg req = [])
    ∧ (cfg.force = some .h2 → Alpn.h2 ∈ offered cfg req ∧ ∀ a ∈ cfg.protos, a ∈ offered cfg req)
    ∧ (cfg.force = some .h3 → offered cfg req = [.h3])
    ∧ (cfg.force = none → req.requiresH1 = false → offered cfg req = cfg.protos)
    ∧ offered { cfg with h3 := !cfg.h3 } req = offered cfg req := by
  refine ⟨?_, ?_, ?_, ?_, rfl⟩
  · rintro (h | ⟨h, hr⟩)
    · simp [offered, h]
    · simp [offered, h, hr]
  · intro h
    simp only [offered, h, h2Protos]
    split
    · rename_i hc; exact ⟨by simpa using hc, fun a ha => ha⟩
    · exact ⟨by simp, fun a ha => by simp [ha]⟩
  · intro h; simp [offered, h]
  · intro h hr; simp [offered, h, hr]

example : offered ⟨some .h2, false, false, false, false, [.http11]⟩ ⟨.https, false⟩ = [.h2, .http11] := by decide
example : offered ⟨some .h1, true, false, false, false, [.h2, .http11]⟩ ⟨.https, false⟩ = [] := by decide

/-- The list `offered` is the `NextProtos` of the configuration the stack builds
(`Req.Pool.TLS.effective`, tied to the ClientHello by lanes `c12cfg` and `c12path`). -/
theorem offered_eq_effective (cfg : Cfg) (req : Req) (host : Nat) (c : TlsCfg) (hc : c.protos = cfg.protos) :
    offered cfg req =
      match cfg.force with
      | some .h3 => (effective .h3 false host (some c)).protos
      | some .h2 => (effective .h2 false host (some c)).protos
      | f => (effective .h1 (f = some .h1 || req.requiresH1) host (some c)).protos := by
  unfold offered
  cases hf : cfg.force with
  | none => simp [effective, hc]
  | some v => cases v <;> simp [effective, hc]

theorem dialTlsState_nohook {cfg : Cfg} {o : Bool} {net : Net} (hd : cfg.dialTLS = false)
    (hh : cfg.handshake = false) :
    dialTlsState cfg o net =
      match negotiate net.alpn (if o then [] else cfg.protos) with
      | none => .error .alpnNoOverlap
      | some p =>
        if !net.tcpAccept then .error .tlsReject
        else if cfg.force = some .h2 ∧ p ≠ some .h2 then .error .h2NotSupported
        else .ok (some ⟨p, true⟩) := by
  unfold dialTlsState
  simp [hd, hh]
  cases negotiate net.alpn (if o = true then [] else cfg.protos) <;> rfl

theorem h1Path_https {cfg : Cfg} {req : Req} {net : Net} (hs : req.scheme = .https) :
    h1Path cfg req net =
      match dialTlsState cfg (cfg.force = some .h1 || req.requiresH1) net with
      | .error e => .error e
      | .ok st => carry cfg st := by
  unfold h1Path
  rw [hs]
  rfl

theorem carry_tls_ok {cfg : Cfg} {p : Option Alpn} {v : Ver}
    (h : carry cfg (some ⟨p, true⟩) = .ok v) : if p = some .h2 then v = .h2 else v = .h1 := by
  rcases Req.Lemmas.Dispatch.carry_ok h with ⟨hv, _, s, hs, hp⟩ | ⟨hv, hpe⟩
  · cases hs; simp at hp; simp [hp, hv]
  · by_cases hp : p = some .h2
    · subst hp; simp [peerOf] at hpe
    · simp [hp, hv]

/-- The HTTP/1.1 dial path with no user function, in terms of what is negotiated. -/
theorem h1Path_negotiated {cfg : Cfg} {req : Req} {net : Net} (hs : req.scheme = .https)
    (hd : cfg.dialTLS = false) (hh : cfg.handshake = false) (o : Bool)
    (ho : (decide (cfg.force = some .h1) || req.requiresH1) = o) :
    match negotiate net.alpn (if o then [] else cfg.protos) with
    | none => h1Path cfg req net = .error .alpnNoOverlap
    | some p => ∀ v, h1Path cfg req net = .ok v → (if p = some .h2 then v = .h2 else v = .h1) := by
  rw [h1Path_https hs, dialTlsState_nohook hd hh, ho]
  cases negotiate net.alpn (if o then [] else cfg.protos) with
  | none => rfl
  | some p =>
    intro v h
    by_cases ha : net.tcpAccept = true
    · simp only [ha, Bool.not_true, Bool.false_eq_true, if_false] at h
      by_cases h2 : cfg.force = some .h2 ∧ p ≠ some .h2
      · rw [if_pos h2] at h; cases h
      · rw [if_neg h2] at h; exact carry_tls_ok h
    · simp [ha] at h

/-- **The server picks X ⇒ X carries the request, or the call fails.** New TCP connection (no
user function, nothing cached, no Alt-Svc entry, HTTP/3 not forced): the route is determined by
what crypto/tls negotiates between the server's list and `offered`: handshake aborted ⇒
error; `h2` selected ⇒ only HTTP/2 can carry it; anything else or nothing ⇒ only HTTP/1.1. -/
theorem negotiated_version_used (cfg : Cfg) (req : Req) (net : Net)
    (hs : req.scheme = .https) (hd : cfg.dialTLS = false) (hh : cfg.handshake = false)
    (hc2 : net.cachedH2 = false) (hc3 : net.cachedH3 = false) (halt : net.alt = false)
    (hf3 : cfg.force ≠ some .h3) :
    match negotiate net.alpn (offered cfg req) with
    | none => route cfg req net = .error .alpnNoOverlap
    | some p => ∀ v, route cfg req net = .ok v → (if p = some .h2 then v = .h2 else v = .h1) := by
  cases hf : cfg.force with
  | none =>
    have hroute : route cfg req net = h1Path cfg req net := by
      simp [route, dispatch, hf, hs, halt, hc2, hc3]
    have hoff : offered cfg req = if req.requiresH1 then [] else cfg.protos := by simp [offered, hf]
    rw [hroute, hoff]
    exact h1Path_negotiated hs hd hh req.requiresH1 (by simp [hf])
  | some w =>
    cases w with
    | h3 => exact absurd hf hf3
    | h1 =>
      have hroute : route cfg req net = h1Path cfg req net := by
        simp [route, dispatch, hf, hs]
      have hoff : offered cfg req = if true then [] else cfg.protos := by simp [offered, hf]
      rw [hroute, hoff]
      exact h1Path_negotiated hs hd hh true (by simp [hf])
    | h2 =>
      have hroute : route cfg req net = t2Dial cfg req net := by
        simp [route, dispatch, hf, t2RoundTrip, hs, hc2]
      have hoff : offered cfg req = h2Protos cfg.protos := by simp [offered, hf]
      rw [hroute, hoff]
      unfold t2Dial
      simp only [hd, hh, Bool.false_eq_true, if_false, hs]
      simp only [ne_eq, not_true_eq_false, if_false]
      cases negotiate net.alpn (h2Protos cfg.protos) with
      | none => rfl
      | some p =>
        intro v h
        by_cases ha : net.tcpAccept = true
        · simp only [ha, Bool.not_true, Bool.false_eq_true, if_false] at h
          split at h
          · rename_i hp; cases h; simp [hp]
          · cases h
        · simp [ha] at h

example : negotiate [.h2, .http11] (offered ⟨none, false, false, false, false, [.http11, .h2]⟩ ⟨.https, false⟩)
    = some (some .h2) := by decide
example : negotiate [.h2] (offered ⟨some .h1, false, false, false, false, [.http11, .h2]⟩ ⟨.https, false⟩)
    = some none := by decide

end Req.Props.C12
