import Req.Client.CompressAttempts
import Req.Props.C14
/-!
C14 — the decision does not depend on WHICH attempt of a request is answered.

`Req.Props.C14` states the property for one pass through the transport. A request may pass
several times (transparent retry on a stale keep-alive connection, HTTP/2 retry after
GOAWAY/REFUSED_STREAM, the same `*http.Request` given to `RoundTrip` again). These theorems
say that every pass is decided like the first one — for any number of attempts — because an
attempt leaves the request's header as it found it; and that the statement is FALSE of a
transport that writes its `Accept-Encoding: gzip` into the request's own header
(seeded/C14-r3-1), witnessed by `decide` and replayed by lane `resend`.
-/
namespace Req.Props.C14Attempts
open Req.Proto Req.Compress

/-- **attempt_keeps_request** — an attempt does not modify the request header it was given
(the `http.RoundTripper` contract, on the three stacks). -/
theorem attempt_keeps_request (s : Site) (dc : Bool) (m : Bytes) (h : Carried) :
    (attempt s dc m h).2 = h := rfl

/-- … hence neither does any number of attempts. -/
theorem attempts_keep_request (s : Site) (dc : Bool) (m : Bytes) (k : Nat) (h : Carried) :
    (attempts s dc m k h).2 = h := by
  induction k generalizing h with
  | zero => rfl
  | succ k ih => simp [attempts, ih, attempt_keeps_request]

/-- **attempts_all_alike** — for every number of attempts, every attempt sends the same
`Accept-Encoding` and records the same `addedGzip` as the first one. -/
theorem attempts_all_alike (s : Site) (dc : Bool) (m : Bytes) (k : Nat) (h : Carried) :
    (attempts s dc m k h).1 = List.replicate k (attempt s dc m h).1 := by
  induction k generalizing h with
  | zero => rfl
  | succ k ih => simp [attempts, ih, attempt_keeps_request, List.replicate_succ]

/-- **every_attempt_decided_alike** — whichever attempt is answered, the response is processed
exactly as `process` (the single-pass function all of `Req.Props.C14` is about) says. -/
theorem every_attempt_decided_alike (s : Site) (dc : Bool) (m : Bytes) (k : Nat) (h : Carried)
    (auto hasBody : Bool) (r : Resp) (sent : Sent) (hs : sent ∈ (attempts s dc m k h).1) :
    processSent s sent auto (h.cfg dc m).isHead hasBody r = process s (h.cfg dc m) auto hasBody r := by
  rw [attempts_all_alike] at hs
  have := List.eq_of_mem_replicate hs
  subst this
  rfl

/-- **retry_still_decodes_gzip** — the caller set neither `Accept-Encoding` nor `Range`,
compression is on, the method is not HEAD: then on EVERY attempt the origin is asked for gzip
by the transport, and a gzip answer (any case) to any of them is gunzipped with the headers
rewritten. -/
theorem retry_still_decodes_gzip (s : Site) (m : Bytes) (k : Nat) (hm : m ≠ tokHEAD)
    (auto : Bool) (r : Resp) (hce : isGzipFold (hget r.header hContentEncoding) = true)
    (sent : Sent) (hs : sent ∈ (attempts s false m k ⟨[], []⟩).1) :
    sent.wireAE = some tokGzip ∧ sent.addedGzip = true ∧
      processSent s sent auto false true r = ⟨strip r, some .gunzip⟩ := by
  rw [attempts_all_alike] at hs
  have := List.eq_of_mem_replicate hs
  subst this
  have hadd : addGzip s (Carried.cfg ⟨[], []⟩ false m) = true := by
    cases s <;> simp [addGzip, addGzipH1, addGzipH2, addGzipH3, Carried.cfg, ReqCfg.isHead, hm]
  refine ⟨?_, ?_, ?_⟩
  · simp [attempt, hadd, wireAcceptEncoding]
  · simp [attempt, hadd]
  · cases s <;>
      simp [processSent, attempt, hadd, decideAt, decideH1, decideH2, decideH3, decideCore, hce,
        applyAction]

-- non-vacuity: three attempts of a plain GET on HTTP/1.1, `Content-Encoding: GZIP`
example :
    (attempts .h1 false [71, 69, 84] 3 ⟨[], []⟩).1.map (·.wireAE) =
      [some tokGzip, some tokGzip, some tokGzip] := by decide
example :
    processSent .h1 (attempt .h1 false [71, 69, 84] ⟨[], []⟩).1 false false true
      ⟨[(hContentEncoding, [71, 90, 73, 80]), (hContentLength, [53])], 5, false⟩
      = ⟨⟨[], -1, true⟩, some .gunzip⟩ := by decide

/-! ### the statements are false of a transport that writes into `req.Header` -/

/-- the request header does not survive an attempt -/
theorem write_in_place_modifies_request :
    (WriteInPlace.attempt .h1 false [71, 69, 84] ⟨[], []⟩).2 ≠ ⟨[], []⟩ := by decide

/-- the second attempt still sends `Accept-Encoding: gzip` (now "the caller's") but records
`addedGzip = false`, so the gzip answer it provoked is handed over compressed, headers intact -/
theorem write_in_place_second_attempt_untouched :
    let sents := (WriteInPlace.attempts .h1 false [71, 69, 84] 2 ⟨[], []⟩).1
    let r : Resp := ⟨[(hContentEncoding, tokGzip), (hContentLength, [53])], 5, false⟩
    sents.map (·.wireAE) = [some tokGzip, some tokGzip] ∧
    sents.map (·.addedGzip) = [true, false] ∧
    sents.map (fun s => processSent .h1 s false false true r) =
      [⟨strip r, some .gunzip⟩, ⟨r, some .raw⟩] := by decide

end Req.Props.C14Attempts
