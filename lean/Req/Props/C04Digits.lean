import Req.H1.Chunked
import Req.H1.Transfer
/-!
C04 — the digit parsers accept EXACTLY their alphabets, for all byte strings.

* `hex_digit_iff` — a byte is a chunk-size digit iff it is one of the 22 bytes `0-9 a-f A-F`
  (an iff over all 256 byte values, decided exhaustively — in particular none of the control
  bytes that a `b |= 0x20` case fold would map onto digits, 0x10–0x19, and none of
  `@`, `` ` ``, `G`, `g`, `/`, `:`).
* `parseHexUint_accepts_iff` — `parseHexUint v` succeeds iff `v` is 1..16 such bytes, and then
  the value is the base-16 value of the digits.
* `dec_digit_iff`, `parseDigits_accepts_iff`, `parseContentLength_accepts_iff` — Content-Length:
  after trimming ASCII white space, one or more of the 10 bytes `0-9` and nothing else (no sign,
  no `_`, no other script's digits), value below 2^63.
* `status_code_accepts_iff` — the three-byte status code: `ddd`, `+dd`, or `-00` (what
  `strconv.Atoi` followed by `< 0` lets through).
* `http_version_accepts_iff` — `HTTP/d.d` with two of the 10 digit bytes, nothing else.
-/
namespace Req.Props.C04
open Req.Proto Req.H1 Req.Ascii

set_option maxRecDepth 200000

/-- The 22 chunk-size digit bytes. -/
def hexDigitBytes : List UInt8 :=
  [48,49,50,51,52,53,54,55,56,57, 65,66,67,68,69,70, 97,98,99,100,101,102]

/-- **hex_digit_iff.** All 256 byte values. -/
theorem hex_digit_iff (c : UInt8) : (hexVal? c).isSome = true ↔ c ∈ hexDigitBytes := by
  have h : ∀ n : Fin 256, ((hexVal? (UInt8.ofNat n.val)).isSome = true ↔
      UInt8.ofNat n.val ∈ hexDigitBytes) := by decide
  have := h ⟨c.toNat, c.toNat_lt⟩
  simpa using this

/-- The value of a digit is below 16. -/
theorem hexVal_lt (c : UInt8) (d : Nat) (h : hexVal? c = some d) : d < 16 := by
  have hall : ∀ n : Fin 256, ∀ d, hexVal? (UInt8.ofNat n.val) = some d → d < 16 := by decide
  have := hall ⟨c.toNat, c.toNat_lt⟩ d
  simp only [UInt8.ofNat_toNat] at this
  exact this h

/-- Base-16 value of a digit string on top of `acc` (`none` digits count as 0; only used on
strings of digits). -/
def hexValueAcc (acc : Nat) (v : Bytes) : Nat :=
  v.foldl (fun n c => n * 16 + (match hexVal? c with | some d => d | none => 0)) acc

theorem parseHexAcc_iff (acc : Nat) (v : Bytes) (n : Nat) :
    parseHexAcc acc v = some n ↔ (∀ c ∈ v, c ∈ hexDigitBytes) ∧ n = hexValueAcc acc v := by
  induction v generalizing acc with
  | nil => simp [parseHexAcc, hexValueAcc, eq_comm]
  | cons c cs ih =>
    simp only [parseHexAcc, List.mem_cons, forall_eq_or_imp, hexValueAcc, List.foldl_cons]
    cases hc : hexVal? c with
    | none =>
      have : ¬ c ∈ hexDigitBytes := by
        rw [← hex_digit_iff, hc]; simp
      simp [this]
    | some d =>
      have : c ∈ hexDigitBytes := by
        rw [← hex_digit_iff, hc]; rfl
      simp only [this, true_and]
      exact ih (acc * 16 + d)

/-- **parseHexUint_accepts_iff.** For ALL byte strings: accepted iff 1..16 bytes, each one of
`0-9a-fA-F`; the result is their base-16 value. -/
theorem parseHexUint_accepts_iff (v : Bytes) (n : Nat) :
    parseHexUint v = some n ↔
      (v ≠ [] ∧ v.length ≤ 16 ∧ (∀ c ∈ v, c ∈ hexDigitBytes) ∧ n = hexValueAcc 0 v) := by
  unfold parseHexUint
  cases v with
  | nil => simp
  | cons c cs =>
    by_cases hl : (c :: cs).length > 16
    · simp only [List.isEmpty_cons, Bool.false_eq_true, if_false, hl, if_true]
      constructor
      · intro h; cases h
      · intro ⟨_, h, _⟩; omega
    · simp only [List.isEmpty_cons, Bool.false_eq_true, if_false, hl]
      rw [parseHexAcc_iff]
      constructor
      · intro ⟨h1, h2⟩; exact ⟨by simp, by omega, h1, h2⟩
      · intro ⟨_, _, h1, h2⟩; exact ⟨h1, h2⟩

/-- The control bytes 0x10–0x19 (which `b |= 0x20` would turn into `0`–`9`) are rejected at
every position of a chunk-size field, whatever surrounds them. -/
theorem parseHexUint_rejects_folded_controls (pre post : Bytes) (c : UInt8)
    (hc : 16 ≤ c ∧ c ≤ 25) : parseHexUint (pre ++ c :: post) = none := by
  cases h : parseHexUint (pre ++ c :: post) with
  | none => rfl
  | some n =>
    exfalso
    obtain ⟨_, _, hall, _⟩ := (parseHexUint_accepts_iff _ n).mp h
    have hm := hall c (by simp)
    have hno : ∀ k : Fin 256, 16 ≤ k.val → k.val ≤ 25 → ¬ UInt8.ofNat k.val ∈ hexDigitBytes := by decide
    have h1 : 16 ≤ c.toNat := by
      have := hc.1; rw [UInt8.le_iff_toNat_le] at this; simpa using this
    have h2 : c.toNat ≤ 25 := by
      have := hc.2; rw [UInt8.le_iff_toNat_le] at this; simpa using this
    have := hno ⟨c.toNat, c.toNat_lt⟩ h1 h2
    simp only [UInt8.ofNat_toNat] at this
    exact this hm

example : parseHexUint [0x15] = none ∧ parseHexUint [0x10] = none ∧ parseHexUint [53] = some 5 ∧
    parseHexUint [65, 102] = some 175 := by decide

/-! ### decimal: Content-Length, status code, HTTP version -/

def decDigitBytes : List UInt8 := [48,49,50,51,52,53,54,55,56,57]

/-- **dec_digit_iff.** All 256 byte values. -/
theorem dec_digit_iff (c : UInt8) : isDigit c = true ↔ c ∈ decDigitBytes := by
  have h : ∀ n : Fin 256, (isDigit (UInt8.ofNat n.val) = true ↔ UInt8.ofNat n.val ∈ decDigitBytes) := by
    decide
  have := h ⟨c.toNat, c.toNat_lt⟩
  simpa using this

def decValue (cs : Bytes) : Nat := cs.foldl (fun n c => n * 10 + (c.toNat - 48)) 0

/-- **parseDigits_accepts_iff.** -/
theorem parseDigits_accepts_iff (cs : Bytes) (n : Nat) :
    parseDigits cs = some n ↔ (cs ≠ [] ∧ (∀ c ∈ cs, c ∈ decDigitBytes) ∧ n = decValue cs) := by
  cases cs with
  | nil => simp [parseDigits]
  | cons c t =>
    simp only [parseDigits, decValue]
    by_cases hall : (c :: t).all isDigit = true
    · simp only [hall, if_true, Option.some.injEq]
      have : ∀ x ∈ c :: t, x ∈ decDigitBytes := by
        intro x hx
        rw [← dec_digit_iff]
        exact List.all_eq_true.mp hall x hx
      constructor
      · intro h; exact ⟨by simp, this, h.symm⟩
      · intro ⟨_, _, h⟩; exact h.symm
    · simp only [hall, Bool.false_eq_true, if_false]
      constructor
      · intro h; cases h
      · intro ⟨_, h, _⟩
        exfalso; apply hall
        rw [List.all_eq_true]
        intro x hx
        rw [dec_digit_iff]; exact h x hx

/-- **parseContentLength_accepts_iff.** -/
theorem parseContentLength_accepts_iff (v : Bytes) (n : Nat) :
    parseContentLength1 v = some n ↔
      (trimString v ≠ [] ∧ (∀ c ∈ trimString v, c ∈ decDigitBytes) ∧ n = decValue (trimString v) ∧
        n < 2 ^ 63) := by
  unfold parseContentLength1
  cases h : parseDigits (trimString v) with
  | none =>
    simp only
    constructor
    · intro h'; cases h'
    · intro ⟨a, b, c, _⟩
      have := (parseDigits_accepts_iff (trimString v) n).mpr ⟨a, b, c⟩
      rw [h] at this; cases this
  | some k =>
    obtain ⟨a, b, c⟩ := (parseDigits_accepts_iff (trimString v) k).mp h
    simp only
    by_cases hk : k < 2 ^ 63
    · simp only [hk, if_true, Option.some.injEq]
      constructor
      · intro e; subst e; exact ⟨a, b, c, hk⟩
      · intro ⟨_, _, e, _⟩; rw [e, c]
    · simp only [hk, if_false]
      constructor
      · intro h'; cases h'
      · intro ⟨_, _, e, hn⟩; rw [e, ← c] at hn; exact absurd hn hk

example : parseContentLength1 [43, 53] = none ∧ parseContentLength1 [45, 48] = none ∧
    parseContentLength1 [32, 53, 9] = some 5 ∧ parseContentLength1 [53, 95] = none := by decide

/-- The three-byte status codes `parseStatusLine` lets through (`len == 3`, `strconv.Atoi`,
`>= 0`): three digits, `+` and two digits, or `-00`. -/
def statusCodeOK (a b c : UInt8) : Bool :=
  (isDigit a && isDigit b && isDigit c) || (a == 43 && isDigit b && isDigit c) ||
  (a == 45 && b == 48 && c == 48)

theorem parseDigits_two (b c : UInt8) :
    parseDigits [b, c] =
      if isDigit b && isDigit c then some ((b.toNat - 48) * 10 + (c.toNat - 48)) else none := by
  simp [parseDigits, List.all_cons]

theorem parseDigits_three (a b c : UInt8) :
    parseDigits [a, b, c] =
      if isDigit a && isDigit b && isDigit c then
        some (((a.toNat - 48) * 10 + (b.toNat - 48)) * 10 + (c.toNat - 48)) else none := by
  simp [parseDigits, List.all_cons, Bool.and_assoc]

theorem digit_value_zero (b : UInt8) (hd : isDigit b = true) (hz : b.toNat - 48 = 0) : b = 48 := by
  have h : ∀ n : Fin 256, isDigit (UInt8.ofNat n.val) = true → (UInt8.ofNat n.val).toNat - 48 = 0 →
      UInt8.ofNat n.val = 48 := by decide
  have := h ⟨b.toNat, b.toNat_lt⟩
  simp only [UInt8.ofNat_toNat] at this
  exact this hd hz

/-- **status_code_accepts_iff.** All 256³ three-byte codes: accepted (`Atoi` succeeds with a
non-negative value) iff `ddd`, `+dd` or `-00`. -/
theorem status_code_accepts_iff (a b c : UInt8) :
    (∃ n : Int, atoi [a, b, c] = some n ∧ 0 ≤ n) ↔ statusCodeOK a b c = true := by
  unfold atoi statusCodeOK
  by_cases h45 : a = 45
  · subst h45
    simp only [if_true, parseDigits_two]
    have hnd : isDigit (45 : UInt8) = false := by decide
    by_cases hb : isDigit b = true
    · by_cases hc : isDigit c = true
      · simp only [hb, hc, Bool.and_self, if_true, Option.map_some, Option.some.injEq, hnd,
          Bool.false_and, Bool.false_or, beq_self_eq_true, Bool.true_and,
          show ((45 : UInt8) == 43) = false by decide]
        constructor
        · intro ⟨n, hn, h0⟩
          simp at hn
          have hz : (b.toNat - 48) * 10 + (c.toNat - 48) = 0 := by omega
          have e1 := digit_value_zero b hb (by omega)
          have e2 := digit_value_zero c hc (by omega)
          simp [e1, e2]
        · intro h
          simp only [Bool.and_eq_true, beq_iff_eq] at h
          obtain ⟨e1, e2⟩ := h
          subst e1; subst e2
          exact ⟨0, by decide, by decide⟩
      · have hc' : isDigit c = false := by simpa using hc
        have hcz : (c == 48) = false := by
          cases hx : c == 48 with
          | false => rfl
          | true => rw [beq_iff_eq] at hx; subst hx; exact absurd (by decide) hc
        simp [hb, hc', hnd, hcz]
    · have hb' : isDigit b = false := by simpa using hb
      have hbz : (b == 48) = false := by
        cases hx : b == 48 with
        | false => rfl
        | true => rw [beq_iff_eq] at hx; subst hx; exact absurd (by decide) hb
      simp [hb', hnd, hbz]
  · by_cases h43 : a = 43
    · subst h43
      have hnd : isDigit (43 : UInt8) = false := by decide
      simp only [show (43 : UInt8) ≠ 45 by decide, if_false, if_true, parseDigits_two, hnd,
        Bool.false_and, Bool.false_or, beq_self_eq_true, Bool.true_and,
        show ((43 : UInt8) == 45) = false by decide, Bool.or_false]
      by_cases hd : (isDigit b && isDigit c) = true
      · simp only [hd, if_true]
        refine ⟨fun _ => trivial, fun _ => ⟨_, by simp; rfl, Int.natCast_nonneg _⟩⟩
      · have hd' : (isDigit b && isDigit c) = false := by simpa using hd
        simp [hd']
    · have e45 : (a == 45) = false := by simpa using h45
      have e43 : (a == 43) = false := by simpa using h43
      simp only [h45, h43, if_false, parseDigits_three, e45, e43, Bool.false_and, Bool.or_false]
      by_cases hd : (isDigit a && isDigit b && isDigit c) = true
      · simp only [hd, if_true]
        refine ⟨fun _ => trivial, fun _ => ⟨_, by simp; rfl, Int.natCast_nonneg _⟩⟩
      · have hd' : (isDigit a && isDigit b && isDigit c) = false := by simpa using hd
        simp [hd']

example : (∃ n : Int, atoi [43, 50, 48] = some n ∧ 0 ≤ n) ∧ ¬ (∃ n : Int, atoi [45, 48, 49] = some n ∧ 0 ≤ n) := by
  constructor
  · exact (status_code_accepts_iff _ _ _).mpr (by decide)
  · intro h; have := (status_code_accepts_iff _ _ _).mp h; revert this; decide

/-- **http_version_accepts_iff.** -/
theorem http_version_accepts_iff (v : Bytes) (maj mi : Nat) :
    parseHTTPVersion v = some (maj, mi) ↔
      ∃ a b, v = [72, 84, 84, 80, 47, a, 46, b] ∧ a ∈ decDigitBytes ∧ b ∈ decDigitBytes ∧
        maj = a.toNat - 48 ∧ mi = b.toNat - 48 := by
  constructor
  · intro h
    unfold parseHTTPVersion at h
    split at h
    · next a b =>
      split at h
      · next hd =>
        simp only [Bool.and_eq_true] at hd
        simp only [Option.some.injEq, Prod.mk.injEq] at h
        exact ⟨a, b, rfl, (dec_digit_iff a).mp hd.1, (dec_digit_iff b).mp hd.2, h.1.symm, h.2.symm⟩
      · cases h
    · cases h
  · intro ⟨a, b, hv, ha, hb, hm, hn⟩
    subst hv
    simp [parseHTTPVersion, (dec_digit_iff a).mpr ha, (dec_digit_iff b).mpr hb, hm, hn]

end Req.Props.C04
