import Req.Client.AuthSet
import Req.Props.C20Wire
/-!
C20 — basic and bearer credentials through the SETTERS: after ANY sequence of configuration calls
(client level and request level, Basic and Bearer mixed, any earlier values, URL user information
or not) the origin recovers exactly the pair handed to the setter that counts — for every byte
string, the EMPTY user name, the EMPTY password and both empty included.
-/
namespace Req.Props.C20
open Req.Proto Req.Auth Req.Ascii

/-- client-level calls do not touch the request's own header -/
theorem foldl_client_request : ∀ (post : List SetOp) (c : Conf), (∀ o ∈ post, o.isClient = true) →
    (post.foldl applyOp c).request = c.request := by
  intro post
  induction post with
  | nil => intro c _; rfl
  | cons o rest ih =>
    intro c h
    rw [List.foldl_cons, ih _ (fun x hx => h x (List.mem_cons_of_mem _ hx))]
    have ho := h o (List.mem_cons_self ..)
    cases o <;> first | rfl | cases ho

/-- **setter_request_level_sent**: whatever was configured before (at either level), whatever is
configured at the client afterwards and whatever the URL says: the value of the LAST request-level
setter is the one that goes out. -/
theorem setter_request_level_sent (pre post : List SetOp) (o : SetOp) (ho : o.isClient = false)
    (hpost : ∀ x ∈ post, x.isClient = true) (urlUser : Option (Bytes × Bytes)) :
    sent (pre ++ o :: post) urlUser = (applyOp {} o).request ∧ (applyOp {} o).request ≠ none := by
  unfold sent configure
  rw [List.foldl_append, List.foldl_cons, foldl_client_request post _ hpost]
  cases o with
  | clientBasic u p => cases ho
  | clientBearer t => cases ho
  | reqBasic u p => exact ⟨rfl, by simp [applyOp]⟩
  | reqBearer t => exact ⟨rfl, by simp [applyOp]⟩

/-- **basic_all_strings** (request level): for EVERY user name without a colon and EVERY password —
any bytes, any length, `""` for either or for BOTH — handed to `Request.SetBasicAuth`, after any
earlier configuration `pre` (other accounts at the client or the request included), any later
client-level configuration `post`, with or without user information in the URL, over HTTP/1.1 and
HTTP/2: the call is not refused and the origin's `BasicAuth()` yields exactly `(user, password)`. -/
theorem basic_all_strings (h2 : Bool) (pre post : List SetOp) (u p : Bytes) (hc : colon ∉ u)
    (hpost : ∀ x ∈ post, x.isClient = true) (urlUser : Option (Bytes × Bytes)) :
    recoveredBasic h2 (pre ++ .reqBasic u p :: post) urlUser = some (some (u, p)) := by
  have hs := (setter_request_level_sent pre post (.reqBasic u p) rfl hpost urlUser).1
  have hw := basic_wire_exact h2 u p hc
  unfold wireBasic at hw
  unfold recoveredBasic arrives
  rw [hs]
  simp only [applyOp]
  cases ht : transport h2 (basic u p) with
  | none => rw [ht] at hw; cases hw
  | some v =>
    rw [ht] at hw
    simp only [Option.map_some, Option.some.injEq] at hw
    simp [hw]

/-- **basic_all_strings_client** (client level): the same for `Client.SetCommonBasicAuth` when the
request sets nothing itself: the LAST client-level call counts, whatever accounts or tokens were
configured before, whatever the URL says. -/
theorem basic_all_strings_client (h2 : Bool) (pre : List SetOp) (u p : Bytes) (hc : colon ∉ u)
    (hpre : ∀ x ∈ pre, x.isClient = true) (urlUser : Option (Bytes × Bytes)) :
    recoveredBasic h2 (pre ++ [.clientBasic u p]) urlUser = some (some (u, p)) := by
  have hreq : (configure (pre ++ [.clientBasic u p])).request = none := by
    unfold configure
    exact foldl_client_request _ {} (by
      intro x hx
      rcases List.mem_append.mp hx with h | h
      · exact hpre x h
      · simp at h; subst h; rfl)
  have hcl : (configure (pre ++ [.clientBasic u p])).client = some (basic u p) := by
    unfold configure
    rw [List.foldl_append]
    rfl
  have hw := basic_wire_exact h2 u p hc
  unfold wireBasic at hw
  unfold recoveredBasic arrives sent
  simp only [hreq, hcl, effective]
  cases ht : transport h2 (basic u p) with
  | none => rw [ht] at hw; cases hw
  | some v =>
    rw [ht] at hw
    simp only [Option.map_some, Option.some.injEq] at hw
    simp [hw]

/-- with a colon in the user name: still never refused, `user:password` arrives whole -/
theorem basic_all_strings_joined (h2 : Bool) (pre post : List SetOp) (u p : Bytes)
    (hpost : ∀ x ∈ post, x.isClient = true) (urlUser : Option (Bytes × Bytes)) :
    ∃ u' p', recoveredBasic h2 (pre ++ .reqBasic u p :: post) urlUser = some (some (u', p')) ∧
      u' ++ colon :: p' = u ++ colon :: p := by
  obtain ⟨u', p', hw, hj⟩ := basic_wire_joined h2 u p
  refine ⟨u', p', ?_, hj⟩
  have hs := (setter_request_level_sent pre post (.reqBasic u p) rfl hpost urlUser).1
  unfold wireBasic at hw
  unfold recoveredBasic arrives
  rw [hs]
  simp only [applyOp]
  cases ht : transport h2 (basic u p) with
  | none => rw [ht] at hw; cases hw
  | some v =>
    rw [ht] at hw
    simp only [Option.map_some, Option.some.injEq] at hw
    simp [hw]

/-- **bearer_all_tokens**: the token of the last `Request.SetBearerAuthToken` is what the origin
recovers (HTTP/2: every token a field can carry, the empty one included), whatever Basic account
or other token was configured anywhere before. -/
theorem bearer_all_tokens (pre post : List SetOp) (t : Bytes) (hf : t.all isFieldByte = true)
    (hpost : ∀ x ∈ post, x.isClient = true) (urlUser : Option (Bytes × Bytes)) :
    recoveredBearer true (pre ++ .reqBearer t :: post) urlUser = some (some t) := by
  have hs := (setter_request_level_sent pre post (.reqBearer t) rfl hpost urlUser).1
  have hw := bearer_wire_exact_h2 t hf
  unfold wireBearer at hw
  unfold recoveredBearer arrives
  rw [hs]
  simp only [applyOp]
  cases ht : transport true (bearer t) with
  | none => rw [ht] at hw; cases hw
  | some v =>
    rw [ht] at hw
    simp only [Option.map_some, Option.some.injEq] at hw
    simp [hw]

/-- over HTTP/1.1: every token a field value can carry (not empty, not ending in SP/HTAB — see
`bearer_trailing_ows_excluded`) -/
theorem bearer_all_tokens_h1 (pre post : List SetOp) (t : Bytes) (hf : t.all isFieldByte = true) (hne : t ≠ [])
    (hl : ∀ z ∈ t.getLast?, isOws z = false)
    (hpost : ∀ x ∈ post, x.isClient = true) (urlUser : Option (Bytes × Bytes)) :
    recoveredBearer false (pre ++ .reqBearer t :: post) urlUser = some (some t) := by
  have hs := (setter_request_level_sent pre post (.reqBearer t) rfl hpost urlUser).1
  have hw := bearer_wire_exact t hf hne hl
  unfold wireBearer at hw
  unfold recoveredBearer arrives
  rw [hs]
  simp only [applyOp]
  cases ht : transport false (bearer t) with
  | none => rw [ht] at hw; cases hw
  | some v =>
    rw [ht] at hw
    simp only [Option.map_some, Option.some.injEq] at hw
    simp [hw]

/-- a token with a control byte (CR, LF, NUL …) handed to the setter that counts makes the call
FAIL: nothing is sent — not the client-level credential either -/
theorem bearer_setter_unsendable_refused (h2 : Bool) (pre post : List SetOp) (t : Bytes)
    (hf : t.all isFieldByte = false) (hpost : ∀ x ∈ post, x.isClient = true) (urlUser : Option (Bytes × Bytes)) :
    arrives h2 (pre ++ .reqBearer t :: post) urlUser = none := by
  have hs := (setter_request_level_sent pre post (.reqBearer t) rfl hpost urlUser).1
  have hw := bearer_unsendable_refused h2 t hf
  unfold wireBearer at hw
  unfold arrives
  rw [hs]
  simp only [applyOp]
  cases ht : transport h2 (bearer t) with
  | none => rfl
  | some v => rw [ht] at hw; cases hw

/-- nothing configured, no user information: no `Authorization` field at all -/
theorem nothing_configured_nothing_sent (h2 : Bool) : arrives h2 [] none = some none := rfl

/-! non-vacuity: the degenerate pairs, with overriding at both levels -/

-- ("", "") for one request of a client that has common credentials `admin:s3cret`
example : recoveredBasic false [.clientBasic [97, 100, 109, 105, 110] [115, 51, 99, 114, 101, 116], .reqBasic [] []]
    none = some (some ([], [])) := by decide
-- ("", "") for the client, replacing the common credentials set earlier; URL user information ignored
example : recoveredBasic true [.clientBasic [97] [98], .clientBearer [116], .clientBasic [] []]
    (some ([117], [112])) = some (some ([], [])) := by decide
-- empty user only / empty password only
example : recoveredBasic false [.reqBasic [] [112, 119]] none = some (some ([], [112, 119])) := by decide
example : recoveredBasic false [.reqBasic [117] []] none = some (some ([117], [])) := by decide
-- the hypotheses of basic_all_strings on a non-trivial value
example : colon ∉ ([] : Bytes) ∧ (∀ x ∈ [SetOp.clientBasic [97] [98]], x.isClient = true) := by decide
-- a request-level Bearer set AFTER the Basic pair replaces it (the premise "last request-level setter" matters)
example : recoveredBasic false [.reqBasic [117] [112], .reqBearer [116]] none = some none := by decide
example : recoveredBearer true [.reqBasic [117] [112], .clientBearer [120], .reqBearer []] none = some (some []) := by
  decide

end Req.Props.C20
