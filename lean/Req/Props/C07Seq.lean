import Req.C07.H1Conn
import Req.C07.H3Sections
import Req.C07.DigestAlg
import Req.C07.H2Settings
import Req.Props.C07Budget
import Req.Lemmas.C05Frag
import Req.H2.Conn
/-!
C07 (round 5) — budgets and totality over SEQUENCES: every response of a kept-alive HTTP/1.1
connection, every field section of an HTTP/3 response, every SETTINGS frame of an HTTP/2 connection,
and the two look-ups of the digest `algorithm` token.

* `h1seq.h1_budget_every_response` — ∀ event sequences over ANY number of responses on one
  connection (body-less ones included): while a head is being read, held bytes ≤ limit + one buffer,
  bytes taken since the limit was set ≤ limit, ≤ 6 × limit per response.
* `h1seq.h1_rearm_every_round`, `h1seq.h1_seq_accept_size`, `h1seq.h1_seq_refused`.
* `h3seq.h3_budget_sections` — 1xx* + final + trailers: each block buffer ≤ limit, at most seven of
  them per response; `h3seq.u64_guarded_budget_sound` / `u64_unguarded_budget_wraps`.
* `digest.digest_never_nil_hash` — `selectQop` accepts ⇒ the hash look-up succeeds, for all byte
  strings, for every pair of look-ups where acceptance implies presence; the exact-match table of
  the code is such a pair (`digest_real_never_nil_hash`); a case-folding test over the exact-match
  table is not (`example`).
* `h2set.h2_settings_frame_size_inv` — after any accepted sequence of SETTINGS frames
  `cc.maxFrameSize ∈ [2^14, 2^24-1]`; `h2_header_writer_terminates` (the CONTINUATION loop covers
  the block with non-empty chunks); `h2_zero_frame_size_spins` (what the range check prevents).
-/
namespace Req.Props.C07
open Req.Proto

namespace h1seq
open Req.C07.H1Budget Req.C07.H1Conn Req.Props.C07.h1budget

/-- what holds in every state of a connection: the head-phase invariant while a head is read; the
read buffer never grows beyond its size -/
structure CGood (s : St) : Prop where
  buf : s.buffered ≤ s.B
  head : s.phase = .head → Good s

theorem cgood_init (L B b0 : Nat) : CGood (init L B b0) :=
  ⟨(good_init L B b0).buf, fun _ => good_init L B b0⟩

theorem good_rearm (s : St) (hb : s.buffered ≤ s.B) : Good (rearm s) := by
  refine ⟨?_, ?_, ?_, ?_, ?_, ?_⟩ <;> simp [rearm, max1xx] <;> omega

theorem step_phase_head (s : St) (e : Ev) (h : (step s e).phase = .head) : s.phase = .head := by
  cases e <;> simp only [step] at h <;> (repeat' split at h) <;> simp_all

theorem step_buf (s : St) (e : Ev) (hb : s.buffered ≤ s.B) : (step s e).buffered ≤ (step s e).B := by
  cases e with
  | net want avail =>
    simp only [step]
    split
    · exact hb
    · split
      · exact hb
      · next n hn =>
        obtain ⟨a, _, _, _, _⟩ := readN_le s want avail n hn
        simp only; omega
  | parse k =>
    simp only [step]
    split
    · exact hb
    · simp only; omega
  | endHead interim =>
    simp only [step]
    (repeat' split) <;> first | exact hb | (simp only; omega)

theorem cstep_good (s : St) (e : CEv) (h : CGood s) : CGood (cstep s e) := by
  obtain ⟨hb, hh⟩ := h
  cases e with
  | head e =>
    refine ⟨step_buf s e hb, fun hp => ?_⟩
    exact step_good s e (hh (step_phase_head s e hp))
  | bodyNet want avail =>
    simp only [cstep]
    split
    · exact ⟨hb, hh⟩
    · next hp =>
      have hp' : s.phase = .accepted := by simpa using hp
      refine ⟨by simp only; omega, fun h2 => ?_⟩
      simp only [hp'] at h2; cases h2
  | bodyTake k =>
    simp only [cstep]
    split
    · exact ⟨hb, hh⟩
    · next hp =>
      have hp' : s.phase = .accepted := by simpa using hp
      refine ⟨by simp only; omega, fun h2 => ?_⟩
      simp only [hp'] at h2; cases h2
  | next v =>
    simp only [cstep]
    split
    · exact ⟨hb, hh⟩
    · exact ⟨hb, fun _ => good_rearm s hb⟩

theorem crun_good (s : St) (evs : List CEv) (h : CGood s) : CGood (crun s evs) := by
  induction evs generalizing s with
  | nil => exact h
  | cons e rest ih => exact ih (cstep s e) (cstep_good s e h)

theorem cstep_params (s : St) (e : CEv) : (cstep s e).L = s.L ∧ (cstep s e).B = s.B := by
  cases e with
  | head e => exact step_params s e
  | bodyNet _ _ => simp only [cstep]; split <;> simp
  | bodyTake _ => simp only [cstep]; split <;> simp
  | next _ => simp only [cstep]; split <;> simp [rearm]

theorem crun_params (s : St) (evs : List CEv) : (crun s evs).L = s.L ∧ (crun s evs).B = s.B := by
  induction evs generalizing s with
  | nil => exact ⟨rfl, rfl⟩
  | cons e rest ih =>
    obtain ⟨a, b⟩ := ih (cstep s e)
    obtain ⟨c, d⟩ := cstep_params s e
    exact ⟨a.trans c, b.trans d⟩

/-- **h1_budget_every_response**: on one kept-alive connection, after ANY sequence of events — any
number of responses, with or without a body, each preceded by interim heads, the loop going round by
`continue` or after the body — whenever a response head is being read the bytes held for it are at
most `MaxResponseHeaderBytes` + one read buffer, at most `MaxResponseHeaderBytes` bytes were taken
from the socket since the limit was last set, and at most 6 × that for this response. The read
buffer never exceeds its size in any phase. -/
theorem h1_budget_every_response (L B b0 : Nat) (evs : List CEv) :
    (crun (init L B b0) evs).buffered ≤ B ∧
    ((crun (init L B b0) evs).phase = .head →
      held (crun (init L B b0) evs) ≤ L + B ∧ (crun (init L B b0) evs).pulled ≤ L ∧
      (crun (init L B b0) evs).pulled + (crun (init L B b0) evs).limit = L ∧
      (crun (init L B b0) evs).total ≤ 6 * L) := by
  have g := crun_good _ evs (cgood_init L B b0)
  have hL : (crun (init L B b0) evs).L = L := (crun_params (init L B b0) evs).1
  have hB : (crun (init L B b0) evs).B = B := (crun_params (init L B b0) evs).2
  generalize crun (init L B b0) evs = s at *
  refine ⟨by have := g.buf; omega, fun hp => ?_⟩
  have gg := g.head hp
  have h3 := gg.lim
  have h4 := gg.src
  have h2 := gg.carry
  have h5 := gg.n1xx
  have h6 := gg.tot
  simp only [max1xx] at h5
  have : s.num1xx * s.L ≤ 5 * L := by rw [hL]; exact Nat.mul_le_mul_right L h5
  unfold held
  refine ⟨by omega, by omega, by omega, by omega⟩

/-- **h1_rearm_every_round**: whichever way `readLoop` goes round — the `continue` of the body-less
path or the end of the loop body — the next head starts with the whole limit and nothing counted. -/
theorem h1_rearm_every_round (s : St) (viaContinue : Bool) (hp : s.phase = .accepted) :
    let s' := cstep s (.next viaContinue)
    s'.phase = .head ∧ s'.limit = s.L ∧ s'.pulled = 0 ∧ s'.headSize = 0 ∧ s'.num1xx = 0 := by
  simp [cstep, hp, rearm]

/-! #### the canonical schedule: the size rule of the response level is what the event level does -/

structure FInv (L B S : Nat) (s : St) : Prop where
  hL : s.L = L
  hB : s.B = B
  ph : s.phase = .head
  hb : s.headSize + s.buffered = s.pulled
  lim : s.pulled + s.limit = L
  ps : s.pulled ≤ S
  bB : s.buffered ≤ B

theorem feed_spec (L B S : Nat) (hB1 : 1 ≤ B) : ∀ (fuel : Nat) (s : St), FInv L B S s →
    2 * (S - s.headSize) + (if s.buffered = 0 then 1 else 0) < fuel →
    ((feed fuel s S).phase = .accepted ↔ S ≤ L) ∧
    (L < S → (feed fuel s S).phase = .exhausted ∧ (feed fuel s S).pulled = L) := by
  intro fuel
  induction fuel with
  | zero => intro s _ h; omega
  | succ n ih =>
    intro s inv hf
    obtain ⟨hL, hB, ph, hb, lim, ps, bB⟩ := inv
    unfold feed
    simp only [ph, bne_self_eq_false, Bool.false_eq_true, if_false]
    split
    · next hdone =>
      -- the whole head is parsed: the blank line
      have hacc : (step s (.endHead false)).phase = .accepted := by simp [step, ph]
      refine ⟨⟨fun _ => by omega, fun _ => hacc⟩, fun hgt => by omega⟩
    · next hmore =>
      split
      · next hb0 =>
        -- the buffer is empty: one socket read
        by_cases hl0 : s.limit = 0
        · have hex : (step s (.net s.B (S - s.headSize))) = { s with phase := .exhausted } := by
            simp [step, ph, readN, hl0]
          have hfe : ∀ m, feed m { s with phase := .exhausted } S = { s with phase := .exhausted } := by
            intro m; cases m <;> simp [feed]
          rw [hex, hfe]
          refine ⟨⟨fun h => by simp at h, fun h => by omega⟩, fun _ => ⟨rfl, by simp only; omega⟩⟩
        · have hst : step s (.net s.B (S - s.headSize)) =
              { s with limit := s.limit - min (min s.B (s.B - s.buffered)) (min s.limit (S - s.headSize)),
                       pulled := s.pulled + min (min s.B (s.B - s.buffered)) (min s.limit (S - s.headSize)),
                       total := s.total + min (min s.B (s.B - s.buffered)) (min s.limit (S - s.headSize)),
                       buffered := s.buffered + min (min s.B (s.B - s.buffered)) (min s.limit (S - s.headSize)) } := by
            simp [step, ph, readN, hl0]
          rw [hst]
          apply ih
          · refine ⟨hL, hB, ph, ?_, ?_, ?_, ?_⟩ <;> simp only <;> omega
          · simp only
            have : s.buffered + min (min s.B (s.B - s.buffered)) (min s.limit (S - s.headSize)) ≠ 0 := by omega
            simp only [this, if_false]
            simp only [hb0, if_true] at hf
            omega
      · next hbn =>
        -- the parser takes what is buffered
        have hst : step s (.parse (S - s.headSize)) =
            { s with buffered := s.buffered - min (S - s.headSize) s.buffered,
                     headSize := s.headSize + min (S - s.headSize) s.buffered } := by
          simp [step, ph]
        rw [hst]
        apply ih
        · refine ⟨hL, hB, ph, ?_, ?_, ?_, ?_⟩ <;> simp only <;> omega
        · simp only
          simp only [hbn, if_false] at hf
          split <;> omega

/-- **h1_size_rule_refines**: the size rule of the response level IS what the event level does on
the canonical schedule — a head of `S` bytes delivered to a freshly armed connection with an empty
buffer (any buffer size ≥ 1, however many socket reads it takes) is accepted if and only if
`S ≤ MaxResponseHeaderBytes`; a longer one ends in the "headers exceeded" error after exactly
`MaxResponseHeaderBytes` bytes were taken from the socket (the number lane `h1connseq` observes). This
holds on a fresh connection and after every `next` of a kept-alive one whose buffer is empty. -/
theorem h1_size_rule_refines (L B S : Nat) (hB : 1 ≤ B) (s : St) (hs : s.phase = .accepted)
    (hL : s.L = L) (hB' : s.B = B) (he : s.buffered = 0) (v : Bool) :
    let a := cstep s (.next v)
    ((feed (2 * S + 2) a S).phase = .accepted ↔ S ≤ L) ∧
    (L < S → (feed (2 * S + 2) a S).phase = .exhausted ∧ (feed (2 * S + 2) a S).pulled = L) := by
  have ha : cstep s (.next v) = rearm s := by simp [cstep, hs]
  simp only [ha]
  apply feed_spec L B S hB
  · refine ⟨?_, ?_, ?_, ?_, ?_, ?_, ?_⟩ <;> simp [rearm, hL, hB', he]
  · simp [rearm, he]

theorem h1_size_rule_fresh (L B S : Nat) (hB : 1 ≤ B) :
    ((feed (2 * S + 2) (init L B 0) S).phase = .accepted ↔ S ≤ L) ∧
    (L < S → (feed (2 * S + 2) (init L B 0) S).phase = .exhausted ∧ (feed (2 * S + 2) (init L B 0) S).pulled = L) := by
  apply feed_spec L B S hB
  · refine ⟨?_, ?_, ?_, ?_, ?_, ?_, ?_⟩ <;> simp [init]
  · simp [init]

example : (feed 22 (init 10 4 0) 10).phase = .accepted := by decide
example : (feed 24 (init 10 4 0) 11).phase = .exhausted ∧ (feed 24 (init 10 4 0) 11).pulled = 10 := by decide

theorem verdictGo_ok (L final : Nat) : ∀ (n : Nat) (hs : List Nat), n ≤ max1xx →
    verdictGo L final n hs = .ok → final ≤ L ∧ (∀ h ∈ hs, h ≤ L) ∧ n + hs.length ≤ max1xx
  | n, [], hn0, h => by
    simp only [verdictGo] at h
    split at h
    · cases h
    · exact ⟨by omega, by simp, by simpa using hn0⟩
  | n, x :: rest, _, h => by
    simp only [verdictGo] at h
    split at h
    · cases h
    · split at h
      · cases h
      · next hx hn =>
        obtain ⟨a, b, c⟩ := verdictGo_ok L final (n + 1) rest (by omega) h
        refine ⟨a, ?_, ?_⟩
        · intro y hy
          rcases List.mem_cons.mp hy with rfl | hy
          · omega
          · exact b y hy
        · simp only [List.length_cons]; omega

theorem connRun_get (L : Nat) : ∀ (rs : List Resp) (c i : Nat),
    ((connRun L c rs)[i]?).map (·.1) = (rs[i]?).map (verdict L)
  | [], c, i => by simp [connRun]
  | r :: rest, c, 0 => by simp [connRun]
  | r :: rest, c, i + 1 => by
    simp only [connRun, List.getElem?_cons_succ]
    exact connRun_get L rest _ i

/-- **h1_seq_accept_size**: in ANY sequence of responses on kept-alive connections, whatever
preceded it (body-less responses, responses with bodies, refused ones), a response is accepted only
if its final head and every interim head before it fit `MaxResponseHeaderBytes` and there are at
most five interim heads. -/
theorem h1_seq_accept_size (L c i k : Nat) (rs : List Resp) (r : Resp)
    (hr : rs[i]? = some r) (h : (connRun L c rs)[i]? = some (.ok, k)) :
    r.final ≤ L ∧ (∀ x ∈ r.interim, x ≤ L) ∧ r.interim.length ≤ 5 := by
  have := connRun_get L rs c i
  rw [h, hr] at this
  simp only [Option.map_some, Option.some.injEq] at this
  obtain ⟨a, b, c⟩ := verdictGo_ok L r.final 0 r.interim (by simp [max1xx]) this.symm
  exact ⟨a, b, by simpa [max1xx] using c⟩

/-- **h1_seq_refused**: … and a response whose final head is longer than the limit is refused at
every position of every sequence. -/
theorem h1_seq_refused (L c i : Nat) (rs : List Resp) (r : Resp) (o : Out × Nat)
    (hr : rs[i]? = some r) (hbig : r.final > L) (h : (connRun L c rs)[i]? = some o) : o.1 ≠ .ok := by
  intro ho
  have := connRun_get L rs c i
  rw [h, hr] at this
  simp only [Option.map_some, Option.some.injEq] at this
  rw [ho] at this
  have := (verdictGo_ok L r.final 0 r.interim (by simp [max1xx]) this.symm).1
  omega

/-- non-vacuity: limit 64; a 204 (40-byte head) then a 200 with a 4000-byte head on the same
connection: the second is refused after exactly 64 bytes, the third request uses connection 1 -/
example : (connRun 64 0 [⟨[], 40, true, false⟩, ⟨[], 4000, false, false⟩, ⟨[30, 30], 50, false, false⟩]).map renderOut
    = ["ok@0", "big@0/64", "ok@1"] := by decide
/-- … event level: after a body-less response went round by `continue`, a flood is cut at the limit -/
example : (crun (init 10 4 0) [.head (.net 4 3), .head (.parse 3), .head (.endHead false), .next true,
    .head (.net 4 100), .head (.parse 4), .head (.net 4 100), .head (.parse 4), .head (.net 4 100),
    .head (.parse 4), .head (.net 4 100)]).phase = .exhausted := by decide

end h1seq

namespace h3seq
open Req.C07.H3Budget Req.C07.H3Sections Req.H3.Frame

theorem body_after_trailer (max : Nat) : ∀ (fuel : Nat) (allocs : List Nat) (input : Bytes),
    (body max fuel true allocs input).allocs = allocs := by
  intro fuel
  induction fuel with
  | zero => intro allocs input; simp [body]
  | succ n ih =>
    intro allocs input
    unfold body
    split <;> simp

theorem body_allocs (max : Nat) : ∀ (fuel : Nat) (allocs : List Nat) (input : Bytes),
    (∀ a ∈ allocs, a ≤ max) →
    (∀ a ∈ (body max fuel false allocs input).allocs, a ≤ max) ∧
    (body max fuel false allocs input).allocs.length ≤ allocs.length + 1 := by
  intro fuel
  induction fuel with
  | zero => intro allocs input h; simp only [body]; exact ⟨h, by omega⟩
  | succ n ih =>
    intro allocs input h
    have hle : allocs.length ≤ allocs.length + 1 := by omega
    unfold body
    split
    · exact ⟨h, hle⟩
    · exact ⟨h, hle⟩
    · simp only [Bool.false_eq_true, if_false]
      split
      · exact ⟨h, hle⟩
      · exact ih allocs _ h
    · next l rest hp =>
      simp only [Bool.false_eq_true, if_false]
      split
      · exact ⟨h, hle⟩
      · next hl =>
        have h' : ∀ a ∈ allocs ++ [l], a ≤ max := by
          intro a ha
          rcases List.mem_append.mp ha with ha | ha
          · exact h a ha
          · simp at ha; omega
        split
        · exact ⟨h', by simp⟩
        · rw [body_after_trailer]
          exact ⟨h', by simp⟩
    · exact ⟨h, hle⟩

theorem headFail_allocs (max : Nat) (allocs : List Nat) (r : Req.C07.H3Budget.Res)
    (h : ∀ a ∈ allocs, a ≤ max) (hr : r.alloc ≤ max) :
    (∀ a ∈ (headFail allocs r).allocs, a ≤ max) ∧ (headFail allocs r).allocs.length ≤ allocs.length + 1 := by
  unfold headFail
  split
  · exact ⟨h, by simp⟩
  · refine ⟨?_, by simp⟩
    intro a ha
    rcases List.mem_append.mp ha with ha | ha
    · exact h a ha
    · simp at ha; omega

theorem heads_allocs (max : Nat) : ∀ (statuses : List Nat) (n : Nat) (allocs : List Nat) (input : Bytes),
    n ≤ max1xx → (∀ a ∈ allocs, a ≤ max) →
    (∀ a ∈ (heads max statuses n allocs input).allocs, a ≤ max) ∧
    (heads max statuses n allocs input).allocs.length ≤ allocs.length + (max1xx - n) + 2
  | [], n, allocs, input, _, h => by
    simp only [heads]
    obtain ⟨a, b⟩ := headFail_allocs max allocs (readHead max input) h (h3budget.h3_alloc_le max input)
    exact ⟨a, by omega⟩
  | st :: sts, n, allocs, input, hn, h => by
    have hr := h3budget.h3_alloc_le max input
    have h' : ∀ a ∈ allocs ++ [(readHead max input).alloc], a ≤ max := by
      intro a ha
      rcases List.mem_append.mp ha with ha | ha
      · exact h a ha
      · simp at ha; omega
    simp only [heads]
    split
    · obtain ⟨a, b⟩ := headFail_allocs max allocs (readHead max input) h hr
      exact ⟨a, by omega⟩
    · split
      · split
        · exact ⟨h', by simp; omega⟩
        · next hlt =>
          obtain ⟨a, b⟩ := heads_allocs max sts (n + 1) (allocs ++ [(readHead max input).alloc]) (readHead max input).rest (by omega) h'
          refine ⟨a, ?_⟩
          simp only [List.length_append, List.length_cons, List.length_nil] at b
          omega
      · obtain ⟨a, b⟩ := body_allocs max ((readHead max input).rest.length + 1) _ (readHead max input).rest h'
        refine ⟨a, ?_⟩
        simp only [List.length_append, List.length_cons, List.length_nil] at b
        simp at b
        omega

theorem sum_le_of_all_le (max : Nat) : ∀ l : List Nat, (∀ a ∈ l, a ≤ max) → l.sum ≤ l.length * max
  | [], _ => by simp
  | x :: rest, h => by
    have h1 := h x (by simp)
    have h2 := sum_le_of_all_le max rest (fun a ha => h a (by simp [ha]))
    simp only [List.sum_cons, List.length_cons, Nat.add_mul]
    omega

/-- **h3_budget_sections**: whatever arrives on the request stream — any number of informational
sections, a final section, DATA frames, a trailer section, skipped and hostile frames with lying or
62-bit declared lengths — EVERY header-block buffer the client allocates for the response (each 1xx
section, the final section, the trailers) is at most `MaxResponseHeaderBytes`, there are at most
seven of them (five interim + one more head + trailers), so at most 7 × the limit over the whole
response; each buffer is garbage once its section is decoded. -/
theorem h3_budget_sections (max : Nat) (statuses : List Nat) (input : Bytes) :
    (∀ a ∈ (readResponse max statuses input).allocs, a ≤ max) ∧
    (readResponse max statuses input).allocs.length ≤ 7 ∧
    (readResponse max statuses input).allocs.sum ≤ 7 * max := by
  obtain ⟨a, b⟩ := heads_allocs max statuses 0 [] input (by simp [max1xx]) (by simp)
  have b' : (readResponse max statuses input).allocs.length ≤ 7 := by
    simpa [readResponse, max1xx] using b
  refine ⟨a, b', ?_⟩
  have := sum_le_of_all_le max _ a
  have h2 : (readResponse max statuses input).allocs.length * max ≤ 7 * max := Nat.mul_le_mul_right max b'
  exact Nat.le_trans this h2

/-- **h3_trailer_over_limit_refused**: a trailer HEADERS frame that announces more than the limit is
refused before anything is allocated or read of it — whatever was read before it. -/
theorem h3_trailer_over_limit_refused (max fuel l : Nat) (allocs : List Nat) (input rest : Bytes)
    (hp : parseNext (input.length + 1) input = (.ok (.headers l), rest)) (hl : l > max) :
    body max (fuel + 1) false allocs input = ⟨.trailerTooLarge, allocs, rest⟩ := by
  simp [body, hp, hl]

/-! #### the unsigned corner: a joint budget `limit - used` on `UInt64` -/

/-- what is left of a byte budget, computed the safe way -/
def remaining (limit used : UInt64) : UInt64 := if used ≤ limit then limit - used else 0

/-- **u64_guarded_budget_sound**: with the comparison in front of the subtraction, a length that
passes `l ≤ remaining limit used` keeps the total within the limit — for all 64-bit values. -/
theorem u64_guarded_budget_sound (limit used l : UInt64) (h : l ≤ remaining limit used) :
    l.toNat + used.toNat ≤ limit.toNat ∨ l = 0 := by
  unfold remaining at h
  split at h
  · next hu =>
    left
    have h1 : l.toNat ≤ (limit - used).toNat := UInt64.le_iff_toNat_le.mp h
    have h2 : used.toNat ≤ limit.toNat := UInt64.le_iff_toNat_le.mp hu
    rw [UInt64.toNat_sub_of_le _ _ hu] at h1
    omega
  · right
    have h1 : l.toNat ≤ (0 : UInt64).toNat := UInt64.le_iff_toNat_le.mp h
    exact UInt64.toNat_inj.mp (by simpa using h1)

/-- **u64_unguarded_budget_wraps**: without it, once the sections read so far exceed the limit the
"rest of the budget" is astronomically large: `limit - used = 2^64 - (used - limit)`, so every
declared length up to that passes the check. -/
theorem u64_unguarded_budget_wraps (limit used : UInt64) (h : limit < used) :
    (limit - used).toNat = 2 ^ 64 - (used.toNat - limit.toNat) := by
  have h1 : limit.toNat < used.toNat := UInt64.lt_iff_toNat_lt.mp h
  have h2 := used.toNat_lt
  rw [UInt64.toNat_sub]
  omega

/-- non-vacuity: limit 2048, 3000 bytes of header sections read: a 2^50-byte trailer passes the
unguarded check and is refused by the guarded one -/
example : ((1125899906842624 : UInt64) ≤ (2048 : UInt64) - 3000) = true := by decide
example : ((1125899906842624 : UInt64) ≤ remaining 2048 3000) = false := by decide
/-- a 103 section, a 200 section, DATA(2), a trailer section: three buffers of 1 byte; a trailer
announcing 2^40 bytes under a 1000-byte limit: refused, nothing allocated for it -/
example : readResponse 1000 [103, 200] [0x01, 0x01, 0xaa, 0x01, 0x01, 0xbb, 0x00, 0x02, 0x68, 0x69, 0x01, 0x01, 0xcc] =
    ⟨.ok, [1, 1, 1], []⟩ := by decide
example : (readResponse 1000 [200] [0x01, 0x01, 0xaa, 0x01, 0xc0, 0, 0, 1, 0, 0, 0, 0, 0xcc]).cls = .trailerTooLarge ∧
    (readResponse 1000 [200] [0x01, 0x01, 0xaa, 0x01, 0xc0, 0, 0, 1, 0, 0, 0, 0, 0xcc]).allocs = [1] := by decide
example : (readResponse 1000 [103, 103, 103, 103, 103, 103, 200]
    [1, 0, 1, 0, 1, 0, 1, 0, 1, 0, 1, 0, 1, 0]).cls = .tooMany1xx := by decide

end h3seq

namespace digest
open Req.Digest Req.C07.DigestAlg

theorem selectQop_ok_accepts (f : Bytes → Option Alg) (a o q : Bytes)
    (h : Req.DigestAuth.selectQop f a o = .ok q) : (f a).isSome := by
  unfold Req.DigestAuth.selectQop at h
  split at h
  · cases h
  · next x hx => simp [hx]

/-- **digest_never_nil_hash**: for EVERY `WWW-Authenticate` text (all byte strings, any list of
challenges, any spelling of the `algorithm` token) — if every token the test of `selectQop` accepts
has an entry in the table `credentials.h` reads, the nil constructor is never called. -/
theorem digest_never_nil_hash (T : Tables) (hT : ∀ a, T.accepts a = true → (T.hashOf a).isSome)
    (input : Bytes) : answer T input ≠ .panic := by
  unfold answer
  split
  · simp
  · split
    · simp
    · next c _ =>
      unfold authorizeUse
      split
      · simp
      · next qop hq =>
        have h1 := selectQop_ok_accepts _ _ _ _ hq
        have h2 : T.accepts c.algorithm = true := by
          unfold asAlgOf at h1
          split at h1
          · assumption
          · simp at h1
        have h3 := hT _ h2
        split
        · next hn => simp [hn] at h3
        · simp

/-- **digest_real_never_nil_hash**: the code as it is — one exact-match table behind both look-ups —
never calls a nil constructor, whatever the server sends. -/
theorem digest_real_never_nil_hash (input : Bytes) : answer real input ≠ .panic :=
  digest_never_nil_hash real (fun _ h => h) input

theorem lookup_mem {β} (k : Bytes) : ∀ (l : List (Bytes × β)) (v : β), lookup k l = some v → k ∈ l.map Prod.fst
  | [], v, h => by simp [lookup] at h
  | (k', v') :: rest, v, h => by
    simp only [lookup] at h
    split at h
    · next hk => simp [eq_of_beq hk]
    · simp [lookup_mem k rest v h]

/-- **digest_alg_exact_spelling**: the only spellings of the algorithm that are accepted are the
seven keys of `hashFuncs`, byte for byte — every case variant (`md5`, `Sha-256`, `MD5-SESS`) is an
unsupported algorithm, not a crash. -/
theorem digest_alg_exact_spelling (a : Bytes) (h : (algOf a).isSome) : a ∈ hashTable.map Prod.fst := by
  cases hv : algOf a with
  | none => simp [hv] at h
  | some v => exact lookup_mem a hashTable v hv

/-- non-vacuity / necessity of the hypothesis: a test that folds case in front of the exact-match
table lets `Digest realm="r", nonce="n", algorithm=md5` reach the nil constructor; the real pair
answers "algorithm is not supported"; `algorithm=MD5` is answered with an MD5 response -/
example : answer foldAccept [68, 105, 103, 101, 115, 116, 32, 114, 101, 97, 108, 109, 61, 34, 114, 34, 44, 32,
    110, 111, 110, 99, 101, 61, 34, 110, 34, 44, 32, 97, 108, 103, 111, 114, 105, 116, 104, 109, 61, 109, 100, 53] = .panic := by
  decide
example : answer real [68, 105, 103, 101, 115, 116, 32, 114, 101, 97, 108, 109, 61, 34, 114, 34, 44, 32,
    110, 111, 110, 99, 101, 61, 34, 110, 34, 44, 32, 97, 108, 103, 111, 114, 105, 116, 104, 109, 61, 109, 100, 53] =
    .err .algNotSupported := by
  decide
example : answer real [68, 105, 103, 101, 115, 116, 32, 114, 101, 97, 108, 109, 61, 34, 114, 34, 44, 32,
    110, 111, 110, 99, 101, 61, 34, 110, 34, 44, 32, 97, 108, 103, 111, 114, 105, 116, 104, 109, 61, 77, 68, 53] =
    .ok .md5 [] := by
  decide

end digest

namespace h2set
open Req.C07.H2Settings Req.H2.Frame Req.Lemmas.C05.Frag

def FrameSizeOk (p : Peer) : Prop := minFrameSize ≤ p.maxFrameSize ∧ p.maxFrameSize ≤ maxFrameSizeLimit

theorem applySetting_inv (p p' : Peer) (id val : Nat) (h : FrameSizeOk p)
    (ha : applySetting p id val = .ok p') : FrameSizeOk p' := by
  unfold applySetting at ha
  split at ha
  · next hv =>
    simp only [Except.ok.injEq] at ha
    subst ha
    split
    · next h5 =>
      simp only [settingVerdict, h5, if_true] at hv
      split at hv
      · cases hv
      · next hr => unfold FrameSizeOk; simp only; omega
    · (repeat' split) <;> exact h
  · cases ha

theorem applyFrame_inv : ∀ (f : List (Nat × Nat)) (p p' : Peer), FrameSizeOk p →
    applyFrame p f = .ok p' → FrameSizeOk p'
  | [], p, p', h, ha => by simp only [applyFrame, Except.ok.injEq] at ha; subst ha; exact h
  | (id, val) :: rest, p, p', h, ha => by
    simp only [applyFrame] at ha
    split at ha
    · next q hq => exact applyFrame_inv rest q p' (applySetting_inv p q id val h hq) ha
    · cases ha

/-- **h2_settings_frame_size_inv**: after ANY sequence of SETTINGS frames that the client accepted
— any identifiers, any 32-bit values, duplicates, in any order — the frame size its writers use is
within `[2^14, 2^24-1]`. -/
theorem h2_settings_frame_size_inv : ∀ (fs : List (List (Nat × Nat))) (p p' : Peer), FrameSizeOk p →
    applyFrames p fs = .ok p' → FrameSizeOk p'
  | [], p, p', h, ha => by simp only [applyFrames, Except.ok.injEq] at ha; subst ha; exact h
  | f :: rest, p, p', h, ha => by
    simp only [applyFrames] at ha
    split at ha
    · next q hq => exact h2_settings_frame_size_inv rest q p' (applyFrame_inv f p q h hq) ha
    · cases ha

theorem frameSizeOk_default : FrameSizeOk {} := by
  unfold FrameSizeOk minFrameSize maxFrameSizeLimit; simp

theorem chunks_length_le (max : Nat) (hm : 1 ≤ max) :
    ∀ (fuel : Nat) (b : Bytes), (chunks max fuel b).length ≤ b.length := by
  intro fuel
  induction fuel with
  | zero => intro b; simp [chunks]
  | succ n ih =>
    intro b
    unfold chunks
    split
    · simp
    next he =>
      have : b.length ≠ 0 := by intro h0; exact he (by simp [List.length_eq_zero_iff.mp h0])
      have := ih (b.drop max)
      simp only [List.length_cons, List.length_drop] at *
      omega

/-- **h2_header_writer_terminates**: with the frame size any accepted SETTINGS history leaves, the
CONTINUATION loop of `writeHeaders` cuts every header block into non-empty chunks of at most that
size which together are the block — at most one frame per block byte, no empty frame, no slice
panic (with or without a header priority). -/
theorem h2_header_writer_terminates (fs : List (List (Nat × Nat))) (p' : Peer)
    (ha : applyFrames {} fs = .ok p') (prio : Priority) (block : Bytes) :
    (∃ frs, fragments prio p'.maxFrameSize block = .ok frs) ∧
    (chunks p'.maxFrameSize block.length block).flatten = block ∧
    (chunks p'.maxFrameSize block.length block).length ≤ block.length ∧
    ∀ c ∈ chunks p'.maxFrameSize block.length block, c.length ≤ p'.maxFrameSize ∧ c ≠ [] := by
  have h := h2_settings_frame_size_inv fs {} p' frameSizeOk_default ha
  unfold FrameSizeOk minFrameSize at h
  have h1 : 1 ≤ p'.maxFrameSize := by omega
  refine ⟨?_, chunks_flatten _ h1 _ _ (Nat.le_refl _), chunks_length_le _ h1 _ _, chunks_bound _ h1 _ _⟩
  unfold fragments
  split
  · exact ⟨_, rfl⟩
  · split
    · next hc => simp at hc; omega
    · exact ⟨_, rfl⟩

/-- **h2_body_writer_progress**: the request-body writer — `awaitFlowControl` takes
`min(available, len(remain), cc.maxFrameSize)` bytes per DATA frame (model `H2.Conn.awaitTake` of
C06) — makes progress on every round after any accepted SETTINGS history: with window and data
available it takes at least one byte; with a frame size of 0 it would take none, for ever. -/
theorem h2_body_writer_progress (fs : List (List (Nat × Nat))) (p' : Peer)
    (ha : applyFrames {} fs = .ok p') (a maxBytes : Int) (h1 : 1 ≤ a) (h2 : 1 ≤ maxBytes) :
    1 ≤ Req.H2.Conn.awaitTake a maxBytes p'.maxFrameSize ∧
    Req.H2.Conn.awaitTake a maxBytes 0 = 0 := by
  have h := h2_settings_frame_size_inv fs {} p' frameSizeOk_default ha
  unfold FrameSizeOk minFrameSize at h
  unfold Req.H2.Conn.awaitTake
  constructor
  · simp only; (repeat' split) <;> omega
  · simp only; (repeat' split) <;> omega

/-- **h2_zero_frame_size_spins**: what the range check prevents — with a frame size of 0 every
iteration of the loop writes an empty frame and consumes nothing: whatever number of iterations is
allowed, all of them are used and the block is still there. -/
theorem h2_zero_frame_size_spins (b : Bytes) (hb : b ≠ []) :
    ∀ fuel : Nat, chunks 0 fuel b = List.replicate fuel [] := by
  intro fuel
  induction fuel with
  | zero => simp [chunks]
  | succ n ih =>
    unfold chunks
    have : b.isEmpty = false := by cases b <;> simp_all
    simp [this, ih, List.replicate_succ]

/-- **h2_setting_verdict_spec**: every (identifier, value) pair a server can send is classified:
refused with PROTOCOL_ERROR exactly for MAX_FRAME_SIZE outside the legal range, with
FLOW_CONTROL_ERROR exactly for INITIAL_WINDOW_SIZE above 2^31-1, accepted otherwise. -/
theorem h2_setting_verdict_spec (id val : Nat) :
    (settingVerdict id val = .protocolError ↔ id = 5 ∧ (val < 16384 ∨ val > 16777215)) ∧
    (settingVerdict id val = .flowControlError ↔ id = 4 ∧ val > 2147483647) := by
  unfold settingVerdict minFrameSize maxFrameSizeLimit
  constructor <;> (repeat' split) <;> simp_all <;> omega

/-- non-vacuity: the default, a legal change, the hostile values -/
example : applyFrames {} [[(3, 100), (5, 65536)], [(4, 0), (1, 0), (2, 7)]] =
    .ok { maxFrameSize := 65536, initialWindow := 0, maxConcurrent := 100 } := by rfl
example : applyFrames {} [[(5, 0)]] = .error .protocolError := by rfl
example : applyFrames {} [[(5, 16383)]] = .error .protocolError := by rfl
example : applyFrames {} [[(5, 16777216)]] = .error .protocolError := by rfl
example : applyFrames {} [[(4, 2147483648)]] = .error .flowControlError := by rfl
example : chunks 0 3 [1, 2] = [[], [], []] := by decide

end h2set
end Req.Props.C07
