import Req.Client.ReqTime
import Req.Props.C19Values
import Req.Props.C19Preserve
/-!
# C19 (round 6) — request-time code leaves client-level slices and maps alone

Part 1 (cookie slices, `parseRequestCookie`):
* `stepRH_refines`, `request_time_appends_copy` — while the capacity ranges of all cookie slices
  (every client's, every request's) are apart, EVERY sequence of `SetCommonCookies`,
  `Request.SetCookies`, `ClearCookies` and sends (first attempts and retries, of any requests of any
  clients, in any interleaving), under EVERY growth policy, acts on the heap exactly as on values, and
  the separation is kept.
* `send_frame`, `send_merges` — on values a send changes only the sent request's slice: it becomes
  request-level cookies ++ client-level cookies on the first attempt and stays what it is on a retry.
* `heap_send_leaves_others` — hence ON THE HEAP a send changes neither the client's cookies nor the
  cookies of any other request (nor of any other client).
* `front_append_counterexample` (`decide`) — `append(c.Cookies, r.Cookies...)` with spare capacity in
  the client's slice: the judge rejects the layout after the first send, and the second request's
  send overwrites the cookie the first request still holds.

Part 2 (CONNECT header, `dialConn`):
* `dial_reads_only`, `boxes_change_only_by_setter` — a dial changes no map object and no client; over
  any program the map objects change only by `SetProxyConnectHeader`.
* `connect_header_credentials` — the `Proxy-Authorization` of a CONNECT request is the DIALING
  client's own credentials if it has some, else what its configured header says; every other key is
  the configured header's.
* `dial_sends_own_header` — what a dial logs.
* `in_place_counterexample` (`decide`) — writing the credentials into the map object: the clone
  (configured without credentials) sends the original's.
-/
namespace Req.Props.C19ReqTime
open Req.Scope Req.ValuesHeap Req.ReqTime Req.Props.C19Values

/-! ## Part 1 -/

theorem stepRH_refines (grow : Nat → Nat → Nat) (st : Store) (m : MapS) (op : ROp) (hs : Sep st m) :
    Sep (stepRH grow (st, m) op).1 (stepRH grow (st, m) op).2 ∧
    absMap (stepRH grow (st, m) op).1 (stepRH grow (st, m) op).2 = stepRA (absMap st m) op :=
  values_heap_refines grow (op.toV (absMap st m)) st m hs

/-- **Request-time appends copy** — every program of cookie setters and sends, every growth policy. -/
theorem request_time_appends_copy (grow : Nat → Nat → Nat) : ∀ (ops : List ROp) (st : Store) (m : MapS), Sep st m →
    Sep (runRH grow (st, m) ops).1 (runRH grow (st, m) ops).2 ∧
    absMap (runRH grow (st, m) ops).1 (runRH grow (st, m) ops).2 = runRA (absMap st m) ops := by
  intro ops
  induction ops with
  | nil => intro st m hs; exact ⟨hs, rfl⟩
  | cons op ops ih =>
    intro st m hs
    obtain ⟨h1, h2⟩ := stepRH_refines grow st m op hs
    have := ih (stepRH grow (st, m) op).1 (stepRH grow (st, m) op).2 h1
    simp only [runRH, runRA, List.foldl_cons] at this ⊢
    rw [← h2]
    exact this

/-- on values: a send changes only the slice of the request it sends -/
theorem send_frame (m : AMap) (r c a k : Nat) (hk : k ≠ r) : (stepRA m (.send r c a)).get k = m.get k := by
  unfold stepRA ROp.toV
  by_cases h : merges m c a = true
  · simp only [h, if_true, runA, List.foldl_cons, List.foldl_nil, stepA, AMap.addMany]
    exact get_set_other m r k _ hk
  · simp [h, runA]

/-- on values: first attempt = request-level cookies, then the client's; a retry keeps the slice -/
theorem send_merges (m : AMap) (r c a : Nat) :
    (stepRA m (.send r c a)).get r = if merges m c a then m.get r ++ m.get c else m.get r := by
  unfold stepRA ROp.toV
  by_cases h : merges m c a = true
  · simp only [h, if_true, runA, List.foldl_cons, List.foldl_nil, stepA, AMap.addMany]
    exact get_set_same m r _
  · simp [h, runA]

/-- **On the heap a send leaves the client's cookies and every other request's cookies alone.** -/
theorem heap_send_leaves_others (grow : Nat → Nat → Nat) (st : Store) (m : MapS) (hs : Sep st m) (r c a k : Nat)
    (hk : k ≠ r) :
    (absMap (stepRH grow (st, m) (.send r c a)).1 (stepRH grow (st, m) (.send r c a)).2).get k = (absMap st m).get k := by
  rw [(stepRH_refines grow st m (.send r c a) hs).2]
  exact send_frame _ r c a k hk

/-! ### non-vacuity and the counterexample: client cookies `[1,2,3]` in an array of 4 (three
`SetCommonCookies` calls), request 101 with cookie 10, request 102 with cookie 20 -/

def stC : Store := ⟨fun a i => if a = 0 then [1, 2, 3, 0].getD i 0 else if a = 1 then [10].getD i 0 else if a = 2 then [20].getD i 0 else 0, 3⟩
def mC : MapS := [(0, ⟨0, 0, 3, 4⟩), (101, ⟨1, 0, 1, 1⟩), (102, ⟨2, 0, 1, 1⟩)]

example : Sep stC mC := sepB_sound stC mC (by decide)

/-- the code as it is: both requests keep their own cookie, the client keeps its three -/
example : let x := runRH (fun _ n => 2 * n) (stC, mC) [.send 101 0 0, .send 102 0 0, .send 101 0 1]
    (absMap x.1 x.2).get 101 = [10, 1, 2, 3] ∧ (absMap x.1 x.2).get 102 = [20, 1, 2, 3] ∧ (absMap x.1 x.2).get 0 = [1, 2, 3] ∧
    sepB x.1.next x.2 = true := by decide

example : sentLog (absMap stC mC) [.send 101 0 0, .setCommon 0 [4], .send 101 0 1] = [(101, [10, 1, 2, 3]), (101, [10, 1, 2, 3])] := by
  decide

/-- **`append(c.Cookies, r.Cookies...)`**: after the first send the request's slice lies in the
client's array (the judge rejects the layout); the second request's send overwrites the first's cookie. -/
theorem front_append_counterexample :
    (let x := sendFront (fun _ n => 2 * n) (stC, mC) 101 0
     (absMap x.1 x.2).get 101 = [1, 2, 3, 10] ∧ sepB x.1.next x.2 = false) ∧
    (let x := sendFront (fun _ n => 2 * n) (sendFront (fun _ n => 2 * n) (stC, mC) 101 0) 102 0
     (absMap x.1 x.2).get 101 = [1, 2, 3, 20]) := by decide

/-! ## Part 2 -/

theorem dial_reads_only (s : PState) (c : Nat) :
    (stepP false s (.dial c)).boxes = s.boxes ∧ (stepP false s (.dial c)).clients = s.clients := ⟨rfl, rfl⟩

/-- over any program the map objects change only by the setter -/
theorem boxes_change_only_by_setter : ∀ (ops : List POp) (s : PState), (∀ op ∈ ops, op.isSetHdr = false) →
    (runP false s ops).boxes = s.boxes := by
  intro ops
  induction ops with
  | nil => intro s _; rfl
  | cons op ops ih =>
    intro s h
    have h1 := h op (List.mem_cons_self ..)
    have h2 : ∀ o ∈ ops, o.isSetHdr = false := fun o ho => h o (List.mem_cons_of_mem _ ho)
    simp only [runP, List.foldl_cons]
    have := ih (stepP false s op) h2
    simp only [runP] at this
    rw [this]
    cases op with
    | setHdr c b content => simp [POp.isSetHdr] at h1
    | clone a b => rfl
    | setProxy c auth => rfl
    | dial c => rfl

/-- **whose credentials a CONNECT request carries** -/
theorem connect_header_credentials (boxes : Nat → AMap) (p : PClient) :
    (connectHeader boxes p).get paKey = (match p.auth with
      | some a => [a]
      | none => (baseHeader boxes p).get paKey) ∧
    ∀ k, k ≠ paKey → (connectHeader boxes p).get k = (baseHeader boxes p).get k := by
  unfold connectHeader
  cases p.auth with
  | none => exact ⟨rfl, fun _ _ => rfl⟩
  | some a => exact ⟨get_set_same _ _ _, fun k hk => get_set_other _ _ k _ hk⟩

theorem dial_sends_own_header (inPlace : Bool) (s : PState) (c : Nat) :
    (stepP inPlace s (.dial c)).log = s.log ++ [(c, connectHeader s.boxes (s.clients c))] := rfl

/-- the program of the counterexample: header `{5: [50]}`, credentials 9 on the original, the clone
configured without credentials; original dials, clone dials -/
def progP : List POp := [.setHdr 0 0 [(5, [50])], .setProxy 0 (some 9), .clone 0 1, .setProxy 1 none, .dial 0, .dial 1]

/-- the code as it is: the clone's CONNECT carries no credentials, the map object is what the caller set -/
example : (runP false initP progP).log = [(0, [(5, [50]), (0, [9])]), (1, [(5, [50])])] ∧
    (runP false initP progP).boxes 0 = [(5, [50])] := by decide

/-- **credentials written into the map object**: the clone sends the original's credentials and the
caller's map has grown a `Proxy-Authorization` entry -/
theorem in_place_counterexample :
    (runP true initP progP).log = [(0, [(5, [50]), (0, [9])]), (1, [(5, [50]), (0, [9])])] ∧
    (runP true initP progP).boxes 0 = [(5, [50]), (0, [9])] := by decide

end Req.Props.C19ReqTime
