import Req.H1.BufAlias
import Req.Lemmas.BufLine
import Req.Lemmas.U8
/-!
C04 round 5 — buffer aliasing in the header line reader.

`Req.H1.BufAlias` keeps `bufio.Reader`'s buffer as an explicit array; `ReadSlice`/`ReadLine`
return VIEWS into it and `fill` overwrites it.  Theorems (all ∀ buffer sizes, reader states —
hence all scripts/segmentations of the connection — and validation functions):

* `readSlice_view`, `readLine_view`, `readLineSlice_view` — a view read at the moment the call
  returns holds exactly the line the value-semantics reader `Req.H1.BufLine` returns, and the
  unread bytes / pending error / rest of the script are the same.
* `peek2_no_refill` — with at least two bytes buffered `Peek(2)` does not touch the reader.
* `continued_line_alias_safe` — `readContinuedLineSlice` with the code's guard
  (`Buffered() > 1`) returns, by content, what the value-semantics reader `readContinuedV`
  returns, and leaves the same reader: no view is read after a refill.
* `head_lines_alias_safe` — the same for the whole sequence of continued lines of a header block.
* `guard_zero_corrupts` (example, decided) — with the guard `Buffered() > 0` the property is
  false: one byte of the next line buffered, `Peek(2)` refills, the line just read is overwritten.
-/
namespace Req.Props.C04
open Req.Proto Req.H1 Req.H1.BufLine Req.H1.BufAlias

theorem mid_take_drop (p x y : Bytes) : ((p ++ (x ++ y)).drop p.length).take x.length = x := by
  simp

theorem consume_arr (k : Nat) (a : ARd) : (consume k a).arr = a.arr := by
  simp [consume, ARd.arr, List.append_assoc]

theorem deref_consume_all (a : ARd) :
    (consume a.rd.buf.length a).deref ⟨a.pre.length, a.rd.buf.length⟩ = a.rd.buf := by
  unfold ARd.deref
  rw [consume_arr]
  simp [ARd.arr, List.append_assoc]

/-- **readSlice_view.** -/
theorem areadSliceLoop_spec (B f : Nat) (a : ARd) :
    (areadSliceLoop B f a).2.rd = (readSliceLoop B f a.rd).2 ∧
    (areadSliceLoop B f a).1.2 = (readSliceLoop B f a.rd).1.err ∧
    (areadSliceLoop B f a).2.deref (areadSliceLoop B f a).1.1 = (readSliceLoop B f a.rd).1.line ∧
    (areadSliceLoop B f a).1.1.off + (areadSliceLoop B f a).1.1.len
      = (areadSliceLoop B f a).2.pre.length := by
  induction f generalizing a with
  | zero => simp [areadSliceLoop, readSliceLoop, ARd.deref]
  | succ f ih =>
    unfold areadSliceLoop readSliceLoop
    cases hc : cutNL a.rd.buf with
    | some p =>
      obtain ⟨line, rest⟩ := p
      have hb := cutNL_append hc
      simp only
      refine ⟨?_, by first | rfl | trivial, ?_, ?_⟩
      · simp [consume, ← hb]
      · unfold ARd.deref
        rw [consume_arr]
        simp [ARd.arr, ← hb, List.append_assoc]
      · simp [consume, ← hb]
    | none =>
      simp only
      cases he : a.rd.err with
      | some e =>
        simp only
        refine ⟨?_, by first | rfl | trivial, ?_, ?_⟩
        · simp [consume, clearErr, he]
        · have := deref_consume_all a
          simpa [clearErr, ARd.deref, ARd.arr] using this
        · simp [consume, clearErr]
      | none =>
        simp only
        split
        · refine ⟨?_, by first | rfl | trivial, deref_consume_all a, ?_⟩
          · simp [consume, he]
          · simp [consume]
        · exact ih (afill B a)

theorem readSlice_view (B : Nat) (a : ARd) :
    (areadSlice B a).2.rd = (readSlice B a.rd).2 ∧
    (areadSlice B a).1.2 = (readSlice B a.rd).1.err ∧
    (areadSlice B a).2.deref (areadSlice B a).1.1 = (readSlice B a.rd).1.line ∧
    (areadSlice B a).1.1.off + (areadSlice B a).1.1.len = (areadSlice B a).2.pre.length :=
  areadSliceLoop_spec B (B + 2) a

theorem dropEOL_eq_take (l : Bytes) : dropEOL l = l.take (eolLen l) := by
  unfold dropEOL eolLen
  split
  · split
    · rw [List.dropLast_eq_take, List.dropLast_eq_take, List.take_take]
      congr 1
      simp only [List.length_take]
      omega
    · rw [List.dropLast_eq_take]
  · simp

/-- A view ending at `b.r` is the tail of the consumed part of the array. -/
theorem deref_tail (a : ARd) (v : View) (h : v.off + v.len = a.pre.length) :
    a.deref v = a.pre.drop v.off := by
  unfold ARd.deref ARd.arr
  rw [List.append_assoc, List.drop_append_of_le_length (by omega)]
  rw [List.take_append_of_le_length (by simp; omega)]
  rw [List.take_of_length_le (by simp; omega)]

theorem deref_shorter (a : ARd) (off len k : Nat) :
    a.deref ⟨off, min k len⟩ = (a.deref ⟨off, len⟩).take k := by
  simp [ARd.deref, List.take_take]

/-- **readLine_view.** -/
theorem readLine_view (B : Nat) (a : ARd) :
    (areadLine B a).2.rd = (BufLine.readLine B a.rd).2 ∧
    (areadLine B a).1.isPrefix = (BufLine.readLine B a.rd).1.isPrefix ∧
    (areadLine B a).1.err = (BufLine.readLine B a.rd).1.err ∧
    (areadLine B a).2.deref (areadLine B a).1.v = (BufLine.readLine B a.rd).1.line := by
  obtain ⟨h1, h2, h3, h4⟩ := readSlice_view B a
  unfold areadLine BufLine.readLine
  cases hr : areadSlice B a with
  | mk ve a1 =>
    obtain ⟨v, e⟩ := ve
    cases hq : readSlice B a.rd with
    | mk q st1 =>
      rw [hr] at h1 h2 h3 h4
      rw [hq] at h1 h2 h3
      simp only at h1 h2 h3 h4 ⊢
      subst h2
      rw [h3]
      split
      · split
        · next hcr =>
          -- "\r" put back: b.r--
          have hne : q.line ≠ [] := by
            intro h; simp [h, lastIs] at hcr
          have hlen : v.len = q.line.length := by
            have := congrArg List.length h3
            simp only [ARd.deref, List.length_take, List.length_drop] at this
            have h5 := deref_tail a1 v h4
            rw [h3] at h5
            have := congrArg List.length h5
            simp only [List.length_drop] at this
            omega
          have htail := deref_tail a1 v h4
          rw [h3] at htail
          have hlast : a1.pre.getLast? = some 13 := by
            have : q.line.getLast? = some 13 := by simpa [lastIs] using hcr
            rw [htail] at this
            rw [List.getLast?_drop] at this
            split at this
            · simp at this
            · exact this
          have hpre : a1.pre.dropLast ++ [13] = a1.pre :=
            dropLast_append_of_getLast? hlast
          refine ⟨?_, rfl, rfl, ?_⟩
          · simp [unreadRaw, hlast, h1]
          · have harr : (unreadRaw a1).arr = a1.arr := by
              simp only [unreadRaw, ARd.arr, hlast, Option.getD_some]
              conv => rhs; rw [← hpre]
              simp [List.append_assoc]
            have : (unreadRaw a1).deref ⟨v.off, v.len - 1⟩ = (a1.deref ⟨v.off, v.len⟩).take (v.len - 1) := by
              simp only [ARd.deref, harr, List.take_take]
              congr 1; omega
            rw [this, h3, hlen, List.dropLast_eq_take]
        · exact ⟨h1, rfl, rfl, h3⟩
      · have hlen : v.len = 0 ↔ q.line = [] := by
          have h5 := deref_tail a1 v h4
          rw [h3] at h5
          have := congrArg List.length h5
          simp only [List.length_drop] at this
          constructor
          · intro h0; apply List.eq_nil_of_length_eq_zero; omega
          · intro h0; rw [h0] at this; simp at this; omega
        by_cases h0 : q.line = []
        · rw [if_pos (hlen.mpr h0), if_pos h0]
          exact ⟨h1, rfl, rfl, by rw [h3, h0]⟩
        · rw [if_neg (fun h => h0 (hlen.mp h)), if_neg h0]
          refine ⟨h1, rfl, rfl, ?_⟩
          have : a1.deref ⟨v.off, eolLen q.line⟩ = (a1.deref ⟨v.off, v.len⟩).take (eolLen q.line) := by
            simp only [ARd.deref, List.take_take]
            congr 1
            have h5 := deref_tail a1 v h4
            rw [h3] at h5
            have := congrArg List.length h5
            simp only [List.length_drop] at this
            have : eolLen q.line ≤ q.line.length := by
              unfold eolLen; split <;> (try split) <;> omega
            omega
          rw [this, h3, dropEOL_eq_take]

def resGet (a : ARd) : Res Line → Res Bytes
  | .ok l => .ok (a.get l)
  | .error e => .error e

/-- **readLineSlice_view.** -/
theorem areadLineSliceLoop_spec (B f : Nat) (acc : Option Bytes) (d : Bytes) (a : ARd) :
    (areadLineSliceLoop B f acc a).2.rd
      = (readLineSliceLoop (plainReadLine B) none f (acc.getD []) d a.rd).st ∧
    resGet (areadLineSliceLoop B f acc a).2 (areadLineSliceLoop B f acc a).1
      = (readLineSliceLoop (plainReadLine B) none f (acc.getD []) d a.rd).res := by
  induction f generalizing acc d a with
  | zero => simp [areadLineSliceLoop, readLineSliceLoop, resGet]
  | succ f ih =>
    obtain ⟨h1, h2, h3, h4⟩ := readLine_view B a
    unfold areadLineSliceLoop readLineSliceLoop
    cases hr : areadLine B a with
    | mk r a1 =>
      cases hq : BufLine.readLine B a.rd with
      | mk q st1 =>
        rw [show plainReadLine B a.rd = (q, st1, []) from by simp [plainReadLine, hq]]
        rw [hr, hq] at h1 h2 h3 h4
        simp only at h1 h2 h3 h4 ⊢
        rw [← h3]
        cases he : r.err with
        | some e => simp [resGet, h1]
        | none =>
          simp only [overLimit, Bool.false_eq_true, if_false]
          rw [← h2]
          cases acc with
          | none =>
            cases hp : r.isPrefix with
            | false => simp [resGet, ARd.get, h1, h4]
            | true =>
              simp only [if_true, Option.getD_none, List.nil_append]
              have := ih (some ([] ++ a1.deref r.v)) (d ++ []) a1
              simp only [Option.getD_some, List.nil_append, h4, h1] at this
              simpa [h4] using this
          | some l =>
            cases hp : r.isPrefix with
            | false => simp [resGet, ARd.get, h1, h4]
            | true =>
              simp only [if_true, Option.getD_some]
              have := ih (some (l ++ a1.deref r.v)) (d ++ []) a1
              simp only [Option.getD_some, h4, h1] at this
              simpa [h4] using this

theorem readLineSlice_view (B : Nat) (a : ARd) :
    (areadLineSlice B a).2.rd = (readLineSlice (plainReadLine B) none a.rd).st ∧
    resGet (areadLineSlice B a).2 (areadLineSlice B a).1
      = (readLineSlice (plainReadLine B) none a.rd).res :=
  areadLineSliceLoop_spec B _ none [] a

theorem areadByteLoop_spec (B f : Nat) (a : ARd) :
    (areadByteLoop B f a).1 = (readByteLoop B f a.rd).1 ∧
    (areadByteLoop B f a).2.rd = (readByteLoop B f a.rd).2 := by
  induction f generalizing a with
  | zero => simp [areadByteLoop, readByteLoop]
  | succ f ih =>
    unfold areadByteLoop readByteLoop
    cases hb : a.rd.buf with
    | cons c rest => simp [consume, hb]
    | nil =>
      simp only
      cases he : a.rd.err with
      | some e => simp [clearErr, hb]
      | none => exact ih (afill B a)

theorem askipSpaceLoop_spec (B f : Nat) (acc : Bytes) (a : ARd) :
    (askipSpaceLoop B f acc a).1 = (skipSpaceLoop B f acc a.rd).1 ∧
    (askipSpaceLoop B f acc a).2.rd = (skipSpaceLoop B f acc a.rd).2 := by
  induction f generalizing acc a with
  | zero => simp [askipSpaceLoop, skipSpaceLoop]
  | succ f ih =>
    obtain ⟨h1, h2⟩ := areadByteLoop_spec B 2 a
    unfold askipSpaceLoop skipSpaceLoop areadByte readByte
    cases hr : areadByteLoop B 2 a with
    | mk r a1 =>
      cases hq : readByteLoop B 2 a.rd with
      | mk q st1 =>
        rw [hr, hq] at h1 h2
        simp only at h1 h2 ⊢
        subst h1
        cases r with
        | error e => simp [h2]
        | ok c =>
          simp only
          split
          · have := ih (acc ++ [c]) a1
            rw [h2] at this
            exact this
          · simp [unreadByte, h2]

theorem skipSpace_view (B : Nat) (a : ARd) :
    (askipSpace B a).1 = (skipSpace B a.rd).1 ∧ (askipSpace B a).2.rd = (skipSpace B a.rd).2 :=
  askipSpaceLoop_spec B _ [] a

/-- **peek2_no_refill.** -/
theorem peek2_no_refill (B : Nat) (a : ARd) (h : 1 < a.rd.buf.length) : apeek2 B a = a := by
  have : apeekLoop B 3 a = a := by
    unfold apeekLoop
    rw [if_neg (by omega)]
  unfold apeek2
  simp only [this]
  rw [if_neg (by omega)]

theorem acontLoop_spec (B f : Nat) (acc : Bytes) (a : ARd) :
    (acontLoop B f acc a).1 = (contLoopV B f acc a.rd).1 ∧
    (acontLoop B f acc a).2.rd = (contLoopV B f acc a.rd).2 := by
  induction f generalizing acc a with
  | zero => simp [acontLoop, contLoopV]
  | succ f ih =>
    obtain ⟨h1, h2⟩ := skipSpace_view B a
    unfold acontLoop contLoopV
    cases hr : askipSpace B a with
    | mk sk a1 =>
      cases hq : skipSpace B a.rd with
      | mk sk' st1 =>
        rw [hr, hq] at h1 h2
        simp only at h1 h2 ⊢
        subst h1
        split
        · exact ⟨rfl, h2⟩
        · obtain ⟨g1, g2⟩ := readLineSlice_view B a1
          rw [h2] at g1 g2
          cases hl : areadLineSlice B a1 with
          | mk res a2 =>
            rw [hl] at g1 g2
            simp only at g1 g2
            cases hv : readLineSlice (plainReadLine B) none st1 with
            | mk vres st2 dd =>
              rw [hv] at g1 g2
              simp only at g1 g2
              cases res with
              | error e =>
                simp only [resGet] at g2
                subst g2
                simp [g1]
              | ok ln =>
                simp only [resGet] at g2
                subst g2
                simp only
                have := ih (acc ++ [32] ++ trimOWS (a2.get ln)) a2
                rw [g1] at this
                exact this

/-- **continued_line_alias_safe.** For every buffer size, every reader state (whatever the
connection has delivered and will deliver, in whatever segments) and every first-line check:
`readContinuedLineSlice` over the real, aliasing `bufio.Reader` returns — read at return time —
exactly the line the value-semantics reader returns, and leaves the same unread bytes, pending
error and connection. -/
theorem continued_line_alias_safe (B : Nat) (valid : Bytes → Bool) (a : ARd) :
    (areadContinued B 1 valid a).1 = (readContinuedV B valid a.rd).1 ∧
    (areadContinued B 1 valid a).2.rd = (readContinuedV B valid a.rd).2 := by
  obtain ⟨g1, g2⟩ := readLineSlice_view B a
  unfold areadContinued readContinuedV
  cases hl : areadLineSlice B a with
  | mk res a1 =>
    cases hv : readLineSlice (plainReadLine B) none a.rd with
    | mk vres st1 dd =>
      rw [hl, hv] at g1 g2
      simp only at g1 g2
      cases res with
      | error e =>
        simp only [resGet] at g2
        subst g2
        exact ⟨rfl, g1⟩
      | ok ln =>
        simp only [resGet] at g2
        subst g2
        simp only
        split
        · exact ⟨rfl, g1⟩
        · split
          · exact ⟨rfl, g1⟩
          · by_cases hg : 1 < a1.rd.buf.length
            · have hp := peek2_no_refill B a1 hg
              simp only [hg, decide_true, if_true, hp, Bool.true_and]
              rw [← g1]
              simp only [hg, decide_true, Bool.true_and]
              split
              · exact ⟨rfl, rfl⟩
              · exact acontLoop_spec B _ _ a1
            · simp only [hg, decide_false, Bool.false_and, Bool.false_eq_true, if_false]
              rw [← g1]
              simp only [hg, decide_false, Bool.false_and, Bool.false_eq_true, if_false]
              exact acontLoop_spec B _ _ a1

/-! ### the fast path looks at the amount of buffered data — and it does not matter -/

/-- `readContinuedLineSlice` without its `Buffered() > 1` / `Peek(2)` fast path. -/
def readContinuedSlow (B : Nat) (valid : Bytes → Bool) (st : Rd) : ContRes × Rd :=
  match readLineSlice (plainReadLine B) none st with
  | ⟨.error e, st1, _⟩ => (.err e, st1)
  | ⟨.ok l, st1, _⟩ =>
    if l.isEmpty then (.ok [], st1)
    else if !valid l then (.invalid, st1)
    else contLoopV B (st1.bytes.length + 1) (trimOWS l) st1

set_option maxRecDepth 100000 in
theorem peek_first_not_blank (c : UInt8) :
    (!(isASCIILetter c || c == 10 || c == 13) || !isSpTab c) = true :=
  Req.U8.all (fun c => !(isASCIILetter c || c == 10 || c == 13) || !isSpTab c) (by decide) c

theorem peekOK_head {p : Bytes} (h : peekOK p = true) :
    ∃ c t, p = c :: t ∧ isSpTab c = false := by
  match p, h with
  | [c], h =>
    refine ⟨c, [], rfl, ?_⟩
    have := peek_first_not_blank c
    simp only [peekOK, Bool.or_eq_true] at h
    cases hs : isSpTab c <;> simp_all
  | c :: d :: t, h =>
    refine ⟨c, d :: t, rfl, ?_⟩
    have := peek_first_not_blank c
    simp only [peekOK, Bool.or_eq_true, Bool.and_eq_true] at h
    cases hs : isSpTab c <;> simp_all

/-- `skipSpace` in front of a byte that is no blank: nothing is skipped, the reader is unchanged
(`ReadByte` + `UnreadByte`). -/
theorem skipSpace_nonblank (B : Nat) (st : Rd) (c : UInt8) (t : Bytes) (hb : st.buf = c :: t)
    (hc : isSpTab c = false) : skipSpace B st = ([], st) := by
  unfold skipSpace
  have : st.bytes.length + 1 = (st.bytes.length) + 1 := rfl
  unfold skipSpaceLoop
  simp only [readByte, readByteLoop, hb, hc, Bool.false_eq_true, if_false]
  congr 1
  cases st
  simp_all

/-- **continued_line_fastpath_irrelevant.** The only place where `readContinuedLineSlice` looks at
HOW MUCH the connection has delivered so far (`Buffered() > 1`, i.e. where segmentation enters
other than through `fill`) does not change its result: with and without the fast path the same
line is returned and the same reader is left. -/
theorem continued_line_fastpath_irrelevant (B : Nat) (valid : Bytes → Bool) (st : Rd) :
    readContinuedV B valid st = readContinuedSlow B valid st := by
  unfold readContinuedV readContinuedSlow
  cases hv : readLineSlice (plainReadLine B) none st with
  | mk res st1 dd =>
    cases res with
    | error e => rfl
    | ok l =>
      simp only
      split
      · rfl
      · split
        · rfl
        · split
          · next hfast =>
            simp only [Bool.and_eq_true, decide_eq_true_eq] at hfast
            obtain ⟨c, t, hp, hc⟩ := peekOK_head hfast.2
            have hbuf : ∃ t', st1.buf = c :: t' := by
              cases hb : st1.buf with
              | nil => simp [hb] at hp
              | cons c' t' =>
                rw [hb] at hp
                simp only [List.take_succ_cons] at hp
                exact ⟨t', by rw [(List.cons.inj hp).1]⟩
            obtain ⟨t', hb⟩ := hbuf
            have hs := skipSpace_nonblank B st1 c t' hb hc
            unfold contLoopV
            simp [hs]
          · rfl

/-- The aliasing reader of the code computes the slow-path value reader. -/
theorem continued_line_alias_safe_slow (B : Nat) (valid : Bytes → Bool) (a : ARd) :
    (areadContinued B 1 valid a).1 = (readContinuedSlow B valid a.rd).1 ∧
    (areadContinued B 1 valid a).2.rd = (readContinuedSlow B valid a.rd).2 := by
  rw [← continued_line_fastpath_irrelevant]
  exact continued_line_alias_safe B valid a

/-- The header-block loop over the value-semantics reader. -/
def headLinesV (B : Nat) (valid : Bytes → Bool) : Nat → Rd → List Bytes × ContRes × Rd
  | 0, st => ([], .err .stuck, st)
  | f + 1, st =>
    match readContinuedV B valid st with
    | (.ok l, st1) =>
      if l.isEmpty then ([], .ok [], st1)
      else
        match headLinesV B valid f st1 with
        | (ls, e, st2) => (l :: ls, e, st2)
    | (r, st1) => ([], r, st1)

/-- **head_lines_alias_safe.** Every continued line of a header block, read one after the other
from the same aliasing reader: the contents are those of the value-semantics reader. -/
theorem head_lines_alias_safe (B f : Nat) (valid : Bytes → Bool) (a : ARd) :
    (aheadLines B 1 valid f a).1 = (headLinesV B valid f a.rd).1 ∧
    (aheadLines B 1 valid f a).2.1 = (headLinesV B valid f a.rd).2.1 ∧
    (aheadLines B 1 valid f a).2.2.rd = (headLinesV B valid f a.rd).2.2 := by
  induction f generalizing a with
  | zero => simp [aheadLines, headLinesV]
  | succ f ih =>
    obtain ⟨h1, h2⟩ := continued_line_alias_safe B valid a
    unfold aheadLines headLinesV
    cases hr : areadContinued B 1 valid a with
    | mk r a1 =>
      cases hq : readContinuedV B valid a.rd with
      | mk q st1 =>
        rw [hr, hq] at h1 h2
        simp only at h1 h2
        subst h1
        cases r with
        | ok l =>
          simp only
          split
          · exact ⟨rfl, rfl, h2⟩
          · have := ih a1
            rw [h2] at this
            exact ⟨by rw [this.1], this.2.1, this.2.2⟩
        | err e => exact ⟨rfl, rfl, h2⟩
        | invalid => exact ⟨rfl, rfl, h2⟩

/-! ### non-vacuity, and what the guard is for -/

def colonCheck (l : Bytes) : Bool := l.contains 58

/-- "A: bcd\r\nE" then ": fgh\r\nI: jkl\r\n\r\n" through a 16-byte reader. -/
def twoSegs : ARd := ARd.init 16
  [⟨[65, 58, 32, 98, 99, 100, 13, 10, 69], none⟩,
   ⟨[58, 32, 102, 103, 104, 13, 10, 73, 58, 32, 106, 107, 108, 13, 10, 13, 10], none⟩]

set_option maxRecDepth 100000 in
/-- The code's guard: the first line is "A: bcd", the lines are A, E, I. -/
example : (areadContinued 16 1 colonCheck twoSegs).1 = .ok [65, 58, 32, 98, 99, 100] := by decide

set_option maxRecDepth 100000 in
example : (aheadLines 16 1 colonCheck 10 twoSegs).1 =
    [[65, 58, 32, 98, 99, 100], [69, 58, 32, 102, 103, 104], [73, 58, 32, 106, 107, 108]] := by decide

set_option maxRecDepth 100000 in
/-- **guard_zero_corrupts.** With `Buffered() > 0` the one buffered byte `E` lets `Peek(2)`
refill: the array now starts with "E: fgh", and that is what the view of the first line shows. -/
example : (areadContinued 16 0 colonCheck twoSegs).1 = .ok [69, 58, 32, 102, 103, 104] := by decide

end Req.Props.C04
