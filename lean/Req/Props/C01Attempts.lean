import Req.Client.AttemptOrder
import Req.Props.C01Replay
/-!
C01 (round 5) — `Transport.roundTrip`'s order of attempts (Alt-Svc transport → cached HTTP/2
connection → cached HTTP/3 connection → connection loop): for EVERY request, every outcome of every
stage, every number of body bytes each stage read before it gave up and every sequence of attempts
of the connection loop,

* `one_request_on_wire_per_success`: a call that succeeds had exactly one attempt answered by a
  server and it is the last attempt made; a call that fails had none (no stage's error falls through
  to a later stage that would send the request a second time);
* `attempts_start_at_body_start`: every attempt that reached a connection began with the body reader
  at the first byte of the described body (never a tail);
* `attempts_fidelity`: the server that answers receives exactly the described body.

Tied to the real `Transport.roundTrip` by the `attempts` lane.
-/
namespace Req.Props.C01Attempts
open Req.Proto Req.Replay Req.Attempts Req.Props.C01Replay

/-- the answered attempt, if any, is the last one; a call that did not succeed has none -/
def OneAnswered (res : Result) (w : List OnWire) : Prop :=
  (∀ b, res = .accepted b →
    ∃ init last, w = init ++ [last] ∧ last.answered = true ∧ ∀ e ∈ init, e.answered = false) ∧
  ((∀ b, res ≠ .accepted b) → ∀ e ∈ w, e.answered = false)

theorem oneAnswered_prepend (res : Result) (pre w : List OnWire) (hpre : ∀ e ∈ pre, e.answered = false)
    (h : OneAnswered res w) : OneAnswered res (pre ++ w) := by
  refine ⟨?_, ?_⟩
  · intro b hb
    obtain ⟨init, last, hw, hl, hi⟩ := h.1 b hb
    refine ⟨pre ++ init, last, by rw [hw, List.append_assoc], hl, ?_⟩
    intro e he
    rcases List.mem_append.mp he with h1 | h1
    · exact hpre e h1
    · exact hi e h1
  · intro hn e he
    rcases List.mem_append.mp he with h1 | h1
    · exact hpre e h1
    · exact h.2 hn e h1

theorem oneAnswered_failed (res : Result) (w : List OnWire) (hres : ∀ b, res ≠ .accepted b)
    (hw : ∀ e ∈ w, e.answered = false) : OneAnswered res w :=
  ⟨fun b hb => absurd hb (hres b), fun _ => hw⟩

theorem oneAnswered_single (b : Bytes) (st : Stage) (pos : Nat) :
    OneAnswered (.accepted b) [⟨st, pos, true⟩] :=
  ⟨fun _ _ => ⟨[], ⟨st, pos, true⟩, rfl, rfl, by simp⟩, fun hn => absurd rfl (hn b)⟩

theorem conn_oneAnswered (fx : Fixes) (r : Req) :
    ∀ (as : List H1Attempt) (pos : Nat), OneAnswered (h1Run fx r as pos) (connTrace fx r as pos) := by
  intro as
  induction as with
  | nil =>
    intro pos
    exact oneAnswered_failed _ _ (by intro b h; simp [h1Run] at h) (by simp [connTrace])
  | cons a rest ih =>
    intro pos
    simp only [h1Run, connTrace]
    cases he : a.err with
    | none => exact oneAnswered_single _ _ _
    | some e =>
      simp only
      have hcons : ∀ (res : Result) (w : List OnWire), OneAnswered res w →
          OneAnswered res (⟨.conn, pos, false⟩ :: w) := by
        intro res w h
        exact oneAnswered_prepend res [⟨.conn, pos, false⟩] w (by simp) h
      split
      · cases h1Rewind fx r a.touched (pos + a.consumed) with
        | none => exact hcons _ _ (oneAnswered_failed _ _ (by intro b h; cases h) (by simp))
        | some pos' => exact hcons _ _ (ih pos')
      · exact hcons _ _ (oneAnswered_failed _ _ (by intro b h; cases h) (by simp))

/-- what a stage in front of the connection loop guarantees -/
theorem stage_spec (fx : Fixes) (r : Req) (st : Stage) (t : Try) (pos : Nat) :
    (∀ x, (stage fx r st t pos).1 = .done x → OneAnswered x (stage fx r st t pos).2) ∧
    (∀ p, (stage fx r st t pos).1 = .goOn p → ∀ e ∈ (stage fx r st t pos).2, e.answered = false) := by
  cases t with
  | skipped => simp [stage]
  | response =>
    refine ⟨?_, by simp [stage]⟩
    intro x hx
    simp only [stage, Next.done.injEq] at hx
    subst hx
    exact oneAnswered_single _ _ _
  | error c =>
    refine ⟨?_, by simp [stage]⟩
    intro x hx
    simp only [stage, Next.done.injEq] at hx
    subst hx
    exact oneAnswered_failed _ _ (by intro b h; cases h) (by simp [stage])
  | noConn c touched =>
    simp only [stage]
    cases h1Rewind fx r touched (pos + c) with
    | none =>
      refine ⟨?_, by simp⟩
      intro x hx
      simp only [Next.done.injEq] at hx
      subst hx
      refine oneAnswered_failed _ _ (by intro b h; cases h) ?_
      intro e he
      simp only at he
      split at he
      · simp only [List.mem_singleton] at he; subst he; rfl
      · cases he
    | some p =>
      refine ⟨by simp, ?_⟩
      intro q _ e he
      simp only at he
      split at he
      · simp only [List.mem_singleton] at he; subst he; rfl
      · cases he

/-- **one_request_on_wire_per_success** — for every request, every script of stage outcomes and
connection-loop attempts (and with or without the repairs of findings C01-2 / C01-3): when
`Transport.roundTrip` returns a response exactly one attempt was answered by a server and it is the
LAST attempt that reached a connection; when it returns an error (or is still under way) no attempt
was answered. In particular an error of the Alt-Svc transport or of a cached HTTP/2 / HTTP/3
connection is never followed by a second transmission on another stage. -/
theorem one_request_on_wire_per_success (fx : Fixes) (r : Req) (s : Script) :
    OneAnswered (roundTrip fx r s).1 (roundTrip fx r s).2 := by
  have hrest : OneAnswered
      (match stage fx r .h2Cached s.h2 0 with
        | (.done x, w) => (x, w)
        | (.goOn p, w) =>
          match stage fx r .h3Cached s.h3 p with
          | (.done x, w') => (x, w ++ w')
          | (.goOn p', w') => (h1Run fx r s.conns p', w ++ w' ++ connTrace fx r s.conns p')).1
      (match stage fx r .h2Cached s.h2 0 with
        | (.done x, w) => (x, w)
        | (.goOn p, w) =>
          match stage fx r .h3Cached s.h3 p with
          | (.done x, w') => (x, w ++ w')
          | (.goOn p', w') => (h1Run fx r s.conns p', w ++ w' ++ connTrace fx r s.conns p')).2 := by
    obtain ⟨a1, a2⟩ := stage_spec fx r .h2Cached s.h2 0
    generalize stage fx r .h2Cached s.h2 0 = s2 at *
    obtain ⟨n2, w2⟩ := s2
    cases n2 with
    | done x => exact a1 x rfl
    | goOn p =>
      simp only
      obtain ⟨b1, b2⟩ := stage_spec fx r .h3Cached s.h3 p
      generalize stage fx r .h3Cached s.h3 p = s3 at *
      obtain ⟨n3, w3⟩ := s3
      cases n3 with
      | done x => exact oneAnswered_prepend x w2 w3 (a2 p rfl) (b1 x rfl)
      | goOn p' =>
        simp only
        rw [List.append_assoc]
        exact oneAnswered_prepend _ w2 _ (a2 p rfl)
          (oneAnswered_prepend _ w3 _ (b2 p' rfl) (conn_oneAnswered fx r s.conns p'))
  unfold roundTrip
  cases s.altSvc with
  | response => exact oneAnswered_single _ _ _
  | error c => exact oneAnswered_failed _ _ (by intro b h; cases h) (by simp)
  | skipped => exact hrest
  | noConn c t => exact hrest

/-! ### every attempt starts at the first byte of the body -/

theorem rewind_atStart (r : Req) (touched : Bool) (pos c p : Nat) (hs : AtStart r pos)
    (hwf : touched = false → c = 0) (hr : h1Rewind Fixes.all r touched (pos + c) = some p) : AtStart r p := by
  unfold h1Rewind at hr
  split at hr
  next hc =>
    simp only [Option.some.injEq] at hr
    simp only [Bool.or_eq_true, Bool.not_eq_true'] at hc
    rcases hc with hc | hc
    · exact Or.inl (by unfold Req.noBody at hc; simpa using hc)
    · rcases hs with hs | hs
      · exact Or.inl hs
      · right; rw [← hr, hs, hwf hc]
  next hc =>
    split at hr
    next hg =>
      simp only [Option.some.injEq] at hr
      unfold hasGetBody at hg
      cases hk : r.kind with
      | none => exact Or.inl hk
      | rewindable => right; rw [← hr]; simp [posAfterGetBody, hk]
      | oneShot => simp [hk, Fixes.all] at hg
    · exact absurd hr (by simp)

theorem conn_atStart (r : Req) :
    ∀ (as : List H1Attempt) (pos : Nat), (∀ a ∈ as, a.wf) → AtStart r pos →
      ∀ e ∈ connTrace Fixes.all r as pos, AtStart r e.pos := by
  intro as
  induction as with
  | nil => intro pos _ _ e he; simp [connTrace] at he
  | cons a rest ih =>
    intro pos hwf hs e he
    have hwa : a.wf := hwf a (by simp)
    simp only [connTrace] at he
    cases herr : a.err with
    | none =>
      simp only [herr, List.mem_singleton] at he
      subst he; exact hs
    | some er =>
      simp only [herr, List.mem_cons] at he
      rcases he with he | he
      · subst he; exact hs
      · split at he
        · cases hr : h1Rewind Fixes.all r a.touched (pos + a.consumed) with
          | none => simp [hr] at he
          | some pos' =>
            simp only [hr] at he
            exact ih pos' (fun x hx => hwf x (by simp [hx])) (rewind_atStart r a.touched pos a.consumed pos' hs hwa hr) e he
        · cases he

theorem stage_atStart (r : Req) (st : Stage) (t : Try) (pos : Nat) (hwf : t.wf) (hs : AtStart r pos) :
    (∀ e ∈ (stage Fixes.all r st t pos).2, AtStart r e.pos) ∧
    (∀ p, (stage Fixes.all r st t pos).1 = .goOn p → AtStart r p) ∧
    (∀ b, (stage Fixes.all r st t pos).1 = .done (.accepted b) → b = described r) := by
  cases t with
  | skipped =>
    refine ⟨by simp [stage], ?_, by simp [stage]⟩
    intro p hp
    simp only [stage, Next.goOn.injEq] at hp
    subst hp; exact hs
  | response =>
    refine ⟨?_, by simp [stage], ?_⟩
    · intro e he
      simp only [stage, List.mem_singleton] at he
      subst he; exact hs
    · intro b hb
      simp only [stage, Next.done.injEq, Result.accepted.injEq] at hb
      rw [← hb]; exact seen_atStart r pos hs
  | error c =>
    refine ⟨?_, by simp [stage], by simp [stage]⟩
    intro e he
    simp only [stage, List.mem_singleton] at he
    subst he; exact hs
  | noConn c touched =>
    simp only [Try.wf] at hwf
    simp only [stage]
    have hw : ∀ e ∈ (if touched = true then [(⟨st, pos, false⟩ : OnWire)] else []), AtStart r e.pos := by
      intro e he
      split at he
      · simp only [List.mem_singleton] at he; subst he; exact hs
      · cases he
    cases hr : h1Rewind Fixes.all r touched (pos + c) with
    | none => exact ⟨hw, by simp, by simp⟩
    | some p =>
      refine ⟨hw, ?_, by simp⟩
      intro q hq
      simp only [Next.goOn.injEq] at hq
      subst hq
      exact rewind_atStart r touched pos c p hs hwf hr

/-- **attempts_start_at_body_start** (with the repairs C01-2 / C01-3): every attempt that reached a
connection — on the Alt-Svc transport, a cached HTTP/2 or HTTP/3 connection or in the connection
loop, answered or not — began with the body reader at the start of the described body (or the
request has no body): what a server saw of the request was never the tail of a body another attempt
had started to read. **attempts_fidelity**: the server that answers receives exactly the described
body. -/
theorem attempts_start_at_body_start (r : Req) (s : Script) (hwf : s.wf) :
    (∀ e ∈ (roundTrip Fixes.all r s).2, AtStart r e.pos) ∧
    (∀ b, (roundTrip Fixes.all r s).1 = .accepted b → b = described r) := by
  obtain ⟨hw2, hw3, hwc⟩ := hwf
  have h00 : AtStart r 0 := Or.inr rfl
  have hrest :
      (∀ e ∈ (match stage Fixes.all r .h2Cached s.h2 0 with
        | (.done x, w) => (x, w)
        | (.goOn p, w) =>
          match stage Fixes.all r .h3Cached s.h3 p with
          | (.done x, w') => (x, w ++ w')
          | (.goOn p', w') => (h1Run Fixes.all r s.conns p', w ++ w' ++ connTrace Fixes.all r s.conns p')).2,
        AtStart r e.pos) ∧
      (∀ b, (match stage Fixes.all r .h2Cached s.h2 0 with
        | (.done x, w) => (x, w)
        | (.goOn p, w) =>
          match stage Fixes.all r .h3Cached s.h3 p with
          | (.done x, w') => (x, w ++ w')
          | (.goOn p', w') => (h1Run Fixes.all r s.conns p', w ++ w' ++ connTrace Fixes.all r s.conns p')).1
        = .accepted b → b = described r) := by
    obtain ⟨a1, a2, a3⟩ := stage_atStart r .h2Cached s.h2 0 hw2 h00
    generalize stage Fixes.all r .h2Cached s.h2 0 = s2 at *
    obtain ⟨n2, w2⟩ := s2
    cases n2 with
    | done x =>
      refine ⟨a1, ?_⟩
      intro b hb
      simp only at hb
      subst hb
      exact a3 b rfl
    | goOn p =>
      simp only
      have hp := a2 p rfl
      obtain ⟨b1, b2, b3⟩ := stage_atStart r .h3Cached s.h3 p hw3 hp
      generalize stage Fixes.all r .h3Cached s.h3 p = s3 at *
      obtain ⟨n3, w3⟩ := s3
      cases n3 with
      | done x =>
        refine ⟨?_, ?_⟩
        · intro e he
          rcases List.mem_append.mp he with h | h
          · exact a1 e h
          · exact b1 e h
        · intro b hb
          simp only at hb
          subst hb
          exact b3 b rfl
      | goOn p' =>
        simp only
        have hp' := b2 p' rfl
        refine ⟨?_, ?_⟩
        · intro e he
          rcases List.mem_append.mp he with h | h
          · rcases List.mem_append.mp h with h | h
            · exact a1 e h
            · exact b1 e h
          · exact conn_atStart r s.conns p' hwc hp' e h
        · intro b hb
          exact h1Run_inv r s.conns p' b hwc hp' hb
  unfold roundTrip
  cases s.altSvc with
  | response =>
    refine ⟨?_, ?_⟩
    · intro e he
      simp only [List.mem_singleton] at he
      subst he; exact h00
    · intro b hb
      simp only [Result.accepted.injEq] at hb
      rw [← hb]; exact seenAt_zero r
  | error c =>
    refine ⟨?_, by intro b hb; cases hb⟩
    intro e he
    simp only [List.mem_singleton] at he
    subst he; exact h00
  | skipped => exact hrest
  | noConn c t => exact hrest

theorem attempts_fidelity (r : Req) (s : Script) (hwf : s.wf) (b : Bytes)
    (h : (roundTrip Fixes.all r s).1 = .accepted b) : b = described r :=
  (attempts_start_at_body_start r s hwf).2 b h

/-- non-vacuity: a cache miss on HTTP/2 and HTTP/3, then a reused HTTP/1.1 connection the peer closed
after 3 body bytes, then a fresh connection that answers: one answered attempt, the last, with the
whole body; an error on the cached HTTP/2 connection ends the call — nothing is sent on HTTP/1.1. -/
example :
    roundTrip Fixes.all { kind := .rewindable, data := [1, 2, 3, 4], idempotent := true }
      ⟨.skipped, .noConn 0 false, .noConn 0 false,
        [⟨true, some .readFromServer, 3, true⟩, ⟨false, none, 0, false⟩]⟩ =
      (.accepted [1, 2, 3, 4], [⟨.conn, 0, false⟩, ⟨.conn, 0, true⟩]) ∧
    roundTrip Fixes.all { kind := .rewindable, data := [1, 2, 3, 4], idempotent := true }
      ⟨.skipped, .error 2, .skipped, [⟨false, none, 0, false⟩]⟩ = (.failed, [⟨.h2Cached, 0, false⟩]) := by
  decide

/-- the code as found in round 4 (a one-shot body advertised as rewindable): a cached connection
that read 3 bytes before reporting a miss leaves the tail for HTTP/1.1 -/
example :
    roundTrip Fixes.asFound { kind := .oneShot, data := [1, 2, 3, 4], idempotent := true }
      ⟨.skipped, .noConn 3 true, .skipped, [⟨false, none, 0, false⟩]⟩ =
      (.accepted [4], [⟨.h2Cached, 0, false⟩, ⟨.conn, 3, true⟩]) := by
  decide

end Req.Props.C01Attempts
