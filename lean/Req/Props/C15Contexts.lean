import Req.Props.C15Live
import Req.Client.HtmlSpec
/-!
C15, round 5 — the contexts in which the text of a `<meta>` tag is NOT a declaration, the identity on
bodies declared utf-8, and the irrelevance of where the first network read ends.

* `commentCloses` / `CommentEnd`: the WHATWG rule for the end of a comment, stated on the TEXT (no
  automaton): the text after `<!--` ends the comment as soon as it is exactly `>` or `->` (abrupt
  closing of an empty comment) or ends in `-->` or `--!>`;
  `comment_skipped`: ∀ text with `CommentEnd`, the scanner is back in the data state after it, and
  `comment_interior_opaque`: in the middle of it the scanner is in a comment state — whatever the
  text contains (`<meta charset=gbk>`, quotes, `<script>` …);
* `prescan_ignores_comments`: ∀ pre, comment text, post: `prescan (pre ++ "<!--" ++ t ++ post) =
  prescan (pre ++ post)` when `pre` leaves the scanner in the data state;
* `rawtext_skipped`, `script_skipped`: the content of `<title> <textarea> <style> <xmp> <iframe>
  <noembed> <noframes> <noscript>` and of `<script>` that holds no `</` (and, for script, no `<!`)
  followed by the element's end tag is skipped, whatever else it contains;
  `prescan_ignores_rawtext`, `prescan_ignores_script`;
* `rawSplit` / `rawtext_ends_at_first_end_tag`: the WHATWG end-tag rule for RCDATA / RAWTEXT stated on
  the text — the element ends at the FIRST `</name` (any case) followed by white space, `/` or `>` —
  and the scanner obeys it for EVERY text (near-miss end tags, `</`, `<` … inside);
  `prescan_rawtext_spec`, `unterminated_rawtext_swallows`, `unterminated_comment_swallows`,
  `quoted_value_opaque`, `plaintext_absorbing`;
* `prescan_ignores_comments_and_rawtext`: all together, for any number of such regions;
* `utf8_declared_is_identity`: ∀ body (byte-order mark, invalid sequences, binary): a Content-Type
  that says utf-8 delivers exactly the body; `utf8_declared_fully_delivered` adds liveness;
* `first_read_boundary_irrelevant`: the declaration lies in the first `m` bytes ⇒ for EVERY offset
  `k ≥ m` at which the first network read ends (inside a multi-byte character too) and every first
  caller buffer `L₀ ≥ m` the body read to EOF is the whole-body decode;
  `first_read_boundary_irrelevant_header`: for a header charset, for every `k` and `L₀`.
-/
namespace Req.Props.C15
open Req.Proto Req.Decode Req.Prescan

/-! ### comments -/

/-- the same on the reversed text (most recent byte first) -/
def closesR (r : Bytes) : Bool :=
  r == [62] || r == [62, 45] || [62, 45, 45].isPrefixOf r || [62, 33, 45, 45].isPrefixOf r

theorem commentCloses_eq (t : Bytes) : commentCloses t = closesR t.reverse := by
  have h1 : (t == [62]) = (t.reverse == [62]) := by
    rcases t with _ | ⟨a, _ | ⟨b, rest⟩⟩
    · rfl
    · simp
    · have : ((a :: b :: rest).reverse == [62]) = false := by
        apply Bool.eq_false_iff.mpr
        intro h
        have h' := congrArg List.length (beq_iff_eq.mp h)
        simp at h'
      rw [this]
      simp
  have h2 : (t == [45, 62]) = (t.reverse == [62, 45]) := by
    rcases t with _ | ⟨a, _ | ⟨b, _ | ⟨c, rest⟩⟩⟩
    · rfl
    · simp
    · simp [Bool.and_comm]
    · have : ((a :: b :: c :: rest).reverse == [62, 45]) = false := by
        apply Bool.eq_false_iff.mpr
        intro h
        have h' := congrArg List.length (beq_iff_eq.mp h)
        simp at h'
      rw [this]
      simp
  unfold commentCloses closesR
  rw [h1, h2]
  rfl

def dashesR : Bytes → Nat
  | a :: b :: _ => if a == 45 then (if b == 45 then 2 else 1) else 0
  | [a] => if a == 45 then 1 else 0
  | [] => 0

def bangR : Bytes → Bool
  | a :: b :: c :: _ => a == 33 && b == 45 && c == 45
  | _ => false

/-- the scanner's state inside a comment as a function of the (reversed) text read so far -/
def cstateR (r : Bytes) : St :=
  if bangR r then .commentBang else .comment (dashesR r) (r.all (· == 45))

theorem eq_or_ne2 (x k : UInt8) : x = k ∨ (x ≠ k ∧ k ≠ x) := by
  by_cases h : x = k
  · exact Or.inl h
  · exact Or.inr ⟨h, fun h' => h h'.symm⟩

theorem step_comment (P : Params) (r : Bytes) (c : UInt8) :
    step P (cstateR r) c = if closesR (c :: r) then .data else cstateR (c :: r) := by
  rcases r with _ | ⟨a, _ | ⟨b, _ | ⟨e, rest⟩⟩⟩
  · rcases eq_or_ne2 c 45 with h1 | ⟨h1, h1'⟩ <;> rcases eq_or_ne2 c 62 with h2 | ⟨h2, h2'⟩ <;>
      rcases eq_or_ne2 c 33 with h3 | ⟨h3, h3'⟩ <;>
      simp_all [cstateR, bangR, dashesR, closesR, step, List.isPrefixOf, List.all]
  · rcases eq_or_ne2 c 45 with h1 | ⟨h1, h1'⟩ <;> rcases eq_or_ne2 c 62 with h2 | ⟨h2, h2'⟩ <;>
      rcases eq_or_ne2 c 33 with h3 | ⟨h3, h3'⟩ <;> rcases eq_or_ne2 a 45 with g1 | ⟨g1, g1'⟩ <;>
      simp_all [cstateR, bangR, dashesR, closesR, step, List.isPrefixOf, List.all]
  · rcases eq_or_ne2 c 45 with h1 | ⟨h1, h1'⟩ <;> rcases eq_or_ne2 c 62 with h2 | ⟨h2, h2'⟩ <;>
      rcases eq_or_ne2 c 33 with h3 | ⟨h3, h3'⟩ <;> rcases eq_or_ne2 a 45 with g1 | ⟨g1, g1'⟩ <;>
      rcases eq_or_ne2 b 45 with g2 | ⟨g2, g2'⟩ <;> rcases eq_or_ne2 a 33 with g3 | ⟨g3, g3'⟩ <;>
      simp_all [cstateR, bangR, dashesR, closesR, step, List.isPrefixOf, List.all]
  · rcases eq_or_ne2 c 45 with h1 | ⟨h1, h1'⟩ <;> rcases eq_or_ne2 c 62 with h2 | ⟨h2, h2'⟩ <;>
      rcases eq_or_ne2 c 33 with h3 | ⟨h3, h3'⟩ <;> rcases eq_or_ne2 a 45 with g1 | ⟨g1, g1'⟩ <;>
      rcases eq_or_ne2 b 45 with g2 | ⟨g2, g2'⟩ <;> rcases eq_or_ne2 a 33 with g3 | ⟨g3, g3'⟩ <;>
      rcases eq_or_ne2 e 45 with g4 | ⟨g4, g4'⟩ <;>
      simp_all [cstateR, bangR, dashesR, closesR, step, List.isPrefixOf, List.all]

/-- While no prefix closes the comment the scanner's state is `cstateR` of what it has read. -/
theorem scan_comment (P : Params) (t r : Bytes)
    (h : ∀ k, 0 < k → k ≤ t.length → closesR ((t.take k).reverse ++ r) = false) :
    scan P (cstateR r) t = cstateR (t.reverse ++ r) := by
  induction t generalizing r with
  | nil => rfl
  | cons c cs ih =>
    have h1 := h 1 (by omega) (by simp)
    simp only [List.take_succ_cons, List.take_zero, List.reverse_cons, List.reverse_nil, List.nil_append,
      List.singleton_append] at h1
    have hs : step P (cstateR r) c = cstateR (c :: r) := by rw [step_comment, h1]; rfl
    have := ih (c :: r) (by
      intro k hk hk'
      have := h (k + 1) (by omega) (by simpa using hk')
      simpa [List.take_succ_cons, List.reverse_cons, List.append_assoc] using this)
    simp only [scan, List.foldl_cons, hs] at this ⊢
    rw [this]
    simp [List.reverse_cons, List.append_assoc]

theorem cstateR_nil : cstateR [] = .comment 0 true := rfl

theorem cstateR_comment (r : Bytes) : cstateR r = .commentBang ∨ ∃ d b, cstateR r = .comment d b := by
  unfold cstateR
  by_cases h : bangR r = true
  · left; simp [h]
  · right; exact ⟨dashesR r, r.all (· == 45), by simp [h]⟩

theorem CommentEnd_spec (t : Bytes) (h : CommentEnd t = true) :
    commentCloses t = true ∧ ∀ k, k < t.length → commentCloses (t.take k) = false := by
  simp only [CommentEnd, Bool.and_eq_true, List.all_eq_true, List.mem_range, Bool.not_eq_true'] at h
  exact h

/-- **comment_interior_opaque**: strictly inside a comment text the scanner is in a comment state:
nothing the text contains is tokenized. -/
theorem comment_interior_opaque (P : Params) (t : Bytes) (h : CommentEnd t = true) (k : Nat) (hk : k < t.length) :
    scan P (.comment 0 true) (t.take k) = .commentBang ∨
    ∃ d b, scan P (.comment 0 true) (t.take k) = .comment d b := by
  obtain ⟨_, hpre⟩ := CommentEnd_spec t h
  have := scan_comment P (t.take k) [] (by
    intro j _ hj'
    have hjk : j ≤ k := by
      have : (t.take k).length ≤ k := by simp [List.length_take]; omega
      omega
    have := hpre j (by omega)
    rw [commentCloses_eq] at this
    simpa [List.take_take, Nat.min_eq_left hjk] using this)
  rw [cstateR_nil] at this
  rw [this]
  exact cstateR_comment _

/-- **comment_skipped**: after a complete comment text the scanner is back in the data state. -/
theorem comment_skipped (P : Params) (t : Bytes) (h : CommentEnd t = true) :
    scan P (.comment 0 true) t = .data := by
  obtain ⟨hc, hpre⟩ := CommentEnd_spec t h
  have hne : t ≠ [] := by intro h0; subst h0; simp [commentCloses] at hc
  obtain ⟨t', c, rfl⟩ : ∃ t' c, t = t' ++ [c] := ⟨t.dropLast, t.getLast hne, (List.dropLast_concat_getLast hne).symm⟩
  have h1 := scan_comment P t' [] (by
    intro j _ hj'
    have := hpre j (by simp; omega)
    rw [commentCloses_eq] at this
    simpa [List.take_append_of_le_length hj'] using this)
  rw [cstateR_nil] at h1
  rw [scan_append, h1]
  simp only [scan, List.foldl_cons, List.foldl_nil, List.append_nil]
  rw [step_comment]
  rw [commentCloses_eq] at hc
  simp only [List.reverse_append, List.reverse_cons, List.reverse_nil, List.nil_append, List.singleton_append] at hc
  simp [hc]

def sCommentOpen : Bytes := [60, 33, 45, 45]

theorem scan_comment_open (P : Params) : scan P .data sCommentOpen = .comment 0 true := rfl

theorem prescan_of_scan_eq (P : Params) (a b : Bytes) (h : scan P .data a = scan P .data b) (post : Bytes) :
    prescan P (a ++ post) = prescan P (b ++ post) := by
  unfold prescan
  rw [scan_append, scan_append, h]

/-- **prescan_ignores_comments**: a comment anywhere in the text flow is invisible to the prescan,
whatever it holds. -/
theorem prescan_ignores_comments (P : Params) (pre t post : Bytes) (hpre : scan P .data pre = .data)
    (ht : CommentEnd t = true) :
    prescan P (pre ++ sCommentOpen ++ t ++ post) = prescan P (pre ++ post) := by
  apply prescan_of_scan_eq
  rw [scan_append, scan_append, hpre, scan_comment_open, comment_skipped P t ht]

/-! ### raw-text elements and script -/

theorem raw_stays (P : Params) (tag b : Bytes) (h : hasPair 60 47 b = false) :
    (scan P (.raw tag) b = .raw tag ∨ scan P (.raw tag) b = .rawLt tag) ∧
    (b.head? ≠ some 47 → scan P (.rawLt tag) b = .raw tag ∨ scan P (.rawLt tag) b = .rawLt tag) := by
  induction b with
  | nil => simp [scan]
  | cons c cs ih =>
    have hcs : hasPair 60 47 cs = false := by
      cases cs with
      | nil => rfl
      | cons d ds => simp only [hasPair, Bool.or_eq_false_iff] at h; exact h.2
    have hhead : c = 60 → cs.head? ≠ some 47 := by
      intro hc
      cases cs with
      | nil => simp
      | cons d ds =>
        simp only [hasPair, Bool.or_eq_false_iff, Bool.and_eq_false_iff] at h
        intro hd
        simp only [List.head?_cons, Option.some.injEq] at hd
        rcases h.1 with h1 | h1
        · simp [hc] at h1
        · simp [hd] at h1
    have ih' := ih hcs
    have key : ∀ s, (s = St.raw tag ∨ (s = St.rawLt tag ∧ c ≠ 47)) →
        scan P s (c :: cs) = .raw tag ∨ scan P s (c :: cs) = .rawLt tag := by
      intro s hs
      have hstep : step P s c = (if c = 60 then St.rawLt tag else St.raw tag) := by
        rcases hs with rfl | ⟨rfl, hc⟩
        · by_cases h60 : c = 60 <;> simp [step, rawData, h60]
        · by_cases h60 : c = 60 <;> simp [step, rawData, h60, hc]
      simp only [scan, List.foldl_cons, hstep]
      by_cases h60 : c = 60
      · simp only [h60, if_true]
        exact ih'.2 (hhead h60)
      · simp only [h60, if_false]
        exact ih'.1
    refine ⟨key _ (Or.inl rfl), ?_⟩
    intro hne
    exact key _ (Or.inr ⟨rfl, by simpa using hne⟩)

/-- the end tag `</tag>` -/
def endTag (tag : Bytes) : Bytes := [60, 47] ++ tag ++ [62]

theorem raw_close (P : Params) (tag : Bytes) (htag : tag ∈ rawTags) :
    scan P (.raw tag) (endTag tag) = .data ∧ scan P (.rawLt tag) (endTag tag) = .data := by
  simp only [rawTags, List.mem_cons, List.mem_nil_iff, or_false] at htag
  rcases htag with rfl | rfl | rfl | rfl | rfl | rfl | rfl | rfl <;> exact ⟨rfl, rfl⟩

/-- **rawtext_skipped**: from the start tag of a raw-text / RCDATA element to its end tag nothing
is tokenized, for every content without `</`. -/
theorem rawtext_skipped (P : Params) (tag b : Bytes) (htag : tag ∈ rawTags) (h : hasPair 60 47 b = false) :
    scan P (.raw tag) (b ++ endTag tag) = .data := by
  rw [scan_append]
  rcases (raw_stays P tag b h).1 with h1 | h1 <;> rw [h1]
  · exact (raw_close P tag htag).1
  · exact (raw_close P tag htag).2

theorem script_stays (P : Params) (b : Bytes) (h1 : hasPair 60 47 b = false) (h2 : hasPair 60 33 b = false) :
    (scan P (.script .data) b = .script .data ∨ scan P (.script .data) b = .script .lt) ∧
    ((b.head? ≠ some 47 ∧ b.head? ≠ some 33) →
      scan P (.script .lt) b = .script .data ∨ scan P (.script .lt) b = .script .lt) := by
  induction b with
  | nil => simp [scan]
  | cons c cs ih =>
    have tailF : ∀ y, hasPair 60 y (c :: cs) = false → hasPair 60 y cs = false := by
      intro y h
      cases cs with
      | nil => rfl
      | cons d ds => simp only [hasPair, Bool.or_eq_false_iff] at h; exact h.2
    have headF : ∀ y, hasPair 60 y (c :: cs) = false → c = 60 → cs.head? ≠ some y := by
      intro y h hc
      cases cs with
      | nil => simp
      | cons d ds =>
        simp only [hasPair, Bool.or_eq_false_iff, Bool.and_eq_false_iff] at h
        intro hd
        simp only [List.head?_cons, Option.some.injEq] at hd
        rcases h.1 with g | g
        · simp [hc] at g
        · simp [hd] at g
    have ih' := ih (tailF 47 h1) (tailF 33 h2)
    have key : ∀ s, (s = St.script .data ∨ (s = St.script .lt ∧ c ≠ 47 ∧ c ≠ 33)) →
        scan P s (c :: cs) = .script .data ∨ scan P s (c :: cs) = .script .lt := by
      intro s hs
      have hstep : step P s c = (if c = 60 then St.script .lt else St.script .data) := by
        rcases hs with rfl | ⟨rfl, hc, hc'⟩
        · by_cases h60 : c = 60 <;> simp [step, scStep, scData, h60]
        · by_cases h60 : c = 60 <;> simp [step, scStep, scData, h60, hc, hc']
      simp only [scan, List.foldl_cons, hstep]
      by_cases h60 : c = 60
      · simp only [h60, if_true]
        exact ih'.2 ⟨headF 47 h1 h60, headF 33 h2 h60⟩
      · simp only [h60, if_false]
        exact ih'.1
    refine ⟨key _ (Or.inl rfl), ?_⟩
    intro hne
    exact key _ (Or.inr ⟨rfl, by simpa using hne.1, by simpa using hne.2⟩)

/-- **script_skipped**: script content without `</` and `<!` up to `</script>` is skipped. -/
theorem script_skipped (P : Params) (b : Bytes) (h1 : hasPair 60 47 b = false) (h2 : hasPair 60 33 b = false) :
    scan P (.script .data) (b ++ endTag sScript) = .data := by
  rw [scan_append]
  rcases (script_stays P b h1 h2).1 with h | h <;> rw [h] <;> rfl

/-- a start tag without attributes: `<tag>` -/
def startTag (tag : Bytes) : Bytes := [60] ++ tag ++ [62]

theorem scan_raw_open (P : Params) (tag : Bytes) (htag : tag ∈ rawTags) :
    scan P .data (startTag tag) = .raw tag := by
  simp only [rawTags, List.mem_cons, List.mem_nil_iff, or_false] at htag
  rcases htag with rfl | rfl | rfl | rfl | rfl | rfl | rfl | rfl <;> rfl

theorem scan_script_open (P : Params) : scan P .data (startTag sScript) = .script .data := rfl

/-- **prescan_ignores_rawtext**: `<title>…</title>`, `<textarea>…</textarea>`, `<style>…</style>`, … -/
theorem prescan_ignores_rawtext (P : Params) (pre tag b post : Bytes) (hpre : scan P .data pre = .data)
    (htag : tag ∈ rawTags) (h : hasPair 60 47 b = false) :
    prescan P (pre ++ startTag tag ++ (b ++ endTag tag) ++ post) = prescan P (pre ++ post) := by
  apply prescan_of_scan_eq
  rw [scan_append P .data (pre ++ startTag tag), scan_append P .data pre, hpre, scan_raw_open P tag htag,
    rawtext_skipped P tag b htag h]

/-- **prescan_ignores_script** -/
theorem prescan_ignores_script (P : Params) (pre b post : Bytes) (hpre : scan P .data pre = .data)
    (h1 : hasPair 60 47 b = false) (h2 : hasPair 60 33 b = false) :
    prescan P (pre ++ startTag sScript ++ (b ++ endTag sScript) ++ post) = prescan P (pre ++ post) := by
  apply prescan_of_scan_eq
  rw [scan_append P .data (pre ++ startTag sScript), scan_append P .data pre, hpre, scan_script_open,
    script_skipped P b h1 h2]

/-! ### quoted attribute values, open-ended regions -/

/-- **quoted_value_opaque**: inside a quoted attribute value nothing is tokenized until the same quote. -/
theorem quoted_value_opaque (P : Params) (t : Tag) (key val b : Bytes) (q : UInt8) (h : ∀ c ∈ b, c ≠ q) :
    scan P (.valQ t key q val) b = .valQ t key q (val ++ b) := by
  induction b generalizing val with
  | nil => simp [scan]
  | cons c cs ih =>
    have hc : c ≠ q := h c List.mem_cons_self
    have hs : step P (.valQ t key q val) c = .valQ t key q (val ++ [c]) := by simp [step, hc]
    simp only [scan, List.foldl_cons, hs]
    have := ih (val ++ [c]) (fun x hx => h x (List.mem_cons_of_mem _ hx))
    simpa [scan, List.append_assoc] using this

/-- **unterminated_comment_swallows**: a comment that is never closed hides everything after `<!--`. -/
theorem unterminated_comment_swallows (P : Params) (pre t : Bytes) (hpre : scan P .data pre = .data)
    (h : ∀ k, k ≤ t.length → commentCloses (t.take k) = false) :
    prescan P (pre ++ sCommentOpen ++ t) = none := by
  have h1 := scan_comment P t [] (by
    intro k _ hk
    have := h k hk
    rw [commentCloses_eq] at this
    simpa using this)
  unfold prescan
  rw [scan_append, scan_append, hpre, scan_comment_open, ← cstateR_nil, h1]
  rcases cstateR_comment (t.reverse ++ []) with h2 | ⟨d, b, h2⟩ <;> rw [h2]

theorem plaintext_absorbing (P : Params) (b : Bytes) : scan P .plaintext b = .plaintext := by
  induction b with
  | nil => rfl
  | cons c cs ih => simpa [scan, step] using ih

/-! ### raw text: the WHATWG rule — the element ends at the FIRST `</name` followed by white space, `/` or `>` -/

/-- the scanner is inside the raw text of `tag` -/
def RawClass (tag : Bytes) (s : St) : Prop := s = .raw tag ∨ s = .rawLt tag ∨ ∃ i, s = .rawEnd tag i

/-- outcome of scanning `t` from state `s`, against the spec's answer for the text seen from `.raw` -/
def Agrees (P : Params) (tag : Bytes) (s : St) (t : Bytes) : Prop :=
  match rawSplit tag t with
  | some (e, rest) => scan P s t = scan P (afterRawEnd e) rest
  | none => RawClass tag (scan P s t)

theorem nameAt_length (ts t : Bytes) (e : UInt8) (rest : Bytes) (h : nameAt ts t = some (e, rest)) :
    rest.length < t.length := by
  induction ts generalizing t with
  | nil =>
    cases t with
    | nil => simp [nameAt] at h
    | cons c cs =>
      simp only [nameAt] at h
      split at h
      · simp only [Option.some.injEq, Prod.mk.injEq] at h; rw [← h.2]; simp
      · simp at h
  | cons x xs ih =>
    cases t with
    | nil => simp [nameAt] at h
    | cons c cs =>
      simp only [nameAt] at h
      split at h
      · have := ih cs h; simp; omega
      · simp at h

/-- a name byte is not `<` -/
def NameOk (tag : Bytes) : Prop := ∀ x ∈ tag, x ≠ 60 ∧ x - 32 ≠ 60

theorem raw_step_ne (P : Params) (tag : Bytes) (c : UInt8) (h : c ≠ 60) : step P (.raw tag) c = .raw tag := by
  simp [step, rawData, h]

theorem rawSplit_cons_ne (tag : Bytes) (c : UInt8) (rest : Bytes) (h : c ≠ 60) :
    rawSplit tag (c :: rest) = rawSplit tag rest := by
  simp [rawSplit, h]

theorem agrees_raw_cons_ne (P : Params) (tag : Bytes) (c : UInt8) (rest : Bytes) (h : c ≠ 60)
    (s : St) (hs : step P s c = .raw tag) (hr : Agrees P tag (.raw tag) rest) : Agrees P tag s (c :: rest) := by
  unfold Agrees at hr ⊢
  rw [rawSplit_cons_ne tag c rest h]
  simp only [scan, List.foldl_cons, hs]
  exact hr

/-- in the middle of a candidate end tag (`i` bytes of the name matched, `tag.drop i` to go) -/
theorem rawEnd_agrees (P : Params) (tag : Bytes) (hok : NameOk tag) (n : Nat)
    (ih : ∀ t, t.length < n → Agrees P tag (.raw tag) t) :
    ∀ (k i : Nat) (t : Bytes), tag.length - i = k → i ≤ tag.length → t.length < n →
      (∀ e rest, nameAt (tag.drop i) t = some (e, rest) → scan P (.rawEnd tag i) t = scan P (afterRawEnd e) rest) ∧
      (nameAt (tag.drop i) t = none → Agrees P tag (.rawEnd tag i) t) := by
  intro k
  induction k with
  | zero =>
    intro i t hk hi hn
    have hi' : i = tag.length := by omega
    have hdrop : tag.drop i = [] := by simp [hi']
    have hget : tag[i]? = none := by simp [hi']
    rw [hdrop]
    cases t with
    | nil =>
      refine ⟨by intro e rest h; simp [nameAt] at h, ?_⟩
      intro _
      simp only [Agrees, rawSplit, scan, List.foldl_nil]
      exact Or.inr (Or.inr ⟨i, rfl⟩)
    | cons c cs =>
      have hstep : step P (.rawEnd tag i) c = if isTagEnd c then afterRawEnd c else rawData tag c := by
        simp [step, rawEndStep, hget]
      constructor
      · intro e rest h
        simp only [nameAt] at h
        split at h
        · next hte =>
          simp only [Option.some.injEq, Prod.mk.injEq] at h
          obtain ⟨rfl, rfl⟩ := h
          simp [scan, hstep, hte]
        · simp at h
      · intro h
        simp only [nameAt] at h
        split at h
        · simp at h
        · next hte =>
          have hc : step P (.rawEnd tag i) c = step P (.raw tag) c := by
            rw [hstep]; simp [hte, step]
          have := ih (c :: cs) hn
          unfold Agrees at this ⊢
          simp only [scan, List.foldl_cons, hc] at this ⊢
          exact this
  | succ k ihk =>
    intro i t hk hi hn
    have hlt : i < tag.length := by omega
    have hdrop : tag.drop i = tag[i] :: tag.drop (i + 1) := by
      rw [List.drop_eq_getElem_cons hlt]
    have hget : tag[i]? = some tag[i] := by simp [hlt]
    rw [hdrop]
    cases t with
    | nil =>
      refine ⟨by intro e rest h; simp [nameAt] at h, ?_⟩
      intro _
      simp only [Agrees, rawSplit, scan, List.foldl_nil]
      exact Or.inr (Or.inr ⟨i, rfl⟩)
    | cons c cs =>
      have hstep : step P (.rawEnd tag i) c = if ciMatch tag[i] c then .rawEnd tag (i + 1) else rawData tag c := by
        simp [step, rawEndStep, hget, ciMatch]
      have hcs : cs.length < n := by simp at hn; omega
      have hrec := ihk (i + 1) cs (by omega) (by omega) hcs
      constructor
      · intro e rest h
        simp only [nameAt] at h
        split at h
        · next hm =>
          simp only [scan, List.foldl_cons, hstep, hm, if_true]
          exact hrec.1 e rest h
        · simp at h
      · intro h
        simp only [nameAt] at h
        split at h
        · next hm =>
          -- the byte matched the name: it is not `<`, the spec skips it too
          have hne : c ≠ 60 := by
            have := hok tag[i] (List.getElem_mem hlt)
            simp only [ciMatch, Bool.or_eq_true, beq_iff_eq] at hm
            rcases hm with rfl | rfl
            · exact this.1
            · exact this.2
          have := hrec.2 h
          unfold Agrees at this ⊢
          rw [rawSplit_cons_ne tag c cs hne]
          simp only [scan, List.foldl_cons, hstep, hm, if_true]
          exact this
        · next hm =>
          have hc : step P (.rawEnd tag i) c = step P (.raw tag) c := by
            rw [hstep]; simp [hm, step]
          have := ih (c :: cs) hn
          unfold Agrees at this ⊢
          simp only [scan, List.foldl_cons, hc] at this ⊢
          exact this

theorem raw_agrees (P : Params) (tag : Bytes) (hok : NameOk tag) : ∀ (n : Nat) (t : Bytes), t.length < n → Agrees P tag (.raw tag) t := by
  intro n
  induction n with
  | zero => intro t h; omega
  | succ n ih =>
    intro t hn
    cases t with
    | nil =>
      simp only [Agrees, rawSplit, scan, List.foldl_nil]
      exact Or.inl rfl
    | cons c rest =>
      have hrest : rest.length < n := by simp at hn; omega
      by_cases hc : c = 60
      · subst hc
        -- `<`: a candidate
        have hstep : step P (.raw tag) 60 = .rawLt tag := by simp [step, rawData]
        cases rest with
        | nil =>
          simp only [Agrees, rawSplit, endTagAt, scan, List.foldl_cons, List.foldl_nil, hstep]
          simp
          exact Or.inr (Or.inl rfl)
        | cons d ds =>
          have hds : ds.length < n := by simp at hrest; omega
          by_cases hd : d = 47
          · subst hd
            have hstep2 : step P (.rawLt tag) 47 = .rawEnd tag 0 := by simp [step]
            have hE := rawEnd_agrees P tag hok n ih (tag.length - 0) 0 ds rfl (by omega) hds
            simp only [List.drop_zero] at hE
            unfold Agrees
            cases hna : nameAt tag ds with
            | some r =>
              obtain ⟨e, rest'⟩ := r
              have : rawSplit tag (60 :: 47 :: ds) = some (e, rest') := by simp [rawSplit, endTagAt, hna]
              rw [this]
              simp only [scan, List.foldl_cons, hstep, hstep2]
              exact hE.1 e rest' hna
            | none =>
              have h47 : (47 : UInt8) ≠ 60 := by decide
              have : rawSplit tag (60 :: 47 :: ds) = rawSplit tag ds := by
                simp [rawSplit, endTagAt, hna]
              rw [this]
              have := hE.2 hna
              unfold Agrees at this
              simp only [scan, List.foldl_cons, hstep, hstep2]
              exact this
          · -- `<` + something else: the scanner is where `.raw` would be after that byte
            have hstep2 : step P (.rawLt tag) d = step P (.raw tag) d := by simp [step, hd]
            have hsp : rawSplit tag (60 :: d :: ds) = rawSplit tag (d :: ds) := by
              simp [rawSplit, endTagAt, hd]
            have := ih (d :: ds) hrest
            unfold Agrees at this ⊢
            rw [hsp]
            simp only [scan, List.foldl_cons, hstep, hstep2] at this ⊢
            exact this
      · exact agrees_raw_cons_ne P tag c rest hc _ (raw_step_ne P tag c hc) (ih rest hrest)


theorem rawTags_nameOk (tag : Bytes) (htag : tag ∈ rawTags) : NameOk tag := by
  simp only [rawTags, List.mem_cons, List.mem_nil_iff, or_false] at htag
  rcases htag with rfl | rfl | rfl | rfl | rfl | rfl | rfl | rfl <;> (unfold NameOk; decide)

/-- **rawtext_ends_at_first_end_tag** (WHATWG RCDATA / RAWTEXT end tag rule): ∀ text after the start
tag of `title textarea style xmp iframe noembed noframes noscript`: if the text holds an end tag of
the element — `</name` in any case followed by white space, `/` or `>` — the scanner reaches the
FIRST such place having tokenized nothing before it (and goes on behind the delimiter as after
`</name`); if it holds none, the scanner is still inside the raw text at the end. -/
theorem rawtext_ends_at_first_end_tag (P : Params) (tag t : Bytes) (htag : tag ∈ rawTags) :
    match rawSplit tag t with
    | some (e, rest) => scan P (.raw tag) t = scan P (afterRawEnd e) rest
    | none => RawClass tag (scan P (.raw tag) t) :=
  raw_agrees P tag (rawTags_nameOk tag htag) (t.length + 1) t (by omega)

/-- **prescan_rawtext_spec**: the element's content up to its first end tag `</name>` is invisible … -/
theorem prescan_rawtext_spec (P : Params) (pre tag t rest : Bytes) (hpre : scan P .data pre = .data)
    (htag : tag ∈ rawTags) (h : rawSplit tag t = some (62, rest)) :
    prescan P (pre ++ startTag tag ++ t) = prescan P (pre ++ rest) := by
  have hs := rawtext_ends_at_first_end_tag P tag t htag
  rw [h] at hs
  unfold prescan
  rw [scan_append P .data (pre ++ startTag tag), scan_append P .data pre, hpre, scan_raw_open P tag htag, hs,
    scan_append, hpre]
  rfl

/-- … and an element that is never closed swallows the rest of the document. -/
theorem unterminated_rawtext_swallows (P : Params) (pre tag t : Bytes) (hpre : scan P .data pre = .data)
    (htag : tag ∈ rawTags) (h : rawSplit tag t = none) :
    prescan P (pre ++ startTag tag ++ t) = none := by
  have hs := rawtext_ends_at_first_end_tag P tag t htag
  rw [h] at hs
  unfold prescan
  rw [scan_append P .data (pre ++ startTag tag), scan_append P .data pre, hpre, scan_raw_open P tag htag]
  rcases hs with h2 | h2 | ⟨i, h2⟩ <;> rw [h2]

/-- A region of the document in which the text of a meta tag is not a declaration (WHATWG). -/
inductive Hidden : Bytes → Prop where
  | comment (t : Bytes) (h : CommentEnd t = true) : Hidden (sCommentOpen ++ t)
  | rawtext (tag b : Bytes) (htag : tag ∈ rawTags) (h : hasPair 60 47 b = false) :
      Hidden (startTag tag ++ (b ++ endTag tag))
  | script (b : Bytes) (h1 : hasPair 60 47 b = false) (h2 : hasPair 60 33 b = false) :
      Hidden (startTag sScript ++ (b ++ endTag sScript))
  /-- raw text by the WHATWG rule: `t` ends with its FIRST end tag `</name>` (any case) -/
  | rawspec (tag t : Bytes) (htag : tag ∈ rawTags) (h : rawSplit tag t = some (62, [])) :
      Hidden (startTag tag ++ t)

theorem hidden_skipped (P : Params) (x : Bytes) (h : Hidden x) : scan P .data x = .data := by
  cases h with
  | comment t h => rw [scan_append, scan_comment_open, comment_skipped P t h]
  | rawtext tag b htag h => rw [scan_append, scan_raw_open P tag htag, rawtext_skipped P tag b htag h]
  | script b h1 h2 => rw [scan_append, scan_script_open, script_skipped P b h1 h2]
  | rawspec tag t htag h =>
    have hs := rawtext_ends_at_first_end_tag P tag t htag
    rw [h] at hs
    rw [scan_append, scan_raw_open P tag htag, hs]
    rfl

/-- **prescan_ignores_comments_and_rawtext**: ANY number of comments, raw-text elements and scripts,
each followed by text without markup, in front of the rest of the document: the prescan answers as
if they were not there — no declaration is ever taken from inside them. -/
theorem prescan_ignores_comments_and_rawtext (P : Params) (regions : List (Bytes × Bytes)) (post : Bytes)
    (hr : ∀ x ∈ regions, Hidden x.1 ∧ ∀ c ∈ x.2, c ≠ 60) :
    prescan P ((regions.map fun x => x.1 ++ x.2).flatten ++ post) = prescan P post := by
  have : scan P .data (regions.map fun x => x.1 ++ x.2).flatten = .data := by
    induction regions with
    | nil => rfl
    | cons x xs ih =>
      have hx := hr x List.mem_cons_self
      simp only [List.map_cons, List.flatten_cons]
      rw [scan_append, scan_append, hidden_skipped P x.1 hx.1, scan_no_lt P x.2 hx.2]
      exact ih fun y hy => hr y (List.mem_cons_of_mem _ hy)
  have := prescan_of_scan_eq P _ [] (by rw [this]; rfl) post
  simpa using this

/-! #### non-vacuity: the pages of seed C15-r5-3 -/

private def gbk' : Bytes := [103, 98, 107]
private def demoP' : Params := ⟨fun l => if l = gbk' then some gbk' else none, id⟩
-- `<meta charset="gbk">`
private def metaGbk' : Bytes := [60, 109, 101, 116, 97, 32, 99, 104, 97, 114, 115, 101, 116, 61, 34, 103, 98, 107, 34, 62]
-- ` <meta charset="gbk"> -->`, ` x--!>`, `>`
example : CommentEnd ([32] ++ metaGbk' ++ [32, 45, 45, 62]) = true := by decide
example : CommentEnd [32, 120, 45, 45, 33, 62] = true := by decide
example : CommentEnd [62] = true := by decide
example : CommentEnd [45, 45, 45, 62] = true := by decide
-- not complete: `->` after text, `-- >`; over-long: text after the first `-->`
example : CommentEnd [120, 45, 62] = false := by decide
example : CommentEnd [120, 45, 45, 32, 62] = false := by decide
example : CommentEnd [45, 45, 62, 120, 45, 45, 62] = false := by decide
example : prescan demoP' metaGbk' = some gbk' := by decide
example : prescan demoP' (sCommentOpen ++ ([32] ++ metaGbk' ++ [32, 45, 45, 62]) ++ [120]) = none := by decide
example : prescan demoP' (sCommentOpen ++ ([32] ++ metaGbk' ++ [32, 45, 45, 62]) ++ metaGbk') = some gbk' := by decide
example : hasPair 60 47 ([118, 97, 114, 32, 97, 61, 39] ++ metaGbk' ++ [39]) = false := by decide
example : prescan demoP' (startTag sScript ++ (metaGbk' ++ endTag sScript) ++ [120]) = none := by decide
example : prescan demoP' (startTag [116, 101, 120, 116, 97, 114, 101, 97] ++ (metaGbk' ++ endTag [116, 101, 120, 116, 97, 114, 101, 97])) = none := by decide
example : Hidden (sCommentOpen ++ ([32] ++ metaGbk' ++ [32, 45, 45, 62])) := .comment _ (by decide)
-- `<title>` … `</b></titl></titlex>` + look-alike + `</TITLE>`: near-miss end tags do not end the element
private def sTitle : Bytes := [116, 105, 116, 108, 101]
private def nearMiss : Bytes :=
  [60, 47, 98, 62, 60, 47, 116, 105, 116, 108, 62, 60, 47, 116, 105, 116, 108, 101, 120, 62] ++ metaGbk' ++ [60, 47, 84, 73, 84, 76, 69, 62]
example : rawSplit sTitle (nearMiss ++ [120]) = some (62, [120]) := by decide
example : rawSplit sTitle nearMiss = some (62, []) := by decide
example : Hidden (startTag sTitle ++ nearMiss) := .rawspec sTitle nearMiss (by decide) (by decide)
example : prescan demoP' (startTag sTitle ++ nearMiss ++ metaGbk') = some gbk' := by decide
example : rawSplit sTitle ([60, 47, 116, 105, 116, 108, 101] ++ metaGbk') = none := by decide
-- a quoted attribute value
example : prescan demoP' ([60, 97, 32, 98, 61, 34] ++ [60, 109, 101, 116, 97, 32, 99, 104, 97, 114, 115, 101, 116, 61, 103, 98, 107, 62] ++ [34, 62]) = none := by decide

/-! ### a body declared utf-8 is delivered as it is -/

variable {σ : Type}

/-- **utf8_declared_is_identity**: ∀ body — with or without a byte-order mark, well-formed UTF-8 or
not, text or binary — under a Content-Type whose charset says utf-8: read to EOF, the caller has
exactly the body (nothing stripped, nothing replaced), for every split and every buffer sequence. -/
theorem utf8_declared_is_identity (cfg : Config) (ae ct cs : Bytes) (lookup : Bytes → Option (Decoder σ))
    (find : Bytes → Option (Decoder σ)) (hutf : isUtf8Label (Req.Ascii.lower cs) = true)
    (src : Src) (bufs : List Nat)
    (heof : (respReads cfg ae ct (.charset cs) lookup find src bufs).term = some .eof) :
    (respReads cfg ae ct (.charset cs) lookup find src bufs).out = src.body := by
  have hu := utf8_identity cfg ae ct cs lookup find hutf src bufs
  rw [hu.2] at heof
  rw [hu.1]
  exact rawReads_eof bufs src heof

/-- … and it arrives completely after finitely many reads. -/
theorem utf8_declared_fully_delivered (cfg : Config) (ae ct cs : Bytes) (lookup : Bytes → Option (Decoder σ))
    (find : Bytes → Option (Decoder σ)) (hutf : isUtf8Label (Req.Ascii.lower cs) = true)
    (src : Src) (hsrc : src.term = .eof) (L : Nat) (hL : 0 < L) :
    ∃ n, (respReads cfg ae ct (.charset cs) lookup find src (List.replicate n L)).term = some .eof ∧
      (respReads cfg ae ct (.charset cs) lookup find src (List.replicate n L)).out = src.body := by
  obtain ⟨n, hn⟩ := response_reaches_end cfg ae ct (.charset cs) lookup find src L hL
  rw [hsrc] at hn
  exact ⟨n, hn, utf8_declared_is_identity cfg ae ct cs lookup find hutf src _ hn⟩

-- `UTF-8`, `utf8`, `x-utf-8-strict` are utf-8 labels; the body EF BB BF FF 00 (BOM + invalid + NUL) in
-- two segments comes back as it is even when a lookup would know a decoder for the label
example : isUtf8Label (Req.Ascii.lower [85, 84, 70, 45, 56]) = true := by decide
example : isUtf8Label (Req.Ascii.lower [117, 116, 102, 56]) = true := by decide
example : (respReads ⟨false, none⟩ [] [116, 101, 120, 116] (.charset [85, 84, 70, 45, 56]) (fun _ => some latin1) demoFind
    ⟨[[0xef, 0xbb], [0xbf, 0xff, 0x00]], .eof, false⟩ [2, 8, 8, 8]).out = [0xef, 0xbb, 0xbf, 0xff, 0x00] := by decide

/-! ### where the first network read ends does not matter -/

/-- the body arrives in two network reads, the first one `k` bytes long -/
def cutSrc (body : Bytes) (k : Nat) (lwt : Bool) : Src := ⟨[body.take k, body.drop k], .eof, lwt⟩

theorem cutSrc_body (body : Bytes) (k : Nat) (lwt : Bool) : (cutSrc body k lwt).body = body := by
  simp [cutSrc, Src.body]

theorem take_prefix (body : Bytes) (m n : Nat) (h : m ≤ n) : ∃ rest, body.take n = body.take m ++ rest := by
  refine ⟨(body.drop m).take (n - m), ?_⟩
  have : n = m + (n - m) := by omega
  rw [this, List.take_add]
  simp

theorem sniffed_cutSrc (body : Bytes) (k L0 : Nat) (lwt : Bool) (Ls : List Nat)
    (hne : body.take (min k L0) ≠ []) :
    sniffed (cutSrc body k lwt) (L0 :: Ls) = some (body.take (min k L0)) := by
  have hL0 : L0 ≠ 0 := by intro h; simp [h] at hne
  have hout : ((cutSrc body k lwt).read L0).out = body.take (min k L0) ∧ ((cutSrc body k lwt).read L0).term = none := by
    simp only [cutSrc, Src.read, hL0, if_false]
    split <;> simp [List.take_take, Nat.min_comm]
  unfold sniffed
  have hns : noSniff ((cutSrc body k lwt).read L0) = false := by
    simp [noSniff, hout.1, hout.2, hne]
  simp [hns, hout.1]

/-- **first_read_boundary_irrelevant**: the declaration (byte-order mark or complete meta tag) lies
within the first `m` bytes of the body.  Then for EVERY offset `k ≥ m` at which the first network
read ends — between the bytes of a multi-byte character just as well — and every first caller
buffer of at least `m` bytes, the body read to EOF is the complete decode of the whole body by the
declared charset's decoder. -/
theorem first_read_boundary_irrelevant (P : Params) (decOf : Bytes → Decoder σ)
    (hlaw : ∀ n, (decOf n).Lawful) (body : Bytes) (m : Nat) (d : Decoder σ)
    (hm : findC P decOf (body.take m) = some d)
    (k L0 : Nat) (hk : m ≤ k) (hL : m ≤ L0) (lwt : Bool) (Ls : List Nat)
    (heof : (autoReads (findC P decOf) (cutSrc body k lwt) (L0 :: Ls)).term = some .eof) :
    (autoReads (findC P decOf) (cutSrc body k lwt) (L0 :: Ls)).out = d.decodeAll body := by
  have hmne : body.take m ≠ [] := by
    intro h0
    rw [h0] at hm
    simp [findC, findEncoding] at hm
  obtain ⟨rest, hrest⟩ := take_prefix body m (min k L0) (by omega)
  have hne : body.take (min k L0) ≠ [] := by
    rw [hrest]
    simp [hmne]
  have hs := sniffed_cutSrc body k L0 lwt Ls hne
  have hf : findC P decOf (body.take (min k L0)) = some d := by
    rw [hrest]; exact findC_prefix P decOf _ rest d hm
  have hl : ∀ c d, findC P decOf c = some d → d.Lawful := by
    intro c d' h
    obtain ⟨n, rfl⟩ := findC_is_decOf P decOf c d' h
    exact hlaw n
  have := outcome_by_sniff (findC P decOf) hl (cutSrc body k lwt) (L0 :: Ls) heof
  rw [hs] at this
  simp only [Option.bind_some, hf, cutSrc_body] at this
  exact this

/-- … with liveness: finitely many reads with buffers of `L ≥ m` bytes deliver exactly that. -/
theorem first_read_boundary_fully_delivered (P : Params) (decOf : Bytes → Decoder σ)
    (hlaw : ∀ n, (decOf n).Lawful) (body : Bytes) (m : Nat) (d : Decoder σ)
    (hm : findC P decOf (body.take m) = some d) (k L : Nat) (hk : m ≤ k) (hL : m ≤ L) (lwt : Bool) :
    ∃ n, (autoReads (findC P decOf) (cutSrc body k lwt) (List.replicate n L)).term = some .eof ∧
      (autoReads (findC P decOf) (cutSrc body k lwt) (List.replicate n L)).out = d.decodeAll body := by
  have hm0 : 0 < m := by
    rcases Nat.eq_zero_or_pos m with h0 | h0
    · subst h0; simp [findC, findEncoding] at hm
    · exact h0
  have hl : ∀ c d, findC P decOf c = some d → d.Lawful := by
    intro c d' h
    obtain ⟨n, rfl⟩ := findC_is_decOf P decOf c d' h
    exact hlaw n
  obtain ⟨n, hn, _⟩ := body_fully_delivered (findC P decOf) hl (cutSrc body k lwt) rfl L (by omega)
  cases n with
  | zero => simp [autoReads, reads] at hn
  | succ n' =>
    refine ⟨n' + 1, hn, ?_⟩
    rw [List.replicate_succ] at hn ⊢
    exact first_read_boundary_irrelevant P decOf hlaw body m d hm k L hk hL lwt _ hn

/-- **first_read_boundary_irrelevant_header**: a charset named by the Content-Type header — for
every cut offset and every buffer sequence. -/
theorem first_read_boundary_irrelevant_header (cfg : Config) (ct cs : Bytes) (lookup : Bytes → Option (Decoder σ))
    (find : Bytes → Option (Decoder σ)) (d : Decoder σ) (hl : d.Lawful)
    (hon : cfg.disable = false) (hsel : shouldDecode cfg ct = true)
    (hutf : isUtf8Label (Req.Ascii.lower cs) = false) (hlk : lookup (Req.Ascii.lower cs) = some d)
    (body : Bytes) (k : Nat) (lwt : Bool) (bufs : List Nat)
    (heof : (respReads cfg [] ct (.charset cs) lookup find (cutSrc body k lwt) bufs).term = some .eof) :
    (respReads cfg [] ct (.charset cs) lookup find (cutSrc body k lwt) bufs).out = d.decodeAll body := by
  have := header_charset_always_applied cfg ct cs lookup find d hl hon hsel hutf hlk (cutSrc body k lwt) bufs heof
  rwa [cutSrc_body] at this

-- the UTF-16LE body FF FE 68 00 3D D8 00 DE (BOM, 'h', U+1F600) cut at EVERY offset 2..8 — inside the
-- code unit of 'h', between and inside the surrogate halves — read with a 4-byte first buffer
example : (List.range 7).all (fun i =>
    (autoReads demoFind (cutSrc [0xff, 0xfe, 0x68, 0x00, 0x3d, 0xd8, 0x00, 0xde] (i + 2) false) [4, 3, 3, 3, 3, 3, 3]).out
      == [0xef, 0xbb, 0xbf, 0x68, 0xf0, 0x9f, 0x98, 0x80]) = true := by decide

end Req.Props.C15
