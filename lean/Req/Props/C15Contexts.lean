import Req.Props.C15Live
/-!
C15, round 5 — the contexts in which the text of a `<meta>` tag is NOT a declaration, the identity on
bodies declared utf-8, and the irrelevance of where the first network read ends.

* `commentCloses` / `CommentEnd`: the WHATWG rule for the end of a comment, stated on the TEXT (no
  automaton): the text after `<!--` ends the comment as soon as it is exactly `>` or `->` (abrupt
  closing of an empty comment) or ends in `-->` or `--!>`;
  `comment_skipped`: ∀ text with `CommentEnd`, the scanner is back in the data state after it, and
  `comment_interior_opaque`: in the middle of it the scanner is in a comment state — whatever the
  text contains (`<meta charset=gbk>`, quotes, `<script>` …);
* `prescan_ignores_comments`: ∀ pre, comment text, post: `prescan (pre ++ "<!--" ++ t ++ post) =
  prescan (pre ++ post)` when `pre` leaves the scanner in the data state;
* `rawtext_skipped`, `script_skipped`: the content of `<title> <textarea> <style> <xmp> <iframe>
  <noembed> <noframes> <noscript>` and of `<script>` that holds no `</` (and, for script, no `<!`)
  followed by the element's end tag is skipped, whatever else it contains;
  `prescan_ignores_rawtext`, `prescan_ignores_script`;
* `prescan_ignores_comments_and_rawtext`: the three together, for any number of such regions;
* `utf8_declared_is_identity`: ∀ body (byte-order mark, invalid sequences, binary): a Content-Type
  that says utf-8 delivers exactly the body; `utf8_declared_fully_delivered` adds liveness;
* `first_read_boundary_irrelevant`: the declaration lies in the first `m` bytes ⇒ for EVERY offset
  `k ≥ m` at which the first network read ends (inside a multi-byte character too) and every first
  caller buffer `L₀ ≥ m` the body read to EOF is the whole-body decode;
  `first_read_boundary_irrelevant_header`: for a header charset, for every `k` and `L₀`.
-/
namespace Req.Props.C15
open Req.Proto Req.Decode Req.Prescan

/-! ### comments -/

/-- WHATWG tokenizer, comment states, as a predicate on the text `t` that follows `<!--`: the
comment is closed once `t` is `>` or `->`, or ends in `-->` or `--!>`. -/
def commentCloses (t : Bytes) : Bool :=
  t == [62] || t == [45, 62] || [45, 45, 62].isSuffixOf t || [45, 45, 33, 62].isSuffixOf t

/-- `t` is a complete comment text: it closes the comment and no proper prefix does. -/
def CommentEnd (t : Bytes) : Bool :=
  commentCloses t && (List.range t.length).all fun k => !commentCloses (t.take k)

/-- the same on the reversed text (most recent byte first) -/
def closesR (r : Bytes) : Bool :=
  r == [62] || r == [62, 45] || [62, 45, 45].isPrefixOf r || [62, 33, 45, 45].isPrefixOf r

theorem commentCloses_eq (t : Bytes) : commentCloses t = closesR t.reverse := by
  have h1 : (t == [62]) = (t.reverse == [62]) := by
    rcases t with _ | ⟨a, _ | ⟨b, rest⟩⟩
    · rfl
    · simp
    · have : ((a :: b :: rest).reverse == [62]) = false := by
        apply Bool.eq_false_iff.mpr
        intro h
        have h' := congrArg List.length (beq_iff_eq.mp h)
        simp at h'
      rw [this]
      simp
  have h2 : (t == [45, 62]) = (t.reverse == [62, 45]) := by
    rcases t with _ | ⟨a, _ | ⟨b, _ | ⟨c, rest⟩⟩⟩
    · rfl
    · simp
    · simp [Bool.and_comm]
    · have : ((a :: b :: c :: rest).reverse == [62, 45]) = false := by
        apply Bool.eq_false_iff.mpr
        intro h
        have h' := congrArg List.length (beq_iff_eq.mp h)
        simp at h'
      rw [this]
      simp
  unfold commentCloses closesR
  rw [h1, h2]
  rfl

def dashesR : Bytes → Nat
  | a :: b :: _ => if a == 45 then (if b == 45 then 2 else 1) else 0
  | [a] => if a == 45 then 1 else 0
  | [] => 0

def bangR : Bytes → Bool
  | a :: b :: c :: _ => a == 33 && b == 45 && c == 45
  | _ => false

/-- the scanner's state inside a comment as a function of the (reversed) text read so far -/
def cstateR (r : Bytes) : St :=
  if bangR r then .commentBang else .comment (dashesR r) (r.all (· == 45))

theorem eq_or_ne2 (x k : UInt8) : x = k ∨ (x ≠ k ∧ k ≠ x) := by
  by_cases h : x = k
  · exact Or.inl h
  · exact Or.inr ⟨h, fun h' => h h'.symm⟩

theorem step_comment (P : Params) (r : Bytes) (c : UInt8) :
    step P (cstateR r) c = if closesR (c :: r) then .data else cstateR (c :: r) := by
  rcases r with _ | ⟨a, _ | ⟨b, _ | ⟨e, rest⟩⟩⟩
  · rcases eq_or_ne2 c 45 with h1 | ⟨h1, h1'⟩ <;> rcases eq_or_ne2 c 62 with h2 | ⟨h2, h2'⟩ <;>
      rcases eq_or_ne2 c 33 with h3 | ⟨h3, h3'⟩ <;>
      simp_all [cstateR, bangR, dashesR, closesR, step, List.isPrefixOf, List.all]
  · rcases eq_or_ne2 c 45 with h1 | ⟨h1, h1'⟩ <;> rcases eq_or_ne2 c 62 with h2 | ⟨h2, h2'⟩ <;>
      rcases eq_or_ne2 c 33 with h3 | ⟨h3, h3'⟩ <;> rcases eq_or_ne2 a 45 with g1 | ⟨g1, g1'⟩ <;>
      simp_all [cstateR, bangR, dashesR, closesR, step, List.isPrefixOf, List.all]
  · rcases eq_or_ne2 c 45 with h1 | ⟨h1, h1'⟩ <;> rcases eq_or_ne2 c 62 with h2 | ⟨h2, h2'⟩ <;>
      rcases eq_or_ne2 c 33 with h3 | ⟨h3, h3'⟩ <;> rcases eq_or_ne2 a 45 with g1 | ⟨g1, g1'⟩ <;>
      rcases eq_or_ne2 b 45 with g2 | ⟨g2, g2'⟩ <;> rcases eq_or_ne2 a 33 with g3 | ⟨g3, g3'⟩ <;>
      simp_all [cstateR, bangR, dashesR, closesR, step, List.isPrefixOf, List.all]
  · rcases eq_or_ne2 c 45 with h1 | ⟨h1, h1'⟩ <;> rcases eq_or_ne2 c 62 with h2 | ⟨h2, h2'⟩ <;>
      rcases eq_or_ne2 c 33 with h3 | ⟨h3, h3'⟩ <;> rcases eq_or_ne2 a 45 with g1 | ⟨g1, g1'⟩ <;>
      rcases eq_or_ne2 b 45 with g2 | ⟨g2, g2'⟩ <;> rcases eq_or_ne2 a 33 with g3 | ⟨g3, g3'⟩ <;>
      rcases eq_or_ne2 e 45 with g4 | ⟨g4, g4'⟩ <;>
      simp_all [cstateR, bangR, dashesR, closesR, step, List.isPrefixOf, List.all]

/-- While no prefix closes the comment the scanner's state is `cstateR` of what it has read. -/
theorem scan_comment (P : Params) (t r : Bytes)
    (h : ∀ k, 0 < k → k ≤ t.length → closesR ((t.take k).reverse ++ r) = false) :
    scan P (cstateR r) t = cstateR (t.reverse ++ r) := by
  induction t generalizing r with
  | nil => rfl
  | cons c cs ih =>
    have h1 := h 1 (by omega) (by simp)
    simp only [List.take_succ_cons, List.take_zero, List.reverse_cons, List.reverse_nil, List.nil_append,
      List.singleton_append] at h1
    have hs : step P (cstateR r) c = cstateR (c :: r) := by rw [step_comment, h1]; rfl
    have := ih (c :: r) (by
      intro k hk hk'
      have := h (k + 1) (by omega) (by simpa using hk')
      simpa [List.take_succ_cons, List.reverse_cons, List.append_assoc] using this)
    simp only [scan, List.foldl_cons, hs] at this ⊢
    rw [this]
    simp [List.reverse_cons, List.append_assoc]

theorem cstateR_nil : cstateR [] = .comment 0 true := rfl

theorem cstateR_comment (r : Bytes) : cstateR r = .commentBang ∨ ∃ d b, cstateR r = .comment d b := by
  unfold cstateR
  by_cases h : bangR r = true
  · left; simp [h]
  · right; exact ⟨dashesR r, r.all (· == 45), by simp [h]⟩

theorem CommentEnd_spec (t : Bytes) (h : CommentEnd t = true) :
    commentCloses t = true ∧ ∀ k, k < t.length → commentCloses (t.take k) = false := by
  simp only [CommentEnd, Bool.and_eq_true, List.all_eq_true, List.mem_range, Bool.not_eq_true'] at h
  exact h

/-- **comment_interior_opaque**: strictly inside a comment text the scanner is in a comment state:
nothing the text contains is tokenized. -/
theorem comment_interior_opaque (P : Params) (t : Bytes) (h : CommentEnd t = true) (k : Nat) (hk : k < t.length) :
    scan P (.comment 0 true) (t.take k) = .commentBang ∨
    ∃ d b, scan P (.comment 0 true) (t.take k) = .comment d b := by
  obtain ⟨_, hpre⟩ := CommentEnd_spec t h
  have := scan_comment P (t.take k) [] (by
    intro j _ hj'
    have hjk : j ≤ k := by
      have : (t.take k).length ≤ k := by simp [List.length_take]; omega
      omega
    have := hpre j (by omega)
    rw [commentCloses_eq] at this
    simpa [List.take_take, Nat.min_eq_left hjk] using this)
  rw [cstateR_nil] at this
  rw [this]
  exact cstateR_comment _

/-- **comment_skipped**: after a complete comment text the scanner is back in the data state. -/
theorem comment_skipped (P : Params) (t : Bytes) (h : CommentEnd t = true) :
    scan P (.comment 0 true) t = .data := by
  obtain ⟨hc, hpre⟩ := CommentEnd_spec t h
  have hne : t ≠ [] := by intro h0; subst h0; simp [commentCloses] at hc
  obtain ⟨t', c, rfl⟩ : ∃ t' c, t = t' ++ [c] := ⟨t.dropLast, t.getLast hne, (List.dropLast_concat_getLast hne).symm⟩
  have h1 := scan_comment P t' [] (by
    intro j _ hj'
    have := hpre j (by simp; omega)
    rw [commentCloses_eq] at this
    simpa [List.take_append_of_le_length hj'] using this)
  rw [cstateR_nil] at h1
  rw [scan_append, h1]
  simp only [scan, List.foldl_cons, List.foldl_nil, List.append_nil]
  rw [step_comment]
  rw [commentCloses_eq] at hc
  simp only [List.reverse_append, List.reverse_cons, List.reverse_nil, List.nil_append, List.singleton_append] at hc
  simp [hc]

def sCommentOpen : Bytes := [60, 33, 45, 45]

theorem scan_comment_open (P : Params) : scan P .data sCommentOpen = .comment 0 true := rfl

theorem prescan_of_scan_eq (P : Params) (a b : Bytes) (h : scan P .data a = scan P .data b) (post : Bytes) :
    prescan P (a ++ post) = prescan P (b ++ post) := by
  unfold prescan
  rw [scan_append, scan_append, h]

/-- **prescan_ignores_comments**: a comment anywhere in the text flow is invisible to the prescan,
whatever it holds. -/
theorem prescan_ignores_comments (P : Params) (pre t post : Bytes) (hpre : scan P .data pre = .data)
    (ht : CommentEnd t = true) :
    prescan P (pre ++ sCommentOpen ++ t ++ post) = prescan P (pre ++ post) := by
  apply prescan_of_scan_eq
  rw [scan_append, scan_append, hpre, scan_comment_open, comment_skipped P t ht]

/-! ### raw-text elements and script -/

/-- `x` immediately followed by `y` somewhere in the text -/
def hasPair (x y : UInt8) : Bytes → Bool
  | a :: b :: rest => (a == x && b == y) || hasPair x y (b :: rest)
  | _ => false

theorem raw_stays (P : Params) (tag b : Bytes) (h : hasPair 60 47 b = false) :
    (scan P (.raw tag) b = .raw tag ∨ scan P (.raw tag) b = .rawLt tag) ∧
    (b.head? ≠ some 47 → scan P (.rawLt tag) b = .raw tag ∨ scan P (.rawLt tag) b = .rawLt tag) := by
  induction b with
  | nil => simp [scan]
  | cons c cs ih =>
    have hcs : hasPair 60 47 cs = false := by
      cases cs with
      | nil => rfl
      | cons d ds => simp only [hasPair, Bool.or_eq_false_iff] at h; exact h.2
    have hhead : c = 60 → cs.head? ≠ some 47 := by
      intro hc
      cases cs with
      | nil => simp
      | cons d ds =>
        simp only [hasPair, Bool.or_eq_false_iff, Bool.and_eq_false_iff] at h
        intro hd
        simp only [List.head?_cons, Option.some.injEq] at hd
        rcases h.1 with h1 | h1
        · simp [hc] at h1
        · simp [hd] at h1
    have ih' := ih hcs
    have key : ∀ s, (s = St.raw tag ∨ (s = St.rawLt tag ∧ c ≠ 47)) →
        scan P s (c :: cs) = .raw tag ∨ scan P s (c :: cs) = .rawLt tag := by
      intro s hs
      have hstep : step P s c = (if c = 60 then St.rawLt tag else St.raw tag) := by
        rcases hs with rfl | ⟨rfl, hc⟩
        · by_cases h60 : c = 60 <;> simp [step, rawData, h60]
        · by_cases h60 : c = 60 <;> simp [step, rawData, h60, hc]
      simp only [scan, List.foldl_cons, hstep]
      by_cases h60 : c = 60
      · simp only [h60, if_true]
        exact ih'.2 (hhead h60)
      · simp only [h60, if_false]
        exact ih'.1
    refine ⟨key _ (Or.inl rfl), ?_⟩
    intro hne
    exact key _ (Or.inr ⟨rfl, by simpa using hne⟩)

/-- the end tag `</tag>` -/
def endTag (tag : Bytes) : Bytes := [60, 47] ++ tag ++ [62]

theorem raw_close (P : Params) (tag : Bytes) (htag : tag ∈ rawTags) :
    scan P (.raw tag) (endTag tag) = .data ∧ scan P (.rawLt tag) (endTag tag) = .data := by
  simp only [rawTags, List.mem_cons, List.mem_nil_iff, or_false] at htag
  rcases htag with rfl | rfl | rfl | rfl | rfl | rfl | rfl | rfl <;> exact ⟨rfl, rfl⟩

/-- **rawtext_skipped**: from the start tag of a raw-text / RCDATA element to its end tag nothing
is tokenized, for every content without `</`. -/
theorem rawtext_skipped (P : Params) (tag b : Bytes) (htag : tag ∈ rawTags) (h : hasPair 60 47 b = false) :
    scan P (.raw tag) (b ++ endTag tag) = .data := by
  rw [scan_append]
  rcases (raw_stays P tag b h).1 with h1 | h1 <;> rw [h1]
  · exact (raw_close P tag htag).1
  · exact (raw_close P tag htag).2

theorem script_stays (P : Params) (b : Bytes) (h1 : hasPair 60 47 b = false) (h2 : hasPair 60 33 b = false) :
    (scan P (.script .data) b = .script .data ∨ scan P (.script .data) b = .script .lt) ∧
    ((b.head? ≠ some 47 ∧ b.head? ≠ some 33) →
      scan P (.script .lt) b = .script .data ∨ scan P (.script .lt) b = .script .lt) := by
  induction b with
  | nil => simp [scan]
  | cons c cs ih =>
    have tailF : ∀ y, hasPair 60 y (c :: cs) = false → hasPair 60 y cs = false := by
      intro y h
      cases cs with
      | nil => rfl
      | cons d ds => simp only [hasPair, Bool.or_eq_false_iff] at h; exact h.2
    have headF : ∀ y, hasPair 60 y (c :: cs) = false → c = 60 → cs.head? ≠ some y := by
      intro y h hc
      cases cs with
      | nil => simp
      | cons d ds =>
        simp only [hasPair, Bool.or_eq_false_iff, Bool.and_eq_false_iff] at h
        intro hd
        simp only [List.head?_cons, Option.some.injEq] at hd
        rcases h.1 with g | g
        · simp [hc] at g
        · simp [hd] at g
    have ih' := ih (tailF 47 h1) (tailF 33 h2)
    have key : ∀ s, (s = St.script .data ∨ (s = St.script .lt ∧ c ≠ 47 ∧ c ≠ 33)) →
        scan P s (c :: cs) = .script .data ∨ scan P s (c :: cs) = .script .lt := by
      intro s hs
      have hstep : step P s c = (if c = 60 then St.script .lt else St.script .data) := by
        rcases hs with rfl | ⟨rfl, hc, hc'⟩
        · by_cases h60 : c = 60 <;> simp [step, scStep, scData, h60]
        · by_cases h60 : c = 60 <;> simp [step, scStep, scData, h60, hc, hc']
      simp only [scan, List.foldl_cons, hstep]
      by_cases h60 : c = 60
      · simp only [h60, if_true]
        exact ih'.2 ⟨headF 47 h1 h60, headF 33 h2 h60⟩
      · simp only [h60, if_false]
        exact ih'.1
    refine ⟨key _ (Or.inl rfl), ?_⟩
    intro hne
    exact key _ (Or.inr ⟨rfl, by simpa using hne.1, by simpa using hne.2⟩)

/-- **script_skipped**: script content without `</` and `<!` up to `</script>` is skipped. -/
theorem script_skipped (P : Params) (b : Bytes) (h1 : hasPair 60 47 b = false) (h2 : hasPair 60 33 b = false) :
    scan P (.script .data) (b ++ endTag sScript) = .data := by
  rw [scan_append]
  rcases (script_stays P b h1 h2).1 with h | h <;> rw [h] <;> rfl

/-- a start tag without attributes: `<tag>` -/
def startTag (tag : Bytes) : Bytes := [60] ++ tag ++ [62]

theorem scan_raw_open (P : Params) (tag : Bytes) (htag : tag ∈ rawTags) :
    scan P .data (startTag tag) = .raw tag := by
  simp only [rawTags, List.mem_cons, List.mem_nil_iff, or_false] at htag
  rcases htag with rfl | rfl | rfl | rfl | rfl | rfl | rfl | rfl <;> rfl

theorem scan_script_open (P : Params) : scan P .data (startTag sScript) = .script .data := rfl

/-- **prescan_ignores_rawtext**: `<title>…</title>`, `<textarea>…</textarea>`, `<style>…</style>`, … -/
theorem prescan_ignores_rawtext (P : Params) (pre tag b post : Bytes) (hpre : scan P .data pre = .data)
    (htag : tag ∈ rawTags) (h : hasPair 60 47 b = false) :
    prescan P (pre ++ startTag tag ++ (b ++ endTag tag) ++ post) = prescan P (pre ++ post) := by
  apply prescan_of_scan_eq
  rw [scan_append P .data (pre ++ startTag tag), scan_append P .data pre, hpre, scan_raw_open P tag htag,
    rawtext_skipped P tag b htag h]

/-- **prescan_ignores_script** -/
theorem prescan_ignores_script (P : Params) (pre b post : Bytes) (hpre : scan P .data pre = .data)
    (h1 : hasPair 60 47 b = false) (h2 : hasPair 60 33 b = false) :
    prescan P (pre ++ startTag sScript ++ (b ++ endTag sScript) ++ post) = prescan P (pre ++ post) := by
  apply prescan_of_scan_eq
  rw [scan_append P .data (pre ++ startTag sScript), scan_append P .data pre, hpre, scan_script_open,
    script_skipped P b h1 h2]

/-- A region of the document in which the text of a meta tag is not a declaration (WHATWG). -/
inductive Hidden : Bytes → Prop where
  | comment (t : Bytes) (h : CommentEnd t = true) : Hidden (sCommentOpen ++ t)
  | rawtext (tag b : Bytes) (htag : tag ∈ rawTags) (h : hasPair 60 47 b = false) :
      Hidden (startTag tag ++ (b ++ endTag tag))
  | script (b : Bytes) (h1 : hasPair 60 47 b = false) (h2 : hasPair 60 33 b = false) :
      Hidden (startTag sScript ++ (b ++ endTag sScript))

theorem hidden_skipped (P : Params) (x : Bytes) (h : Hidden x) : scan P .data x = .data := by
  cases h with
  | comment t h => rw [scan_append, scan_comment_open, comment_skipped P t h]
  | rawtext tag b htag h => rw [scan_append, scan_raw_open P tag htag, rawtext_skipped P tag b htag h]
  | script b h1 h2 => rw [scan_append, scan_script_open, script_skipped P b h1 h2]

/-- **prescan_ignores_comments_and_rawtext**: ANY number of comments, raw-text elements and scripts,
each followed by text without markup, in front of the rest of the document: the prescan answers as
if they were not there — no declaration is ever taken from inside them. -/
theorem prescan_ignores_comments_and_rawtext (P : Params) (regions : List (Bytes × Bytes)) (post : Bytes)
    (hr : ∀ x ∈ regions, Hidden x.1 ∧ ∀ c ∈ x.2, c ≠ 60) :
    prescan P ((regions.map fun x => x.1 ++ x.2).flatten ++ post) = prescan P post := by
  have : scan P .data (regions.map fun x => x.1 ++ x.2).flatten = .data := by
    induction regions with
    | nil => rfl
    | cons x xs ih =>
      have hx := hr x List.mem_cons_self
      simp only [List.map_cons, List.flatten_cons]
      rw [scan_append, scan_append, hidden_skipped P x.1 hx.1, scan_no_lt P x.2 hx.2]
      exact ih fun y hy => hr y (List.mem_cons_of_mem _ hy)
  have := prescan_of_scan_eq P _ [] (by rw [this]; rfl) post
  simpa using this

/-! #### non-vacuity: the pages of seed C15-r5-3 -/

private def gbk' : Bytes := [103, 98, 107]
private def demoP' : Params := ⟨fun l => if l = gbk' then some gbk' else none, id⟩
-- `<meta charset="gbk">`
private def metaGbk' : Bytes := [60, 109, 101, 116, 97, 32, 99, 104, 97, 114, 115, 101, 116, 61, 34, 103, 98, 107, 34, 62]
-- ` <meta charset="gbk"> -->`, ` x--!>`, `>`
example : CommentEnd ([32] ++ metaGbk' ++ [32, 45, 45, 62]) = true := by decide
example : CommentEnd [32, 120, 45, 45, 33, 62] = true := by decide
example : CommentEnd [62] = true := by decide
example : CommentEnd [45, 45, 45, 62] = true := by decide
-- not complete: `->` after text, `-- >`; over-long: text after the first `-->`
example : CommentEnd [120, 45, 62] = false := by decide
example : CommentEnd [120, 45, 45, 32, 62] = false := by decide
example : CommentEnd [45, 45, 62, 120, 45, 45, 62] = false := by decide
example : prescan demoP' metaGbk' = some gbk' := by decide
example : prescan demoP' (sCommentOpen ++ ([32] ++ metaGbk' ++ [32, 45, 45, 62]) ++ [120]) = none := by decide
example : prescan demoP' (sCommentOpen ++ ([32] ++ metaGbk' ++ [32, 45, 45, 62]) ++ metaGbk') = some gbk' := by decide
example : hasPair 60 47 ([118, 97, 114, 32, 97, 61, 39] ++ metaGbk' ++ [39]) = false := by decide
example : prescan demoP' (startTag sScript ++ (metaGbk' ++ endTag sScript) ++ [120]) = none := by decide
example : prescan demoP' (startTag [116, 101, 120, 116, 97, 114, 101, 97] ++ (metaGbk' ++ endTag [116, 101, 120, 116, 97, 114, 101, 97])) = none := by decide
example : Hidden (sCommentOpen ++ ([32] ++ metaGbk' ++ [32, 45, 45, 62])) := .comment _ (by decide)

/-! ### a body declared utf-8 is delivered as it is -/

variable {σ : Type}

/-- **utf8_declared_is_identity**: ∀ body — with or without a byte-order mark, well-formed UTF-8 or
not, text or binary — under a Content-Type whose charset says utf-8: read to EOF, the caller has
exactly the body (nothing stripped, nothing replaced), for every split and every buffer sequence. -/
theorem utf8_declared_is_identity (cfg : Config) (ae ct cs : Bytes) (lookup : Bytes → Option (Decoder σ))
    (find : Bytes → Option (Decoder σ)) (hutf : isUtf8Label (Req.Ascii.lower cs) = true)
    (src : Src) (bufs : List Nat)
    (heof : (respReads cfg ae ct (.charset cs) lookup find src bufs).term = some .eof) :
    (respReads cfg ae ct (.charset cs) lookup find src bufs).out = src.body := by
  have hu := utf8_identity cfg ae ct cs lookup find hutf src bufs
  rw [hu.2] at heof
  rw [hu.1]
  exact rawReads_eof bufs src heof

/-- … and it arrives completely after finitely many reads. -/
theorem utf8_declared_fully_delivered (cfg : Config) (ae ct cs : Bytes) (lookup : Bytes → Option (Decoder σ))
    (find : Bytes → Option (Decoder σ)) (hutf : isUtf8Label (Req.Ascii.lower cs) = true)
    (src : Src) (hsrc : src.term = .eof) (L : Nat) (hL : 0 < L) :
    ∃ n, (respReads cfg ae ct (.charset cs) lookup find src (List.replicate n L)).term = some .eof ∧
      (respReads cfg ae ct (.charset cs) lookup find src (List.replicate n L)).out = src.body := by
  obtain ⟨n, hn⟩ := response_reaches_end cfg ae ct (.charset cs) lookup find src L hL
  rw [hsrc] at hn
  exact ⟨n, hn, utf8_declared_is_identity cfg ae ct cs lookup find hutf src _ hn⟩

-- `UTF-8`, `utf8`, `x-utf-8-strict` are utf-8 labels; the body EF BB BF FF 00 (BOM + invalid + NUL) in
-- two segments comes back as it is even when a lookup would know a decoder for the label
example : isUtf8Label (Req.Ascii.lower [85, 84, 70, 45, 56]) = true := by decide
example : isUtf8Label (Req.Ascii.lower [117, 116, 102, 56]) = true := by decide
example : (respReads ⟨false, none⟩ [] [116, 101, 120, 116] (.charset [85, 84, 70, 45, 56]) (fun _ => some latin1) demoFind
    ⟨[[0xef, 0xbb], [0xbf, 0xff, 0x00]], .eof, false⟩ [2, 8, 8, 8]).out = [0xef, 0xbb, 0xbf, 0xff, 0x00] := by decide

/-! ### where the first network read ends does not matter -/

/-- the body arrives in two network reads, the first one `k` bytes long -/
def cutSrc (body : Bytes) (k : Nat) (lwt : Bool) : Src := ⟨[body.take k, body.drop k], .eof, lwt⟩

theorem cutSrc_body (body : Bytes) (k : Nat) (lwt : Bool) : (cutSrc body k lwt).body = body := by
  simp [cutSrc, Src.body]

theorem take_prefix (body : Bytes) (m n : Nat) (h : m ≤ n) : ∃ rest, body.take n = body.take m ++ rest := by
  refine ⟨(body.drop m).take (n - m), ?_⟩
  have : n = m + (n - m) := by omega
  rw [this, List.take_add]
  simp

theorem sniffed_cutSrc (body : Bytes) (k L0 : Nat) (lwt : Bool) (Ls : List Nat)
    (hne : body.take (min k L0) ≠ []) :
    sniffed (cutSrc body k lwt) (L0 :: Ls) = some (body.take (min k L0)) := by
  have hL0 : L0 ≠ 0 := by intro h; simp [h] at hne
  have hout : ((cutSrc body k lwt).read L0).out = body.take (min k L0) ∧ ((cutSrc body k lwt).read L0).term = none := by
    simp only [cutSrc, Src.read, hL0, if_false]
    split <;> simp [List.take_take, Nat.min_comm]
  unfold sniffed
  have hns : noSniff ((cutSrc body k lwt).read L0) = false := by
    simp [noSniff, hout.1, hout.2, hne]
  simp [hns, hout.1]

/-- **first_read_boundary_irrelevant**: the declaration (byte-order mark or complete meta tag) lies
within the first `m` bytes of the body.  Then for EVERY offset `k ≥ m` at which the first network
read ends — between the bytes of a multi-byte character just as well — and every first caller
buffer of at least `m` bytes, the body read to EOF is the complete decode of the whole body by the
declared charset's decoder. -/
theorem first_read_boundary_irrelevant (P : Params) (decOf : Bytes → Decoder σ)
    (hlaw : ∀ n, (decOf n).Lawful) (body : Bytes) (m : Nat) (d : Decoder σ)
    (hm : findC P decOf (body.take m) = some d)
    (k L0 : Nat) (hk : m ≤ k) (hL : m ≤ L0) (lwt : Bool) (Ls : List Nat)
    (heof : (autoReads (findC P decOf) (cutSrc body k lwt) (L0 :: Ls)).term = some .eof) :
    (autoReads (findC P decOf) (cutSrc body k lwt) (L0 :: Ls)).out = d.decodeAll body := by
  have hmne : body.take m ≠ [] := by
    intro h0
    rw [h0] at hm
    simp [findC, findEncoding] at hm
  obtain ⟨rest, hrest⟩ := take_prefix body m (min k L0) (by omega)
  have hne : body.take (min k L0) ≠ [] := by
    rw [hrest]
    simp [hmne]
  have hs := sniffed_cutSrc body k L0 lwt Ls hne
  have hf : findC P decOf (body.take (min k L0)) = some d := by
    rw [hrest]; exact findC_prefix P decOf _ rest d hm
  have hl : ∀ c d, findC P decOf c = some d → d.Lawful := by
    intro c d' h
    obtain ⟨n, rfl⟩ := findC_is_decOf P decOf c d' h
    exact hlaw n
  have := outcome_by_sniff (findC P decOf) hl (cutSrc body k lwt) (L0 :: Ls) heof
  rw [hs] at this
  simp only [Option.bind_some, hf, cutSrc_body] at this
  exact this

/-- **first_read_boundary_irrelevant_header**: a charset named by the Content-Type header — for
every cut offset and every buffer sequence. -/
theorem first_read_boundary_irrelevant_header (cfg : Config) (ct cs : Bytes) (lookup : Bytes → Option (Decoder σ))
    (find : Bytes → Option (Decoder σ)) (d : Decoder σ) (hl : d.Lawful)
    (hon : cfg.disable = false) (hsel : shouldDecode cfg ct = true)
    (hutf : isUtf8Label (Req.Ascii.lower cs) = false) (hlk : lookup (Req.Ascii.lower cs) = some d)
    (body : Bytes) (k : Nat) (lwt : Bool) (bufs : List Nat)
    (heof : (respReads cfg [] ct (.charset cs) lookup find (cutSrc body k lwt) bufs).term = some .eof) :
    (respReads cfg [] ct (.charset cs) lookup find (cutSrc body k lwt) bufs).out = d.decodeAll body := by
  have := header_charset_always_applied cfg ct cs lookup find d hl hon hsel hutf hlk (cutSrc body k lwt) bufs heof
  rwa [cutSrc_body] at this

-- the UTF-16LE body FF FE 68 00 3D D8 00 DE (BOM, 'h', U+1F600) cut at EVERY offset 2..8 — inside the
-- code unit of 'h', between and inside the surrogate halves — read with a 4-byte first buffer
example : (List.range 7).all (fun i =>
    (autoReads demoFind (cutSrc [0xff, 0xfe, 0x68, 0x00, 0x3d, 0xd8, 0x00, 0xde] (i + 2) false) [4, 3, 3, 3, 3, 3, 3]).out
      == [0xef, 0xbb, 0xbf, 0x68, 0xf0, 0x9f, 0x98, 0x80]) = true := by decide

end Req.Props.C15
