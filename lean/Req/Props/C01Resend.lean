import Req.Client.ResendEdit
import Req.Lemmas.C01Resend
/-!
C01, round 6 — the same `*Request` transmitted again after its description was changed.

* `resend_reflects_current_description` — for EVERY sequence of edits (any function on the
  caller-visible fields of the Request and its Client), retry attempts and further sends, every
  transmission of the code as it is equals `Merge.buildRequest` of the description current at that
  moment: the object carries no state besides its visible fields (`specRun` has none).
* `asIs_ignores_hidden_slot` — whatever an earlier pass might have left in a hidden slot, the code as
  it is does not read it.
* `cached_expansion_ignores_path_edit` — the seeded variant (expansion kept on the Request, keyed by
  `RawURL`): after ANY edit that leaves `RawURL` alone — new path-parameter values at request or
  client level — the next pass still expands to the OLD string.
* `cached_expansion_breaks` — hence the variant violates the specification (concrete sequence).
* `unedited_retries_same_request` — the converse direction: WITHOUT an edit, a send followed by any
  number of retry attempts transmits the same request every time (the client defaults written into
  the Request by the first pass are not applied twice: `mergeHeaders_idem`; the client cookies are
  appended once) — the round-2 "attempt dimension" as a theorem.
-/
namespace Req.Props.C01Resend
open Req.Proto Req.Url Req.Merge Req.H1 Req.ResendEdit

theorem substParams_nil (t : Bytes) : substParams t [] [] = t := rfl

/-- filling the placeholders before `parseRequestURL` or inside it is the same. -/
theorem parseRequestURL_presubst (i : Url.Input) :
    parseRequestURL { i with rawURL := substParams i.rawURL i.rPath i.cPath, rPath := [], cPath := [] }
      = parseRequestURL i := by
  simp only [parseRequestURL, substParams_nil]

theorem expansion_asIs (o : Obj) :
    expansion .asIs o = substParams o.api.url.rawURL o.api.url.rPath o.api.url.cPath := by
  cases h : o.expanded <;> simp [expansion]

/-- one pass of the code as it is = the request of the current description, and its visible
effect on the object is `Desc.after`. -/
theorem transmit_asIs (o : Obj) :
    (transmit .asIs o).1 = (Desc.request ⟨o.api, o.attempt⟩) ∧
    (transmit .asIs o).2.api = (Desc.after ⟨o.api, o.attempt⟩).api ∧
    (transmit .asIs o).2.attempt = o.attempt := by
  refine ⟨?_, ?_, rfl⟩
  · simp only [transmit, expansion_asIs, Desc.request, buildRequest, headersAfter, cookiesAfter,
      mergeCookies]
    have hu := parseRequestURL_presubst o.api.url
    by_cases h : (o.attempt == 0) = true
    · simp only [h, if_true, hu, mergeHeaders, List.append_nil]
    · simp only [h, hu, mergeHeaders, List.append_nil, Bool.false_eq_true, if_false]
  · simp only [transmit, Desc.after, headersAfter, cookiesAfter]

/-- **resend_reflects_current_description**: ∀ object (whatever its hidden slot holds), ∀ sequence
of edits / retries / sends: the transmissions of the code as it is are exactly those of the
specification over the visible fields — every send puts the CURRENT description on the wire. -/
theorem resend_reflects_current_description (ops : List Op) :
    ∀ o : Obj, run .asIs o ops = specRun ⟨o.api, o.attempt⟩ ops := by
  induction ops with
  | nil => intro o; rfl
  | cons op ops ih =>
    intro o
    cases op with
    | edit f =>
      simp only [run, step, specRun]
      exact ih _
    | retry =>
      obtain ⟨h1, h2, h3⟩ := transmit_asIs { o with attempt := o.attempt + 1 }
      simp only [run, step, specRun]
      rw [h1, ih, h2, h3]
      rfl
    | send =>
      obtain ⟨h1, h2, h3⟩ := transmit_asIs o
      simp only [run, step, specRun]
      rw [h1, ih, h2, h3]
      rfl

/-- the code as it is does not read the hidden slot. -/
theorem asIs_ignores_hidden_slot (o : Obj) (slot : Option (Bytes × Bytes)) (ops : List Op) :
    run .asIs { o with expanded := slot } ops = run .asIs o ops := by
  rw [resend_reflects_current_description, resend_reflects_current_description]

/-- a sent request's URL is a function of the CURRENT template and maps: two objects that agree on
their visible fields transmit the same thing, whatever they transmitted before. -/
theorem same_description_same_request (o₁ o₂ : Obj) (h : o₁.api = o₂.api) (ha : o₁.attempt = o₂.attempt)
    (ops : List Op) : run .asIs o₁ ops = run .asIs o₂ ops := by
  rw [resend_reflects_current_description, resend_reflects_current_description, h, ha]

/-- **cached_expansion_ignores_path_edit** (the seeded variant): after a pass, ANY edit that keeps
`RawURL` — in particular new path-parameter values at request or client level — is invisible to the
next pass's expansion: it is still the string of the first pass. -/
theorem cached_expansion_ignores_path_edit (o : Obj) (hfresh : o.expanded = none) (f : Api → Api)
    (hraw : ∀ a : Api, (f a).url.rawURL = a.url.rawURL) :
    let o1 := (step .cachedExpansion o .send).1
    let o2 := (step .cachedExpansion o1 (.edit f)).1
    expansion .cachedExpansion o2 = substParams o.api.url.rawURL o.api.url.rPath o.api.url.cPath := by
  simp only [step, transmit, expansion, hfresh, hraw, beq_self_eq_true, if_true]

/-- … while the specification (and, by `resend_reflects_current_description`, the code as it is)
expands the CURRENT maps. -/
theorem asIs_expansion_follows_edit (o : Obj) (f : Api → Api) :
    let o1 := (step .asIs o .send).1
    let o2 := (step .asIs o1 (.edit f)).1
    expansion .asIs o2 = substParams o2.api.url.rawURL o2.api.url.rPath o2.api.url.cPath :=
  expansion_asIs _

/-! ### no edit: every attempt is the same request -/

theorem request_of_pos (api : Api) (a b : Nat) (ha : a ≠ 0) (hb : b ≠ 0) :
    Desc.request ⟨api, a⟩ = Desc.request ⟨api, b⟩ := by
  simp [Desc.request, ha, hb]

/-- a description whose client defaults are already written into the Request: retries repeat. -/
theorem settled_retries (n : Nat) : ∀ (api : Api) (k : Nat),
    mergeHeaders api.cHeaders api.rHeaders = api.rHeaders →
    specRun ⟨api, k⟩ (List.replicate n .retry) = List.replicate n (Desc.request ⟨api, k + 1⟩) := by
  induction n with
  | zero => intro api k _; rfl
  | succ n ih =>
    intro api k hfix
    have hafter : (Desc.after ⟨api, k + 1⟩) = ⟨api, k + 1⟩ := by
      simp [Desc.after, hfix]
    simp only [List.replicate_succ, specRun, hafter]
    rw [ih api (k + 1) hfix, request_of_pos api (k + 1 + 1) (k + 1) (by omega) (by omega)]

/-- **unedited_retries_same_request**: a Request whose client-level header map has distinct keys
(a Go map), sent and then retried `n` times with NO edit in between, is the same `*http.Request`
`n + 1` times: the request of its description. -/
theorem unedited_retries_same_request (o : Obj) (hz : o.attempt = 0)
    (hd : ∀ c, o.api.cHeaders = some c → c.Pairwise fun a b => a.key ≠ b.key) (n : Nat) :
    run .asIs o (.send :: List.replicate n .retry)
      = List.replicate (n + 1) (Desc.request ⟨o.api, 0⟩) := by
  rw [resend_reflects_current_description, hz]
  have hidem := Req.Lemmas.C01Resend.mergeHeaders_idem o.api.cHeaders o.api.rHeaders hd
  simp only [specRun, List.replicate_succ, List.cons.injEq, true_and]
  have hfix : mergeHeaders (Desc.after ⟨o.api, 0⟩).api.cHeaders (Desc.after ⟨o.api, 0⟩).api.rHeaders
      = (Desc.after ⟨o.api, 0⟩).api.rHeaders := by
    simpa [Desc.after] using hidem
  have := settled_retries n (Desc.after ⟨o.api, 0⟩).api 0 hfix
  have hsame : Desc.request ⟨(Desc.after ⟨o.api, 0⟩).api, 0 + 1⟩ = Desc.request ⟨o.api, 0⟩ := by
    simp [Desc.request, Desc.after, buildRequest, hidem, mergeCookies]
  rw [hsame] at this
  exact this

/-- the template `/{k}`, request-level `k = a`, then edited to `k = b`. -/
def demo : Obj :=
  { api := { method := [71, 69, 84],
             url := { rawURL := [47, 123, 107, 125], rPath := [([107], [97])],
                      baseURL := [104, 116, 116, 112, 58, 47, 47, 104] } } }

def demoEdit (a : Api) : Api := { a with url := { a.url with rPath := [([107], [98])] } }

/-- non-vacuity of `cached_expansion_ignores_path_edit` and **cached_expansion_breaks**: with the
cache the second pass expands to `/a` although the Request now says `k = b` (the current
description expands to `/b`). -/
theorem cached_expansion_breaks :
    let o2 := (step .cachedExpansion (step .cachedExpansion demo .send).1 (.edit demoEdit)).1
    expansion .cachedExpansion o2 = [47, 97] ∧
    substParams o2.api.url.rawURL o2.api.url.rPath o2.api.url.cPath = [47, 98] ∧
    expansion .asIs (step .asIs (step .asIs demo .send).1 (.edit demoEdit)).1 = [47, 98] := by
  decide

/-- non-vacuity of `resend_reflects_current_description`: a send, an edit, a retry — two
transmissions. -/
example : (run .asIs demo [.send, .edit demoEdit, .retry]).length = 2 := by
  simp [run, step]

/-- non-vacuity of `unedited_retries_same_request`: `demo` has no client header map at all. -/
example : run .asIs demo [.send, .retry, .retry] = List.replicate 3 (Desc.request ⟨demo.api, 0⟩) :=
  unedited_retries_same_request demo rfl (by intro c h; cases h) 2

end Req.Props.C01Resend
