import Req.Lemmas.C05Varint
import Req.Lemmas.C05H2
import Req.Lemmas.C05H3
import Req.Lemmas.C05Fields
import Req.Lemmas.C05Meta
/-!
C05 — HTTP/2 and HTTP/3 codecs agree with their upstream reference codecs.

The theorems are about the Lean models `Req.H2.Frame` (internal/http2/frame.go),
`Req.H3.Varint` (internal/quic-go/quicvarint), `Req.H3.Frame` (internal/http3/frames.go) and
`Req.H3.Fields` (internal/http3/headers.go); the correspondence lanes of C05 tie each model
function to the real code AND to the upstream reference (x/net/http2, quic-go) on every run.
Proofs live in `Req/Lemmas/C05*.lean`; this file is the list of statements.

* QUIC varints: `varint_roundtrip`, `varint_len`, `varint_len_append`, `parse_nonminimal_ok`,
  `parse_sound`
* HTTP/2 frame header: `frameHeader_roundtrip`, `frameHeader_reserved_bit`
* per frame type, wire level `ReadFrame (Write… args) = frame args`:
  `data_parse_write`, `headers_parse_write`, `priority_parse_write`, `rstStream_parse_write`,
  `settings_parse_write`, `settingsAck_parse_write`, `pushPromise_parse_write`, `ping_parse_write`,
  `goAway_parse_write`, `windowUpdate_parse_write`, `continuation_parse_write`,
  `rawFrame_parse_write`
* error classes of the typed parsers: `parse_error_classified`, `stream_zero_is_connection_error`
* frame order: `order_automaton`
* HTTP/3 frames: `h3_frameHeader_roundtrip`, `h3_reserved_rejected`, `h3_unknown_skipped`,
  `h3settings_roundtrip`, `h3settings_payload_roundtrip`, `h3settings_dup_rejected`
* received HTTP/3 field sections against RFC 9114 §4.2/§4.3: `h3_fields_accept_iff`,
  `h3_trailers_accept_iff`
* merged HTTP/2 header lists: `meta_fields_wellformed`
-/
namespace Req.Props.C05
open Req.Proto

deriving instance DecidableEq for Except   -- for the `decide`d examples only

/-! ## QUIC variable-length integers -/
section varint
open Req.H3.Varint

/-- **varint_roundtrip**: every value below 2^62 is encoded by `Append`, and `Parse` gives the
value back and leaves exactly the bytes that followed. -/
theorem varint_roundtrip (n : Nat) (h : n < 2 ^ 62) (rest : Bytes) :
    ∃ bs, append n = some bs ∧ parse (bs ++ rest) = .ok (n, rest) :=
  Req.Lemmas.C05.Varint.varint_roundtrip n h rest

example : append 16384 = some [128, 0, 64, 0] ∧ parse ([128, 0, 64, 0] ++ [7]) = .ok (16384, [7]) := by
  decide

/-- **varint_len**: `Len` is 1, 2, 4, 8 with exactly the boundaries 63 / 16383 / 2^30-1 / 2^62-1,
and panics (`none`) from 2^62 on. -/
theorem varint_len (n : Nat) :
    (len n = some 1 ↔ n ≤ 63) ∧
    (len n = some 2 ↔ 64 ≤ n ∧ n ≤ 16383) ∧
    (len n = some 4 ↔ 16384 ≤ n ∧ n ≤ 1073741823) ∧
    (len n = some 8 ↔ 1073741824 ≤ n ∧ n ≤ 4611686018427387903) ∧
    (len n = none ↔ 4611686018427387904 ≤ n) :=
  Req.Lemmas.C05.Varint.varint_len n

/-- `Len` is the length of what `Append` writes (what `settingsFrame.Append` relies on). -/
theorem varint_len_append (n : Nat) (bs : Bytes) (h : append n = some bs) :
    len n = some bs.length :=
  (Req.Lemmas.C05.Varint.append_length n bs h).1

example : len 63 = some 1 ∧ len 64 = some 2 ∧ len 16383 = some 2 ∧ len 16384 = some 4
    ∧ len 1073741823 = some 4 ∧ len 1073741824 = some 8 ∧ len 4611686018427387903 = some 8
    ∧ len 4611686018427387904 = none := by decide

/-- **parse_nonminimal_ok**: every encoding `AppendWithLen` can produce — minimal or padded to 2, 4
or 8 bytes — is accepted by `Parse` with the same value (QUIC does not require minimal encodings). -/
theorem parse_nonminimal_ok (n l : Nat) (rest : Bytes)
    (hl : l = 1 ∨ l = 2 ∨ l = 4 ∨ l = 8) (hn : n < capacity l) :
    ∃ bs, appendWithLen n l = some bs ∧ bs.length = l ∧ parse (bs ++ rest) = .ok (n, rest) :=
  Req.Lemmas.C05.Varint.parse_nonminimal_ok n l rest hl hn

example : appendWithLen 5 4 = some [128, 0, 0, 5] ∧ parse [128, 0, 0, 5] = .ok (5, []) := by decide

/-- **parse_sound**: whatever `Parse` accepts consumed 1, 2, 4 or 8 bytes and yields a value below
the capacity of that length (hence below 2^62). -/
theorem parse_sound (b rest : Bytes) (v : Nat) (h : parse b = .ok (v, rest)) :
    ∃ pre, b = pre ++ rest ∧ (pre.length = 1 ∨ pre.length = 2 ∨ pre.length = 4 ∨ pre.length = 8) ∧
      v < capacity pre.length :=
  Req.Lemmas.C05.Varint.parse_sound b rest v h

end varint

/-! ## HTTP/2 frames -/
section h2
open Req.H2.Frame

/-- **frameHeader_roundtrip**: the 9 bytes `startWrite`/`endWrite` produce for (length, type, flags,
stream id) are read back by `readFrameHeader` as exactly that header. -/
theorem frameHeader_roundtrip (l t f s : Nat) (rest : Bytes)
    (hl : l < two24) (ht : t < 256) (hf : f < 256) (hs : s < two31) :
    parseHeader (headerBytes l t f s ++ rest) = some (⟨l, t, f, s⟩, rest) :=
  Req.Lemmas.C05.H2.frameHeader_roundtrip l t f s rest hl ht hf hs

example : parseHeader (headerBytes 5 1 4 3 ++ [9]) = some (⟨5, 1, 4, 3⟩, [9]) := by decide

/-- the reserved bit of the stream id is ignored on read: a stream id with the top bit set is read
as the id without it. -/
theorem frameHeader_reserved_bit (l t f s : Nat) (rest : Bytes)
    (hl : l < two24) (ht : t < 256) (hf : f < 256) (hs : s < two31) :
    parseHeader (headerBytes l t f (s + two31) ++ rest) = some (⟨l, t, f, s⟩, rest) :=
  Req.Lemmas.C05.H2.frameHeader_reserved_bit l t f s rest hl ht hf hs

/-- **data_parse_write** (`WriteData` / `WriteDataPadded` → `ReadFrame`). -/
theorem data_parse_write (sid : Nat) (endStream : Bool) (data : Bytes) (pad : Option Bytes)
    (h : WfData sid data pad) :
    ∃ out, writeData false sid endStream data pad = .ok out ∧
      ∀ (r : Reader) (rest : Bytes), Ready r (out.length - 9) 0 →
        readFrame r (out ++ rest) =
          (.ok (.data ⟨out.length - 9, tData, b2n endStream flagEndStream + b2n pad.isSome flagPadded, sid⟩
            data), r, rest) :=
  Req.Lemmas.C05.H2.data_parse_write sid endStream data pad h

example : WfData 1 [104, 105] (some [0, 0]) := by decide
example : readFrame { maxReadSize := 16384 } [0, 0, 5, 0, 9, 0, 0, 0, 1, 2, 104, 105, 0, 0] =
    (.ok (.data ⟨5, 0, 9, 1⟩ [104, 105]), { maxReadSize := 16384 }, []) := by decide

/-- **headers_parse_write** (`WriteHeaders` → `ReadFrame`): flags, priority and fragment come back;
the reader is left inside the header block of the stream unless END_HEADERS was set. -/
theorem headers_parse_write (p : HeadersParam) (h : WfHeaders p) :
    ∃ out, writeHeaders false p = .ok out ∧
      ∀ (r : Reader) (rest : Bytes), Ready r (out.length - 9) 0 →
        readFrame r (out ++ rest) =
          (.ok (.headers ⟨out.length - 9, tHeaders, headersFlags p, p.streamID⟩ p.priority p.blockFragment),
           { r with lastHeaderStream := if p.endHeaders then 0 else p.streamID }, rest) :=
  Req.Lemmas.C05.H2.headers_parse_write p h

example : WfHeaders ⟨3, [1, 2, 3], true, false, 2, ⟨5, true, 200⟩⟩ := by decide

/-- **priority_parse_write** -/
theorem priority_parse_write (sid : Nat) (p : Priority) (hs : ValidSid sid) (hp : WfPriority p) :
    ∃ out, writePriority false sid p = .ok out ∧
      ∀ (r : Reader) (rest : Bytes), Ready r 5 0 →
        readFrame r (out ++ rest) = (.ok (.priority ⟨5, tPriority, 0, sid⟩ p), r, rest) :=
  Req.Lemmas.C05.H2.priority_parse_write sid p hs hp

/-- **rstStream_parse_write** -/
theorem rstStream_parse_write (sid code : Nat) (hs : ValidSid sid) (hc : code < 4294967296) :
    ∃ out, writeRSTStream false sid code = .ok out ∧
      ∀ (r : Reader) (rest : Bytes), Ready r 4 0 →
        readFrame r (out ++ rest) = (.ok (.rstStream ⟨4, tRSTStream, 0, sid⟩ code), r, rest) :=
  Req.Lemmas.C05.H2.rstStream_parse_write sid code hs hc

/-- **settings_parse_write** -/
theorem settings_parse_write (ss : List (Nat × Nat)) (h : Req.H2.Frame.WfSettings ss) :
    ∃ out, writeSettings ss = .ok out ∧
      ∀ (r : Reader) (rest : Bytes), Ready r (6 * ss.length) 0 →
        readFrame r (out ++ rest) = (.ok (.settings ⟨6 * ss.length, tSettings, 0, 0⟩ ss), r, rest) :=
  Req.Lemmas.C05.H2.settings_parse_write ss h

example : Req.H2.Frame.WfSettings [(4, 65535), (3, 100), (4, 4294967295)] := by decide
/-- the excluded point: an INITIAL_WINDOW_SIZE above 2^31-1 is written but read back as a
FLOW_CONTROL_ERROR connection error. -/
example : (readFrame { maxReadSize := 16384 } [0, 0, 6, 4, 0, 0, 0, 0, 0, 0, 4, 128, 0, 0, 0]).1 =
    .error (.conn errFlowControl) := by decide

/-- **settingsAck_parse_write** -/
theorem settingsAck_parse_write :
    ∃ out, writeSettingsAck = .ok out ∧
      ∀ (r : Reader) (rest : Bytes), Ready r 0 0 →
        readFrame r (out ++ rest) = (.ok (.settings ⟨0, tSettings, flagAck, 0⟩ []), r, rest) :=
  Req.Lemmas.C05.H2.settingsAck_parse_write

/-- **pushPromise_parse_write** -/
theorem pushPromise_parse_write (p : PushPromiseParam) (h : WfPushPromise p) :
    ∃ out, writePushPromise false p = .ok out ∧
      ∀ (r : Reader) (rest : Bytes), Ready r (out.length - 9) 0 →
        readFrame r (out ++ rest) =
          (.ok (.pushPromise ⟨out.length - 9, tPushPromise, pushPromiseFlags p, p.streamID⟩ p.promiseID
            p.blockFragment), r, rest) :=
  Req.Lemmas.C05.H2.pushPromise_parse_write p h

example : WfPushPromise ⟨1, 2, [7, 8], true, 3⟩ := by decide

/-- **ping_parse_write** -/
theorem ping_parse_write (ack : Bool) (data : Bytes) (hd : data.length = 8) :
    ∃ out, writePing ack data = .ok out ∧
      ∀ (r : Reader) (rest : Bytes), Ready r 8 0 →
        readFrame r (out ++ rest) = (.ok (.ping ⟨8, tPing, b2n ack flagAck, 0⟩ data), r, rest) :=
  Req.Lemmas.C05.H2.ping_parse_write ack data hd

/-- **goAway_parse_write**: the last-stream-id is masked to 31 bits by the writer. -/
theorem goAway_parse_write (maxSid code : Nat) (debug : Bytes)
    (hc : code < 4294967296) (hl : 8 + debug.length < two24) :
    ∃ out, writeGoAway maxSid code debug = .ok out ∧
      ∀ (r : Reader) (rest : Bytes), Ready r (8 + debug.length) 0 →
        readFrame r (out ++ rest) =
          (.ok (.goAway ⟨8 + debug.length, tGoAway, 0, 0⟩ (maxSid % two31) code debug), r, rest) :=
  Req.Lemmas.C05.H2.goAway_parse_write maxSid code debug hc hl

/-- **windowUpdate_parse_write** -/
theorem windowUpdate_parse_write (sid incr : Nat) (hs : sid < two31)
    (hi : 1 ≤ incr ∧ incr ≤ 2147483647) :
    ∃ out, writeWindowUpdate false sid incr = .ok out ∧
      ∀ (r : Reader) (rest : Bytes), Ready r 4 0 →
        readFrame r (out ++ rest) = (.ok (.windowUpdate ⟨4, tWindowUpdate, 0, sid⟩ incr), r, rest) :=
  Req.Lemmas.C05.H2.windowUpdate_parse_write sid incr hs hi

/-- **continuation_parse_write**: read inside the header block of the same stream; END_HEADERS
closes the block. -/
theorem continuation_parse_write (sid : Nat) (endHeaders : Bool) (frag : Bytes)
    (hs : ValidSid sid) (hl : frag.length < two24) :
    ∃ out, writeContinuation false sid endHeaders frag = .ok out ∧
      ∀ (r : Reader) (rest : Bytes), Ready r frag.length sid →
        readFrame r (out ++ rest) =
          (.ok (.continuation ⟨frag.length, tContinuation, b2n endHeaders flagEndHeaders, sid⟩ frag),
           { r with lastHeaderStream := if endHeaders then 0 else sid }, rest) :=
  Req.Lemmas.C05.H2.continuation_parse_write sid endHeaders frag hs hl

/-- **rawFrame_parse_write**: extension frame types come back as `UnknownFrame` with the payload. -/
theorem rawFrame_parse_write (t fl sid : Nat) (payload : Bytes)
    (ht : 10 ≤ t ∧ t < 256) (hf : fl < 256) (hs : sid < two31) (hl : payload.length < two24) :
    ∃ out, writeRawFrame t fl sid payload = .ok out ∧
      ∀ (r : Reader) (rest : Bytes), Ready r payload.length 0 →
        readFrame r (out ++ rest) = (.ok (.unknown ⟨payload.length, t, fl, sid⟩ payload), r, rest) :=
  Req.Lemmas.C05.H2.rawFrame_parse_write t fl sid payload ht hf hs hl

example : Ready { maxReadSize := 16384 } 8 0 := ⟨rfl, rfl, by decide⟩

/-- **parse_error_classified**: a typed parser fails only with a connection error PROTOCOL_ERROR /
FRAME_SIZE_ERROR / (SETTINGS only) FLOW_CONTROL_ERROR, a stream error PROTOCOL_ERROR on the frame's
own non-zero stream (HEADERS, WINDOW_UPDATE only), or `io.ErrUnexpectedEOF` (the padded frame types
DATA, HEADERS, PUSH_PROMISE only). -/
theorem parse_error_classified (fh : FrameHeader) (p : Bytes) (e : RErr)
    (h : parsePayload fh p = .error e) : ErrClass fh e :=
  Req.Lemmas.C05.H2.parse_error_classified fh p e h

/-- RFC 9113 §6: DATA, HEADERS, PRIORITY, PUSH_PROMISE and CONTINUATION on stream 0 are a
connection error PROTOCOL_ERROR whatever the payload. -/
theorem stream_zero_is_connection_error (fh : FrameHeader) (p : Bytes) (h0 : fh.streamID = 0)
    (ht : fh.type = tData ∨ fh.type = tHeaders ∨ fh.type = tPriority ∨ fh.type = tPushPromise
      ∨ fh.type = tContinuation) :
    parsePayload fh p = .error (.conn errProtocol) :=
  Req.Lemmas.C05.H2.stream_zero_is_connection_error fh p h0 ht

/-- **order_automaton**: `checkFrameOrder`, run from the initial state over a sequence of frame
headers (whose HEADERS/CONTINUATION frames are on non-zero streams, which the typed parsers
guarantee), accepts the whole sequence iff every header block is contiguous on one stream:
a CONTINUATION appears exactly after a HEADERS/CONTINUATION without END_HEADERS, and on the same
stream (`Contiguous`, a state-free predicate on adjacent frames). -/
theorem order_automaton (fs : List FrameHeader)
    (hsid : ∀ fh ∈ fs, (fh.type = tHeaders ∨ fh.type = tContinuation) → fh.streamID ≠ 0) :
    (runOrder 0 fs).isSome ↔ Contiguous none fs :=
  Req.Lemmas.C05.H2.order_automaton fs hsid

example : (runOrder 0 [⟨0, 1, 0, 3⟩, ⟨0, 9, 0, 3⟩, ⟨0, 9, 4, 3⟩, ⟨8, 6, 0, 0⟩]).isSome = true := by decide
example : (runOrder 0 [⟨0, 1, 0, 3⟩, ⟨0, 9, 4, 5⟩]).isSome = false := by decide
example : (runOrder 0 [⟨0, 1, 0, 3⟩, ⟨8, 6, 0, 0⟩]).isSome = false := by decide

end h2

/-! ## HTTP/3 frames and SETTINGS -/
section h3
open Req.H3.Varint Req.H3.Frame

/-- **h3_frameHeader_roundtrip**: DATA and HEADERS frame headers (type and length varints) written by
`Append` are returned by `ParseNext` with the same length, consuming exactly the header. -/
theorem h3_frameHeader_roundtrip (l : Nat) (rest : Bytes) (fuel : Nat) (hl : l < 2 ^ 62) :
    (∃ out, appendData l = some out ∧ parseNext (fuel + 1) (out ++ rest) = (.ok (.data l), rest)) ∧
    (∃ out, appendHeaders l = some out ∧ parseNext (fuel + 1) (out ++ rest) = (.ok (.headers l), rest)) :=
  Req.Lemmas.C05.H3.h3_frameHeader_roundtrip l rest fuel hl

example : parseNext 5 [0x21, 2, 9, 9, 1, 0x40, 0x40] = (.ok (.headers 64), []) := by decide

/-- **h3_reserved_rejected**: the frame types RFC 9114 §7.2.8 reserves are an error. -/
theorem h3_reserved_rejected (t l : Nat) (xt xl rest : Bytes) (fuel : Nat)
    (ht : t = 2 ∨ t = 6 ∨ t = 8 ∨ t = 9) (hxt : append t = some xt) (hxl : append l = some xl) :
    (parseNext (fuel + 1) (xt ++ xl ++ rest)).1 = .error (.reserved t) :=
  Req.Lemmas.C05.H3.h3_reserved_rejected t l xt xl rest fuel ht hxt hxl

/-- **h3_unknown_skipped**: any other frame that is not DATA/HEADERS/SETTINGS (CANCEL_PUSH,
PUSH_PROMISE, GOAWAY, MAX_PUSH_ID, greased and unknown types) is skipped with its payload. -/
theorem h3_unknown_skipped (t : Nat) (xt xl payload rest : Bytes) (fuel : Nat)
    (ht : t ≠ 0 ∧ t ≠ 1 ∧ t ≠ 4 ∧ isReservedType t = false)
    (hxt : append t = some xt) (hxl : append payload.length = some xl) :
    parseNext (fuel + 1) (xt ++ xl ++ payload ++ rest) = parseNext fuel rest :=
  Req.Lemmas.C05.H3.h3_unknown_skipped t xt xl payload rest fuel ht hxt hxl

/-- **h3settings_payload_roundtrip**: what `settingsFrame.Append` writes after the frame header is
parsed back to the same settings — for EVERY iteration order of the `Other` map (the order is the
order of the association list `s.other`, which is arbitrary). -/
theorem h3settings_payload_roundtrip (s : Settings) (bs : Bytes) (h : Req.H3.Frame.WfSettings s)
    (hp : settingsPayload s = some bs) : parseSettingsPayload bs = .ok s :=
  Req.Lemmas.C05.H3.h3settings_payload_roundtrip s bs h hp

/-- **h3settings_roundtrip** (wire level): `ParseNext` on what `settingsFrame.Append` wrote returns
the same settings and leaves exactly the rest of the stream (frames up to the 8 KiB limit). -/
theorem h3settings_roundtrip (s : Settings) (out rest : Bytes) (fuel : Nat)
    (h : Req.H3.Frame.WfSettings s) (hw : appendSettings s = some out) (hsz : out.length ≤ 8192) :
    parseNext (fuel + 1) (out ++ rest) = (.ok (.settings s), rest) :=
  Req.Lemmas.C05.H3.h3settings_roundtrip s out rest fuel h hw hsz

example : appendSettings ⟨true, true, [(6, 16384), (1, 0)]⟩ =
    some [4, 11, 0x33, 1, 8, 1, 6, 0x80, 0, 0x40, 0, 1, 0] := by decide

/-- **h3settings_dup_rejected**: a SETTINGS payload (any sequence of identifier/value varints) in
which an identifier occurs twice is never accepted (RFC 9114 §7.2.4). -/
theorem h3settings_dup_rejected (ps : List (Nat × Nat)) (bs : Bytes)
    (h : appendPairs ps = some bs) (hdup : ¬ (ps.map (·.1)).Nodup) :
    ∃ e, parseSettingsPayload bs = .error e :=
  Req.Lemmas.C05.H3.h3settings_dup_rejected ps bs h hdup

example : parseSettingsPayload [6, 1, 7, 2, 6, 1] = .error (.duplicateSetting 6) := by decide

end h3

/-! ## received HTTP/3 field sections -/
section fields
open Req.H3.Fields Req.H3.Rfc9114

/-- **h3_fields_accept_iff**: `updateResponseFromHeaders` (with the repair of C05-2) accepts a
decoded response field section iff it is well-formed per RFC 9114 §4.2 / §4.3 / §4.3.2 —
`Rfc9114.ResponseSection`, a predicate written from the RFC text: pseudo-header fields first, each
a three-digit `:status`, at least one; then lower-case token names, no control bytes in values, no
connection-specific field, `te` only `trailers`, agreeing usable content-lengths. -/
theorem h3_fields_accept_iff (fs : List Field) :
    (∃ r, updateResponseFromHeaders fs = .ok r) ↔ ResponseSection fs :=
  Req.Lemmas.C05.Fields.h3_fields_accept_iff fs

/-- `:status: 200`, `content-length: 5`, `x-a: 1` is accepted … -/
example : ∃ r, updateResponseFromHeaders
    [⟨pStatus, [50, 48, 48]⟩, ⟨sContentLength, [53]⟩, ⟨[120, 45, 97], [49]⟩] = .ok r :=
  ⟨⟨200, [50, 48, 48], 5, [([88, 45, 65], [[49]]), (sContentLengthCanon, [[53]])], none⟩, by decide⟩
/-- … `:status: 20`, an upper-case name, `connection`, a late pseudo-header are not. -/
example : updateResponseFromHeaders [⟨pStatus, [50, 48]⟩] = .error .invalidStatus := by decide
example : updateResponseFromHeaders [⟨pStatus, [50, 48, 48]⟩, ⟨[88, 45, 97], [49]⟩]
    = .error .notLowerCase := by decide
example : updateResponseFromHeaders [⟨pStatus, [50, 48, 48]⟩, ⟨sConnection, [49]⟩]
    = .error .connectionField := by decide
example : updateResponseFromHeaders [⟨[120, 45, 97], [49]⟩, ⟨pStatus, [50, 48, 48]⟩]
    = .error .pseudoAfterRegular := by decide

/-- **h3_trailers_accept_iff**: `parseTrailers` (with the repair of C05-3) accepts a decoded trailer
section iff it has no pseudo-header field (§4.3) and only valid regular fields (§4.2). -/
theorem h3_trailers_accept_iff (fs : List Field) :
    (∃ r, parseTrailers fs = .ok r) ↔ TrailerSection fs :=
  Req.Lemmas.C05.Fields.h3_trailers_accept_iff fs

example : parseTrailers [⟨[120, 45, 116], [49]⟩] = .ok [([88, 45, 84], [[49]])] := by decide
example : parseTrailers [⟨pStatus, [50, 48, 48]⟩] = .error .pseudoInTrailer := by decide

end fields

/-! ## merged HTTP/2 header lists (`ReadMetaHeaders`) -/
section h2meta
open Req.H2.Meta Req.Lemmas.C05.Meta

/-- **meta_fields_wellformed**: when the model of `readMetaFrame` returns a `MetaHeadersFrame`
(whatever the HPACK decoder emitted, however the block was fragmented), its `Fields` fit
`MaxHeaderListSize` (`hpack.HeaderField.Size` summed), every value is a valid field value, every
regular name a valid lower-case wire name, no pseudo-header field follows a regular one, and
`checkPseudos` holds (known names, no duplicates, not request and response mixed). -/
theorem meta_fields_wellformed (maxList : Nat) (frags : List Frag) (closeErr : Bool)
    (fields : List (Bytes × Bytes)) (trunc : Bool)
    (h : readMeta maxList frags closeErr = .ok fields trunc) :
    fieldsSize fields ≤ maxHeaderListSize maxList ∧ (∀ f ∈ fields, FieldOK f) ∧
    (∀ a b, fields = a ++ b → ∀ f ∈ b, isPseudoName f.1 = true → ∀ g ∈ a, isPseudoName g.1 = true) ∧
    checkPseudos fields = true :=
  meta_ok_wellformed maxList frags closeErr fields trunc h

example : readMeta 0 [⟨4, [.field sStatus [50, 48, 48]]⟩, ⟨9, [.field [120] [49]]⟩] false =
    .ok [(sStatus, [50, 48, 48]), ([120], [49])] false := by decide
/-- a header list one byte over the limit is truncated, not an error … -/
example : readMeta 69 [⟨8, [.field sStatus [50, 48, 48], .field [120] [49]]⟩] false =
    .ok [(sStatus, [50, 48, 48])] true := by decide
/-- … and `:protocol` is a request pseudo-header (repair C05-1). -/
example : readMeta 0 [⟨8, [.field sProtocol [119], .field sMethod [71]]⟩] false =
    .ok [(sProtocol, [119]), (sMethod, [71])] false := by decide

end h2meta

end Req.Props.C05
