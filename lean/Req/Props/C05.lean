/-! C05 — property theorems (none yet). -/
