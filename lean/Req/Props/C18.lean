import Req.Client.Result
/-!
C18 — property theorems, part 1: classification and result binding
(`Req.Result`, the model of `defaultResultStateChecker`, `ResultState`, `parseResponseBody`,
`unmarshalBody`, `ToBytes`). The pipeline theorems are in `Req.Props.C18Pipeline`.
-/
namespace Req.Props.C18
open Req.Result

/-! ### classification -/

/-- The default checker is exactly the three status bands, for every integer status. -/
theorem default_bands (code : Int) :
    (defaultChecker code = .success ↔ 200 ≤ code ∧ code ≤ 299) ∧
    (defaultChecker code = .error ↔ 400 ≤ code) ∧
    (defaultChecker code = .unknown ↔ code ≤ 199 ∨ (300 ≤ code ∧ code ≤ 399)) := by
  unfold defaultChecker
  by_cases h1 : code > 199 ∧ code < 300 <;> by_cases h2 : code > 399 <;> simp [h1, h2] <;> omega

example : defaultChecker 204 = .success ∧ defaultChecker 399 = .unknown ∧ defaultChecker 400 = .error
    ∧ defaultChecker 199 = .unknown ∧ defaultChecker 300 = .unknown := by decide

/-- A response without an http response is in no state. -/
theorem classify_nil (custom : Option ResultState) (code : Int) :
    classify false custom code = .unknown := by
  simp [classify]

/-- A custom checker replaces the default on every status. -/
theorem classify_custom (s : ResultState) (code : Int) : classify true (some s) code = s := by
  simp [classify]

theorem classify_default (code : Int) : classify true none code = defaultChecker code := by
  simp [classify]

/-- `IsSuccessState` and `IsErrorState` are never both true. -/
theorem states_exclusive (hasHttp : Bool) (custom : Option ResultState) (code : Int) :
    ¬ (isSuccessState hasHttp custom code = true ∧ isErrorState hasHttp custom code = true) := by
  unfold isSuccessState isErrorState
  intro ⟨h1, h2⟩
  simp only [Bool.and_eq_true, beq_iff_eq] at h1 h2
  rw [h1.2] at h2
  exact absurd h2.2 (by decide)

/-! ### which target is selected -/

theorem select_success_iff (i : BindIn) :
    selectTarget i = some .success ↔
      ∃ h, i.http = some h ∧ i.successTarget = true ∧ stateOf h = .success ∧ h.status ≠ noContent := by
  obtain ⟨http, sT, eT, cE, respErr, cached, slots⟩ := i
  rcases http with _ | h
  · simp [selectTarget]
  · cases hst : stateOf h <;> cases sT <;> cases eT <;> cases cE <;> by_cases h204 : h.status = noContent <;>
      simp [selectTarget, hst, h204]

theorem select_errorReq_iff (i : BindIn) :
    selectTarget i = some .errorReq ↔
      ∃ h, i.http = some h ∧ i.errorTarget = true ∧ stateOf h = .error ∧ h.status ≠ noContent := by
  obtain ⟨http, sT, eT, cE, respErr, cached, slots⟩ := i
  rcases http with _ | h
  · simp [selectTarget]
  · cases hst : stateOf h <;> cases sT <;> cases eT <;> cases cE <;> by_cases h204 : h.status = noContent <;>
      simp [selectTarget, hst, h204]

/-- The client-level common error type is used only when the request carries no error target. -/
theorem select_errorCommon_iff (i : BindIn) :
    selectTarget i = some .errorCommon ↔
      ∃ h, i.http = some h ∧ i.errorTarget = false ∧ i.commonErr = true ∧ stateOf h = .error
        ∧ h.status ≠ noContent := by
  obtain ⟨http, sT, eT, cE, respErr, cached, slots⟩ := i
  rcases http with _ | h
  · simp [selectTarget]
  · cases hst : stateOf h <;> cases sT <;> cases eT <;> cases cE <;> by_cases h204 : h.status = noContent <;>
      simp [selectTarget, hst, h204]

/-! ### binding -/

/-- "carries content and unmarshals", as the code decides it: no error recorded so far, the body
is (or can be) read, and the unmarshaller chosen from the Content-Type accepts it. -/
def Ready (i : BindIn) (h : Http) : Prop :=
  i.respErr = none ∧ (i.bodyCached = true ∨ h.bodyOK = true) ∧ codecOK h = true

instance (i : BindIn) (h : Http) : Decidable (Ready i h) := by unfold Ready; infer_instance

/-- The slots after `parseResponseBody`, in closed form. -/
theorem parse_slots (i : BindIn) :
    (parseBody i).slots =
      match i.http, selectTarget i with
      | some h, some t => if Ready i h then store i.slots t else i.slots
      | _, _ => i.slots := by
  obtain ⟨http, sT, eT, cE, respErr, cached, slots⟩ := i
  rcases http with _ | h
  · simp [parseBody]
  · rcases hsel : selectTarget ⟨some h, sT, eT, cE, respErr, cached, slots⟩ with _ | t
    · simp [parseBody, hsel]
    · rcases respErr with _ | e <;> cases cached <;> cases hr : h.bodyOK <;> cases hc : codecOK h <;>
        simp [parseBody, hsel, Ready, hr, hc]

/-- The error `parseResponseBody` returns, in closed form: none when no target is selected;
otherwise the already recorded error, else a read failure, else an unmarshalling failure. -/
theorem parse_err (i : BindIn) :
    (parseBody i).err =
      match i.http, selectTarget i with
      | some h, some _ =>
        match i.respErr with
        | some e => some e
        | none =>
          if i.bodyCached = false ∧ h.bodyOK = false then h.acqErr
          else if codecOK h = true then none else some .unmarshal
      | _, _ => none := by
  obtain ⟨http, sT, eT, cE, respErr, cached, slots⟩ := i
  rcases http with _ | h
  · simp [parseBody]
  · rcases hsel : selectTarget ⟨some h, sT, eT, cE, respErr, cached, slots⟩ with _ | t
    · simp [parseBody, hsel]
    · rcases respErr with _ | e <;> cases cached <;> cases hr : h.bodyOK <;> cases hc : codecOK h <;>
        simp [parseBody, hsel, hr, hc]

/-- **success_bound_iff** — starting from empty slots, the success result is populated exactly
when a target was supplied, the response is in the success state, it is not a 204, and the body
reads and unmarshals. -/
theorem success_bound_iff (i : BindIn) (hs : i.slots = {}) :
    (parseBody i).slots.result = true ↔
      ∃ h, i.http = some h ∧ i.successTarget = true ∧ stateOf h = .success ∧ h.status ≠ noContent
        ∧ Ready i h := by
  rw [parse_slots]
  constructor
  · intro hres
    rcases hh : i.http with _ | h
    · simp [hh, hs] at hres
    · rcases hsel : selectTarget i with _ | t
      · simp [hh, hsel, hs] at hres
      · simp only [hh, hsel] at hres
        by_cases hr : Ready i h
        · rw [if_pos hr] at hres
          cases t
          · obtain ⟨h', e1, e2, e3, e4⟩ := (select_success_iff i).mp hsel
            rw [hh] at e1; cases e1
            exact ⟨h, rfl, e2, e3, e4, hr⟩
          · simp [store, hs] at hres
          · simp [store, hs] at hres
        · rw [if_neg hr] at hres; simp [hs] at hres
  · rintro ⟨h, hh, hT, hst, h204, hr⟩
    have hsel := (select_success_iff i).mpr ⟨h, hh, hT, hst, h204⟩
    simp [hh, hsel, hr, store]

example : (parseBody { http := some { status := 200, ct := [], custom := none, readOK := true, jsonOK := true, xmlOK := false },
                       successTarget := true, errorTarget := true, commonErr := true, respErr := none,
                       bodyCached := true, slots := {} }).slots = { result := true, error := none } := by decide

/-- **error_bound_iff** — the request-level error target is populated exactly when it was
supplied, the response is in the error state, it is not a 204, and the body reads and unmarshals. -/
theorem error_bound_iff (i : BindIn) (hs : i.slots = {}) :
    (parseBody i).slots.error = some .errorReq ↔
      ∃ h, i.http = some h ∧ i.errorTarget = true ∧ stateOf h = .error ∧ h.status ≠ noContent
        ∧ Ready i h := by
  rw [parse_slots]
  constructor
  · intro hres
    rcases hh : i.http with _ | h
    · simp [hh, hs] at hres
    · rcases hsel : selectTarget i with _ | t
      · simp [hh, hsel, hs] at hres
      · simp only [hh, hsel] at hres
        by_cases hr : Ready i h
        · rw [if_pos hr] at hres
          cases t
          · simp [store, hs] at hres
          · obtain ⟨h', e1, e2, e3, e4⟩ := (select_errorReq_iff i).mp hsel
            rw [hh] at e1; cases e1
            exact ⟨h, rfl, e2, e3, e4, hr⟩
          · simp [store] at hres
        · rw [if_neg hr] at hres; simp [hs] at hres
  · rintro ⟨h, hh, hT, hst, h204, hr⟩
    have hsel := (select_errorReq_iff i).mpr ⟨h, hh, hT, hst, h204⟩
    simp [hh, hsel, hr, store]

/-- … and an object of the client-level common error type exactly when, in addition, the
request carries NO error target of its own (request-level target before client-level type). -/
theorem error_common_bound_iff (i : BindIn) (hs : i.slots = {}) :
    (parseBody i).slots.error = some .errorCommon ↔
      ∃ h, i.http = some h ∧ i.errorTarget = false ∧ i.commonErr = true ∧ stateOf h = .error
        ∧ h.status ≠ noContent ∧ Ready i h := by
  rw [parse_slots]
  constructor
  · intro hres
    rcases hh : i.http with _ | h
    · simp [hh, hs] at hres
    · rcases hsel : selectTarget i with _ | t
      · simp [hh, hsel, hs] at hres
      · simp only [hh, hsel] at hres
        by_cases hr : Ready i h
        · rw [if_pos hr] at hres
          cases t
          · simp [store, hs] at hres
          · simp [store] at hres
          · obtain ⟨h', e1, e2, e3, e4, e5⟩ := (select_errorCommon_iff i).mp hsel
            rw [hh] at e1; cases e1
            exact ⟨h, rfl, e2, e3, e4, e5, hr⟩
        · rw [if_neg hr] at hres; simp [hs] at hres
  · rintro ⟨h, hh, hT, hC, hst, h204, hr⟩
    have hsel := (select_errorCommon_iff i).mpr ⟨h, hh, hT, hC, hst, h204⟩
    simp [hh, hsel, hr, store]

example : (parseBody { http := some { status := 404, ct := [120, 109, 108], custom := none, readOK := true, jsonOK := false, xmlOK := true },
                       successTarget := true, errorTarget := false, commonErr := true, respErr := none,
                       bodyCached := false, slots := {} }).slots = { result := false, error := some .errorCommon } := by decide

/-- `resp.error` never holds the success target. -/
theorem error_slot_kind (i : BindIn) (hs : i.slots = {}) : (parseBody i).slots.error ≠ some .success := by
  rw [parse_slots]
  rcases i.http with _ | h
  · simp [hs]
  · rcases selectTarget i with _ | t
    · simp [hs]
    · simp only []
      split
      · cases t <;> simp [store, hs]
      · simp [hs]

/-- **never_both** (one invocation) — `parseResponseBody` on a fresh response never populates
both the success result and the error result. -/
theorem never_both (i : BindIn) (hs : i.slots = {}) :
    ¬ ((parseBody i).slots.result = true ∧ (parseBody i).slots.error ≠ none) := by
  rw [parse_slots]
  rcases i.http with _ | h
  · simp [hs]
  · rcases selectTarget i with _ | t
    · simp [hs]
    · simp only []
      split
      · cases t <;> simp [store, hs]
      · simp [hs]

/-- Slots only ever gain what `store` puts there: a populated slot stays populated. -/
theorem parse_slots_mono (i : BindIn) :
    (i.slots.result = true → (parseBody i).slots.result = true) := by
  rw [parse_slots]
  intro h0
  rcases i.http with _ | h
  · simpa using h0
  · rcases selectTarget i with _ | t
    · simpa using h0
    · simp only []
      split
      · cases t <;> simp [store, h0]
      · exact h0

/-- **unmarshal_failure_surfaces** (binding level) — when a target is selected, nothing was
recorded before and the body reads but does not unmarshal, `parseResponseBody` returns the
unmarshalling error and leaves the slots untouched. -/
theorem unmarshal_failure_surfaces (i : BindIn) (h : Http) (t : Target)
    (hh : i.http = some h) (hsel : selectTarget i = some t) (he : i.respErr = none)
    (hread : i.bodyCached = true ∨ h.bodyOK = true) (hbad : codecOK h = false) :
    (parseBody i).err = some .unmarshal ∧ (parseBody i).slots = i.slots := by
  constructor
  · rw [parse_err]; simp only [hh, hsel, he, hbad]
    have : ¬ (i.bodyCached = false ∧ h.bodyOK = false) := by
      rintro ⟨a, b⟩; rcases hread with c | c <;> simp_all
    simp [this]
  · rw [parse_slots]; simp [hh, hsel, Ready, hbad]

/-- What `ToBytes` can fail with: the body read, or the client's response-body transformer. -/
theorem acqErr_cases (h : Http) (e : Err) (he : h.acqErr = some e) :
    (h.readOK = false ∧ e = .read) ∨ (h.readOK = true ∧ ∃ k, h.xf = .fail e k) := by
  unfold Http.acqErr at he
  cases hr : h.readOK
  · left; simp [hr] at he; exact ⟨rfl, he.symm⟩
  · right
    simp only [hr, Bool.not_true, Bool.false_eq_true, if_false] at he
    split at he
    · cases he; exact ⟨rfl, _, by assumption⟩
    · cases he

theorem bodyOK_false (h : Http) (hb : h.bodyOK = false) : ∃ e, h.acqErr = some e := by
  unfold Http.bodyOK at hb
  cases ha : h.acqErr with
  | none => simp [ha] at hb
  | some e => exact ⟨e, rfl⟩

/-- Conversely `parseResponseBody` returns an error ONLY when a target was selected; the error
is then the recorded one, a failure to read or transform the body (recorded by `ToBytes`), or
an unmarshalling failure — and nothing is bound. -/
theorem parse_err_cases (i : BindIn) (e : Err) (herr : (parseBody i).err = some e) :
    (∃ h t, i.http = some h ∧ selectTarget i = some t ∧
      (i.respErr = some e ∨
        (i.respErr = none ∧ ((i.bodyCached = false ∧ h.acqErr = some e) ∨ e = .unmarshal)))) ∧
    (parseBody i).slots = i.slots := by
  rw [parse_err] at herr
  rw [parse_slots]
  rcases hh : i.http with _ | h
  · simp [hh] at herr
  · rcases hsel : selectTarget i with _ | t
    · simp [hh, hsel] at herr
    · simp only [hh, hsel] at herr ⊢
      rcases hre : i.respErr with _ | e'
      · simp only [hre] at herr
        have hnr : ¬ Ready i h := by
          intro ⟨_, h2, h3⟩
          have : ¬ (i.bodyCached = false ∧ h.bodyOK = false) := by
            rintro ⟨a, b⟩; rcases h2 with c | c <;> simp_all
          simp [this, h3] at herr
        refine ⟨⟨h, t, rfl, rfl, Or.inr ⟨rfl, ?_⟩⟩, by simp [hnr]⟩
        split at herr
        · left; rename_i hc; exact ⟨hc.1, herr⟩
        · split at herr
          · cases herr
          · right; cases herr; rfl
      · simp only [hre] at herr
        cases herr
        exact ⟨⟨h, t, rfl, rfl, Or.inl rfl⟩, by simp [Ready, hre]⟩

/-- The unmarshaller is XML exactly when the Content-Type mentions "xml" and not "json" — in any
letter case; everything else (including no Content-Type at all) goes to JSON. -/
theorem codec_xml_iff (ct : Req.Proto.Bytes) :
    codecFor ct = .xml ↔ isJSONType ct = false ∧ isXMLType ct = true := by
  unfold codecFor
  cases isJSONType ct <;> cases isXMLType ct <;> simp

theorem lowerB_idem (b : UInt8) : lowerB (lowerB b) = lowerB b := by
  unfold lowerB
  by_cases h : 65 ≤ b ∧ b ≤ 90
  · have h2 : ¬ (65 ≤ b + 32 ∧ b + 32 ≤ 90) := by
      obtain ⟨h1, h2⟩ := h
      rw [UInt8.le_iff_toNat_le] at h1 h2
      intro ⟨_, h4⟩
      rw [UInt8.le_iff_toNat_le] at h4
      have : (b + 32).toNat = b.toNat + 32 := by
        rw [UInt8.toNat_add]; simp at h1 h2 ⊢; omega
      simp at h1 h2 h4; omega
    simp [h, h2]
  · simp [h]

theorem lowerBytes_idem (ct : Req.Proto.Bytes) : lowerBytes (lowerBytes ct) = lowerBytes ct := by
  unfold lowerBytes
  rw [List.map_map]
  apply List.map_congr_left
  intro b _
  exact lowerB_idem b

/-- **codec_case_insensitive** — the choice of the unmarshaller does not depend on the letter
case of the Content-Type: a value and its lower-cased form select the same one (media types are
case-insensitive, RFC 9110 8.3.1; /repo f13c292). -/
theorem codec_case_insensitive (ct : Req.Proto.Bytes) : codecFor (lowerBytes ct) = codecFor ct := by
  unfold codecFor isJSONType isXMLType
  rw [lowerBytes_idem]

/-- two values that differ in letter case only select the same unmarshaller -/
theorem codec_same_of_same_lower (a b : Req.Proto.Bytes) (h : lowerBytes a = lowerBytes b) : codecFor a = codecFor b := by
  unfold codecFor isJSONType isXMLType; rw [h]

example : codecFor [116, 101, 120, 116, 47, 120, 109, 108] = .xml ∧ codecFor [] = .json
    ∧ codecFor [120, 109, 108, 43, 106, 115, 111, 110] = .json := by decide

/-- "application/XML", "TEXT/Xml" → xml; "Application/JSON" → json; "xml+JSON" → json -/
example : codecFor [97, 112, 112, 108, 105, 99, 97, 116, 105, 111, 110, 47, 88, 77, 76] = .xml
    ∧ codecFor [84, 69, 88, 84, 47, 88, 109, 108] = .xml
    ∧ codecFor [65, 112, 112, 108, 105, 99, 97, 116, 105, 111, 110, 47, 74, 83, 79, 78] = .json
    ∧ codecFor [120, 109, 108, 43, 74, 83, 79, 78] = .json := by decide

end Req.Props.C18
