/-! C18 — property theorems (none yet). -/
