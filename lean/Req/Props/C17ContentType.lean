import Req.Client.BodyTable
import Req.Props.C17
/-!
C17 — "under a Content-Type that matches the body": the decision table of `parseRequestBody`
over EVERY combination of Content-Type presets (request level, client level, both, none) and body
kinds, with the server's choice of parser as the judge.
-/
namespace Req.Props.C17ContentType
open Req.Proto Req.Form Req.Body Req.Multipart

theorem pairUp_isEmpty : ∀ (l : List Bytes) (ps : List Pair), pairUp l = some ps → ps.isEmpty = l.isEmpty
  | [], ps, h => by simp [pairUp] at h; subst h; rfl
  | [_], ps, h => by simp [pairUp] at h
  | k :: v :: rest, ps, h => by
    simp only [pairUp, Option.map_eq_some_iff] at h
    obtain ⟨r, -, rfl⟩ := h
    rfl

/-- **body_kind_table** — whenever the call succeeds, the kind of body that is sent is the one the
table names: forbidden method ≻ multipart ≻ form ≻ marshalled value ≻ raw body ≻ nothing. -/
theorem body_kind_table (c : Cfg) (out : Out) (h : dispatch c = some out) : out.kind = kindTable c := by
  unfold dispatch at h
  unfold kindTable hasForm
  split at h
  · next hf => simp only [Option.some.injEq] at h; subst h; simp [hf]
  · next hf =>
    simp only [hf, Bool.false_eq_true, ↓reduceIte]
    split at h
    · cases h
    · next pairs hp =>
      have hpe := pairUp_isEmpty _ _ hp
      simp only at h
      split at h
      · next hmp =>
        simp only [hmp, ↓reduceIte]
        split at h
        · simp only [Option.some.injEq] at h; subst h; rfl
        · cases h
      · next hmp =>
        simp only [hmp, Bool.false_eq_true, ↓reduceIte]
        rw [hpe] at h
        split at h
        · next hform => simp only [Option.some.injEq] at h; subst h; simp [hform]
        · next hform =>
          simp only [hform, Bool.false_eq_true, ↓reduceIte]
          split at h
          · split at h
            · split at h
              · simp only [Option.some.injEq] at h; subst h; simp [*]
              · cases h
            · split at h
              · split at h
                · simp only [Option.some.injEq] at h; subst h; simp [*]
                · cases h
              · split at h
                · simp only [Option.some.injEq] at h; subst h; simp [*]
                · cases h
          · split at h
            · simp only [Option.some.injEq] at h; subst h; simp [*]
            · split at h <;> (simp only [Option.some.injEq] at h; subst h; simp [*])

/-- **content_type_matches_body** — ∀ request descriptions, ∀ presets (request level, client
level, both, none): the Content-Type the request goes out with is the one the table gives for the
kind of body that is sent. -/
theorem content_type_matches_body (c : Cfg) (out : Out) (h : dispatch c = some out) :
    out.ct = expectedCT c out.kind := by
  unfold dispatch at h
  split at h
  · simp only [Option.some.injEq] at h; subst h; rfl
  · split at h
    · cases h
    · simp only at h
      split at h
      · split at h
        · simp only [Option.some.injEq] at h; subst h; rfl
        · cases h
      · split at h
        · simp only [Option.some.injEq] at h; subst h; rfl
        · split at h
          · split at h
            · split at h
              · simp only [Option.some.injEq] at h; subst h; simp [expectedCT, *]
              · cases h
            · split at h
              · split at h
                · simp only [Option.some.injEq] at h; subst h; rfl
                · cases h
              · split at h
                · simp only [Option.some.injEq] at h; subst h; simp [expectedCT, *]
                · cases h
          · split at h
            · simp only [Option.some.injEq] at h; subst h; rfl
            · split at h <;> (simp only [Option.some.injEq] at h; subst h; simp [expectedCT, *])

/-- replace both presets -/
def withPresets (c : Cfg) (reqCT clientCT : Bytes) : Cfg := { c with reqCT := reqCT, clientCT := clientCT }

/-- **form_ignores_presets** — a urlencoded form or a multipart body is sent EXACTLY the same —
body and Content-Type — whatever Content-Type was preset at request level, at client level, or at
both (the class of seed C17-r5-1: a kept preset would make the server's `ParseForm` see no keys). -/
theorem form_ignores_presets (c : Cfg) (reqCT clientCT : Bytes)
    (hm : isPayloadForbid c.method c.allowGet = false)
    (hk : c.multipart = true ∨ hasForm c = true) :
    dispatch (withPresets c reqCT clientCT) = dispatch c := by
  unfold dispatch withPresets
  simp only [hm, Bool.false_eq_true, ↓reduceIte]
  cases hp : pairUp c.ordered with
  | none => rfl
  | some pairs =>
    simp only
    have hpe := pairUp_isEmpty _ _ hp
    rcases hk with hk | hk
    · simp [hk]
    · cases hmp : c.multipart
      · simp only [hasForm] at hk
        rw [← hpe] at hk
        simp [hk]
      · simp

theorem formCT_parses_as_urlencoded : serverParser formCT = .urlencoded := by decide

/-- **server_picks_matching_parser** — the judge is the SERVER: for every description and every
preset combination the Content-Type that is sent makes a standard server choose the parser that
fits the body: the urlencoded parser for forms, the multipart parser with the body's own boundary
for multipart bodies (any boundary `SetBoundary` accepts); a marshalled value goes out under an XML
type iff the XML marshaller produced it. -/
theorem server_picks_matching_parser (c : Cfg) (out : Out) (h : dispatch c = some out) :
    (out.kind = .form → serverParser out.ct = .urlencoded) ∧
    (out.kind = .multipart → validBoundary c.boundary = true → serverParser out.ct = .multipart c.boundary) ∧
    (out.kind = .marshalXml → isXMLType out.ct = true) ∧
    (out.kind = .marshalJson → isXMLType out.ct = false) := by
  have hct := content_type_matches_body c out h
  have hkind := body_kind_table c out h
  refine ⟨fun hk => ?_, fun hk hv => ?_, fun hk => ?_, fun hk => ?_⟩
  · rw [hct, hk]; exact formCT_parses_as_urlencoded
  · rw [hct, hk]
    simp only [expectedCT, serverParser, C17.content_type_boundary c.boundary hv]
    have h1 : (multipartFormData == wwwForm) = false := by decide
    simp [h1, List.lookup]
  · rw [hct, hk]
    rw [hk] at hkind
    simp only [expectedCT]
    unfold kindTable at hkind
    split at hkind; · cases hkind
    split at hkind; · cases hkind
    split at hkind; · cases hkind
    split at hkind
    · split at hkind; · cases hkind
      split at hkind
      · assumption
      · cases hkind
    · split at hkind <;> cases hkind
  · rw [hct, hk]
    rw [hk] at hkind
    simp only [expectedCT]
    split
    · decide
    · unfold kindTable at hkind
      split at hkind; · cases hkind
      split at hkind; · cases hkind
      split at hkind; · cases hkind
      split at hkind
      · by_cases hx : isXMLType (effCT c) = true
        · simp [*] at hkind
        · simpa using hx
      · split at hkind <;> cases hkind

/-- non-vacuity: a form under request-level JSON + client-level XML presets still goes out (and is
parsed) as a form; the same value marshalled follows the request-level preset -/
private def exForm : Cfg :=
  { method := "POST", allowGet := true, multipart := false, clientForm := [],
    reqForm := [([97], [[49]])], ordered := [], files := [], boundary := [66], marshal := none,
    body := none, reqCT := jsonCT, clientCT := [116, 101, 120, 116, 47, 120, 109, 108], sniffed := [] }

example : (dispatch exForm).map (fun o => (o.kind, o.ct == formCT, serverParser o.ct)) =
    some (.form, true, .urlencoded) := by decide
example : dispatch (withPresets exForm [] []) = dispatch exForm := by decide
example : (dispatch { exForm with reqForm := [], marshal := some (some [123, 125], some [60, 97, 47, 62]) }).map (·.kind)
    = some .marshalJson ∧
  (dispatch { exForm with reqForm := [], reqCT := [], marshal := some (some [123, 125], some [60, 97, 47, 62]) }).map
    (fun o => (o.kind, o.body)) = some (.marshalXml, some [60, 97, 47, 62]) := by decide
example : (dispatch { exForm with multipart := true }).map (fun o => serverParser o.ct) = some (.multipart [66]) := by decide

end Req.Props.C17ContentType
