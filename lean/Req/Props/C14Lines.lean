import Req.Client.CompressLines
import Req.Props.C14
/-!
C14 — the decoding decision over the raw header LINES of the response (round 5).

* `hget_eq_firstLine`, `respIn_eq_ofLines` — the three branches read the FIRST `Content-Encoding`
  line, whole: the decision is a function of the field lines alone;
* `decision_ignores_content_type` — non-interference: two responses with the same
  `Content-Encoding` lines get the same action and the same body reader, whatever their other
  fields (Content-Type, Content-Disposition, Cache-Control, …) are; `decision_ignores_field`:
  adding, removing or changing any other field anywhere in the header changes nothing
  (seeded/C14-r5-1 makes the HTTP/1.1 decision read Content-Type);
* `other_fields_delivered` — decoded or not, every field other than Content-Encoding /
  Content-Length reaches the caller with its values, in order;
* `decoded_is_single_coding`, `list_never_decoded`, `decode_iff_single_supported_token` — with one
  field line: the body is decoded iff the line is ONE coding (no comma, no optional white space)
  and that coding is a supported token (or, for the transport's own request, gzip in any case);
  a line that denotes a list of two or more codings — or none — is never decoded, on any stack
  (seeded/C14-r5-2 decodes `deflate, gzip` on HTTP/2);
* `first_line_decides` — several field lines: the code reads `Header.Get`, i.e. the first one
  (as net/http does); `later_lines_alone_never_decode` — a supported token on a later line behind
  an unsupported first line leaves the response untouched.
-/
namespace Req.Props.C14Lines
open Req.Proto Req.Compress Req.Compress.Lines Req.Props.C14

/-! ### the decision reads the Content-Encoding lines, and only them -/

theorem hget_eq_firstLine (h : Header) : hget h hContentEncoding = firstLine (ceLines h) := by
  induction h with
  | nil => rfl
  | cons p t ih =>
    unfold hget ceLines hvalues firstLine at *
    by_cases hp : (p.1 == hContentEncoding) = true
    · simp [List.find?, List.filter, hp]
    · have hp' : (p.1 == hContentEncoding) = false := by simpa using hp
      simp only [List.find?, List.filter, hp'] at ih ⊢
      exact ih

theorem respIn_eq_ofLines (s : Site) (c : ReqCfg) (auto hasBody : Bool) (r : Resp) :
    respIn s c auto hasBody r =
      respInOfLines (addGzip s c) auto c.isHead hasBody (ceLines r.header) := by
  simp only [respIn, respInOfLines, hget_eq_firstLine]

/-- **decision_ignores_content_type** — non-interference: the action taken and the reader put
under `Response.Body` depend on the response header only through its `Content-Encoding` lines.
Two responses that differ in Content-Type (or any other field, or ContentLength) are decided
alike, on every stack and under every configuration. -/
theorem decision_ignores_content_type (s : Site) (c : ReqCfg) (auto hasBody : Bool) (r r' : Resp)
    (h : ceLines r.header = ceLines r'.header) :
    decideAt s (respIn s c auto hasBody r) = decideAt s (respIn s c auto hasBody r') ∧
    (process s c auto hasBody r).body = (process s c auto hasBody r').body := by
  have e : respIn s c auto hasBody r = respIn s c auto hasBody r' := by
    rw [respIn_eq_ofLines, respIn_eq_ofLines, h]
  refine ⟨by rw [e], ?_⟩
  unfold process
  rw [e]
  cases decideAt s (respIn s c auto hasBody r') <;> rfl

theorem ceLines_insert (h1 h2 : Header) (k v : Bytes) (hk : k ≠ hContentEncoding) :
    ceLines (h1 ++ (k, v) :: h2) = ceLines (h1 ++ h2) := by
  have : ((k == hContentEncoding) = false) := by simpa using hk
  simp [ceLines, hvalues, List.filter_append, List.filter, this]

/-- **decision_ignores_field** — a field that is not Content-Encoding, placed anywhere in the
header with any value (`Content-Type: application/gzip` included), does not change the outcome. -/
theorem decision_ignores_field (s : Site) (c : ReqCfg) (auto hasBody : Bool) (h1 h2 : Header)
    (k v : Bytes) (hk : k ≠ hContentEncoding) (n n' : Int) (u u' : Bool) :
    (process s c auto hasBody ⟨h1 ++ (k, v) :: h2, n, u⟩).body =
      (process s c auto hasBody ⟨h1 ++ h2, n', u'⟩).body :=
  (decision_ignores_content_type s c auto hasBody _ _ (ceLines_insert h1 h2 k v hk)).2

def hContentType : Bytes := [67, 111, 110, 116, 101, 110, 116, 45, 84, 121, 112, 101]
def appGzip : Bytes := [97, 112, 112, 108, 105, 99, 97, 116, 105, 111, 110, 47, 103, 122, 105, 112]

-- `Content-Type: application/gzip` + `Content-Encoding: gzip` to the transport's own request: gunzipped
example :
    (process .h1 ⟨false, [71, 69, 84], [], []⟩ false true
      ⟨[(hContentType, appGzip), (hContentEncoding, tokGzip)], 5, false⟩).body = some .gunzip := by decide
example : hContentType ≠ hContentEncoding := by decide

/-- **other_fields_delivered** — decoded or not, every field other than Content-Encoding and
Content-Length arrives with all its values in order. -/
theorem other_fields_delivered (s : Site) (c : ReqCfg) (auto hasBody : Bool) (r : Resp) (k : Bytes)
    (h1 : k ≠ hContentEncoding) (h2 : k ≠ hContentLength) :
    hvalues (process s c auto hasBody r).resp.header k = hvalues r.header k := by
  unfold process
  cases decideAt s (respIn s c auto hasBody r) <;>
    simp only [applyAction, strip] <;>
    first
      | rfl
      | (rw [hvalues_hdel_other _ _ _ h2, hvalues_hdel_other _ _ _ h1])

/-! ### one field line: decoded iff it is a single supported coding -/

theorem splitComma_plain (v : Bytes) (hp : Plain v) : splitComma v = [v] := by
  induction v with
  | nil => rfl
  | cons b bs ih =>
    have hb : (b == 44) = false := by simpa using (hp b (by simp)).1
    have := ih (fun x hx => hp x (List.mem_cons_of_mem _ hx))
    simp [splitComma, hb, this]

theorem dropWhile_plain (v : Bytes) (hp : Plain v) : v.dropWhile isOWS = v := by
  cases v with
  | nil => rfl
  | cons b bs => simp [List.dropWhile, (hp b (by simp)).2]

theorem trimOWS_plain (v : Bytes) (hp : Plain v) : trimOWS v = v := by
  unfold trimOWS
  rw [dropWhile_plain v hp, dropWhile_plain v.reverse (fun b hb => hp b (List.mem_reverse.mp hb)),
    List.reverse_reverse]

theorem codings_plain (v : Bytes) (hp : Plain v) (hne : v ≠ []) : codings [v] = [v] := by
  simp [codings, splitComma_plain v hp, trimOWS_plain v hp, hne]

theorem token_plain (a : Alg) : Plain (tokenOf a) ∧ tokenOf a ≠ [] := by
  cases a <;> refine ⟨?_, by decide⟩ <;> (intro b hb; revert b; decide)

theorem select_eq_token (v : Bytes) (a : Alg) : select v = some a ↔ v = tokenOf a := by
  rw [select_some_iff]
  cases a <;> simp [tokenOf] <;> decide

theorem gzipFold_plain (v : Bytes) (h : isGzipFold v = true) : Plain v ∧ v ≠ [] := by
  have hlt : Req.Ascii.lower tokGzip = tokGzip := by decide
  have hl : Req.Ascii.lower v = tokGzip := by
    have := h
    simp only [isGzipFold, Req.Ascii.equalFold, beq_iff_eq, hlt] at this
    exact this
  constructor
  · intro b hb
    have hm : Req.Ascii.toLower b ∈ tokGzip := by
      rw [← hl]; exact List.mem_map_of_mem hb
    constructor
    · intro e; subst e; revert hm; decide
    · cases ho : isOWS b with
      | false => rfl
      | true =>
        have : b = 32 ∨ b = 9 := by simpa [isOWS] using ho
        rcases this with e | e <;> (subst e; revert hm; decide)
  · intro e; subst e; revert hl; decide

/-- whenever a body is decoded the value that was read contains no comma and no white space -/
theorem decoded_is_plain (s : Site) (i : RespIn) (h : decideAt s i ≠ .untouched) :
    Plain i.ce ∧ i.ce ≠ [] := by
  have hcases : isGzipFold i.ce = true ∨ ∃ a, select i.ce = some a := by
    cases hf : isGzipFold i.ce with
    | true => exact Or.inl rfl
    | false =>
      right
      cases hs : select i.ce with
      | some a => exact ⟨a, rfl⟩
      | none =>
        exfalso; apply h
        cases s <;> simp [decideAt, decideH1, decideH2, decideH3, decideCore, hf, hs] <;>
          (repeat' split) <;> rfl
  rcases hcases with hf | ⟨a, ha⟩
  · exact gzipFold_plain _ hf
  · rw [(select_eq_token _ _).mp ha]
    exact token_plain a

/-- **decoded_is_single_coding** — whenever a body is decoded, on any stack, the line that was
read denotes exactly ONE content coding: itself. -/
theorem decoded_is_single_coding (s : Site) (i : RespIn) (h : decideAt s i ≠ .untouched) :
    codings [i.ce] = [i.ce] :=
  codings_plain _ (decoded_is_plain s i h).1 (decoded_is_plain s i h).2

/-- **list_never_decoded** — a line that denotes two or more codings (`deflate, gzip`;
`gzip,br`; `gzip , identity`) or none (`""`, `","`) is never decoded: the response is left
alone on HTTP/1.1, HTTP/2 and HTTP/3 alike. -/
theorem list_never_decoded (s : Site) (i : RespIn) (h : (codings [i.ce]).length ≠ 1) :
    decideAt s i = .untouched := by
  apply Classical.byContradiction
  intro hn
  exact h (by rw [decoded_is_single_coding s i hn]; rfl)

-- "deflate, gzip", "gzip,br", "gzip ,\tbr", ", gzip": lists; " gzip": not Plain, one coding
example : codings [[100, 101, 102, 108, 97, 116, 101, 44, 32, 103, 122, 105, 112]] = [tokDeflate, tokGzip] := by decide
example : codings [[103, 122, 105, 112, 44, 98, 114]] = [tokGzip, tokBr] := by decide
example : codings [[103, 122, 105, 112, 32, 44, 9, 98, 114]] = [tokGzip, tokBr] := by decide
example : codings [[44, 32, 103, 122, 105, 112]] = [tokGzip] := by decide
example : codings [[32, 103, 122, 105, 112]] = [tokGzip] := by decide
example : codings [tokDeflate, tokGzip] = [tokDeflate, tokGzip] := by decide
example : decideAt .h2 ⟨true, true, false, true, [100, 101, 102, 108, 97, 116, 101, 44, 32, 103, 122, 105, 112]⟩ = .untouched := by decide

/-- **decode_iff_single_supported_token** — a response with ONE Content-Encoding line `v`: it is
decoded iff the stack reaches its branch, `v` is a single coding as it stands, and either the
transport asked for gzip and `v` is gzip in any letter case, or AutoDecompression is on, the
request is not HEAD and `v` is exactly one of the four supported tokens. -/
theorem decode_iff_single_supported_token (s : Site) (ag auto hd hb : Bool) (v : Bytes)
    (hhead : hd = true → ag = false) :
    decideAt s (respInOfLines ag auto hd hb [v]) ≠ .untouched ↔
      reaches s (respInOfLines ag auto hd hb [v]) = true ∧ codings [v] = [v] ∧
      ((ag = true ∧ Req.Ascii.lower v = tokGzip) ∨
        (auto = true ∧ hd = false ∧ ∃ a, v = tokenOf a)) := by
  let i := respInOfLines ag auto hd hb [v]
  have hce : i.ce = v := rfl
  have hlt : Req.Ascii.lower tokGzip = tokGzip := by decide
  have hfold : isGzipFold v = true ↔ Req.Ascii.lower v = tokGzip := by
    simp only [isGzipFold, Req.Ascii.equalFold, beq_iff_eq, hlt]
  constructor
  · intro h
    have hs := decoded_is_single_coding s i h
    rw [hce] at hs
    rcases hd' : decideAt s i with _ | a | _
    · have := (decoded_when s i hhead).mp hd'
      exact ⟨this.1, hs, Or.inl ⟨this.2.1, hfold.mp this.2.2⟩⟩
    · have := (decompress_when s i a).mp hd'
      exact ⟨this.1, hs, Or.inr ⟨this.2.2.2.1, this.2.1, a, (select_eq_token _ _).mp this.2.2.2.2⟩⟩
    · exact absurd hd' h
  · rintro ⟨hr, _, hor⟩
    rcases hor with ⟨h1, h2⟩ | ⟨h1, h2, a, h3⟩
    · rw [(decoded_when s i hhead).mpr ⟨hr, h1, hfold.mpr h2⟩]; intro hc; cases hc
    · by_cases hg : (i.addedGzip = true ∧ isGzipFold i.ce = true)
      · rw [(decoded_when s i hhead).mpr ⟨hr, hg.1, hg.2⟩]; intro hc; cases hc
      · rw [(decompress_when s i a).mpr ⟨hr, h2, hg, h1, (select_eq_token _ _).mpr h3⟩]
        intro hc; cases hc

example : decideAt .h3 (respInOfLines true false false true [[71, 90, 73, 80]]) = .gunzip := by decide
example : decideAt .h1 (respInOfLines false true false true [tokZstd]) = .decompress .zstd := by decide

/-! ### several field lines -/

/-- **first_line_decides** — the branches read `Header.Get`: with several Content-Encoding
lines the first one alone decides (net/http's behaviour, kept by the fork on all three stacks). -/
theorem first_line_decides (s : Site) (ag auto hd hb : Bool) (v : Bytes) (rest : List Bytes) :
    decideAt s (respInOfLines ag auto hd hb (v :: rest)) =
      decideAt s (respInOfLines ag auto hd hb [v]) := rfl

/-- **later_lines_alone_never_decode** — a supported token on a later line, behind a first line
that is not a single supported coding, leaves the response untouched (seeded/C14-r5-2 looks for
the token in every line on HTTP/2). -/
theorem later_lines_alone_never_decode (s : Site) (ag auto hd hb : Bool) (v : Bytes)
    (rest : List Bytes) (hv : (codings [v]).length ≠ 1) :
    decideAt s (respInOfLines ag auto hd hb (v :: rest)) = .untouched :=
  list_never_decoded s _ hv

example : decideAt .h2 (respInOfLines true true false true [tokDeflate, tokGzip]) = .decompress .deflate := by decide
example : decideAt .h2 (respInOfLines true false false true [tokDeflate, tokGzip]) = .untouched := by decide

/-! ### the repaired reading: every line counts (fixes/C14-7) -/

theorem joinLines_comma (v w : Bytes) (rest : List Bytes) : (44 : UInt8) ∈ joinLines (v :: w :: rest) := by
  simp [joinLines]

/-- **joined_single_line** — with at most one Content-Encoding line the repaired reading is the
code's reading: same decision, same response. -/
theorem joined_single_line (s : Site) (c : ReqCfg) (auto hasBody : Bool) (r : Resp)
    (h : (ceLines r.header).length ≤ 1) :
    Joined.process s c auto hasBody r = process s c auto hasBody r := by
  have e : fieldValue r.header = hget r.header hContentEncoding := by
    rw [hget_eq_firstLine]
    unfold fieldValue
    match hl : ceLines r.header with
    | [] => rfl
    | [v] => rfl
    | _ :: _ :: _ => rw [hl] at h; simp at h
  unfold Joined.process process Joined.respIn respIn
  rw [e]

/-- **several_lines_untouched** — under the repaired reading a response with two or more
Content-Encoding lines is a list: left alone on every stack, under every configuration (whatever
the lines say — `gzip` + `gzip` is a body gzipped twice, not once). -/
theorem several_lines_untouched (s : Site) (c : ReqCfg) (auto hasBody : Bool) (r : Resp)
    (h : 2 ≤ (ceLines r.header).length) :
    Joined.process s c auto hasBody r = ⟨r, some .raw⟩ := by
  have hu : decideAt s (Joined.respIn s c auto hasBody r) = .untouched := by
    apply Classical.byContradiction
    intro hn
    have hp := (decoded_is_plain s _ hn).1
    match hl : ceLines r.header with
    | [] => rw [hl] at h; simp at h
    | [_] => rw [hl] at h; simp at h
    | v :: w :: rest =>
      have hm : (44 : UInt8) ∈ (Joined.respIn s c auto hasBody r).ce := by
        show (44 : UInt8) ∈ joinLines (ceLines r.header)
        rw [hl]; exact joinLines_comma v w rest
      exact (hp 44 hm).1 rfl
  unfold Joined.process
  rw [hu]; rfl

/-- **decode_iff_single_supported_token** over ALL the raw lines — under the repaired reading a
response is decoded only if it has exactly ONE Content-Encoding line and that line is one coding
as it stands. -/
theorem joined_decoded_single_line_single_coding (s : Site) (c : ReqCfg) (auto hasBody : Bool) (r : Resp)
    (h : (Joined.process s c auto hasBody r).body ≠ some .raw) :
    ∃ v, ceLines r.header = [v] ∧ codings (ceLines r.header) = [v] := by
  match hl : ceLines r.header with
  | [] =>
    exfalso; apply h
    have : Joined.process s c auto hasBody r = process s c auto hasBody r :=
      joined_single_line s c auto hasBody r (by rw [hl]; simp)
    rw [this]
    have hce : hget r.header hContentEncoding = [] := by rw [hget_eq_firstLine, hl]; rfl
    have hu : decideAt s (respIn s c auto hasBody r) = .untouched := by
      apply Classical.byContradiction
      intro hn
      exact (decoded_is_plain s _ hn).2 hce
    unfold process; rw [hu]; rfl
  | [v] =>
    refine ⟨v, rfl, ?_⟩
    have hn : decideAt s (Joined.respIn s c auto hasBody r) ≠ .untouched := by
      intro hu; apply h; unfold Joined.process; rw [hu]; rfl
    have := decoded_is_single_coding s _ hn
    have hv : (Joined.respIn s c auto hasBody r).ce = v := by
      show joinLines (ceLines r.header) = v
      rw [hl]; rfl
    rw [hv] at this
    exact this
  | v :: w :: rest =>
    exfalso; apply h
    rw [several_lines_untouched s c auto hasBody r (by rw [hl]; simp)]

/-- the first-line reading (the code until fixes/C14-7 is applied) and the repaired one differ
only on responses with several Content-Encoding lines -/
theorem first_line_differs_only (s : Site) (c : ReqCfg) (auto hasBody : Bool) (r : Resp)
    (h : Joined.process s c auto hasBody r ≠ process s c auto hasBody r) :
    2 ≤ (ceLines r.header).length := by
  apply Classical.byContradiction
  intro hn
  exact h (joined_single_line s c auto hasBody r (by omega))

-- `Content-Encoding: gzip` twice (a body gzipped twice): the code gunzips once and removes both
-- lines; the repaired reading leaves the response alone
example :
    (process .h1 ⟨false, [71, 69, 84], [], []⟩ false true
      ⟨[(hContentEncoding, tokGzip), (hContentEncoding, tokGzip)], 5, false⟩) = ⟨⟨[], -1, true⟩, some .gunzip⟩ := by decide
example :
    (Joined.process .h1 ⟨false, [71, 69, 84], [], []⟩ false true
      ⟨[(hContentEncoding, tokGzip), (hContentEncoding, tokGzip)], 5, false⟩).body = some .raw := by decide

end Req.Props.C14Lines
