import Req.Client.ResponseStages
import Req.Props.C17Progress
/-!
C17 — the download callback counts WIRE bytes, whatever decoders the transport stacks on the
response body: the ORDER in which `handleResponseBody` installs the progress reader, the charset
decoder and the dumper, and `wrapResponseBody` reaching below a content decoder.
-/
namespace Req.Props.C17Stages
open Req.Stages Req.Progress

/-- The progress reader is the innermost reader — directly on the wire body — for every
combination of content decoding, charset decoding and dumping; and it is the only one. -/
theorem progress_next_to_wire (o : Opts) (h : o.wrap = true) :
    ∃ above, stackOf o = above ++ [.progress] ∧ Stage.progress ∉ above := by
  obtain ⟨cd, w, cs, d⟩ := o
  simp only at h; subst h
  refine ⟨(stackOf ⟨cd, true, cs, d⟩).dropLast, ?_, ?_⟩ <;> cases cd <;> cases cs <;> cases d <;> decide

example : stackOf ⟨true, true, true, true⟩ = [.dump, .charsetDecoder, .contentDecoder, .progress] := by decide

/-- **download_counts_wire_bytes** — ∀ options (content decoding × charset decoding × dumping),
∀ decoders (any functions on bodies: expanding, shrinking, failing short), ∀ wire bodies: the bytes
that pass through the download callback's reader are exactly the wire bytes. -/
theorem download_counts_wire_bytes (c : Codec) (o : Opts) (wire : Bytes) (h : o.wrap = true) :
    observed c (stackOf o) wire = some wire := by
  obtain ⟨cd, w, cs, d⟩ := o
  simp only at h; subst h
  cases cd <;> cases cs <;> cases d <;> rfl

/-- without the wrapper (no output, or no callback) nothing is observed -/
theorem no_wrapper_no_reports (c : Codec) (o : Opts) (wire : Bytes) (h : o.wrap = false) :
    observed c (stackOf o) wire = none := by
  obtain ⟨cd, w, cs, d⟩ := o
  simp only at h; subst h
  cases cd <;> cases cs <;> cases d <;> rfl

/-- The observers (progress reader, dumper) do not change what the caller receives: the content
decoding, then the charset decoding of the wire body — with or without them. -/
theorem delivered_unaffected_by_observers (c : Codec) (o : Opts) (wire : Bytes) :
    deliver c (stackOf o) wire =
      (if o.charset then c.charset else id) ((if o.contentDecoding then c.content else id) wire) := by
  obtain ⟨cd, w, cs, d⟩ := o
  cases cd <;> cases w <;> cases cs <;> cases d <;> rfl

example : deliver ⟨fun b => b ++ b, fun b => 0 :: b⟩ (stackOf ⟨true, true, true, false⟩) [1, 2] = [0, 1, 2, 1, 2] ∧
    observed ⟨fun b => b ++ b, fun b => 0 :: b⟩ (stackOf ⟨true, true, true, false⟩) [1, 2] = some [1, 2] := by decide

/-- **download_reports_wire_total** — the callback's ARGUMENTS: for every option combination,
every pair of decoders, every wire body and EVERY way the observed bytes are split into reads
(with or without a final `io.EOF`, any clock), once the body is closed the reports are strictly
increasing, never above the wire size, and the last one IS the wire size. -/
theorem download_reports_wire_total (c : Codec) (o : Opts) (wire : Bytes) (evs : List REvent)
    (h : o.wrap = true) (hne : wire ≠ [])
    (hreads : ∀ b, observed c (stackOf o) wire = some b → bytesR evs = b.length) :
    (reports evs).Pairwise (· < ·) ∧ (∀ x ∈ reports evs, 0 < x ∧ x ≤ wire.length) ∧
    (reports evs).getLast? = some (wire.length : Int) := by
  have hb : bytesR evs = wire.length := hreads wire (download_counts_wire_bytes c o wire h)
  have hpos : 0 < bytesR evs := by
    rw [hb]; cases wire with
    | nil => exact absurd rfl hne
    | cons a t => simp
  obtain ⟨hm, hbd⟩ := C17Progress.progress_monotone_download_closed evs
  refine ⟨hm, fun x hx => ?_, ?_⟩
  · have := hbd x hx; rw [hb] at this; exact this
  · have := C17Progress.progress_final_download_closed evs hpos
    rw [hb] at this; exact this

example : reports [⟨4096, false, false⟩, ⟨904, false, true⟩, ⟨0, true, false⟩] = [5000] := by decide

/-! ### the position is forced: any decoder below the progress reader breaks the count -/

/-- a codec that lengthens every body by one byte per decoder -/
def growing : Codec := ⟨fun b => 0 :: b, fun b => 0 :: b⟩

theorem deliver_no_decoder (c : Codec) (s : List Stage) (w : Bytes) (h : countDecoders s = 0) :
    deliver c s w = w := by
  induction s with
  | nil => rfl
  | cons st below ih =>
    cases st <;> simp [countDecoders, Stage.isDecoder] at h <;> simp [deliver, stageFn] <;> exact ih h

theorem deliver_growing_length (s : List Stage) (w : Bytes) :
    (deliver growing s w).length = w.length + countDecoders s := by
  induction s with
  | nil => simp [deliver, countDecoders]
  | cons st below ih =>
    cases st <;> simp [deliver, stageFn, growing, countDecoders, Stage.isDecoder] <;>
      simp [growing] at ih <;> omega

theorem observed_growing_length (s : List Stage) (w : Bytes) :
    (observed growing s w).map List.length = (decodersBelow s).map (w.length + ·) := by
  induction s with
  | nil => rfl
  | cons st below ih =>
    cases st <;> simp [observed, decodersBelow, ih]
    exact deliver_growing_length below w

/-- **progress_position_forced** — for ANY stack of readers: the progress reader observes the
wire bytes for all decoders and all bodies IF AND ONLY IF no decoder sits below it.  (So the order
`handleResponseBody` uses is the only truthful one: `progress_next_to_wire`.) -/
theorem progress_position_forced (s : List Stage) :
    (∀ (c : Codec) (w : Bytes), observed c s w = some w) ↔ decodersBelow s = some 0 := by
  constructor
  · intro h
    have h1 := observed_growing_length s []
    rw [h growing []] at h1
    cases hd : decodersBelow s with
    | none => rw [hd] at h1; simp at h1
    | some k => rw [hd] at h1; simp at h1; simp [h1]
  · intro h c w
    induction s with
    | nil => simp [decodersBelow] at h
    | cons st below ih =>
      cases st <;> simp [decodersBelow] at h <;> simp [observed]
      · exact ih h
      · exact deliver_no_decoder c below w h
      · exact ih h
      · exact ih h

/-- the stack of the code satisfies it, for every option combination -/
theorem stackOf_no_decoder_below (o : Opts) (h : o.wrap = true) : decodersBelow (stackOf o) = some 0 := by
  obtain ⟨cd, w, cs, d⟩ := o
  simp only at h; subst h
  cases cd <;> cases cs <;> cases d <;> rfl

/-! ### the variant that installs the charset decoder first (seed C17-r5-3) -/

/-- With the charset decoder installed BEFORE the wrapper, the progress reader sits on top of it
(and of the content decoder: `res.Body` is not a content decoder any more): it counts the decoded,
transcoded bytes. -/
theorem decode_first_counts_transcoded (c : Codec) (o : Opts) (wire : Bytes)
    (h : o.wrap = true) (hc : o.charset = true) :
    observed c (handleResponseBodyDecodeFirst o (transportBody o)) wire =
      some (c.charset ((if o.contentDecoding then c.content else id) wire)) := by
  obtain ⟨cd, w, cs, d⟩ := o
  simp only at h hc; subst h; subst hc
  cases cd <;> cases d <;> rfl

/-- ISO-8859-1 → UTF-8: every byte ≥ 0x80 becomes two -/
def latin1 (b : Bytes) : Bytes :=
  b.flatMap fun x => if x < 0x80 then [x] else [(0xC0 : UInt8) ||| (x >>> 6), (0x80 : UInt8) ||| (x &&& 0x3F)]

/-- "café" in Latin-1 is 4 bytes on the wire; the variant reports 5, the code 4 -/
example : observed ⟨id, latin1⟩ (handleResponseBodyDecodeFirst ⟨false, true, true, false⟩ []) [0x63, 0x61, 0x66, 0xE9]
      = some [0x63, 0x61, 0x66, 0xC3, 0xA9] ∧
    observed ⟨id, latin1⟩ (stackOf ⟨false, true, true, false⟩) [0x63, 0x61, 0x66, 0xE9]
      = some [0x63, 0x61, 0x66, 0xE9] ∧
    decodersBelow (handleResponseBodyDecodeFirst ⟨true, true, true, true⟩ [.contentDecoder]) = some 2 := by decide

end Req.Props.C17Stages
