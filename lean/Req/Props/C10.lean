/-! C10 — property theorems (none yet). -/
