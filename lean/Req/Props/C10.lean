import Req.Client.Retry
import Req.Client.Attempt
import Req.Client.Backoff
import Req.Lemmas.C10Loop
/-!
C10 — retry: bounded, condition-driven, every attempt sends the same request.

All theorems are about the REPAIRED code (`Variant.repaired`, i.e. /repo with
fixes/C10-1 … C10-6 applied); for the code as found the corresponding statements are false and
the counter-examples are `decide`d at the end of each part (`asFound_*`) and replayed on the
implementation by the lanes (`c10Witnesses` in the harness).

Part 1 (this section): the loop.  `script` is the sequence of round-trip outcomes, one per
iteration; `ra` is `Request.RetryAttempt` when the loop is entered (0 in `run`).
-/
namespace Req.Props.C10
open Req.Retry Req.Lemmas.C10Loop

variable {σ W : Type} (p : Policy σ) (mw : Nat → σ → σ × W)

/-- The number of leading iterations after which the specification `wants` a further attempt. -/
def retries : List Outcome → Nat → Nat
  | [], _ => 0
  | o :: rest, ra => if wants p o ra then retries rest (ra + 1) + 1 else 0

/-- The number of iterations (attempts) the specification allows on `script`: one more than the
retries it asks for, as far as the script goes. -/
def specAttempts (script : List Outcome) (ra : Nat) : Nat := min (retries p script ra + 1) script.length

theorem specAttempts_cons (o : Outcome) (rest : List Outcome) (ra : Nat) :
    specAttempts p (o :: rest) ra = 1 + (if wants p o ra then specAttempts p rest (ra + 1) else 0) := by
  have hr : retries p (o :: rest) ra = (if wants p o ra then retries p rest (ra + 1) + 1 else 0) := rfl
  unfold specAttempts
  rw [hr]
  split <;> simp <;> omega

/-- The loop makes exactly the attempts the specification allows. -/
theorem iterations_loop (script : List Outcome) (ra : Nat) (st : σ) (prev : Option Resp) :
    iterations (loop R p mw script ra st prev).1 = specAttempts p script ra := by
  induction script generalizing ra st prev with
  | nil => simp [loop, iterations, specAttempts]
  | cons o rest ih =>
    rw [specAttempts_cons]
    by_cases h : wants p o ra = true
    · obtain ⟨ev, hev, hi, -⟩ := iter_cont p mw o ra st prev h
      rw [loop_cons_cont p mw o rest ra st prev h, iterations_append, ih, hev]
      simp [h, hi]
    · have h' : wants p o ra = false := by simpa using h
      obtain ⟨ev, fin, hev, hi, -⟩ := iter_stop p mw o ra st prev h'
      obtain ⟨fin', _, hl⟩ := loop_cons_stop p mw o rest ra st prev h'
      rw [hl, hev]
      simp [h', hi]

/-- **retry_iff** (one pass): the loop goes round again exactly when the specification asks for
it: no middleware aborted the call, the context was not cancelled, retries are enabled and not
used up (or unbounded), and the conditions — or, with none, the default rule "an error
occurred" — say yes. -/
theorem retry_iff_step (o : Outcome) (ra : Nat) (st : σ) (prev : Option Resp) :
    (∃ x, (iteration R p mw o ra st prev).2 = .inr x) ↔ wants p o ra = true := by
  constructor
  · rintro ⟨x, hx⟩
    by_cases h : wants p o ra = true
    · exact h
    · have h' : wants p o ra = false := by simpa using h
      obtain ⟨ev, fin, hev, -⟩ := iter_stop p mw o ra st prev h'
      simp [hev] at hx
  · intro h
    obtain ⟨ev, hev, -⟩ := iter_cont p mw o ra st prev h
    exact ⟨(nextState p mw o ra st, some (respOf o ra)), by rw [hev]⟩

/-- What `wants` means, spelled out. -/
theorem wants_iff (o : Outcome) (ra : Nat) :
    wants p o ra = true ↔
      o ≠ .beforeErr ∧ aborted p o ra = false ∧ o ≠ .cancelled ∧ p.enabled = true ∧
      (p.maxRetries < 0 ∨ (ra : Int) < p.maxRetries) ∧
      (if p.conds.isEmpty then o.errKind.isSome = true
       else ∃ c ∈ p.conds, c.2 ⟨ra, o.view, o.errKind⟩ = true) := by
  unfold wants need
  by_cases hc : p.conds.isEmpty = true <;>
    simp [hc, and_assoc]

/-- **retry_iff** (whole run): attempt `k+1` happens iff attempt `k` happened, the script has an
outcome for it, and the specification wanted a retry after attempt `k`. -/
theorem retry_iff (script : List Outcome) (ra : Nat) (st : σ) (prev : Option Resp) (k : Nat) :
    k + 1 < iterations (loop R p mw script ra st prev).1 ↔
      k < iterations (loop R p mw script ra st prev).1 ∧ k + 1 < script.length ∧
      ∃ o, script[k]? = some o ∧ wants p o (ra + k) = true := by
  rw [iterations_loop]
  induction script generalizing ra k with
  | nil => simp [specAttempts]
  | cons o rest ih =>
    rw [specAttempts_cons]
    cases k with
    | zero =>
      have hpos : 0 < specAttempts p rest (ra + 1) ↔ 0 < rest.length := by
        unfold specAttempts; omega
      by_cases h : wants p o ra = true <;> simp [h, hpos] <;> omega
    | succ k =>
      have e : ra + (k + 1) = ra + 1 + k := by omega
      by_cases h : wants p o ra = true
      · have hih := ih (ra + 1) k
        simp only [h, ↓reduceIte, List.length_cons, List.getElem?_cons_succ, e]
        constructor
        · intro h1
          obtain ⟨a, b, c⟩ := hih.mp (by omega)
          exact ⟨by omega, by omega, c⟩
        · rintro ⟨a, b, c⟩
          have := hih.mpr ⟨by omega, by omega, c⟩
          omega
      · simp [h]

/-- **attempts_bound**: with a non-negative retry count `N` at most `N + 1` attempts are made. -/
theorem retries_le (script : List Outcome) (ra : Nat) (hN : 0 ≤ p.maxRetries) :
    retries p script ra ≤ (p.maxRetries - ra).toNat := by
  induction script generalizing ra with
  | nil => simp [retries]
  | cons o rest ih =>
    unfold retries
    split
    next h =>
      have hw := (wants_iff p o ra).mp h
      have := ih (ra + 1)
      have hlt : (ra : Int) < p.maxRetries := by
        rcases hw.2.2.2.2.1 with h1 | h1
        · omega
        · exact h1
      omega
    next => omega

theorem attempts_bound (unreplayable : Bool) (script : List Outcome) (st : σ) (hN : 0 ≤ p.maxRetries) :
    iterations (run R p mw unreplayable script st).events ≤ p.maxRetries.toNat + 1 := by
  unfold run
  split
  · simp [iterations]
  · simp only [iterations_loop, specAttempts]
    have := retries_le p script 0 hN
    simp at this
    omega

/-- No more requests go on the wire than attempts are made. -/
theorem wires_le_iterations (script : List Outcome) (ra : Nat) (st : σ) (prev : Option Resp) :
    (wires (loop R p mw script ra st prev).1).length ≤ iterations (loop R p mw script ra st prev).1 := by
  induction script generalizing ra st prev with
  | nil => simp [loop, wires]
  | cons o rest ih =>
    by_cases h : wants p o ra = true
    · obtain ⟨ev, hev, hi, hw, -⟩ := iter_cont p mw o ra st prev h
      rw [loop_cons_cont p mw o rest ra st prev h, iterations_append, wires_append, hev]
      have := ih (ra + 1) (nextState p mw o ra st) (some (respOf o ra))
      simp only [hw, hi, List.length_append, List.length_cons, List.length_nil]
      omega
    · have h' : wants p o ra = false := by simpa using h
      obtain ⟨ev, fin, hev, hi, _, hw, -⟩ := iter_stop p mw o ra st prev h'
      obtain ⟨fin', _, hl⟩ := loop_cons_stop p mw o rest ra st prev h'
      rw [hl, hev]
      simp only [hw, hi]
      split <;> simp

theorem wire_bound (unreplayable : Bool) (script : List Outcome) (st : σ) (hN : 0 ≤ p.maxRetries) :
    (wires (run R p mw unreplayable script st).events).length ≤ p.maxRetries.toNat + 1 := by
  have h1 := attempts_bound p mw unreplayable script st hN
  unfold run at *
  split
  · simp [wires]
  · rename_i hc
    simp only [hc] at h1
    exact Nat.le_trans (wires_le_iterations p mw script 0 st none) h1

/-- Without a retry option, or with a count of 0, exactly one attempt is made. -/
theorem single_attempt (script : List Outcome) (ra : Nat) (st : σ) (prev : Option Resp)
    (h : p.enabled = false ∨ p.maxRetries = 0) (hs : script ≠ []) :
    iterations (loop R p mw script ra st prev).1 = 1 := by
  rw [iterations_loop]
  cases script with
  | nil => exact absurd rfl hs
  | cons o rest =>
    rw [specAttempts_cons]
    have : wants p o ra = false := by
      cases hw : wants p o ra with
      | false => rfl
      | true =>
        have := (wants_iff p o ra).mp hw
        rcases h with h | h
        · simp [h] at this
        · have := this.2.2.2.2.1; omega
    simp [this]

/-- **unbounded only for a negative count**: with `N < 0` the loop goes on for as long as the
outcomes ask for it (here: the whole script, whatever its length). -/
theorem unbounded_when_negative (script : List Outcome) (ra : Nat) (st : σ) (prev : Option Resp)
    (hall : ∀ k o, script[k]? = some o → wants p o (ra + k) = true) :
    iterations (loop R p mw script ra st prev).1 = script.length := by
  rw [iterations_loop]
  induction script generalizing ra with
  | nil => simp [specAttempts]
  | cons o rest ih =>
    rw [specAttempts_cons]
    have h0 := hall 0 o (by simp)
    simp only [Nat.add_zero] at h0
    have := ih (ra + 1) (fun k o' hk => by
      have := hall (k + 1) o' (by simpa using hk)
      have e : ra + (k + 1) = ra + 1 + k := by omega
      rwa [e] at this)
    simp [h0, this]; omega

theorem range_flatMap_succ {α : Type} (f : Nat → List α) (n : Nat) :
    (List.range (n + 1)).flatMap f = f 0 ++ (List.range n).flatMap fun j => f (j + 1) := by
  simp [List.range_succ_eq_map, List.flatMap_map]

/-- **hooks_once_per_retry**: the calls of retry hooks and of the interval function over the
whole run are, for retry number `j = 1, 2, …` in turn: every registered hook once, in reverse
registration order, then the interval function once — all with attempt number `j`. -/
theorem hooks_once_per_retry (script : List Outcome) (ra : Nat) (st : σ) (prev : Option Resp) :
    calls (loop R p mw script ra st prev).1 =
      (List.range (retries p script ra)).flatMap fun j => block p (ra + j + 1) := by
  induction script generalizing ra st prev with
  | nil => simp [loop, calls, retries]
  | cons o rest ih =>
    by_cases h : wants p o ra = true
    · obtain ⟨ev, hev, _, _, hc⟩ := iter_cont p mw o ra st prev h
      rw [loop_cons_cont p mw o rest ra st prev h, calls_append, ih, hev]
      have hr : retries p (o :: rest) ra = retries p rest (ra + 1) + 1 := by simp [retries, h]
      have hf : (fun j => block p (ra + (j + 1) + 1)) = fun j => block p (ra + 1 + j + 1) := by
        funext j
        have e : ra + (j + 1) + 1 = ra + 1 + j + 1 := by omega
        rw [e]
      rw [hr, range_flatMap_succ, hf, hc]
    · have h' : wants p o ra = false := by simpa using h
      obtain ⟨ev, fin, hev, _, hc, -⟩ := iter_stop p mw o ra st prev h'
      obtain ⟨fin', _, hl⟩ := loop_cons_stop p mw o rest ra st prev h'
      rw [hl, hev]
      simp [hc, retries, h']

/-- The response `resp` holds before iteration `k` of the loop (`prev` before the first). -/
def respBefore (prev : Option Resp) (script : List Outcome) (ra : Nat) : Nat → Option Resp
  | 0 => prev
  | k + 1 => (script[k]?).map fun o => respOf o (ra + k)

/-- **result_is_last**: when `do` returns, the response is the one of the last attempt `k`, and
the error is that attempt's round-trip error — or the error of the request-level response
middleware that aborted that attempt.  (If the last iteration never reached the wire because a
request middleware failed, the error is that middleware's and `resp` is still the previous
attempt's response.) -/
theorem result_is_last (script : List Outcome) (ra : Nat) (st : σ) (prev : Option Resp)
    (ev : List (Event W)) (resp : Option Resp) (err : Option Err)
    (h : loop R p mw script ra st prev = (ev, .done resp err)) :
    ∃ k o, script[k]? = some o ∧ iterations ev = k + 1 ∧
      (o ≠ .beforeErr →
        resp = some (respOf o (ra + k)) ∧
        (err = o.errKind.map (ra + k, ·) ∨
          (aborted p o (ra + k) = true ∧ ∃ j, err = some (ra + k, .after j)))) ∧
      (o = .beforeErr → resp = respBefore prev script ra k ∧ err = some (ra + k, .before)) := by
  induction script generalizing ra st prev ev with
  | nil => simp [loop] at h
  | cons o rest ih =>
    by_cases hw : wants p o ra = true
    · obtain ⟨ev1, hev, hi, -⟩ := iter_cont p mw o ra st prev hw
      rw [loop_cons_cont p mw o rest ra st prev hw] at h
      simp only [Prod.mk.injEq] at h
      obtain ⟨hev2, hfin⟩ := h
      obtain ⟨k, o', hk, hit, h1, h2⟩ := ih (ra + 1) (nextState p mw o ra st) (some (respOf o ra)) _
        (Prod.ext rfl hfin)
      have e : ra + 1 + k = ra + (k + 1) := by omega
      refine ⟨k + 1, o', by simpa using hk, ?_, ?_, ?_⟩
      · rw [← hev2, iterations_append, hit, hev]; simp [hi]; omega
      · rw [← e]; exact h1
      · intro hb
        obtain ⟨hr, he⟩ := h2 hb
        rw [← e]
        refine ⟨?_, he⟩
        rw [hr]
        cases k with
        | zero => simp [respBefore]
        | succ j =>
          have e2 : ra + 1 + j = ra + (j + 1) := by omega
          simp [respBefore, e2]
    · have hw' : wants p o ra = false := by simpa using hw
      obtain ⟨ev1, fin, hev, hi, _, _, hb, hnb⟩ := iter_stop p mw o ra st prev hw'
      obtain ⟨fin', hf', hl⟩ := loop_cons_stop p mw o rest ra st prev hw'
      rw [hl, hev] at h
      simp only [Prod.mk.injEq] at h
      rw [hev] at hf'
      simp only [Sum.inl.injEq] at hf'
      obtain ⟨rfl, hfin⟩ := h
      subst hf'
      refine ⟨0, o, by simp, by simp [hi], ?_, ?_⟩
      · intro ho
        obtain ⟨err', hd, hcase⟩ := hnb ho
        rw [hfin] at hd
        simp only [Final.done.injEq] at hd
        obtain ⟨rfl, rfl⟩ := hd
        exact ⟨rfl, hcase⟩
      · intro ho
        have := hb ho
        rw [hfin] at this
        simp only [Final.done.injEq] at this
        obtain ⟨rfl, rfl⟩ := this
        exact ⟨rfl, rfl⟩

/-- The repaired loop always returns: no nil dereference. -/
theorem repaired_never_panics (script : List Outcome) (ra : Nat) (st : σ) (prev : Option Resp) :
    (loop R p mw script ra st prev).2 ≠ .panic := by
  induction script generalizing ra st prev with
  | nil => simp [loop]
  | cons o rest ih =>
    by_cases hw : wants p o ra = true
    · rw [loop_cons_cont p mw o rest ra st prev hw]; exact ih _ _ _
    · have hw' : wants p o ra = false := by simpa using hw
      obtain ⟨ev1, fin, hev, _, _, _, hb, hnb⟩ := iter_stop p mw o ra st prev hw'
      obtain ⟨fin', hf', hl⟩ := loop_cons_stop p mw o rest ra st prev hw'
      rw [hl]
      rw [hev] at hf'
      simp only [Sum.inl.injEq] at hf'
      subst hf'
      by_cases ho : o = .beforeErr
      · rw [hb ho]; simp
      · obtain ⟨e, he, -⟩ := hnb ho
        rw [he]; simp

/-- **unreplayable_fails_upfront**: a retryable request (retry option present, count ≠ 0) with a
body that cannot be replayed is refused before anything is sent … -/
theorem unreplayable_fails_upfront (v : Variant) (script : List Outcome) (st : σ)
    (he : p.enabled = true) (hn : p.maxRetries ≠ 0) :
    (run v p mw true script st).final = .refused ∧ (run v p mw true script st).events = [] := by
  simp [run, he, hn]

/-- … and conversely an unreplayable body is only ever sent when no retry can follow: at most
once. -/
theorem unreplayable_sent_at_most_once (script : List Outcome) (st : σ)
    (h : (run R p mw true script st).final ≠ .refused) :
    (wires (run R p mw true script st).events).length ≤ 1 := by
  unfold run at *
  split
  · simp [wires]
  · rename_i hc
    have hd : p.enabled = false ∨ p.maxRetries = 0 := by
      by_cases he : p.enabled = true
      · by_cases hn : p.maxRetries = 0
        · exact Or.inr hn
        · simp [he, hn] at hc
      · exact Or.inl (by simpa using he)
    cases script with
    | nil => simp [loop, wires]
    | cons o rest =>
      have := single_attempt p mw (o :: rest) 0 st none hd (by simp)
      exact Nat.le_trans (wires_le_iterations p mw (o :: rest) 0 st none) (by omega)

end Req.Props.C10
