import Req.Client.Retry
import Req.Client.Attempt
import Req.Client.Backoff
import Req.Lemmas.C10Loop
import Req.Lemmas.C10Attempt
/-!
C10 — retry: bounded, condition-driven, every attempt sends the same request.

All theorems are about the REPAIRED code (`Variant.repaired`, i.e. /repo with
fixes/C10-1 … C10-6 applied); for the code as found the corresponding statements are false and
the counter-examples are `decide`d at the end of each part (`asFound_*`) and replayed on the
implementation by the lanes (`c10Witnesses` in the harness).

Part 1 (this section): the loop.  `script` is the sequence of round-trip outcomes, one per
iteration; `ra` is `Request.RetryAttempt` when the loop is entered (0 in `run`).
-/
namespace Req.Props.C10
open Req.Retry Req.Lemmas.C10Loop

variable {σ W : Type} (p : Policy σ) (mw : Nat → σ → σ × W)

/-- The number of leading iterations after which the specification `wants` a further attempt. -/
def retries : List Outcome → Nat → Nat
  | [], _ => 0
  | o :: rest, ra => if wants p o ra then retries rest (ra + 1) + 1 else 0

/-- The number of iterations (attempts) the specification allows on `script`: one more than the
retries it asks for, as far as the script goes. -/
def specAttempts (script : List Outcome) (ra : Nat) : Nat := min (retries p script ra + 1) script.length

theorem specAttempts_cons (o : Outcome) (rest : List Outcome) (ra : Nat) :
    specAttempts p (o :: rest) ra = 1 + (if wants p o ra then specAttempts p rest (ra + 1) else 0) := by
  have hr : retries p (o :: rest) ra = (if wants p o ra then retries p rest (ra + 1) + 1 else 0) := rfl
  unfold specAttempts
  rw [hr]
  split <;> simp <;> omega

/-- The loop makes exactly the attempts the specification allows. -/
theorem iterations_loop (script : List Outcome) (ra : Nat) (st : σ) (prev : Option Resp) :
    iterations (loop R p mw script ra st prev).1 = specAttempts p script ra := by
  induction script generalizing ra st prev with
  | nil => simp [loop, iterations, specAttempts]
  | cons o rest ih =>
    rw [specAttempts_cons]
    by_cases h : wants p o ra = true
    · obtain ⟨ev, hev, hi, -⟩ := iter_cont p mw o ra st prev h
      rw [loop_cons_cont p mw o rest ra st prev h, iterations_append, ih, hev]
      simp [h, hi]
    · have h' : wants p o ra = false := by simpa using h
      obtain ⟨ev, fin, hev, hi, -⟩ := iter_stop p mw o ra st prev h'
      obtain ⟨fin', _, hl⟩ := loop_cons_stop p mw o rest ra st prev h'
      rw [hl, hev]
      simp [h', hi]

/-- **retry_iff** (one pass): the loop goes round again exactly when the specification asks for
it: no middleware aborted the call, the context was not cancelled, retries are enabled and not
used up (or unbounded), and the conditions — or, with none, the default rule "an error
occurred" — say yes. -/
theorem retry_iff_step (o : Outcome) (ra : Nat) (st : σ) (prev : Option Resp) :
    (∃ x, (iteration R p mw o ra st prev).2 = .inr x) ↔ wants p o ra = true := by
  constructor
  · rintro ⟨x, hx⟩
    by_cases h : wants p o ra = true
    · exact h
    · have h' : wants p o ra = false := by simpa using h
      obtain ⟨ev, fin, hev, -⟩ := iter_stop p mw o ra st prev h'
      simp [hev] at hx
  · intro h
    obtain ⟨ev, hev, -⟩ := iter_cont p mw o ra st prev h
    exact ⟨(nextState p mw o ra st, some (respOf o ra)), by rw [hev]⟩

/-- What `wants` means, spelled out. -/
theorem wants_iff (o : Outcome) (ra : Nat) :
    wants p o ra = true ↔
      o ≠ .beforeErr ∧ aborted p o ra = false ∧ o ≠ .cancelled ∧ p.enabled = true ∧
      (p.maxRetries < 0 ∨ (ra : Int) < p.maxRetries) ∧
      (if p.conds.isEmpty then o.errKind.isSome = true
       else ∃ c ∈ p.conds, c.2 ⟨ra, o.view, o.errKind⟩ = true) ∧
      o.ctxDone = false := by
  unfold wants need
  by_cases hc : p.conds.isEmpty = true <;>
    simp [hc, and_assoc]

/-- No further attempt once the request's context is done — cancelled, or its deadline passed —
whatever the retry count, the conditions and the interval. -/
theorem no_attempt_after_context_done (o : Outcome) (ra : Nat)
    (h : o = .cancelled ∨ o.ctxDone = true) : wants p o ra = false := by
  cases hw : wants p o ra with
  | false => rfl
  | true =>
    have := (wants_iff p o ra).mp hw
    rcases h with h | h
    · exact absurd h this.2.2.1
    · rw [this.2.2.2.2.2.2] at h; cases h

/-- **retry_iff** (whole run): attempt `k+1` happens iff attempt `k` happened, the script has an
outcome for it, and the specification wanted a retry after attempt `k`. -/
theorem retry_iff (script : List Outcome) (ra : Nat) (st : σ) (prev : Option Resp) (k : Nat) :
    k + 1 < iterations (loop R p mw script ra st prev).1 ↔
      k < iterations (loop R p mw script ra st prev).1 ∧ k + 1 < script.length ∧
      ∃ o, script[k]? = some o ∧ wants p o (ra + k) = true := by
  rw [iterations_loop]
  induction script generalizing ra k with
  | nil => simp [specAttempts]
  | cons o rest ih =>
    rw [specAttempts_cons]
    cases k with
    | zero =>
      have hpos : 0 < specAttempts p rest (ra + 1) ↔ 0 < rest.length := by
        unfold specAttempts; omega
      by_cases h : wants p o ra = true <;> simp [h, hpos] <;> omega
    | succ k =>
      have e : ra + (k + 1) = ra + 1 + k := by omega
      by_cases h : wants p o ra = true
      · have hih := ih (ra + 1) k
        simp only [h, ↓reduceIte, List.length_cons, List.getElem?_cons_succ, e]
        constructor
        · intro h1
          obtain ⟨a, b, c⟩ := hih.mp (by omega)
          exact ⟨by omega, by omega, c⟩
        · rintro ⟨a, b, c⟩
          have := hih.mpr ⟨by omega, by omega, c⟩
          omega
      · simp [h]

/-- **attempts_bound**: with a non-negative retry count `N` at most `N + 1` attempts are made. -/
theorem retries_le (script : List Outcome) (ra : Nat) (hN : 0 ≤ p.maxRetries) :
    retries p script ra ≤ (p.maxRetries - ra).toNat := by
  induction script generalizing ra with
  | nil => simp [retries]
  | cons o rest ih =>
    unfold retries
    split
    next h =>
      have hw := (wants_iff p o ra).mp h
      have := ih (ra + 1)
      have hlt : (ra : Int) < p.maxRetries := by
        rcases hw.2.2.2.2.1 with h1 | h1
        · omega
        · exact h1
      omega
    next => omega

theorem attempts_bound (unreplayable : Bool) (script : List Outcome) (st : σ) (hN : 0 ≤ p.maxRetries) :
    iterations (run R p mw unreplayable script st).events ≤ p.maxRetries.toNat + 1 := by
  unfold run
  split
  · simp [iterations]
  · simp only [iterations_loop, specAttempts]
    have := retries_le p script 0 hN
    simp at this
    omega

/-- No more requests go on the wire than attempts are made. -/
theorem wires_le_iterations (script : List Outcome) (ra : Nat) (st : σ) (prev : Option Resp) :
    (wires (loop R p mw script ra st prev).1).length ≤ iterations (loop R p mw script ra st prev).1 := by
  induction script generalizing ra st prev with
  | nil => simp [loop, wires]
  | cons o rest ih =>
    by_cases h : wants p o ra = true
    · obtain ⟨ev, hev, hi, hw, -⟩ := iter_cont p mw o ra st prev h
      rw [loop_cons_cont p mw o rest ra st prev h, iterations_append, wires_append, hev]
      have := ih (ra + 1) (nextState p mw o ra st) (some (respOf o ra))
      simp only [hw, hi, List.length_append, List.length_cons, List.length_nil]
      omega
    · have h' : wants p o ra = false := by simpa using h
      obtain ⟨ev, fin, hev, hi, _, hw, -⟩ := iter_stop p mw o ra st prev h'
      obtain ⟨fin', _, hl⟩ := loop_cons_stop p mw o rest ra st prev h'
      rw [hl, hev]
      simp only [hw, hi]
      split <;> simp

theorem wire_bound (unreplayable : Bool) (script : List Outcome) (st : σ) (hN : 0 ≤ p.maxRetries) :
    (wires (run R p mw unreplayable script st).events).length ≤ p.maxRetries.toNat + 1 := by
  have h1 := attempts_bound p mw unreplayable script st hN
  unfold run at *
  split
  · simp [wires]
  · rename_i hc
    simp only [hc] at h1
    exact Nat.le_trans (wires_le_iterations p mw script 0 st none) h1

/-- Without a retry option, or with a count of 0, exactly one attempt is made. -/
theorem single_attempt (script : List Outcome) (ra : Nat) (st : σ) (prev : Option Resp)
    (h : p.enabled = false ∨ p.maxRetries = 0) (hs : script ≠ []) :
    iterations (loop R p mw script ra st prev).1 = 1 := by
  rw [iterations_loop]
  cases script with
  | nil => exact absurd rfl hs
  | cons o rest =>
    rw [specAttempts_cons]
    have : wants p o ra = false := by
      cases hw : wants p o ra with
      | false => rfl
      | true =>
        have := (wants_iff p o ra).mp hw
        rcases h with h | h
        · simp [h] at this
        · have := this.2.2.2.2.1; omega
    simp [this]

/-- **unbounded only for a negative count**: with `N < 0` the loop goes on for as long as the
outcomes ask for it (here: the whole script, whatever its length). -/
theorem unbounded_when_negative (script : List Outcome) (ra : Nat) (st : σ) (prev : Option Resp)
    (hall : ∀ k o, script[k]? = some o → wants p o (ra + k) = true) :
    iterations (loop R p mw script ra st prev).1 = script.length := by
  rw [iterations_loop]
  induction script generalizing ra with
  | nil => simp [specAttempts]
  | cons o rest ih =>
    rw [specAttempts_cons]
    have h0 := hall 0 o (by simp)
    simp only [Nat.add_zero] at h0
    have := ih (ra + 1) (fun k o' hk => by
      have := hall (k + 1) o' (by simpa using hk)
      have e : ra + (k + 1) = ra + 1 + k := by omega
      rwa [e] at this)
    simp [h0, this]; omega

theorem range_flatMap_succ {α : Type} (f : Nat → List α) (n : Nat) :
    (List.range (n + 1)).flatMap f = f 0 ++ (List.range n).flatMap fun j => f (j + 1) := by
  simp [List.range_succ_eq_map, List.flatMap_map]

/-- Did the run end in the wait before a further attempt (context found done)? -/
def interruptedAt : List Outcome → Nat → Bool
  | [], _ => false
  | o :: rest, ra => if wants p o ra then interruptedAt rest (ra + 1) else interrupted p o ra

/-- **hooks_once_per_retry**: the calls of retry hooks and of the interval function over the
whole run are, for retry number `j = 1, 2, …` in turn: every registered hook once, in reverse
registration order, then the interval function once — all with attempt number `j`.  If the wait
that follows finds the context done, that last block is not followed by an attempt. -/
theorem hooks_once_per_retry (script : List Outcome) (ra : Nat) (st : σ) (prev : Option Resp) :
    calls (loop R p mw script ra st prev).1 =
      ((List.range (retries p script ra)).flatMap fun j => block p (ra + j + 1)) ++
      (if interruptedAt p script ra then block p (ra + retries p script ra + 1) else []) := by
  induction script generalizing ra st prev with
  | nil => simp [loop, calls, retries, interruptedAt]
  | cons o rest ih =>
    by_cases h : wants p o ra = true
    · obtain ⟨ev, hev, _, _, hc⟩ := iter_cont p mw o ra st prev h
      rw [loop_cons_cont p mw o rest ra st prev h, calls_append, ih, hev]
      have hr : retries p (o :: rest) ra = retries p rest (ra + 1) + 1 := by simp [retries, h]
      have hia : interruptedAt p (o :: rest) ra = interruptedAt p rest (ra + 1) := by
        simp [interruptedAt, h]
      have hf : (fun j => block p (ra + (j + 1) + 1)) = fun j => block p (ra + 1 + j + 1) := by
        funext j
        have e : ra + (j + 1) + 1 = ra + 1 + j + 1 := by omega
        rw [e]
      have e2 : ra + (retries p rest (ra + 1) + 1) + 1 = ra + 1 + retries p rest (ra + 1) + 1 := by omega
      rw [hr, hia, range_flatMap_succ, hf, hc, e2]
      simp [List.append_assoc]
    · have h' : wants p o ra = false := by simpa using h
      obtain ⟨ev, fin, hev, _, hc, -⟩ := iter_stop p mw o ra st prev h'
      obtain ⟨fin', _, hl⟩ := loop_cons_stop p mw o rest ra st prev h'
      rw [hl, hev]
      simp [hc, retries, interruptedAt, h']

/-- **the context ends the run**: if the outcome of attempt `k` is a cancelled context, or the
context is done when the wait after it begins, attempt `k` is the last one. -/
theorem stops_when_context_done (script : List Outcome) (ra : Nat) (st : σ) (prev : Option Resp)
    (k : Nat) (o : Outcome) (hk : script[k]? = some o) (h : o = .cancelled ∨ o.ctxDone = true) :
    iterations (loop R p mw script ra st prev).1 ≤ k + 1 := by
  by_cases hlt : k + 1 < iterations (loop R p mw script ra st prev).1
  · obtain ⟨_, _, o', ho', hw⟩ := (retry_iff p mw script ra st prev k).mp hlt
    rw [hk] at ho'
    cases ho'
    rw [no_attempt_after_context_done p o (ra + k) h] at hw
    cases hw
  · omega

/-- The response `resp` holds before iteration `k` of the loop (`prev` before the first). -/
def respBefore (prev : Option Resp) (script : List Outcome) (ra : Nat) : Nat → Option Resp
  | 0 => prev
  | k + 1 => (script[k]?).map fun o => respOf o (ra + k)

/-- **result_is_last**: when `do` returns, the response is the one of the last attempt `k`, and
the error is that attempt's round-trip error — or the error of the request-level response
middleware that aborted that attempt, or the context's error if the wait after that attempt
found the context done.  (If the last iteration never reached the wire because a request
middleware failed, the error is that middleware's and `resp` is still the previous attempt's
response.) -/
theorem result_is_last (script : List Outcome) (ra : Nat) (st : σ) (prev : Option Resp)
    (ev : List (Event W)) (resp : Option Resp) (err : Option Err)
    (h : loop R p mw script ra st prev = (ev, .done resp err)) :
    ∃ k o, script[k]? = some o ∧ iterations ev = k + 1 ∧
      (o ≠ .beforeErr → interrupted p o (ra + k) = false →
        resp = some (respOf o (ra + k)) ∧
        (err = o.errKind.map (ra + k, ·) ∨
          (aborted p o (ra + k) = true ∧ ∃ j, err = some (ra + k, .after j)))) ∧
      (interrupted p o (ra + k) = true →
        resp = some { respOf o (ra + k) with err := some (ra + k, .waitCtx) } ∧
        err = some (ra + k, .waitCtx)) ∧
      (o = .beforeErr → resp = respBefore prev script ra k ∧ err = some (ra + k, .before)) := by
  induction script generalizing ra st prev ev with
  | nil => simp [loop] at h
  | cons o rest ih =>
    by_cases hw : wants p o ra = true
    · obtain ⟨ev1, hev, hi, -⟩ := iter_cont p mw o ra st prev hw
      rw [loop_cons_cont p mw o rest ra st prev hw] at h
      simp only [Prod.mk.injEq] at h
      obtain ⟨hev2, hfin⟩ := h
      obtain ⟨k, o', hk, hit, h1, h3, h2⟩ := ih (ra + 1) (nextState p mw o ra st) (some (respOf o ra)) _
        (Prod.ext rfl hfin)
      have e : ra + 1 + k = ra + (k + 1) := by omega
      refine ⟨k + 1, o', by simpa using hk, ?_, ?_, ?_, ?_⟩
      · rw [← hev2, iterations_append, hit, hev]; simp [hi]; omega
      · rw [← e]; exact h1
      · rw [← e]; exact h3
      · intro hb
        obtain ⟨hr, he⟩ := h2 hb
        rw [← e]
        refine ⟨?_, he⟩
        rw [hr]
        cases k with
        | zero => simp [respBefore]
        | succ j =>
          have e2 : ra + 1 + j = ra + (j + 1) := by omega
          simp [respBefore, e2]
    · have hw' : wants p o ra = false := by simpa using hw
      obtain ⟨ev1, fin, hev, hi, _, _, hb, hnb, hint⟩ := iter_stop p mw o ra st prev hw'
      obtain ⟨fin', hf', hl⟩ := loop_cons_stop p mw o rest ra st prev hw'
      rw [hl, hev] at h
      simp only [Prod.mk.injEq] at h
      rw [hev] at hf'
      simp only [Sum.inl.injEq] at hf'
      obtain ⟨rfl, hfin⟩ := h
      subst hf'
      refine ⟨0, o, by simp, by simp [hi], ?_, ?_, ?_⟩
      · intro ho hni
        obtain ⟨err', hd, hcase⟩ := hnb ho hni
        rw [hfin] at hd
        simp only [Final.done.injEq] at hd
        obtain ⟨rfl, rfl⟩ := hd
        exact ⟨rfl, hcase⟩
      · intro hin
        have := hint hin
        rw [hfin] at this
        simp only [Final.done.injEq] at this
        obtain ⟨rfl, rfl⟩ := this
        exact ⟨rfl, rfl⟩
      · intro ho
        have := hb ho
        rw [hfin] at this
        simp only [Final.done.injEq] at this
        obtain ⟨rfl, rfl⟩ := this
        exact ⟨rfl, rfl⟩

/-- The repaired loop always returns: no nil dereference. -/
theorem repaired_never_panics (script : List Outcome) (ra : Nat) (st : σ) (prev : Option Resp) :
    (loop R p mw script ra st prev).2 ≠ .panic := by
  induction script generalizing ra st prev with
  | nil => simp [loop]
  | cons o rest ih =>
    by_cases hw : wants p o ra = true
    · rw [loop_cons_cont p mw o rest ra st prev hw]; exact ih _ _ _
    · have hw' : wants p o ra = false := by simpa using hw
      obtain ⟨ev1, fin, hev, _, _, _, hb, hnb, hint⟩ := iter_stop p mw o ra st prev hw'
      obtain ⟨fin', hf', hl⟩ := loop_cons_stop p mw o rest ra st prev hw'
      rw [hl]
      rw [hev] at hf'
      simp only [Sum.inl.injEq] at hf'
      subst hf'
      by_cases ho : o = .beforeErr
      · rw [hb ho]; simp
      · by_cases hin : interrupted p o ra = true
        · rw [hint hin]; simp
        · obtain ⟨e, he, -⟩ := hnb ho (by simpa using hin)
          rw [he]; simp

/-- **unreplayable_fails_upfront**: a retryable request (retry option present, count ≠ 0) with a
body that cannot be replayed is refused before anything is sent … -/
theorem unreplayable_fails_upfront (v : Variant) (script : List Outcome) (st : σ)
    (he : p.enabled = true) (hn : p.maxRetries ≠ 0) :
    (run v p mw true script st).final = .refused ∧ (run v p mw true script st).events = [] := by
  simp [run, he, hn]

/-- … and conversely an unreplayable body is only ever sent when no retry can follow: at most
once. -/
theorem unreplayable_sent_at_most_once (script : List Outcome) (st : σ)
    (h : (run R p mw true script st).final ≠ .refused) :
    (wires (run R p mw true script st).events).length ≤ 1 := by
  unfold run at *
  split
  · simp [wires]
  · rename_i hc
    have hd : p.enabled = false ∨ p.maxRetries = 0 := by
      by_cases he : p.enabled = true
      · by_cases hn : p.maxRetries = 0
        · exact Or.inr hn
        · simp [he, hn] at hc
      · exact Or.inl (by simpa using he)
    cases script with
    | nil => simp [loop, wires]
    | cons o rest =>
      have := single_attempt p mw (o :: rest) 0 st none hd (by simp)
      exact Nat.le_trans (wires_le_iterations p mw (o :: rest) 0 st none) (by omega)

/-! ## Part 2 — every attempt puts the same request on the wire -/

section wire
open Req.Attempt Req.Lemmas.C10Attempt

/-- After the first application of the request middleware every later application reproduces
the first one's wire request (and leaves the carried state alone). -/
theorem mw_after_first (c : ClientCfg) (hx : c.isXML c.jsonCT = false) (st : ReqState)
    (hr : unreplayable R st = false) (hct : st.contract = true) (k : Nat) :
    Attempt.mw R c (k + 1) (stateAt R c st (k + 1)) = Attempt.mw R c 0 st := by
  induction k with
  | zero => exact mw_fix c hx 0 0 st hr hct
  | succ k ih =>
    have : stateAt R c st (k + 1 + 1) = (Attempt.mw R c 0 st).1 := by
      show (Attempt.mw R c (k + 1) (stateAt R c st (k + 1))).1 = _
      rw [ih]
    rw [this]
    exact mw_fix c hx 0 (k + 1) st hr hct

/-- **attempts_identical**: as long as nothing but the library's own middleware touches the
request between attempts, attempt `k+1` puts exactly the request of attempt `k` on the wire —
method, URL, query, headers, cookies and complete body — for every request that `Do` does not
refuse up front. -/
theorem attempts_identical (c : ClientCfg) (hx : c.isXML c.jsonCT = false) (st : ReqState)
    (hr : unreplayable R st = false) (hct : st.contract = true) (k : Nat) :
    build R c st (k + 1) = build R c st k := by
  have h : ∀ n, build R c st (n + 1) = build R c st 0 := by
    intro n
    show (Attempt.mw R c (n + 1) (stateAt R c st (n + 1))).2 = (Attempt.mw R c 0 (stateAt R c st 0)).2
    rw [mw_after_first c hx st hr hct n]; rfl
  cases k with
  | zero => exact h 0
  | succ k => rw [h (k + 1), h k]

theorem foldl_hooks_id (l : List (Nat × (Obs → ReqState → ReqState))) (ob : Obs) (s : ReqState)
    (h : ∀ x ∈ l, ∀ o s, x.2 o s = s) : l.foldl (fun s x => x.2 ob s) s = s := by
  induction l generalizing s with
  | nil => rfl
  | cons x t ih =>
    simp only [List.foldl_cons, h x (List.mem_cons_self ..)]
    exact ih s fun y hy => h y (List.mem_cons_of_mem _ hy)

theorem wires_same_aux (p : Policy ReqState) (c : ClientCfg) (hxml : c.isXML c.jsonCT = false) (st : ReqState)
    (hhooks : ∀ x ∈ p.hooks, ∀ o s, x.2 o s = s) (hr : unreplayable R st = false) (hct : st.contract = true)
    (script : List Outcome) (ra : Nat) (s : ReqState) (prev : Option Resp)
    (hinv : Attempt.mw R c ra s = Attempt.mw R c 0 st) :
    ∀ x ∈ wires (loop R p (Attempt.mw R c) script ra s prev).1, x.2 = build R c st 0 := by
  induction script generalizing ra s prev with
  | nil => simp [loop, wires]
  | cons o rest ih =>
    by_cases h : wants p o ra = true
    · obtain ⟨ev, hev, _, hw, _⟩ := iter_cont p (Attempt.mw R c) o ra s prev h
      rw [loop_cons_cont p (Attempt.mw R c) o rest ra s prev h, wires_append, hev]
      have hns : nextState p (Attempt.mw R c) o ra s = (Attempt.mw R c 0 st).1 := by
        unfold nextState
        rw [foldl_hooks_id _ _ _ (fun x hx => hhooks x (by simpa using hx)), hinv]
      intro x hx
      rcases List.mem_append.mp hx with h1 | h1
      · simp only [hw, List.mem_singleton] at h1
        rw [h1, hinv]; rfl
      · refine ih (ra + 1) _ _ ?_ x h1
        rw [hns]
        exact mw_fix c hxml 0 ra st hr hct
    · have h' : wants p o ra = false := by simpa using h
      obtain ⟨ev, fin, hev, _, _, hw, -⟩ := iter_stop p (Attempt.mw R c) o ra s prev h'
      obtain ⟨fin', _, hl⟩ := loop_cons_stop p (Attempt.mw R c) o rest ra s prev h'
      rw [hl, hev]
      intro x hx
      simp only [hw] at hx
      split at hx
      · simp at hx
      · simp only [List.mem_singleton] at hx
        rw [hx, hinv]; rfl

/-- **every attempt identical, whole call**: in a run of `Request.Do` whose retry hooks leave
the request alone, every request that reaches the wire — whatever the outcome script, the retry
count, the conditions — is the request of the first attempt. -/
theorem all_attempts_same_wire (p : Policy ReqState) (c : ClientCfg) (hx : c.isXML c.jsonCT = false)
    (st : ReqState) (script : List Outcome)
    (hhooks : ∀ x ∈ p.hooks, ∀ o s, x.2 o s = s) (hct : st.contract = true) :
    ∀ x ∈ wires (run R p (Attempt.mw R c) (unreplayable R st) script st).events, x.2 = build R c st 0 := by
  unfold run
  split
  · simp [wires]
  · rename_i hc
    by_cases hr : unreplayable R st = false
    · exact wires_same_aux p c hx st hhooks hr hct script 0 st none rfl
    · -- an unreplayable body that is not refused is sent at most once
      have hr' : unreplayable R st = true := by simpa using hr
      have hd : p.enabled = false ∨ p.maxRetries = 0 := by
        by_cases he : p.enabled = true
        · by_cases hn : p.maxRetries = 0
          · exact Or.inr hn
          · simp [he, hn, hr'] at hc
        · exact Or.inl (by simpa using he)
      cases script with
      | nil => simp [loop, wires]
      | cons o rest =>
        have hw : wants p o 0 = false := by
          cases hw : wants p o 0 with
          | false => rfl
          | true =>
            have := (wants_iff p o 0).mp hw
            rcases hd with h | h
            · simp [h] at this
            · have := this.2.2.2.2.1; omega
        obtain ⟨ev, fin, hev, _, _, hwi, -⟩ := iter_stop p (Attempt.mw R c) o 0 st none hw
        obtain ⟨fin', _, hl⟩ := loop_cons_stop p (Attempt.mw R c) o rest 0 st none hw
        rw [hl, hev]
        intro x hx
        simp only [hwi] at hx
        split at hx
        · simp at hx
        · simp only [List.mem_singleton] at hx
          rw [hx]; rfl

/-- **prepare_idempotent**: the per-attempt request pipeline (parseRequestHeader,
parseRequestCookie, parseRequestURL, parseRequestBody with the multipart / form / marshal
handlers) is idempotent on the request state: preparing an already prepared request — for
whichever attempt numbers — returns the same state AND the same request on the wire: URL (path
parameters of both levels, base URL, scheme), raw query + merged query parameters, headers
(order keys included: they travel in `r.Headers`), cookies, and every body kind.  This is the
reason every attempt sends the same bytes; `hx` is the one law about the environment
(`util.IsXMLType` does not hold of the JSON content type the pipeline itself stores). -/
theorem prepare_idempotent (c : ClientCfg) (hx : c.isXML c.jsonCT = false) (j k : Nat) (st : ReqState)
    (hr : unreplayable R st = false) (hct : st.contract = true) :
    Attempt.mw R c (k + 1) (Attempt.mw R c j st).1 = Attempt.mw R c j st := mw_fix c hx j k st hr hct

/-- What every attempt's URL and query are: functions of what the CALLER set (`RawURL`, path
parameters of both levels, `BaseURL`, scheme, query parameters of both levels) — untouched by
the attempts. -/
theorem url_every_attempt (c : ClientCfg) (hx : c.isXML c.jsonCT = false) (st : ReqState)
    (hr : unreplayable R st = false) (hct : st.contract = true) (k : Nat) :
    (build R c st k).url = urlOf c st ∧
    (build R c st k).query = st.rawQuery.map (fun p => (p.1, [p.2])) ++ mergeQuery c.query st.query := by
  have h0 : build R c st k = build R c st 0 := by
    induction k with
    | zero => rfl
    | succ n ih => rw [attempts_identical c hx st hr hct n, ih]
  rw [h0]
  exact ⟨rfl, rfl⟩

/-! ### the cookie jar: the one difference between attempts that no hook made -/

theorem jar_step (sets : List (List (Str × Str))) (jar0 : List (Str × Str)) (k : Nat) :
    jarBefore sets jar0 (k + 1) = ((sets[k]?).getD []).foldl jarSet (jarBefore sets jar0 k) := by
  unfold jarBefore
  rw [List.take_succ, List.foldl_append]
  cases h : sets[k]? <;> simp

/-- **attempts_identical_modulo_jar**: on the wire, attempt `k+1` is attempt `k` with the jar
brought up to date by the `Set-Cookie`s of response `k` — and nothing else; without a
`Set-Cookie` in response `k` the two are equal byte for byte. -/
theorem attempts_identical_modulo_jar (c : ClientCfg) (hx : c.isXML c.jsonCT = false) (st : ReqState)
    (hr : unreplayable R st = false) (hct : st.contract = true) (sets : List (List (Str × Str))) (jar0 : List (Str × Str)) (k : Nat) :
    withJar (build R c st (k + 1)) (jarBefore sets jar0 (k + 1)) =
      withJar (build R c st k) (((sets[k]?).getD []).foldl jarSet (jarBefore sets jar0 k)) ∧
    ((sets[k]?).getD [] = [] →
      withJar (build R c st (k + 1)) (jarBefore sets jar0 (k + 1)) =
        withJar (build R c st k) (jarBefore sets jar0 k)) := by
  rw [attempts_identical c hx st hr hct k, jar_step]
  refine ⟨rfl, ?_⟩
  intro h
  rw [h]
  rfl

/-- `Do` refuses exactly the requests the identity theorem excludes (when a retry can follow). -/
theorem refused_iff_unreplayable (p : Policy ReqState) (c : ClientCfg) (st : ReqState)
    (script : List Outcome) (he : p.enabled = true) (hn : p.maxRetries ≠ 0) :
    (run R p (Attempt.mw R c) (unreplayable R st) script st).final = .refused ↔ unreplayable R st = true := by
  constructor
  · intro h
    by_cases hu : unreplayable R st = true
    · exact hu
    · have hu' : unreplayable R st = false := by simpa using hu
      exfalso
      simp only [run, he, hn, hu', bne_iff_ne, ne_eq, not_false_eq_true, decide_true, Bool.and_false,
        Bool.false_eq_true, ↓reduceIte] at h
      -- the loop itself never answers `refused`
      have : ∀ (script : List Outcome) (ra : Nat) (s : ReqState) (prev : Option Resp),
          (loop R p (Attempt.mw R c) script ra s prev).2 ≠ .refused := by
        intro script
        induction script with
        | nil => intro ra s prev; simp [loop]
        | cons o rest ih =>
          intro ra s prev
          by_cases hw : wants p o ra = true
          · rw [loop_cons_cont p (Attempt.mw R c) o rest ra s prev hw]; exact ih _ _ _
          · have hw' : wants p o ra = false := by simpa using hw
            obtain ⟨ev1, fin, hev, _, _, _, hb, hnb, hint⟩ := iter_stop p (Attempt.mw R c) o ra s prev hw'
            obtain ⟨fin', hf', hl⟩ := loop_cons_stop p (Attempt.mw R c) o rest ra s prev hw'
            rw [hl]
            rw [hev] at hf'
            simp only [Sum.inl.injEq] at hf'
            subst hf'
            by_cases ho : o = .beforeErr
            · rw [hb ho]; simp
            · by_cases hin : interrupted p o ra = true
              · rw [hint hin]; simp
              · obtain ⟨e, he, -⟩ := hnb ho (by simpa using hin)
                rw [he]; simp
      exact this script 0 st none h
  · intro hu
    simp [run, he, hn, hu]

end wire

/-! ## Part 3 — the built-in backoff stays within its bounds -/

section backoff
open Req.Backoff

theorem two_pow_pos (a : Nat) : 1 ≤ (2 : Int) ^ a := by
  induction a with
  | zero => simp
  | succ k ih => rw [Int.pow_succ]; omega

theorem two_pow_ge_two (a : Nat) (ha : 1 ≤ a) : 2 ≤ (2 : Int) ^ a := by
  cases a with
  | zero => omega
  | succ k => rw [Int.pow_succ]; have := two_pow_pos k; omega

theorem temp_bounds (mn mx : Int) (a : Nat) (hmin : 0 < mn) (ha : 1 ≤ a) :
    temp mn mx a ≤ mx ∧ (2 * mn ≤ mx → 2 * mn ≤ temp mn mx a) ∧ (mx ≤ 2 * mn → temp mn mx a = mx) := by
  have hp := two_pow_ge_two a ha
  have hx : mn * 2 ≤ mn * (2 : Int) ^ a := Int.mul_le_mul_of_nonneg_left hp (Int.le_of_lt hmin)
  unfold temp
  simp only
  split <;> refine ⟨?_, ?_, ?_⟩ <;> omega

/-- **backoff_bounds**: for `0 < min`, `2ns ≤ max` (`min ≤ max` is not even needed) and attempt numbers `≥ 1` (the loop
passes 1, 2, …) the interval never panics and lies in `[half, 2·half)` with
`half = ⌊min(max, min·2^attempt)/2⌋ ≥ 1`, hence below `max`; and it is at least `min` whenever
`2·min ≤ max`.  Whatever the jitter, with or without the C10-4 guard. -/
theorem backoff_bounds (guard : Bool) (mn mx : Int) (a jitter : Nat)
    (hmin : 0 < mn) (hmax : 2 ≤ mx) (ha : 1 ≤ a) :
    ∃ d, interval guard mn mx a jitter = .ok d ∧
      0 < half mn mx a ∧ half mn mx a ≤ d ∧ d < 2 * half mn mx a ∧ 2 * half mn mx a ≤ mx ∧
      (2 * mn ≤ mx → mn ≤ d) := by
  obtain ⟨h1, h2, h3⟩ := temp_bounds mn mx a hmin ha
  have ht2 : 2 ≤ temp mn mx a := by
    by_cases h : 2 * mn ≤ mx
    · have := h2 h; omega
    · have := h3 (by omega); omega
  have hdiv : half mn mx a = temp mn mx a / 2 := by
    unfold half; exact Int.tdiv_eq_ediv_of_nonneg (by omega)
  have hpos : 0 < half mn mx a := by omega
  have hmod : ((jitter % (half mn mx a).toNat : Nat) : Int) < half mn mx a := by
    have : jitter % (half mn mx a).toNat < (half mn mx a).toNat := Nat.mod_lt _ (by omega)
    omega
  refine ⟨half mn mx a + (jitter % (half mn mx a).toNat : Nat), ?_, hpos, by omega, by omega, by omega, ?_⟩
  · unfold interval
    simp only
    rw [if_neg (by omega)]
  · intro h
    have := h2 h
    omega

/-- Outside that domain the code as found panics in `rand.Int63n(0)`: `min = 0` … -/
theorem asFound_backoff_panics_min0 : interval false 0 1000000000 1 0 = .panic := by decide
/-- … a `max` below 2ns … -/
theorem asFound_backoff_panics_small_max : interval false 1 1 1 0 = .panic := by decide
/-- … `max < min` with a zero cap, and negative bounds. -/
theorem asFound_backoff_panics_zero_cap : interval false 1000000000 0 3 0 = .panic := by decide
theorem asFound_backoff_panics_negative : interval false (-5) 100 2 7 = .panic := by decide

/-- With fixes/C10-4 the function is total: it answers 0 where it used to panic. -/
theorem repaired_backoff_total (mn mx : Int) (a jitter : Nat) :
    ∃ d, interval true mn mx a jitter = .ok d ∧ 0 ≤ d := by
  unfold interval
  simp only
  split
  · exact ⟨0, rfl, by omega⟩
  · exact ⟨_, rfl, by omega⟩

example : interval true 0 1000000000 1 0 = .ok 0 := by decide
example : interval false 100 1000 2 7 = .ok 207 := by decide
example : interval false 100 1000 9 499 = .ok 999 := by decide

end backoff

/-! ## Part 4 — the effective policy: client → request cloning, Set vs Add -/

section policy

theorem clone_id (o : Option RetryOption) : RetryOption.clone o = o := by
  cases o <;> simp [RetryOption.clone]

/-- A request starts from the client's policy exactly as the client-level setters left it;
request-level setters then act on the request's own copy. -/
theorem effective_eq (cops rops : List Setter) :
    effective cops rops = (cops ++ rops).foldl Setter.apply none := by
  simp [effective, clone_id, List.foldl_append]

theorem fold_addCond (o : RetryOption) (adds : List Nat) :
    (adds.map Setter.addCond).foldl Setter.apply (some o) = some { o with conds := o.conds ++ adds } := by
  induction adds generalizing o with
  | nil => simp
  | cons a t ih => simp [Setter.apply, ih, List.append_assoc]

theorem fold_addHook (o : RetryOption) (adds : List Nat) :
    (adds.map Setter.addHook).foldl Setter.apply (some o) = some { o with hooks := o.hooks ++ adds } := by
  induction adds generalizing o with
  | nil => simp
  | cons a t ih => simp [Setter.apply, ih, List.append_assoc]

/-- `SetRetryCondition` replaces every condition registered before it — client-level ones
included; conditions added afterwards are appended. -/
theorem setCond_overrides (cops rops : List Setter) (c : Nat) (adds : List Nat) :
    (effective cops (rops ++ [.setCond c] ++ adds.map .addCond)).map (·.conds) = some (c :: adds) := by
  rw [effective_eq]
  simp only [← List.append_assoc, List.foldl_append, List.foldl_cons, List.foldl_nil]
  generalize List.foldl Setter.apply none (cops ++ rops) = o
  simp [Setter.apply, fold_addCond]

theorem setHook_overrides (cops rops : List Setter) (h : Nat) (adds : List Nat) :
    (effective cops (rops ++ [.setHook h] ++ adds.map .addHook)).map (·.hooks) = some (h :: adds) := by
  rw [effective_eq]
  simp only [← List.append_assoc, List.foldl_append, List.foldl_cons, List.foldl_nil]
  generalize List.foldl Setter.apply none (cops ++ rops) = o
  simp [Setter.apply, fold_addHook]

/-- `AddRetryCondition` at request level keeps the client-level conditions in front (they are
therefore asked AFTER the request-level ones: evaluation is last-to-first). -/
theorem addCond_keeps_client (cops : List Setter) (o : RetryOption) (adds : List Nat)
    (h : cops.foldl Setter.apply none = some o) :
    (effective cops (adds.map .addCond)).map (·.conds) = some (o.conds ++ adds) := by
  simp [effective, clone_id, h, fold_addCond]

/-- The last count set wins, at whichever level. -/
theorem count_last_wins (cops rops : List Setter) (n : Int) :
    (effective cops (rops ++ [.count n])).map (·.maxRetries) = some n := by
  rw [effective_eq]
  simp only [← List.append_assoc, List.foldl_append, List.foldl_cons, List.foldl_nil]
  generalize List.foldl Setter.apply none (cops ++ rops) = o
  simp [Setter.apply]

/-- Without any setter at either level the request has no retry option: exactly one attempt. -/
theorem no_setter_no_option : effective [] [] = none := rfl

/-- Conditions are asked last-registered-first, and only until one says yes: the condition
events of one pass are the refusals of the trailing conditions followed by the first yes. -/
theorem conds_last_to_first {W : Type} (ob : Obs) (cs : List (Nat × (Obs → Bool))) :
    (evalConds (W := W) ob cs).1 =
      ((cs.takeWhile fun c => !c.2 ob).map fun c => Event.cond c.1 ob false) ++
      (match cs.find? fun c => c.2 ob with
       | some c => [Event.cond c.1 ob true]
       | none => []) := by
  induction cs with
  | nil => simp [evalConds]
  | cons c t ih =>
    obtain ⟨id, f⟩ := c
    unfold evalConds
    by_cases h : f ob = true
    · simp [h]
    · have h' : f ob = false := by simpa using h
      simp [h', ih]

end policy

/-! ## Part 5 — the code as found: counter-examples, and non-vacuity of the theorems above

Each `asFound_*` statement is the negation of a theorem above at a concrete input, for the
faithful model of the pinned tree; the same inputs are replayed on the implementation by
`c10Witnesses` (harness), where they are classed as the known findings of DESIGN §5 rows 2–6
and C10-6. -/

section witnesses
open Req.Attempt

/-- a client with cookie `a=1` and form field `k=v` -/
def exCfg : ClientCfg :=
  { cookies := [([97], [49])], headers := [([88], [[49]])], form := [([107], [[118]])], query := [],
    allowGetPayload := true, detect := fun _ => [116], boundaryCT := [66], formCT := [70], jsonCT := [74],
    ctKey := [67], mGet := [71], mHead := [72], mOptions := [79],
    isXML := fun ct => ct == [88], pathParams := [([105], [55])], baseURL := [98], schemePrefix := [115] }

/-- `POST` with request cookie `r=2`, no body of its own -/
def exReq : ReqState :=
  { method := [80], urlHead := .rel, path := [.lit [47, 117, 47], .param [105]], rawQuery := [([113], [49])],
    pathParams := [], cookies := [([114], [50])], headers := [], form := [], ordered := [],
    query := [], multipart := false, files := [], body := .none }

/-- a multipart upload through `SetFileReader(strings.NewReader("x"))` -/
def exUpload : ReqState :=
  { exReq with multipart := true, files := [⟨[112], [110], [], .seeker [120] false⟩] }

/-- row 2: the client cookie is sent once, twice, three times -/
theorem asFound_cookie_dup :
    (build .asFound exCfg exReq 0).cookies = [([114], [50]), ([97], [49])] ∧
    (build .asFound exCfg exReq 1).cookies = [([114], [50]), ([97], [49]), ([97], [49])] ∧
    (build .asFound exCfg exReq 2).cookies = [([114], [50]), ([97], [49]), ([97], [49]), ([97], [49])] := by
  decide

/-- row 3: `k=v` becomes `k=v&k=v` on the retry -/
theorem asFound_form_dup :
    (build .asFound exCfg exReq 0).body = .form [([107], [[118]])] ∧
    (build .asFound exCfg exReq 1).body = .form [([107], [[118], [118]])] := by
  decide

/-- C10-6: the reader upload is sent empty on the retry -/
theorem asFound_upload_emptied :
    (build .asFound { exCfg with form := [] } exUpload 0).body = .multipart [] [⟨[112], [110], [116], [120]⟩] ∧
    (build .asFound { exCfg with form := [] } exUpload 1).body = .multipart [] [⟨[112], [110], [116], []⟩] := by
  decide

/-- rows 2/3 as failures of idempotence: preparing the prepared request changes the wire -/
theorem asFound_not_idempotent :
    (Attempt.mw .asFound exCfg 1 (Attempt.mw .asFound exCfg 0 exReq).1).2 ≠ (Attempt.mw .asFound exCfg 0 exReq).2 ∧
    (Attempt.mw R exCfg 1 (Attempt.mw R exCfg 0 exReq).1) = Attempt.mw R exCfg 0 exReq := by
  decide

/-- URL building: relative `RawURL` `/u/{i}` + `BaseURL` `b`, the client-level path parameter
`i = 7` fills the placeholder, the raw query `q=1` stays in front — in every attempt -/
example : (build R exCfg exReq 3).url = [98, 47, 117, 47, 55] ∧
    (build R exCfg exReq 3).query = [([113], [[49]])] := by decide
/-- … a request-level parameter wins; an unfilled placeholder stays -/
example : urlOf exCfg { exReq with pathParams := [([105], [56])] } = [98, 47, 117, 47, 56] ∧
    urlOf { exCfg with pathParams := [] } exReq = [98, 47, 117, 47, 123, 105, 125] := by decide
/-- the jar: response 0 sets `s=1`, response 1 replaces it and adds `t=2`, response 2 expires `s` -/
example : jarBefore [[([115], [49])], [([115], [51]), ([116], [50])], [([115], [])]] [] 1 = [([115], [49])] ∧
    jarBefore [[([115], [49])], [([115], [51]), ([116], [50])], [([115], [])]] [] 2 = [([115], [51]), ([116], [50])] ∧
    jarBefore [[([115], [49])], [([115], [51]), ([116], [50])], [([115], [])]] [] 3 = [([116], [50])] ∧
    (withJar (build R exCfg exReq 1) (jarBefore [[([115], [49])]] [] 1)).cookies =
      [([114], [50]), ([97], [49]), ([115], [49])] := by decide
/-- XML marshalling: with an XML content type in force the XML marshaller's output is sent, in
every attempt; without any, JSON and the JSON content type -/
example : (build R { exCfg with form := [] } { exReq with headers := [([67], [[88]])], body := .marshal [106] [120] } 2).body = .raw [120] ∧
    (build R { exCfg with form := [] } { exReq with body := .marshal [106] [120] } 2).body = .raw [106] := by decide

/-- the repaired middleware on the same inputs (instances of `attempts_identical`) -/
example : build R exCfg exReq 2 = build R exCfg exReq 0 := by decide
example : build R exCfg exUpload 1 = build R exCfg exUpload 0 := by decide
example : unreplayable R exReq = false ∧ unreplayable R exUpload = false := by decide
example : (build R exCfg exReq 1).cookies = [([114], [50]), ([97], [49])] := by decide
/-- a non-rewindable reader upload and an `io.Reader` body are what `Do` refuses -/
example : unreplayable R { exUpload with files := [⟨[112], [110], [], .stream [120] false⟩] } = true := by decide
example : unreplayable R { exReq with body := .reader [120] false } = true := by decide

/-- a policy over a trivial request state: `SetRetryCount(2)`, default rule -/
def exPolicy (after : List (Obs → Bool)) : Policy Unit :=
  ⟨true, 2, [], [(0, fun _ s => s), (1, fun _ s => s)], after, .fixed 0⟩
def exMw : Nat → Unit → Unit × Nat := fun ra s => (s, ra)

/-- row 4: with a request-level response middleware that returns nil, two transport errors
lead to ONE attempt under the code as found; the specification (and the repaired code) make
three. -/
theorem asFound_after_erases_err :
    iterations (loop .asFound (exPolicy [fun _ => false]) exMw [.transportErr, .transportErr, .status 200] 0 () none).1 = 1 ∧
    specAttempts (exPolicy [fun _ => false]) [.transportErr, .transportErr, .status 200] 0 = 3 ∧
    iterations (loop R (exPolicy [fun _ => false]) exMw [.transportErr, .transportErr, .status 200] 0 () none).1 = 3 := by
  decide

/-- row 6: a `(nil, err)` round trip with a retry due dereferences nil under the code as found;
the repaired code retries and returns the second attempt's response. -/
theorem asFound_nil_resp_panics :
    (loop .asFound (exPolicy []) exMw [.nilResp, .status 200] 0 () none).2 = .panic ∧
    (loop R (exPolicy []) exMw [.nilResp, .status 200] 0 () none).2 = .done (some ⟨1, .status 200, none⟩) none := by
  decide

/-- non-vacuity of `hooks_once_per_retry`: two retries, hooks 1 then 0 each time, attempts 1 and 2 -/
example : calls (loop R (exPolicy []) exMw [.transportErr, .deadline, .status 200] 0 () none).1 =
    [.hook 1 1, .hook 0 1, .interval 1, .hook 1 2, .hook 0 2, .interval 2] := by decide
/-- … of `attempts_bound`: five failures, count 2, three attempts -/
example : iterations (run R (exPolicy []) exMw false
    [.transportErr, .transportErr, .transportErr, .transportErr, .transportErr] ()).events = 3 := by decide
/-- … of `retry_iff`: a cancelled context stops the loop although retries are left -/
example : iterations (loop R (exPolicy []) exMw [.transportErr, .cancelled, .status 200] 0 () none).1 = 2 := by
  decide
/-- … of `stops_when_context_done` / `hooks_once_per_retry` with an interrupted wait: the deadline
of the request's context passes during attempt 0; the default rule asks for a retry, hooks and
interval function run once, the wait finds the context done: one attempt, although 2 retries
are left, and the context's error is returned -/
example : iterations (loop R (exPolicy []) exMw [.deadlineCtx, .status 200] 0 () none).1 = 1 ∧
    calls (loop R (exPolicy []) exMw [.deadlineCtx, .status 200] 0 () none).1 =
      [.hook 1 1, .hook 0 1, .interval 1] ∧
    ((loop R (exPolicy []) exMw [.deadlineCtx, .status 200] 0 () none).2).returned =
      some (some (0, .noHttp), some (0, .waitCtx)) := by decide
/-- … the same for a context cancelled after a 503 that a condition wants retried -/
example : iterations (loop R (⟨true, -1, [(0, fun o => o.resp == .status 503)], [], [], .fixed 0⟩ : Policy Unit) exMw
    [.status 503, .lateCancel 503, .status 200] 0 () none).1 = 2 := by decide
/-- … of `result_is_last` -/
example : ((loop R (exPolicy []) exMw [.transportErr, .badBody 500, .transportErr, .status 200] 0 () none).2).returned
    = some (some (2, .noHttp), some (2, .transport)) := by decide
/-- … of `unbounded_when_negative`: count −1, nine failures, nine attempts and the script is exhausted -/
example : iterations (loop R (⟨true, -1, [], [], [], .dflt⟩ : Policy Unit) exMw
    (List.replicate 9 .transportErr) 0 () none).1 = 9 := by decide
/-- … of `unreplayable_fails_upfront` -/
example : (run R (exPolicy []) exMw true [.status 200] ()).final = .refused := by decide
/-- conditions override the default rule: a 503 is retried, a transport error is not -/
example : iterations (loop R (⟨true, 5, [(0, fun o => o.resp == .status 503)], [], [], .dflt⟩ : Policy Unit) exMw
    [.status 503, .status 503, .transportErr, .status 200] 0 () none).1 = 3 := by decide

end witnesses

end Req.Props.C10
