import Req.Client.Retry
import Req.Client.Attempt
import Req.Client.Backoff
/-! C10 — property theorems (in progress). -/
namespace Req.Props.C10
end Req.Props.C10
