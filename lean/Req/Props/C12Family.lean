import Req.Pool.TlsFamily
/-!
# C12 — every member of a family of clients is governed by ITS OWN setters

`Client.Clone` leaves two live clients; both keep receiving setters in any interleaving.
Theorems about `Req.Pool.TLS.famRun` (model of the value semantics `Options.Clone` must
have: own `Certificates` slice, own `RootCAs` pool) and `presented` (which client
certificate a handshake sends). Tied to the code by lane `c12fam`.
-/
namespace Req.Props.C12
open Req.Pool.TLS

/-- **Isolation, for every interleaving.** Whatever sequence of setters, forks (`Clone`) and
switches between members is applied to a family, member `i` ends up with the value it had,
changed by exactly the setters applied while the cursor was on `i` — the setters applied
to the original after the clone was taken, to a sibling or to a clone of it never show. -/
theorem member_reads_own_setters (ops : List FOp) (f : Fam) (i : Nat) (c : Option TlsCfg)
    (hc : f.members[i]? = some c) (hcur : f.cur < f.members.length) :
    (famRun f ops).members[i]? = some (run c (ownOps f.members.length f.cur i ops))
    ∧ (famRun f ops).cur < (famRun f ops).members.length := by
  induction ops generalizing f c with
  | nil => exact ⟨by simpa [famRun, ownOps, run] using hc, by simpa [famRun] using hcur⟩
  | cons op rest ih =>
    have hi : i < f.members.length := by
      rcases Nat.lt_or_ge i f.members.length with h | h
      · exact h
      · rw [List.getElem?_eq_none h] at hc; cases hc
    cases op with
    | set o =>
      obtain ⟨c', hc'⟩ : ∃ c', f.members[f.cur]? = some c' := ⟨f.members[f.cur], by simp [hcur]⟩
      have hstep : famStep f (.set o) = { f with members := f.members.set f.cur (step c' o) } := by
        simp [famStep, hc']
      have hlen : (famStep f (.set o)).members.length = f.members.length := by simp [hstep]
      by_cases he : f.cur = i
      · have hcc : c' = c := by rw [he] at hc'; rw [hc] at hc'; cases hc'; rfl
        subst hcc
        have hget : (famStep f (.set o)).members[i]? = some (step c' o) := by
          rw [hstep, ← he]; simp [hcur]
        have := ih (famStep f (.set o)) (step c' o) hget (by rw [hlen, hstep]; exact hcur)
        simp only [famRun, List.foldl] at this ⊢
        rw [hlen] at this
        have hcur' : (famStep f (.set o)).cur = f.cur := by rw [hstep]
        rw [hcur'] at this
        simp only [ownOps, he, hi, and_self, if_true, run, List.foldl] at this ⊢
        simpa [he] using this
      · have hget : (famStep f (.set o)).members[i]? = some c := by
          rw [hstep]; simp [List.getElem?_set_ne he, hc]
        have := ih (famStep f (.set o)) c hget (by rw [hlen, hstep]; exact hcur)
        simp only [famRun, List.foldl] at this ⊢
        rw [hlen] at this
        have hcur' : (famStep f (.set o)).cur = f.cur := by rw [hstep]
        rw [hcur'] at this
        simpa [ownOps, he] using this
    | fork =>
      obtain ⟨c', hc'⟩ : ∃ c', f.members[f.cur]? = some c' := ⟨f.members[f.cur], by simp [hcur]⟩
      have hstep : famStep f .fork = { f with members := f.members ++ [step c' .clone] } := by
        simp [famStep, hc']
      have hlen : (famStep f .fork).members.length = f.members.length + 1 := by simp [hstep]
      have hget : (famStep f .fork).members[i]? = some c := by
        rw [hstep]; simp [List.getElem?_append_left hi, hc]
      have := ih (famStep f .fork) c hget (by rw [hlen, hstep]; exact Nat.lt_succ_of_lt hcur)
      simp only [famRun, List.foldl] at this ⊢
      rw [hlen] at this
      have hcur' : (famStep f .fork).cur = f.cur := by rw [hstep]
      rw [hcur'] at this
      simpa [ownOps, hcur] using this
    | switch k =>
      by_cases hk : k < f.members.length
      · have hstep : famStep f (.switch k) = { f with cur := k } := by simp [famStep, hk]
        have := ih (famStep f (.switch k)) c (by rw [hstep]; exact hc) (by rw [hstep]; exact hk)
        simp only [famRun, List.foldl] at this ⊢
        rw [hstep] at this ⊢
        simpa [ownOps, hk] using this
      · have hstep : famStep f (.switch k) = f := by simp [famStep, hk]
        have := ih f c hc hcur
        simp only [famRun, List.foldl] at this ⊢
        rw [hstep]
        simpa [ownOps, hk] using this

/-- `Clone()` hands the copy the VALUES of the member it was taken from, as a new member. -/
theorem fork_copies (f : Fam) (c : Option TlsCfg) (hc : f.members[f.cur]? = some c) :
    (famStep f .fork).members[f.members.length]? = some c
    ∧ (famStep f .fork).members.length = f.members.length + 1 := by
  simp [famStep, hc, step]

/-- Hence two op sequences that apply the same setters to member `i` leave it with the same
configuration, whatever else they do to its relatives. -/
theorem relatives_do_not_matter (ops ops' : List FOp) (f : Fam) (i : Nat) (c : Option TlsCfg)
    (hc : f.members[i]? = some c) (hcur : f.cur < f.members.length)
    (h : ownOps f.members.length f.cur i ops = ownOps f.members.length f.cur i ops') :
    (famRun f ops).members[i]? = (famRun f ops').members[i]? := by
  rw [(member_reads_own_setters ops f i c hc hcur).1, (member_reads_own_setters ops' f i c hc hcur).1, h]

/-- The seeded shape (three certificates, clone, one more certificate on each side): the
original keeps ITS fourth certificate, the clone its own. -/
example :
    let f := famRun famInit [.set (.addCert 1), .set (.addCert 2), .set (.addCert 3), .fork,
      .set (.addCert 4), .switch 1, .set (.addCert 5)]
    (f.members[0]?.bind id).map (·.certs) = some [1, 2, 3, 4]
    ∧ (f.members[1]?.bind id).map (·.certs) = some [1, 2, 3, 5] := by decide

example : ownOps 1 0 0 [.set (.addCert 1), .fork, .switch 1, .set (.addCert 5), .switch 0, .set (.insecure true)]
    = [.addCert 1, .insecure true] := by decide

/-- The certificate a handshake presents is one of the configured ones, and one the server
can accept when it names its CAs. -/
theorem presented_is_configured (certs acc : List Nat) (j : Nat) (h : presented certs acc = some j) :
    j ∈ certs ∧ (acc ≠ [] → j ∈ acc) := by
  unfold presented at h
  split at h
  · rename_i he
    refine ⟨List.mem_of_mem_head? h, fun hne => ?_⟩
    cases acc with
    | nil => exact absurd rfl hne
    | cons a as => simp at he
  · have := List.find?_some h
    exact ⟨List.mem_of_find?_eq_some h, fun _ => by simpa using this⟩

/-- It is the FIRST such certificate: nothing before it in the list would have done. -/
theorem presented_is_first (certs acc : List Nat) (j : Nat) (hacc : acc ≠ [])
    (h : presented certs acc = some j) :
    ∃ pre post, certs = pre ++ j :: post ∧ ∀ x ∈ pre, x ∉ acc := by
  unfold presented at h
  have he : acc.isEmpty = false := by cases acc <;> simp_all
  simp only [he] at h
  obtain ⟨pre, post, hsplit, hpre⟩ := List.find?_eq_some_iff_append.1 h |>.2
  exact ⟨pre, post, hsplit, fun x hx => by simpa using hpre x hx⟩

/-- No stack edits the certificate list: the same client certificate is presented on
HTTP/1.1, HTTP/2 and HTTP/3. -/
theorem presented_uniform (s s' : Stack) (o o' : Bool) (host : Nat) (r : Option TlsCfg) (acc : List Nat) :
    presented (effective s o host r).certs acc = presented (effective s' o' host r).certs acc := by
  cases r <;> cases s <;> cases s' <;> simp [effective]

example : presented [1, 2, 3, 4] [4] = some 4 := by decide
example : presented [1, 2, 3, 5] [4] = none := by decide
example : presented [1, 2, 3] [] = some 1 := by decide

end Req.Props.C12
