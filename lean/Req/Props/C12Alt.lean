import Req.Pool.AltSvcState
/-!
# C12 — the Alt-Svc learning state machine: per origin (port included), confirmed only by a
successful HTTP/3 exchange, never used after expiry

Theorems about `Req.Pool.AltSvc.step` / `run` for EVERY sequence of events (Alt-Svc headers
with any `ma`, background dial outcomes, requests at any time, over any set of origins).
Tied to `handleAltSvc` / `handlePendingAltSvc` / `checkAltSvc` / `pkg/altsvc` by the sequence
lane `c12altsm`.
-/
namespace Req.Props.C12
open Req.Pool.Dispatch (Origin)
open Req.Pool.AltSvc

/-- The origin has some Alt-Svc state. -/
def hasEntry (s : State) (o : Origin) : Prop := s.pending o ≠ none ∨ s.jar o ≠ none

/-- An `Alt-Svc` header with at least one usable `h3` entry was received for `o`. -/
def advertisedIn (evs : List Event) (o : Origin) : Prop :=
  ∃ now mas, Event.header o now mas ∈ evs ∧ mas ≠ []

theorem jar_none_of_not_live_not_expired {s : State} {o : Origin} {now : Nat}
    (hl : jarLive s o now = false) (hx : jarExpired s o now = false) : s.jar o = none := by
  unfold jarLive at hl; unfold jarExpired at hx
  cases h : s.jar o with
  | none => rfl
  | some e => simp [h] at hl hx; simp [hl] at hx

theorem jar_some_of_live {s : State} {o : Origin} {now : Nat} (hl : jarLive s o now = true) : s.jar o ≠ none := by
  unfold jarLive at hl
  cases h : s.jar o with
  | none => simp [h] at hl
  | some e => simp

theorem jar_some_of_expired {s : State} {o : Origin} {now : Nat} (hx : jarExpired s o now = true) : s.jar o ≠ none := by
  unfold jarExpired at hx
  cases h : s.jar o with
  | none => simp [h] at hx
  | some e => simp

theorem purge_pending (s : State) (o : Origin) (now : Nat) : (jarPurge s o now).pending = s.pending := by
  unfold jarPurge; split <;> rfl

theorem purge_jar_other (s : State) (o o' : Origin) (now : Nat) (h : o' ≠ o) : (jarPurge s o now).jar o' = s.jar o' := by
  unfold jarPurge; split <;> simp [upd, h]

theorem purge_jar_self (s : State) (o : Origin) (now : Nat) :
    (jarPurge s o now).jar o = if jarExpired s o now then none else s.jar o := by
  unfold jarPurge; split <;> simp [upd, *]

/-- **An event about one origin never touches the state of another** — `https://h:8443` and
`https://h:8444` are different origins. -/
theorem step_other_origin (s : State) (e : Event) (o o' : Origin)
    (he : match e with | .header x _ _ => x = o | .dialed x _ => x = o | .request x _ _ => x = o)
    (hne : o' ≠ o) :
    (step s e).1.pending o' = s.pending o' ∧ (step s e).1.jar o' = s.jar o' := by
  cases e with
  | header x now mas =>
    simp at he; subst he
    simp only [step]
    cases hl : jarLive s x now <;> rcases hp : s.pending x with _ | p <;> by_cases hm : mas = [] <;>
      simp [hm, purge_pending, purge_jar_other s x o' now hne, upd, hne]
  | dialed x rs =>
    simp at he; subst he
    simp only [step]
    rcases hp : s.pending x with _ | p
    · simp
    · by_cases hr : p.ready = true
      · simp [hr]
      · rcases hf : firstTrue rs with _ | k
        · simp [hr]
        · by_cases hk : p.idx + k < p.expires.length <;> simp [hr, hk, upd, hne]
  | request x now ok =>
    simp at he; subst he
    simp only [step, viaJar]
    rcases hp : s.pending x with _ | p
    · simp [purge_pending, purge_jar_other s x o' now hne]
    · by_cases hr : p.ready = true
      · cases ok
        · simp [hr, upd, hne]
        · rcases hx : p.expires[p.idx]? with _ | e <;> simp [hr, hx, upd, hne]
      · simp [hr, purge_pending, purge_jar_other s x o' now hne]

theorem step_hasEntry (s : State) (e : Event) (o : Origin) (h : hasEntry (step s e).1 o) :
    hasEntry s o ∨ ∃ now mas, e = .header o now mas ∧ mas ≠ [] := by
  unfold hasEntry at *
  by_cases hsame : (match e with | .header x _ _ => x = o | .dialed x _ => x = o | .request x _ _ => x = o)
  · cases e with
    | header x now mas =>
      simp at hsame; subst hsame
      by_cases hm : mas = []
      · left
        subst hm
        simp only [step] at h
        cases hl : jarLive s x now <;> rcases hp : s.pending x with _ | p <;>
          simp [hl, hp, purge_pending, purge_jar_self] at h ⊢
        · exact h.2
        · exact jar_some_of_live hl
      · right; exact ⟨now, mas, rfl, hm⟩
    | dialed x rs =>
      simp at hsame; subst hsame
      left
      simp only [step] at h
      rcases hp : s.pending x with _ | p
      · simpa [hp] using h
      · left; simp
    | request x now ok =>
      simp at hsame; subst hsame
      left
      simp only [step, viaJar] at h
      rcases hp : s.pending x with _ | p
      · simp [hp, purge_pending, purge_jar_self] at h ⊢
        exact h.2
      · left; simp
  · left
    cases e with
    | header x now mas =>
      have hx : o ≠ x := fun hh => hsame (by simp [hh])
      have := step_other_origin s (.header x now mas) x o rfl hx
      rw [this.1, this.2] at h; exact h
    | dialed x rs =>
      have hx : o ≠ x := fun hh => hsame (by simp [hh])
      have := step_other_origin s (.dialed x rs) x o rfl hx
      rw [this.1, this.2] at h; exact h
    | request x now ok =>
      have hx : o ≠ x := fun hh => hsame (by simp [hh])
      have := step_other_origin s (.request x now ok) x o rfl hx
      rw [this.1, this.2] at h; exact h

theorem run_hasEntry (evs : List Event) (s : State) (P : Origin → Prop)
    (hs : ∀ o, hasEntry s o → P o) (o : Origin) (h : hasEntry (run s evs) o) :
    P o ∨ advertisedIn evs o := by
  induction evs generalizing s P with
  | nil => left; exact hs o h
  | cons e rest ih =>
    have := ih (step s e).1 (fun o => P o ∨ ∃ now mas, e = .header o now mas ∧ mas ≠ [])
      (fun o ho => by
        rcases step_hasEntry s e o ho with h1 | h1
        · left; exact hs o h1
        · right; exact h1) h
    rcases this with (h1 | ⟨now, mas, he, hm⟩) | ⟨now, mas, hmem, hm⟩
    · left; exact h1
    · right; exact ⟨now, mas, by rw [he]; exact List.mem_cons_self, hm⟩
    · right; exact ⟨now, mas, List.mem_cons_of_mem _ hmem, hm⟩

/-- **State exists only for origins that advertised themselves.** After any event sequence from
the empty state, an origin has a pending or confirmed entry only if an `Alt-Svc` header with an
`h3` entry was received on a response of THAT origin. -/
theorem entry_only_for_advertised_origin (evs : List Event) (o : Origin)
    (h : hasEntry (run State.empty evs) o) : advertisedIn evs o := by
  rcases run_hasEntry evs State.empty (fun _ => False)
    (fun o ho => by rcases ho with h | h <;> simp [State.empty] at h) o h with h | h
  · exact absurd h id
  · exact h

/-- A request is sent through the Alt-Svc shortcut only when its origin has an entry. -/
theorem request_alt_needs_entry (s : State) (o : Origin) (now : Nat) (ok b : Bool)
    (h : (step s (.request o now ok)).2 = some (.alt b)) : hasEntry s o := by
  unfold hasEntry
  rcases hp : s.pending o with _ | p
  · right
    simp only [step, viaJar, hp] at h
    cases hl : jarLive s o now
    · simp [hl] at h
    · exact jar_some_of_live hl
  · left; simp

/-- **Alt-Svc reroutes only the origin that advertised** (`alt_entry_is_per_origin` over the
whole state machine): whatever was learned, confirmed, expired for other origins — other
ports of the same host included — a request for `o` goes to HTTP/3 through the shortcut only
if `o` itself advertised `h3` earlier. -/
theorem alt_route_only_for_advertised_origin (evs : List Event) (o : Origin) (now : Nat) (ok b : Bool)
    (h : (step (run State.empty evs) (.request o now ok)).2 = some (.alt b)) : advertisedIn evs o :=
  entry_only_for_advertised_origin evs o (request_alt_needs_entry _ o now ok b h)

example : (step (run State.empty [.header ⟨.https, 1, 8443⟩ 0 [some 3600], .dialed ⟨.https, 1, 8443⟩ [true]])
    (.request ⟨.https, 1, 8444⟩ 1 true)).2 = some .normal := by decide
example : (step (run State.empty [.header ⟨.https, 1, 8443⟩ 0 [some 3600], .dialed ⟨.https, 1, 8443⟩ [true]])
    (.request ⟨.https, 1, 8443⟩ 1 true)).2 = some (.alt true) := by decide

/-- A successful exchange over the Alt-Svc shortcut for `o` happened in `evs`. -/
def confirmedIn (evs : List Event) (o : Origin) : Prop := ∃ now, Event.request o now true ∈ evs

theorem step_jar (s : State) (e : Event) (o : Origin) (h : (step s e).1.jar o ≠ none) :
    s.jar o ≠ none ∨ (∃ now, e = .request o now true) := by
  by_cases hsame : (match e with | .header x _ _ => x = o | .dialed x _ => x = o | .request x _ _ => x = o)
  · cases e with
    | header x now mas =>
      simp at hsame; subst hsame
      left
      simp only [step] at h
      cases hl : jarLive s x now
      · cases hx : jarExpired s x now
        · rcases hp : s.pending x with _ | p <;> by_cases hm : mas = [] <;>
            simp [hl, hp, hm, purge_jar_self, hx] at h <;> exact h
        · exact jar_some_of_expired hx
      · exact jar_some_of_live hl
    | dialed x rs =>
      simp at hsame; subst hsame
      left
      simp only [step] at h
      rcases hp : s.pending x with _ | p
      · simpa [hp] using h
      · by_cases hr : p.ready = true
        · simpa [hp, hr] using h
        · rcases hf : firstTrue rs with _ | k
          · simpa [hp, hr, hf] using h
          · by_cases hk : p.idx + k < p.expires.length <;> simpa [hp, hr, hf, hk] using h
    | request x now ok =>
      simp at hsame; subst hsame
      cases ok with
      | true => right; exact ⟨now, rfl⟩
      | false =>
        left
        simp only [step, viaJar] at h
        have hj : (jarPurge s x now).jar x ≠ none → s.jar x ≠ none := by
          rw [purge_jar_self]; split
          · intro hh; exact absurd rfl hh
          · exact id
        rcases hp : s.pending x with _ | p
        · simp only [hp] at h; exact hj h
        · by_cases hr : p.ready = true
          · simpa [hp, hr] using h
          · simp only [hp, hr] at h; exact hj (by simpa using h)
  · left
    cases e with
    | header x now mas =>
      have hx : o ≠ x := fun hh => hsame (by simp [hh])
      rw [(step_other_origin s (.header x now mas) x o rfl hx).2] at h; exact h
    | dialed x rs =>
      have hx : o ≠ x := fun hh => hsame (by simp [hh])
      rw [(step_other_origin s (.dialed x rs) x o rfl hx).2] at h; exact h
    | request x now ok =>
      have hx : o ≠ x := fun hh => hsame (by simp [hh])
      rw [(step_other_origin s (.request x now ok) x o rfl hx).2] at h; exact h

/-- **pending → confirmed only by a successful exchange.** An origin is in the jar only if a
request for it succeeded over HTTP/3 before. -/
theorem confirmed_only_after_success (evs : List Event) (o : Origin)
    (h : (run State.empty evs).jar o ≠ none) : confirmedIn evs o := by
  have key : ∀ (evs : List Event) (s : State) (P : Origin → Prop), (∀ o, s.jar o ≠ none → P o) →
      ∀ o, (run s evs).jar o ≠ none → P o ∨ confirmedIn evs o := by
    intro evs
    induction evs with
    | nil => intro s P hs o h; left; exact hs o h
    | cons e rest ih =>
      intro s P hs o h
      have := ih (step s e).1 (fun o => P o ∨ ∃ now, e = .request o now true)
        (fun o ho => by
          rcases step_jar s e o ho with h1 | h1
          · left; exact hs o h1
          · right; exact h1) o h
      rcases this with (h1 | ⟨now, he⟩) | ⟨now, hmem⟩
      · left; exact h1
      · right; exact ⟨now, by rw [he]; exact List.mem_cons_self⟩
      · right; exact ⟨now, List.mem_cons_of_mem _ hmem⟩
  rcases key evs State.empty (fun _ => False) (fun o ho => by simp [State.empty] at ho) o h with h | h
  · exact absurd h id
  · exact h

example : (run State.empty [.header ⟨.https, 1, 443⟩ 0 [some 60], .dialed ⟨.https, 1, 443⟩ [true],
    .request ⟨.https, 1, 443⟩ 1 true]).jar ⟨.https, 1, 443⟩ = some (some 60) := by decide
example : (run State.empty [.header ⟨.https, 1, 443⟩ 0 [some 60], .dialed ⟨.https, 1, 443⟩ [true],
    .request ⟨.https, 1, 443⟩ 1 false]).jar ⟨.https, 1, 443⟩ = none := by decide

/-- **An expired confirmed entry is never used**, and it is gone afterwards. -/
theorem expired_entry_not_used (s : State) (o : Origin) (now : Nat) (ok : Bool) (e : Option Nat)
    (hp : s.pending o = none) (hj : s.jar o = some e) (hx : expired e now = true) :
    (step s (.request o now ok)).2 = some .normal ∧ (step s (.request o now ok)).1.jar o = none := by
  have hl : jarLive s o now = false := by simp [jarLive, hj, hx]
  have he : jarExpired s o now = true := by simp [jarExpired, hj, hx]
  simp [step, viaJar, hp, hl, purge_jar_self, he]

/-- … and an unexpired one is used (`ma` is honoured in both directions). -/
theorem unexpired_entry_used (s : State) (o : Origin) (now : Nat) (ok : Bool) (e : Option Nat)
    (hp : s.pending o = none) (hj : s.jar o = some e) (hx : expired e now = false) :
    (step s (.request o now ok)).2 = some (.alt ok) := by
  have hl : jarLive s o now = true := by simp [jarLive, hj, hx]
  simp [step, viaJar, hp, hl]

example : expired (some 60) 61 = true ∧ expired (some 60) 60 = false ∧ expired none 1000000 = false := by decide

/-- The expiry of a confirmed entry is the one computed when its header was parsed:
`now + ma` of the header event, not of the confirmation. -/
example : (run State.empty [.header ⟨.https, 1, 443⟩ 100 [some 60], .dialed ⟨.https, 1, 443⟩ [true],
    .request ⟨.https, 1, 443⟩ 150 true]).jar ⟨.https, 1, 443⟩ = some (some 160) := by decide

/-- `checkAltSvc` takes the shortcut exactly when `usable` holds (this is `Net.alt`). -/
theorem request_alt_iff_usable (s : State) (o : Origin) (now : Nat) (ok : Bool) :
    (∃ b, (step s (.request o now ok)).2 = some (.alt b)) ↔ usable s o now = true := by
  unfold usable
  simp only [step, viaJar]
  rcases hp : s.pending o with _ | p
  · cases hl : jarLive s o now <;> simp
  · by_cases hr : p.ready = true
    · cases ok
      · simp [hr]
      · rcases hx : p.expires[p.idx]? with _ | e <;> simp [hr, hx]
    · cases hl : jarLive s o now <;> simp [hr]

/-- **`clear`, an unparsable value, other protocols only: nothing happens** — in particular
nothing is cleared (a deviation from RFC 7838 §3 carried as it is; recorded in notes/C12.md). -/
theorem empty_header_changes_nothing (s : State) (o : Origin) (now : Nat) :
    (step s (.header o now [])).1.pending = s.pending ∧ (step s (.header o now [])).2 = none
    ∧ (jarLive s o now = true → (step s (.header o now [])).1.jar o = s.jar o) := by
  simp only [step]
  cases hl : jarLive s o now <;> rcases hp : s.pending o with _ | p <;> simp [purge_pending]
  all_goals
    rw [purge_jar_self]
    have : jarExpired s o now = false := by
      unfold jarLive at hl; unfold jarExpired
      cases h : s.jar o with
      | none => rfl
      | some e => simp [h] at hl; simp [hl]
    simp [this]

/-- **The first advertisement governs until it expires**: while the origin has a pending entry
or an unexpired confirmed one, a further header (another `ma`, other endpoints) is ignored. -/
theorem known_origin_ignores_header (s : State) (o : Origin) (now : Nat) (mas : List (Option Nat))
    (h : s.pending o ≠ none ∨ jarLive s o now = true) :
    (step s (.header o now mas)).1.pending = s.pending ∧ (step s (.header o now mas)).2 = none := by
  simp only [step]
  rcases h with h | h
  · rcases hp : s.pending o with _ | p
    · exact absurd hp h
    · cases hl : jarLive s o now <;> simp [purge_pending]
  · simp [h, purge_pending]

/-- An origin never has a pending and a confirmed entry at once. -/
theorem step_disjoint (s : State) (e : Event) (h : ∀ o, ¬(s.pending o ≠ none ∧ s.jar o ≠ none)) :
    ∀ o, ¬((step s e).1.pending o ≠ none ∧ (step s e).1.jar o ≠ none) := by
  intro o
  have ho := h o
  by_cases hsame : (match e with | .header x _ _ => x = o | .dialed x _ => x = o | .request x _ _ => x = o)
  · cases e with
    | header x now mas =>
      simp at hsame; subst hsame
      simp only [step]
      cases hl : jarLive s x now
      · cases hx : jarExpired s x now
        · have hj := jar_none_of_not_live_not_expired hl hx
          rcases hp : s.pending x with _ | p <;> by_cases hm : mas = [] <;>
            simp [hm, purge_pending, purge_jar_self, hx, hj, hp]
        · rcases hp : s.pending x with _ | p <;> by_cases hm : mas = [] <;>
            simp [hm, purge_pending, purge_jar_self, hx, hp]
      · have hj := jar_some_of_live hl
        have hp : s.pending x = none := by
          cases hp : s.pending x with
          | none => rfl
          | some p => exact absurd ⟨by simp [hp], hj⟩ ho
        simp [purge_pending, hp]
    | dialed x rs =>
      simp at hsame; subst hsame
      simp only [step]
      rcases hp : s.pending x with _ | p
      · simp [hp]
      · have hj : s.jar x = none := by
          cases hj : s.jar x with
          | none => rfl
          | some e => exact absurd ⟨by simp [hp], by simp [hj]⟩ ho
        by_cases hr : p.ready = true
        · simp [hr, hj]
        · rcases hf : firstTrue rs with _ | k
          · simp [hr, hj]
          · by_cases hk : p.idx + k < p.expires.length <;> simp [hr, hk, hj]
    | request x now ok =>
      simp at hsame; subst hsame
      simp only [step, viaJar]
      rcases hp : s.pending x with _ | p
      · simp [purge_pending, hp]
      · have hj : s.jar x = none := by
          cases hj : s.jar x with
          | none => rfl
          | some e => exact absurd ⟨by simp [hp], by simp [hj]⟩ ho
        have hx : jarExpired s x now = false := by simp [jarExpired, hj]
        by_cases hr : p.ready = true
        · cases ok
          · simp [hr, hj]
          · rcases he : p.expires[p.idx]? with _ | e <;> simp [hr, hj, he, upd]
        · simp [hr, purge_jar_self, hx, hj]
  · cases e with
    | header x now mas =>
      have hx : o ≠ x := fun hh => hsame (by simp [hh])
      have := step_other_origin s (.header x now mas) x o rfl hx
      rw [this.1, this.2]; exact ho
    | dialed x rs =>
      have hx : o ≠ x := fun hh => hsame (by simp [hh])
      have := step_other_origin s (.dialed x rs) x o rfl hx
      rw [this.1, this.2]; exact ho
    | request x now ok =>
      have hx : o ≠ x := fun hh => hsame (by simp [hh])
      have := step_other_origin s (.request x now ok) x o rfl hx
      rw [this.1, this.2]; exact ho

/-- **Routing of an origin that never advertised is untouched by everything the client learned
elsewhere** (`other_origin_unaffected` over the state machine): with `Net.alt` read off the
state (`usable`), such a request is dispatched as if Alt-Svc did not exist. -/
theorem unadvertised_origin_routed_normally (evs : List Event) (b : Origin) (now : Nat)
    (cfg : Req.Pool.Dispatch.Cfg) (req : Req.Pool.Dispatch.Req) (net : Req.Pool.Dispatch.Net)
    (hb : ¬advertisedIn evs b) (hnet : net.alt = usable (run State.empty evs) b now) :
    Req.Pool.Dispatch.route cfg req net = Req.Pool.Dispatch.dispatch cfg req net := by
  have : net.alt = false := by
    rw [hnet]
    cases hu : usable (run State.empty evs) b now with
    | false => rfl
    | true =>
      obtain ⟨x, hx⟩ := (request_alt_iff_usable (run State.empty evs) b now true).2 hu
      exact absurd (alt_route_only_for_advertised_origin evs b now true x hx) hb
  unfold Req.Pool.Dispatch.route
  simp [this]

theorem pending_and_confirmed_disjoint (evs : List Event) (o : Origin) :
    ¬((run State.empty evs).pending o ≠ none ∧ (run State.empty evs).jar o ≠ none) := by
  have key : ∀ (evs : List Event) (s : State), (∀ o, ¬(s.pending o ≠ none ∧ s.jar o ≠ none)) →
      ∀ o, ¬((run s evs).pending o ≠ none ∧ (run s evs).jar o ≠ none) := by
    intro evs
    induction evs with
    | nil => intro s hs; exact hs
    | cons e rest ih => intro s hs; exact ih (step s e).1 (step_disjoint s e hs)
  exact key evs State.empty (fun o => by simp [State.empty]) o

end Req.Props.C12
