import Req.Client.DecodePath
import Req.Props.C15
/-!
C15 — the body stage runs exactly once on every path through the stack.

* `decode_once`: for every number of transport-level and client-level wrappers (and therefore
  for `SetCommonHeaderOrder`, `SetCommonPseudoHeaderOder`, `Impersonate*`, which install
  transport wrappers), for clones of such clients, whatever protocol the innermost round tripper
  chooses: the caller receives `stage body` — the wrapper chain is transparent to the body stage;
* `one_body_stage`: the path contains exactly one body stage;
* `double_stage_path`: a chain whose innermost element also runs the stage delivers
  `stage (stage body)`;
* `decoding_twice_corrupts` (by evaluation): that is NOT the same — `é` in windows-1252 decoded
  once is `C3 A9`, decoded twice `C3 83 C2 A9`; and `stage_idempotent_on_ascii`: for ASCII text the
  second pass is invisible (why tests with ASCII / UTF-8 bodies cannot notice).
-/
namespace Req.Props.C15
open Req.Proto Req.Decode

theorem runPath_wrappers (stage : Bytes → Bytes) (n : Nat) (p : List PathElem) (b : Bytes) :
    runPath stage (List.replicate n .wrapper ++ p) b = runPath stage p b := by
  induction n with
  | zero => rfl
  | succ n ih => simpa [List.replicate_succ, runPath] using ih

/-- **decode_once** -/
theorem decode_once (stage : Bytes → Bytes) (s : StackShape) (b : Bytes) :
    runPath stage (pathOf s) b = stage b := by
  unfold pathOf
  rw [List.append_assoc, runPath_wrappers]
  simp only [List.singleton_append, runPath]
  have := runPath_wrappers stage s.clientWrappers [] (stage b)
  simpa [runPath] using this

/-- … also after any number of clonings. -/
theorem decode_once_clone (stage : Bytes → Bytes) (s : StackShape) (b : Bytes) :
    runPath stage (pathOf s.clone) b = runPath stage (pathOf s) b := rfl

/-- **one_body_stage** -/
theorem one_body_stage (s : StackShape) : (pathOf s).count .bodyStage = 1 := by
  simp [pathOf, List.count_append, List.count_replicate]

/-- **double_stage_path**: the defective composition applies the stage twice as soon as one
transport wrapper exists, and once otherwise. -/
theorem double_stage_path (stage : Bytes → Bytes) (s : StackShape) (b : Bytes) :
    runPath stage (pathOfDouble s) b =
      if s.transportWrappers = 0 then stage b else stage (stage b) := by
  unfold pathOfDouble
  by_cases h : s.transportWrappers = 0
  · simp only [h, if_true, List.nil_append]; exact decode_once stage s b
  · simp only [h, if_false, List.singleton_append, runPath]; exact decode_once stage s (stage b)

/-- **decoding_twice_corrupts**: the witness — one transport wrapper, body `é` (E9) declared as
windows-1252 (what the label `iso-8859-1` means). -/
theorem decoding_twice_corrupts :
    runPath windows1252.decodeAll (pathOf ⟨1, 0⟩) [0xE9] = [0xC3, 0xA9] ∧
    runPath windows1252.decodeAll (pathOfDouble ⟨1, 0⟩) [0xE9] = [0xC3, 0x83, 0xC2, 0xA9] ∧
    runPath windows1252.decodeAll (pathOfDouble ⟨0, 3⟩) [0xE9] = [0xC3, 0xA9] := by decide

/-- For ASCII text a single-byte code page's stage is the identity: a second pass cannot be seen. -/
theorem stage_idempotent_on_ascii (cp : UInt8 → Nat) (hcp : ∀ b : UInt8, b < 128 → cp b = b.toNat)
    (body : Bytes) (h : ∀ b ∈ body, b < 128) : (charmap cp).decodeAll body = body := by
  induction body with
  | nil => rfl
  | cons x xs ih =>
    have hx : x < 128 := h x List.mem_cons_self
    have hxs := ih fun b hb => h b (List.mem_cons_of_mem _ hb)
    have hn : x.toNat < 128 := by simpa using UInt8.lt_iff_toNat_lt.mp hx
    have hdec : (charmap cp).decodeAll (x :: xs) = utf8 (cp x) ++ (charmap cp).decodeAll xs := by
      simp [charmap, ofBytewise]
    rw [hdec, hxs, hcp x hx]
    simp [utf8, hn]

example : (pathOf ⟨2, 1⟩) = [.wrapper, .wrapper, .bodyStage, .wrapper] := by decide

end Req.Props.C15
