import Req.Lemmas.C02DataBuffer
/-!
C02 round 5 — the HTTP/2 body buffer `dataBuffer` (internal/http2/databuffer.go) IS a byte FIFO.

`Req.C02.DataBuffer` models the code as it is: a list of fixed-size chunk arrays (whatever a
recycled pool array contains), the read cursor into the first chunk, the write cursor into the
last chunk, `size`, the `expected` hint, `lastChunkOrAlloc`, the two loops.  The theorems are
for EVERY allocator that hands out non-empty arrays (any size classes, any garbage in the
arrays), every `expected` hint, every script of `Write(p)` / `Read(len k)` calls of any length:
no bound anywhere.  The HTTP/2 receive model `Req.C02.H2Recv` uses a flat byte list for the
pipe's buffer; `databuffer_fifo` is what justifies that.

Tie: lane `h2databuf` (internal/http2) runs the real `dataBuffer` and this model (with Go's
size-class allocator `goAlloc`) on the same scripts and compares every read (length + content
hash), `Len()` after every op and the chunk lengths at the end.
-/
namespace Req.C02
open Req.Proto

/-- The specification: a flat byte queue. -/
def fifoStep (q : Bytes) : DOp → DObs × Bytes
  | .write p => (.wrote, q ++ p)
  | .read k => if q.isEmpty then (.got .errEmpty, q) else (.got (.ok (q.take k)), q.drop k)

def fifoRun : List DOp → Bytes → List DObs × Bytes
  | [], q => ([], q)
  | op :: ops, q =>
    let (o, q1) := fifoStep q op
    let (os, q2) := fifoRun ops q1
    (o :: os, q2)

/-- `Write(p)` from any reachable state: ends (Go: `len(p), nil`), appends exactly `p` behind
what is buffered, `Len()` grows by `len(p)` — whatever chunk sizes the allocator picks and
whatever the arrays contained. -/
theorem databuffer_write_appends (alloc : Int → Bytes) (halloc : ∀ x, 0 < (alloc x).length)
    (b : DataBuffer) (p : Bytes) (hw : b.WF) :
    ∃ b', b.write alloc p = some b' ∧ b'.WF ∧ b'.contents = b.contents ++ p ∧
      b'.size = b.size + p.length := by
  obtain ⟨b', h1, h2, h3⟩ := DataBuffer.writeLoop_spec alloc halloc (p.length + 1) p b hw (by omega)
  refine ⟨b', h1, h2, h3, ?_⟩
  rw [h2.size_eq, h3, List.length_append, hw.size_eq]

/-- `Read(p)` with `len(p) = k` from any reachable state: `errReadEmpty` exactly on an empty
buffer; otherwise the first `min k Len()` buffered bytes, in order, and exactly the rest stays
buffered — across any number of chunk boundaries. -/
theorem databuffer_read_prefix (b : DataBuffer) (k : Nat) (hw : b.WF) :
    (b.size = 0 → b.read k = (.errEmpty, b)) ∧
    (0 < b.size → ∃ b', b.read k = (.ok (b.contents.take k), b') ∧ b'.WF ∧
      b'.contents = b.contents.drop k ∧ b'.size = b.size - min k b.size) := by
  constructor
  · intro h; simp [DataBuffer.read, h]
  · intro h
    obtain ⟨b', h1, h2, h3, _⟩ := DataBuffer.readLoop_spec (b.chunks.length + 1) k [] b hw
      (Or.inr (Or.inr (by omega)))
    refine ⟨b', ?_, h2, h3, ?_⟩
    · have : ¬ b.size = 0 := by omega
      simp [DataBuffer.read, this, h1]
    · rw [h2.size_eq, h3, List.length_drop, hw.size_eq]; omega

/-- **Refinement.**  For every script of writes and reads, from any reachable state, the chunked
buffer produces op for op what the flat byte queue holding the same bytes produces, and ends
holding the same bytes.  In particular no read ever breaks (`DBRead.broken`: index out of
range / endless loop) and the observations do not depend on the allocator or on `expected`. -/
theorem databuffer_fifo (alloc : Int → Bytes) (halloc : ∀ x, 0 < (alloc x).length) :
    ∀ (ops : List DOp) (b : DataBuffer), b.WF →
      (DataBuffer.run alloc ops b).1 = (fifoRun ops b.contents).1 ∧
      (DataBuffer.run alloc ops b).2.contents = (fifoRun ops b.contents).2 ∧
      (DataBuffer.run alloc ops b).2.WF := by
  intro ops
  induction ops with
  | nil => intro b hw; exact ⟨rfl, rfl, hw⟩
  | cons op ops ih =>
    intro b hw
    have hstep : ∃ o b1, b.step alloc op = (o, b1) ∧ fifoStep b.contents op = (o, b1.contents) ∧ b1.WF := by
      cases op with
      | write p =>
        obtain ⟨b', h1, h2, h3, _⟩ := databuffer_write_appends alloc halloc b p hw
        exact ⟨.wrote, b', by simp [DataBuffer.step, h1], by simp [fifoStep, h3], h2⟩
      | read k =>
        obtain ⟨he, hn⟩ := databuffer_read_prefix b k hw
        by_cases h0 : b.size = 0
        · have hc : b.contents = [] := by
            have := hw.size_eq; rw [h0] at this; exact List.eq_nil_of_length_eq_zero this.symm
          exact ⟨.got .errEmpty, b, by simp [DataBuffer.step, he h0], by simp [fifoStep, hc], hw⟩
        · obtain ⟨b', h1, h2, h3, _⟩ := hn (by omega)
          have hc : b.contents.isEmpty = false := by
            cases hcc : b.contents with
            | nil => have := hw.size_eq; rw [hcc] at this; simp at this; omega
            | cons x xs => rfl
          exact ⟨.got (.ok (b.contents.take k)), b', by simp [DataBuffer.step, h1],
            by simp [fifoStep, hc, h3], h2⟩
    obtain ⟨o, b1, hs, hf, hw1⟩ := hstep
    obtain ⟨i1, i2, i3⟩ := ih b1 hw1
    simp only [DataBuffer.run, fifoRun, hs, hf]
    exact ⟨by rw [i1], i2, i3⟩

/-- What a flat queue hands out, followed by what it still holds, is what it held followed by
what was written. -/
theorem fifoRun_stream : ∀ (ops : List DOp) (q : Bytes),
    readOf (fifoRun ops q).1 ++ (fifoRun ops q).2 = q ++ writtenOf ops := by
  intro ops
  induction ops with
  | nil => intro q; simp [fifoRun, readOf, writtenOf]
  | cons op ops ih =>
    intro q
    cases op with
    | write p =>
      simp only [fifoRun, fifoStep, readOf, writtenOf]
      rw [ih (q ++ p), List.append_assoc]
    | read k =>
      by_cases hq : q.isEmpty
      · simp only [fifoRun, fifoStep, hq, if_true, readOf, writtenOf]
        exact ih q
      · simp only [fifoRun, fifoStep, hq, writtenOf]
        simp only [Bool.false_eq_true, if_false]
        show (q.take k ++ readOf (fifoRun ops (List.drop k q)).fst) ++ _ = _
        rw [List.append_assoc, ih (q.drop k), ← List.append_assoc, List.take_append_drop]

/-- **No byte lost, duplicated or reordered.**  From the empty buffer, for every script: the
bytes handed out by the reads, followed by the bytes still buffered, are exactly the bytes
written, in order; `Len()` is the number of buffered bytes.  (The statement of the task:
`bytes out = prefix of bytes in`, with the remainder named.) -/
theorem databuffer_stream_exact (alloc : Int → Bytes) (halloc : ∀ x, 0 < (alloc x).length)
    (expected : Int) (ops : List DOp) :
    let res := DataBuffer.run alloc ops (DataBuffer.new expected)
    readOf res.1 ++ res.2.contents = writtenOf ops ∧ res.2.size = res.2.contents.length ∧
      readOf res.1 <+: writtenOf ops := by
  intro res
  obtain ⟨h1, h2, h3⟩ := databuffer_fifo alloc halloc ops (DataBuffer.new expected) (DataBuffer.WF_new expected)
  have hs := fifoRun_stream ops (DataBuffer.new expected).contents
  have hnil : (DataBuffer.new expected).contents = [] := by simp [DataBuffer.new, DataBuffer.contents, contentsAux]
  rw [hnil, List.nil_append] at hs
  have heq : readOf res.1 ++ res.2.contents = writtenOf ops := by
    show readOf (DataBuffer.run alloc ops (DataBuffer.new expected)).1 ++ (DataBuffer.run alloc ops (DataBuffer.new expected)).2.contents = _
    rw [h1, h2, hnil]; exact hs
  exact ⟨heq, h3.size_eq, ⟨res.2.contents, heq⟩⟩

/-- The allocator and the `expected` hint are invisible: two buffers with different size classes,
different array garbage and different hints answer every script identically. -/
theorem databuffer_alloc_invisible (alloc₁ alloc₂ : Int → Bytes) (h₁ : ∀ x, 0 < (alloc₁ x).length)
    (h₂ : ∀ x, 0 < (alloc₂ x).length) (e₁ e₂ : Int) (ops : List DOp) :
    (DataBuffer.run alloc₁ ops (DataBuffer.new e₁)).1 = (DataBuffer.run alloc₂ ops (DataBuffer.new e₂)).1 := by
  have a := (databuffer_fifo alloc₁ h₁ ops _ (DataBuffer.WF_new e₁)).1
  have b := (databuffer_fifo alloc₂ h₂ ops _ (DataBuffer.WF_new e₂)).1
  have hnil : ∀ e, (DataBuffer.new e).contents = [] := by
    intro e; simp [DataBuffer.new, DataBuffer.contents, contentsAux]
  rw [a, b, hnil, hnil]

/-! Non-vacuity: a tiny allocator (2-byte arrays full of garbage `9`), a script that spans
chunks and stops a read where the first chunk's read offset equals the last chunk's write
offset (the geometry of seed C02-r5-1), evaluated on the executable model. -/
def tinyAlloc (_ : Int) : Bytes := [9, 9]

example : (DataBuffer.run tinyAlloc [.write [1, 2, 3], .read 1, .write [4, 5], .read 3, .read 9, .read 1]
    (DataBuffer.new 7)).1 =
    [.wrote, .got (.ok [1]), .wrote, .got (.ok [2, 3, 4]), .got (.ok [5]), .got .errEmpty] := by decide

example : ((DataBuffer.run tinyAlloc [.write [1, 2, 3], .read 1] (DataBuffer.new 0)).2.chunks,
    (DataBuffer.run tinyAlloc [.write [1, 2, 3], .read 1] (DataBuffer.new 0)).2.r,
    (DataBuffer.run tinyAlloc [.write [1, 2, 3], .read 1] (DataBuffer.new 0)).2.w) = ([[1, 2], [3, 9]], 1, 1) := by
  decide

example : (DataBuffer.new 3).WF ∧ ∀ x, 0 < (tinyAlloc x).length := ⟨DataBuffer.WF_new 3, fun _ => by simp [tinyAlloc]⟩

example : ∀ x, 0 < (goAlloc x).length := by
  intro x; simp only [goAlloc, List.length_replicate, goChunkSize]; split <;> (try split) <;> (try split) <;> (try split) <;> omega

example : readOf (fifoRun [.write [1, 2, 3], .read 2] []).1 = [1, 2] ∧ (fifoRun [.write [1, 2, 3], .read 2] []).2 = [3] := by
  decide

end Req.C02
