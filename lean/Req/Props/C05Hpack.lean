import Req.Lemmas.C05Hpack
import Req.Props.C05
/-!
C05 — "whatever the client encodes (HPACK … integers) decodes in the reference decoder to exactly
what was encoded", for the HPACK primitives that carry every header block (RFC 7541 §5.1 integers,
§5.2 string literals with H = 0, §6.2.2/§6.2.3 literal fields with a new name). The model is tied to
`golang.org/x/net/http2/hpack` by lane `h2hpackprim`: the reference ENCODER's bytes for literal
fields equal `encodeBlock` byte for byte, and the reference DECODER reads hand-built blocks
(non-minimal integers, every truncation, overflow) as `decodeBlock` does.

* `hpack_int_roundtrip`    — `readVarInt(n, appendVarInt(n, i) ++ rest) = (i, rest)` for every
                              prefix size and every `i < 2^n − 1 + 2^63` (the exact range of the
                              reference decoder: its overflow rule stops at the tenth continuation)
* `hpack_int_one_byte_iff` — one octet ⇔ `i < 2^n − 1` (RFC 7541 §5.1)
* `hpack_int_need_more`    — every proper prefix of an encoding is `errNeedMore`
* `hpack_string_roundtrip`, `hpack_block_roundtrip`, `hpack_block_injective`
-/
namespace Req.Props.C05
open Req.Proto Req.H2.Hpack Req.Lemmas.C05.Hpack

/-- **hpack_int_roundtrip**: N-bit prefix (`hi` = the representation's type bits, a multiple of
`2^n` that fits the octet), any value below `2^n − 1 + 2^63`, anything after it. -/
theorem hpack_int_roundtrip (n hi i : Nat) (rest : Bytes) (hn1 : 1 ≤ n) (hn8 : n ≤ 8)
    (hhi : hi % 2 ^ n = 0) (hhi2 : hi + 2 ^ n ≤ 256) (hi' : i < 2 ^ n - 1 + 2 ^ 63) :
    readInt n (encodeInt n hi i ++ rest) = .ok (i, rest) :=
  int_roundtrip n hi i rest hn1 hn8 hhi hhi2 hi'

/-- RFC 7541 C.1.1–C.1.3: 10 with a 5-bit prefix, 1337 with a 5-bit prefix, 42 at an octet
boundary. -/
example : encodeInt 5 0 10 = [10] ∧ encodeInt 5 0 1337 = [31, 154, 10] ∧ encodeInt 8 0 42 = [42] := by
  decide
example : readInt 5 [31, 154, 10, 99] = .ok (1337, [99]) := by decide
/-- the range is sharp: `2^n − 1 + 2^63` needs a tenth continuation octet, which the reference
rejects (`errVarintOverflow`) … -/
example : readInt 7 (encodeInt 7 0 (127 + 2 ^ 63)) = .error .overflow := by decide
/-- … while `2^n − 2 + 2^63` is the largest value that round-trips. -/
example : readInt 7 (encodeInt 7 0 (126 + 2 ^ 63)) = .ok (126 + 2 ^ 63, []) := by decide
/-- non-minimal encodings (zero groups appended) are accepted by the reader: not injective on the
wire, which is why the lane compares DECODED lists, and the writer's output byte for byte. -/
example : readInt 7 [127, 128, 0] = .ok (127, []) ∧ readInt 7 [127, 0] = .ok (127, []) := by decide

/-- **hpack_int_one_byte_iff**: the prefix alone holds exactly the values below `2^n − 1`. -/
theorem hpack_int_one_byte_iff (n hi i : Nat) : (encodeInt n hi i).length = 1 ↔ i < 2 ^ n - 1 :=
  encodeInt_one_byte n hi i

example : (encodeInt 7 0 126).length = 1 ∧ (encodeInt 7 0 127).length = 2 ∧
    (encodeInt 7 0 (127 + 127)).length = 2 ∧ (encodeInt 7 0 (127 + 128)).length = 3 ∧
    (encodeInt 7 0 (127 + 16383)).length = 3 ∧ (encodeInt 7 0 (127 + 16384)).length = 4 := by decide

/-- **hpack_int_need_more**: cut an encoding anywhere — after the prefix octet, inside the
continuation — and the reader asks for more (never a wrong value, never an overflow). -/
theorem hpack_int_need_more (n hi i : Nat) (pre : Bytes) (hn1 : 1 ≤ n) (hn8 : n ≤ 8)
    (hhi : hi % 2 ^ n = 0) (hhi2 : hi + 2 ^ n ≤ 256) (hi' : i < 2 ^ n - 1 + 2 ^ 63)
    (hp : pre <+: encodeInt n hi i) (hne : pre ≠ encodeInt n hi i) :
    readInt n pre = .error .needMore :=
  int_prefix_needMore n hi i pre hn1 hn8 hhi hhi2 hi' hp hne

example : readInt 5 [31, 154] = .error .needMore ∧ readInt 5 [31] = .error .needMore := by decide

/-- **hpack_string_roundtrip** (H = 0). -/
theorem hpack_string_roundtrip (s rest : Bytes) (hs : s.length < 2 ^ 63) :
    decodeString (encodeString s ++ rest) = .ok (s, rest) :=
  string_roundtrip s rest hs

example : encodeString [104, 105] = [2, 104, 105] := by decide

/-- **hpack_block_roundtrip**: any list of literal fields with new names — never-indexed or
without indexing, any octets in names and values — is decoded to exactly that list. -/
theorem hpack_block_roundtrip (fs : List Field)
    (h : ∀ f ∈ fs, f.name.length < 2 ^ 63 ∧ f.value.length < 2 ^ 63) :
    decodeBlock (encodeBlock fs) = .ok fs :=
  loop_roundtrip fs _ h (by have := encodeBlock_length fs; omega)

/-- RFC 7541 C.2.2 (literal without indexing, here with a new name) / C.2.3 (never indexed). -/
example : encodeBlock [⟨true, [112, 119], [115]⟩, ⟨false, [97], []⟩] =
    [16, 2, 112, 119, 1, 115,   0, 1, 97, 0] := by decide
example : decodeBlock [16, 2, 112, 119, 1, 115, 0, 1, 97, 0] =
    .ok [⟨true, [112, 119], [115]⟩, ⟨false, [97], []⟩] := by decide

/-- **hpack_block_injective**: two field lists with the same block are the same list. -/
theorem hpack_block_injective (a b : List Field)
    (ha : ∀ f ∈ a, f.name.length < 2 ^ 63 ∧ f.value.length < 2 ^ 63)
    (hb : ∀ f ∈ b, f.name.length < 2 ^ 63 ∧ f.value.length < 2 ^ 63)
    (h : encodeBlock a = encodeBlock b) : a = b := by
  have h1 := hpack_block_roundtrip a ha
  have h2 := hpack_block_roundtrip b hb
  rw [h] at h1
  rw [h1] at h2
  exact Except.ok.inj h2

end Req.Props.C05
