import Req.Props.C20Malformed
/-!
C20 — malformed challenges, part 2: the quoted-string that is never closed. Everything after the
opening quote — commas, further "parameters", other challenges — is swallowed by it
(`splitList` does not split inside quotes), the element cannot be read, the call fails.
-/
namespace Req.Props.C20
open Req.Proto Req.DigestAuth Req.Ascii
open Req.Digest hiding authorize handle exchange parseChallenge Resp

/-- a last piece only has to contain no comma outside quotes — its quotes need not be closed -/
theorem splitListAux_open (x : Bytes) (q e : Bool) (hx : scan false false x = some (q, e)) :
    splitListAux false false x = (x, []) := by
  have := splitListAux_append x [] false false q e hx
  simpa [splitListAux] using this

theorem splitList_commaCat_tail : ∀ (pieces : List Bytes) (d : Bytes) (q e : Bool),
    (∀ p ∈ pieces, scan false false p = some (false, false)) → scan false false d = some (q, e) →
    splitList (commaCat (pieces ++ [d])) = pieces ++ [d]
  | [], d, q, e, _, hd => by
    simp [splitList, commaCat, splitListAux_open d q e hd]
  | x :: r, d, q, e, hp, hd => by
    have ih := splitList_commaCat_tail r d q e (fun p hp' => hp p (List.mem_cons_of_mem _ hp')) hd
    unfold splitList at ih ⊢
    have hne : r ++ [d] ≠ [] := by simp
    cases hrd : r ++ [d] with
    | nil => exact absurd hrd hne
    | cons y t =>
      rw [hrd] at ih
      simp only [List.cons_append, hrd, commaCat]
      rw [splitListAux_append x _ false false false false (hp x (by simp)), splitListAux_cons]
      simp only [Bool.false_eq_true, if_false, Bool.false_and, Bool.not_false, Bool.and_true]
      have h44 : ((44 : UInt8) == 34) = false := by decide
      simp only [h44, Bool.false_eq_true, if_false, beq_self_eq_true, if_true, List.append_nil]
      simp only at ih
      rw [ih]

/-- the text from an opening quote that is never closed: no `"` and no `\` after it (commas, `=`,
spaces, anything else may follow) -/
theorem scan_unterminated (head body : Bytes) (hh : scan false false head = some (false, false))
    (hb : ∀ c ∈ body, c ≠ 34 ∧ c ≠ 92) : scan false false (head ++ 34 :: body) = some (true, false) := by
  rw [scan_append, hh]
  simp only [Option.bind_some]
  rw [scan_cons]
  simp only [Bool.false_eq_true, if_false, Bool.false_and, beq_self_eq_true, if_true, Bool.not_false]
  induction body with
  | nil => rfl
  | cons c cs ih =>
    have hc := hb c (List.mem_cons_self ..)
    have h34 : (c == 34) = false := by simpa using hc.1
    have h92 : (c == 92) = false := by simpa using hc.2
    rw [scan_cons]
    simp only [Bool.false_eq_true, if_false, h92, h34, Bool.not_true, Bool.and_false]
    exact ih (fun x hx => hb x (List.mem_cons_of_mem _ hx))

/-- **unterminated_quote_is_error_e2e**: the 401 offers any readable list `good` (an answerable
Digest challenge included) and then a parameter whose quoted value is never closed —
`…, name="body` up to the end of the header, `body` ANY text without `"` and `\` (commas and what
looks like further parameters or challenges included): the call fails with `badChallenge`; one
request, no `Authorization`, the 401 is not handed back as a normal response. -/
theorem unterminated_quote_is_error_e2e (H : Alg → Bytes → Bytes) (server : Wire → DigestAuth.Resp)
    (user pass method uri : Bytes) (body : Body) (rnd : Option Bytes)
    (good : List Bytes) (st : PState) (pre name b1 b2 text : Bytes)
    (h401 : (server { method, uri, authorization := none, body := bodyBytes body }).err = false ∧
      (server { method, uri, authorization := none, body := bodyBytes body }).status = 401)
    (hlines : commaJoin (server { method, uri, authorization := none, body := bodyBytes body }).wwwAuth =
      commaCat (good ++ [pre ++ (name ++ (b1 ++ 61 :: (b2 ++ 34 :: text)))]))
    (hclosed : ∀ p ∈ good, scan false false p = some (false, false))
    (hgood : parseElems good {} = .ok st)
    (hpre : pre.all isOws = true) (hname : TokenOK name) (hb1 : b1.all isOws = true) (hb2 : b2.all isOws = true)
    (htext : ∀ c ∈ text, c ≠ 34 ∧ c ≠ 92) (hlast : ∀ z ∈ text.getLast?, isOws z = false) :
    DigestAuth.exchange H algOf server user pass method uri body rnd =
      ([{ method, uri, authorization := none, body := bodyBytes body }], .failed .badChallenge) := by
  let d : BadParam := ⟨pre, name, b1 ++ 61 :: (b2 ++ 34 :: text), []⟩
  have hd : d.OK := by
    refine ⟨hpre, rfl, hname, ?_, ?_, paramValue_unterminated b1 b2 text hb1 hb2 htext⟩
    · show (trimLeft isOws (b1 ++ 61 :: (b2 ++ 34 :: text))).head? = some 61
      rw [trimLeft_ows_append b1 _ hb1 (by intro a ha; simp at ha; subst ha; decide)]
      rfl
    · intro z hz
      show isOws z = false
      have hz' : (b1 ++ 61 :: (b2 ++ 34 :: text)).getLast? = some z := hz
      rw [getLast?_append_ne _ _ (by simp), ← List.singleton_append, getLast?_append_ne _ _ (by simp),
        getLast?_append_ne _ _ (by simp)] at hz'
      cases text with
      | nil => simp at hz'; subst hz'; decide
      | cons t ts =>
        rw [← List.singleton_append, getLast?_append_ne _ _ (by simp)] at hz'
        exact hlast z hz'
  have hrender : d.render = pre ++ (name ++ (b1 ++ 61 :: (b2 ++ 34 :: text))) := by
    simp [BadParam.render, d]
  have hscan : scan false false d.render = some (true, false) := by
    rw [hrender]
    have hhead : pre ++ (name ++ (b1 ++ 61 :: (b2 ++ 34 :: text))) = (pre ++ (name ++ (b1 ++ 61 :: b2))) ++ 34 :: text := by
      simp
    rw [hhead]
    apply scan_unterminated _ _ _ htext
    refine scan_two _ _ (scan_ows _ hpre) (scan_two _ _ (scan_tok _ hname.2) (scan_two _ _ (scan_ows _ hb1) ?_))
    have : (61 : UInt8) :: b2 = [61] ++ b2 := rfl
    rw [this]
    exact scan_two _ _ (by decide) (scan_ows _ hb2)
  apply malformed_digest_is_error_e2e H server user pass method uri body rnd .badChallenge h401
  rw [hlines, ← hrender]
  unfold DigestAuth.parseChallenge
  rw [splitList_commaCat_tail good d.render true false hclosed hscan]
  have := parseElems_first_error good d.render [] {} st .badChallenge hgood (bad_param_errors st d hd)
  rw [this]

/-! non-vacuity: `Digest realm="r", nonce="n", opaque="x, qop=auth, Basic realm=y` -/
example : commaCat ([b!"Digest realm=\"r\"", b!" nonce=\"n\""] ++
      [b!" " ++ (b!"opaque" ++ ([] ++ 61 :: ([] ++ 34 :: b!"x, qop=auth, Basic realm=y")))]) =
    b!"Digest realm=\"r\", nonce=\"n\", opaque=\"x, qop=auth, Basic realm=y" := by decide

example : (∀ c ∈ b!"x, qop=auth, Basic realm=y", c ≠ 34 ∧ c ≠ 92) ∧
    (∀ z ∈ (b!"x, qop=auth, Basic realm=y").getLast?, isOws z = false) := by decide

example : DigestAuth.parseChallenge algOf b!"Digest realm=\"r\", nonce=\"n\", opaque=\"x, qop=auth, Basic realm=y" =
    .error .badChallenge := by decide

end Req.Props.C20
