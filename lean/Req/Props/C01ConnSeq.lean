import Req.H2.ConnSeq
/-!
C01 — request fidelity over SEQUENCES of requests on one connection with a stateful field codec:
requests that are refused / abandoned locally at any point before their HEADERS are written leave
no trace; every request that reaches the wire is decoded by the server to exactly its own field
list, whatever came before it on the connection. Stated for EVERY codec that keeps encoder and
decoder in step (`Codec`), every sequence, every mix of refusals.
-/
namespace Req.Props.C01ConnSeq
open Req.Proto Req.H2.ConnSeq

/-- **refused_request_leaves_codec_state**: a request that is not admitted (oversized header list,
invalid header / host / path, cancelled before its HEADERS) writes nothing and leaves the encoder
exactly as it was — in the code as it is (`checkFirst = true`). -/
theorem refused_request_leaves_codec_state (C : Codec) (e : C.Enc) (it : Item)
    (h : it.admitted = false) : clientStep C true e it = (e, []) := by
  simp [clientStep, h]

theorem step_sync (C : Codec) (e : C.Enc) (d : C.Dec) (it : Item) (h : C.Sync e d) (rest : List C.Block)
    (k : C.Dec → Option (List (List Field))) (hk : ∀ d', serverRun C d' rest = k d') :
    ∃ d', C.Sync (clientStep C true e it).1 d' ∧
      serverRun C d ((clientStep C true e it).2 ++ rest) =
        (k d').map (described [it] ++ ·) := by
  unfold clientStep
  by_cases ha : it.admitted = true
  · simp only [ha, if_true]
    obtain ⟨d1, hd1, hs1⟩ := C.sync_step e d it.fields h
    cases ht : it.trailers with
    | none =>
      refine ⟨d1, hs1, ?_⟩
      simp only [List.cons_append, List.nil_append, serverRun, hd1, hk, described, ha, if_true, ht,
        List.append_nil]
    | some ts =>
      obtain ⟨d2, hd2, hs2⟩ := C.sync_step (C.enc e it.fields).1 d1 ts hs1
      refine ⟨d2, hs2, ?_⟩
      simp only [List.cons_append, List.nil_append, serverRun, hd1, hd2, hk, described, ha, if_true, ht,
        List.append_nil]
      cases k d2 <;> simp
  · have ha' : it.admitted = false := by simpa using ha
    simp only [ha', Bool.false_eq_true, if_false, Bool.not_true, Bool.false_and]
    exact ⟨d, h, by simp [hk, described, ha']⟩

theorem described_cons (it : Item) (rest : List Item) :
    described (it :: rest) = described [it] ++ described rest := by
  simp [described]

/-- **conn_seq_fidelity**: for every codec that stays in step, every sequence of requests on one
connection — admitted ones (with or without trailers) interleaved in any way with requests refused
or abandoned before their HEADERS were written — the server, decoding the blocks in arrival order,
obtains exactly the described field lists of the requests that reached the wire, in order: nothing
of a refused or earlier request leaks into a later one, and encoder and decoder are still in step
afterwards. -/
theorem conn_seq_fidelity (C : Codec) :
    ∀ (items : List Item) (e : C.Enc) (d : C.Dec), C.Sync e d →
      serverRun C d (clientRun C true e items).2 = some (described items) ∧
      ∃ d', C.Sync (clientRun C true e items).1 d' := by
  intro items
  induction items with
  | nil => intro e d h; exact ⟨by simp [clientRun, serverRun, described], d, h⟩
  | cons it rest ih =>
    intro e d h
    simp only [clientRun]
    obtain ⟨d1, hs1, hrun⟩ := step_sync C e d it h (clientRun C true (clientStep C true e it).1 rest).2
      (fun d' => serverRun C d' (clientRun C true (clientStep C true e it).1 rest).2) (fun _ => rfl)
    obtain ⟨hrest, d2, hs2⟩ := ih (clientStep C true e it).1 d1 hs1
    refine ⟨?_, d2, hs2⟩
    rw [hrun, hrest, described_cons it rest]
    simp

/-! ### the concrete codec -/

theorem lookup_get (f : Field) : ∀ (t : List Field) (i : Nat), lookup f t = some i → t[i]? = some f := by
  intro t
  induction t with
  | nil => intro i h; simp [lookup] at h
  | cons x xs ih =>
    intro i h
    unfold lookup at h
    split at h
    next hx => simp only [Option.some.injEq] at h; subst h; simp [hx]
    next hx =>
      cases hl : lookup f xs with
      | none => simp [hl] at h
      | some j =>
        simp only [hl, Option.map_some, Option.some.injEq] at h
        subst h
        simpa using ih j hl

theorem toy_round : ∀ (fs t : List Field), toyDec t (toyEnc t fs).2 = some ((toyEnc t fs).1, fs) := by
  intro fs
  induction fs with
  | nil => intro t; simp [toyEnc, toyDec]
  | cons f fs ih =>
    intro t
    unfold toyEnc
    cases hl : lookup f t with
    | some i =>
      simp only [toyDec, lookup_get f t i hl]
      rw [ih t]; rfl
    | none =>
      simp only [toyDec]
      rw [ih (t ++ [f])]; rfl

/-- an append-only dynamic table with index references: a `Codec` (encoder and decoder are in step
when their tables are equal). -/
def Toy : Codec where
  Enc := List Field
  Dec := List Field
  Block := List Rep
  enc := toyEnc
  dec := toyDec
  Sync := fun e d => e = d
  sync_step := by
    intro e d fs h
    subst h
    exact ⟨(toyEnc e fs).1, toy_round fs e, rfl⟩

/-- non-vacuity: request 0 admitted, request 1 refused for its size (it shares a field with 0 and
brings a new one), request 2 admitted and referring to both: the server reads 0 and 2 exactly. -/
example :
    let a : Field := ([97], [49]); let b : Field := ([98], [50]); let c : Field := ([99], [51])
    serverRun Toy [] (clientRun Toy true [] [⟨[a], true, false, none⟩, ⟨[a, b], false, true, none⟩,
      ⟨[c, a], true, false, some [b]⟩]).2 = some [[a], [c, a], [b]] := by decide

/-- **the single-pass variant breaks it** (seed C01-r4-2): when the encoder has already run for a
request that is then refused for its size, the decoder never sees that block and the two tables
drift apart: a later request's index reference resolves to ANOTHER entry — the server reads `c` where
the request said `b`, silently — or to none (COMPRESSION_ERROR, the connection dies). -/
theorem single_pass_leaks :
    let a : Field := ([97], [49]); let b : Field := ([98], [50]); let c : Field := ([99], [51])
    serverRun Toy [] (clientRun Toy false [] [⟨[a], true, false, none⟩, ⟨[a, b], false, true, none⟩,
      ⟨[c], true, false, none⟩, ⟨[b], true, false, none⟩]).2 = some [[a], [c], [c]] ∧
    serverRun Toy [] (clientRun Toy false [] [⟨[b], false, true, none⟩, ⟨[b], true, false, none⟩]).2 = none := by
  decide

end Req.Props.C01ConnSeq
