import Req.Pool.H2Mux
import Req.Lemmas.C09H2Rel
import Req.Lemmas.C09H2Core
import Req.Lemmas.C09H2Inv
import Req.Lemmas.C09H2Slots
/-!
C09 — HTTP/2 stream routing (`h2_routing` of DESIGN.md), property theorems over the model
`Req/Pool/H2Mux.lean` of one `ClientConn`'s demultiplexer.  An op list is one interleaving, at
lock granularity, of any number of callers (`roundTrip`: reserve, take `reqHeaderMu`, the
`cc.mu` section with `awaitOpenSlotForStreamLocked`/`addStreamLocked`, HEADERS, wake-ups,
`cleanupWriteRequest`/`forgetStreamID`, cancel, body close) with the read loop (read a frame
and look its stream up; process it) — every theorem quantifies over ALL op lists and both
`StrictMaxConcurrentStreams` settings / single-use connections.

* `h2_pairing`        : whatever the read loop delivers to a caller's stream object (1xx, response
                        head, DATA payload, trailers, END_STREAM, RST_STREAM) was carried by a
                        frame the peer sent with the id of the stream THAT caller opened, with that
                        payload — and (`h2_no_crosstalk`) never reaches a second caller.
* `h2_order`          : a caller is given the items in the order the peer sent them.
* `h2_ids_unique`     : no two entries of `cc.streams` share an id, the entry of id `i` is the
                        caller that opened `i`, different callers never hold the same id, every id
                        handed out is below `nextStreamID`.
* `h2_ids_never_reused` : an id stays with its caller for the rest of the connection and
                        `nextStreamID` never goes back — also after `forgetStreamID`.
* `h2_forgotten_not_delivered` : a frame whose stream the read loop does not find (forgotten,
                        never opened, reset by the read loop) changes no caller's view; the
                        reaction is the code's: HEADERS / RST_STREAM / WINDOW_UPDATE ignored, DATA
                        ignored below `nextStreamID` and a connection error (PROTOCOL_ERROR) at or
                        above it, PUSH_PROMISE always a connection error.
* `h2_wire_order`     : request HEADERS reach the wire in strictly increasing stream-id order
                        (what `reqHeaderMu` is for; RFC 9113 5.1.1).
* `h2_admission`      : a stream is admitted only while the connection is open, saw no GOAWAY, is
                        not marked do-not-reuse, and `len(streams) < MAX_CONCURRENT_STREAMS`; without
                        `StrictMaxConcurrentStreams` also `len(streams) + other reservations + 1 ≤
                        MAX_CONCURRENT_STREAMS`.
* `h2_pending_at_most_one` : at most one request sleeps in `awaitOpenSlotForStreamLocked`, and it
                        holds `reqHeaderMu`.
* `h2_forget_never_panics` : "forgetting unknown stream id" is unreachable.
* `h2_forget_wakes_all` : `forgetStreamID` wakes EVERY goroutine asleep on `cc.cond` (Broadcast) —
                        the pending request among them, whoever else (uploads stalled on flow
                        control) went to sleep first.
* `h2_raised_limit_wakes_all` : SETTINGS raising MAX_CONCURRENT_STREAMS wake every sleeper.
* `h2_woken_pending_admitted` : a pending request that was woken and finds the connection usable
                        with a free slot is admitted with the next stream id.
-/
namespace Req.Props.C09H2
open Req.Pool.H2Mux Req.Lemmas.C09H2Rel Req.Lemmas.C09H2Core Req.Lemmas.C09H2Inv Req.Lemmas.C09H2Slots

theorem inv (cfg : Cfg) (ops : List Op) : Inv (core (run cfg {} ops)) := Inv_run cfg {} ops Inv_init

/-- **h2_pairing** -/
theorem h2_pairing (cfg : Cfg) (ops : List Op) (k : Caller) (it : Item)
    (h : it ∈ ((run cfg {} ops).cs k).got) :
    it.sid = ((run cfg {} ops).cs k).id ∧ it.sid ≠ 0 ∧
      ∃ f, (run cfg {} ops).rx[it.seq]? = some f ∧ f.sid? = some it.sid ∧ f.tag = it.tag :=
  (inv cfg ops).gotOwn k it h

/-- **h2_no_crosstalk** — items of one stream id are delivered to one caller only. -/
theorem h2_no_crosstalk (cfg : Cfg) (ops : List Op) (k k' : Caller) (it it' : Item)
    (h : it ∈ ((run cfg {} ops).cs k).got) (h' : it' ∈ ((run cfg {} ops).cs k').got)
    (hs : it.sid = it'.sid) : k = k' := by
  obtain ⟨a, b, _⟩ := (inv cfg ops).gotOwn k it h
  obtain ⟨a', _, _⟩ := (inv cfg ops).gotOwn k' it' h'
  exact (inv cfg ops).idInj k k' (by rw [← a]; exact b) (by rw [← a, ← a', hs])

/-- **h2_order** — `got` is newest-first: positions in the peer's frame sequence never increase. -/
theorem h2_order (cfg : Cfg) (ops : List Op) (k : Caller) :
    ((((run cfg {} ops).cs k).got).map Item.seq).Pairwise (· ≥ ·) :=
  (inv cfg ops).gotSorted k

/-- **h2_ids_unique** -/
theorem h2_ids_unique (cfg : Cfg) (ops : List Op) :
    let s := run cfg {} ops
    (s.streams.map Prod.fst).Nodup ∧
    (∀ i k, (i, k) ∈ s.streams → (s.cs k).id = i ∧ i ≠ 0) ∧
    (∀ k k', (s.cs k).id ≠ 0 → (s.cs k).id = (s.cs k').id → k = k') ∧
    (∀ k, (s.cs k).id < s.nextId) :=
  ⟨(inv cfg ops).keysNodup, fun i k h => ⟨(inv cfg ops).tableId i k h, (inv cfg ops).tableNZ i k h⟩,
   (inv cfg ops).idInj, (inv cfg ops).idLt⟩

/-- **h2_ids_never_reused** -/
theorem h2_ids_never_reused (cfg : Cfg) (ops more : List Op) (k : Caller)
    (h : ((run cfg {} ops).cs k).id ≠ 0) :
    ((run cfg {} (ops ++ more)).cs k).id = ((run cfg {} ops).cs k).id ∧
    (run cfg {} ops).nextId ≤ (run cfg {} (ops ++ more)).nextId ∧
    ∀ k', ((run cfg {} (ops ++ more)).cs k').id = ((run cfg {} ops).cs k).id → k' = k := by
  rw [run_append]
  obtain ⟨a, b⟩ := id_stable_run cfg (run cfg {} ops) more (inv cfg ops) k h
  refine ⟨a, b, ?_⟩
  intro k' hk'
  have hi := Inv_run cfg (run cfg {} ops) more (inv cfg ops)
  exact (hi.idInj k k' (by show ((run cfg (run cfg {} ops) more).cs k).id ≠ 0; rw [a]; exact h)
    (by show ((run cfg (run cfg {} ops) more).cs k).id = ((run cfg (run cfg {} ops) more).cs k').id
        rw [a, hk'])).symm

/-- What the read loop does with a frame whose stream it did not find. -/
inductive Reaction where
  | ignored
  | connectionError (code : Nat)
deriving DecidableEq, Repr

def reactionUnknown (s : St) : Frame → Option Reaction
  | .headers _ _ _ _ => some .ignored
  | .rst _ _ => some .ignored
  | .windowUpdate id _ => if id ≠ 0 then some .ignored else none
  | .data id _ _ _ => if id ≥ s.nextId then some (.connectionError 1) else some .ignored
  | .pushPromise _ => some (.connectionError 1)
  | _ => none

/-- **h2_forgotten_not_delivered** — state `s`, the read loop holds frame `f` and found no stream. -/
theorem h2_forgotten_not_delivered (cfg : Cfg) (s : St) (f : Frame) (h : s.rl = some (f, none)) :
    let s' := (step cfg s .rlProcess).1
    (∀ k, (s'.cs k).got = (s.cs k).got) ∧
    (reactionUnknown s f = some .ignored → s' = { s with rl := none }) ∧
    (∀ code, reactionUnknown s f = some (.connectionError code) →
        s' = readerCleanup { s with rl := none } (some code)) := by
  simp only [step, h]
  have hr := rel_process { s with rl := none } f none
  refine ⟨?_, ?_, ?_⟩
  · intro k
    obtain ⟨n, e, p⟩ := hr.got k
    cases n with
    | nil => simpa using e
    | cons x _ => exact absurd (p x List.mem_cons_self).1 (by simp)
  · intro hre
    cases f with
    | data id len fin tag =>
      simp only [reactionUnknown] at hre
      split at hre
      · cases hre
      · next hge => simp [process, hge]
    | windowUpdate id ov =>
      simp only [reactionUnknown] at hre
      split at hre
      · next hz => simp [process, hz]
      · cases hre
    | headers id kind fin tag => simp [process]
    | rst id code => simp [process]
    | pushPromise id => simp [reactionUnknown] at hre
    | goAway a b => simp [reactionUnknown] at hre
    | settings m => simp [reactionUnknown] at hre
    | eof => simp [reactionUnknown] at hre
  · intro code hre
    cases f with
    | data id len fin tag =>
      simp only [reactionUnknown] at hre
      split at hre
      · next hge => cases hre; simp [process, hge]
      · cases hre
    | pushPromise id => simp only [reactionUnknown] at hre; cases hre; simp [process]
    | windowUpdate id ov => simp only [reactionUnknown] at hre; split at hre <;> cases hre
    | headers id kind fin tag => simp [reactionUnknown] at hre
    | rst id code => simp [reactionUnknown] at hre
    | goAway a b => simp [reactionUnknown] at hre
    | settings m => simp [reactionUnknown] at hre
    | eof => simp [reactionUnknown] at hre

/-- The read loop finds no stream for an id that is not in the table (never opened, or
forgotten), and for a stream it has reset itself. -/
theorem lookup_misses (s : St) (id : Nat)
    (h : (∀ k, (id, k) ∉ s.streams) ∨ (∀ k, (id, k) ∈ s.streams → (s.cs k).readAborted = true)) :
    streamByID s id = none := by
  unfold streamByID
  cases hl : s.streams.lookup id with
  | none => rfl
  | some k =>
    have hm : (id, k) ∈ s.streams := by
      obtain ⟨l1, l2, e, _⟩ := List.lookup_eq_some_iff.mp hl
      rw [e]; simp
    rcases h with h | h
    · exact absurd hm (h k)
    · simp [h k hm]

/-- **h2_wire_order** -/
theorem h2_wire_order (cfg : Cfg) (ops : List Op) : (run cfg {} ops).hdrWire.Pairwise (· < ·) :=
  (inv cfg ops).wireSorted

/-- **h2_admission** — in ANY state, a step that makes `cc.streams` grow. -/
theorem h2_admission (cfg : Cfg) (s : St) (op : Op)
    (h : (step cfg s op).1.streams.length > s.streams.length) :
    s.closed = false ∧ s.goAway = none ∧ s.doNotReuse = false ∧ s.streams.length < s.maxConc ∧
    (cfg.strict = false → s.streams.length + (s.reserved - 1) + 1 ≤ s.maxConc) ∧
    ∃ k, (step cfg s op).1.streams = (s.nextId, k) :: s.streams := by
  have unpack : ∀ (t : St) k, (slotLoop cfg t k).streams.length > s.streams.length →
      t.streams = s.streams → t.closed = s.closed → t.goAway = s.goAway →
      t.doNotReuse = s.doNotReuse → t.maxConc = s.maxConc → t.nextId = s.nextId →
      t.reserved ≥ s.reserved - 1 →
      s.closed = false ∧ s.goAway = none ∧ s.doNotReuse = false ∧ s.streams.length < s.maxConc ∧
      (cfg.strict = false → s.streams.length + (s.reserved - 1) + 1 ≤ s.maxConc) ∧
      (slotLoop cfg t k).streams = (s.nextId, k) :: s.streams := by
    intro t k hg e1 e2 e3 e4 e5 e6 e7
    rw [← e1] at hg
    obtain ⟨a, b, c, d⟩ := slotLoop_admits cfg t k hg
    simp only [canTake, Bool.and_eq_true, Bool.not_eq_true', Bool.or_eq_true, decide_eq_true_eq,
      Option.isNone_iff_eq_none] at b
    obtain ⟨⟨⟨⟨⟨_, b2⟩, _⟩, b4⟩, b5⟩, _⟩ := b
    refine ⟨by rw [← e2]; exact a, by rw [← e3]; exact b2, by rw [← e4]; exact b5,
      by rw [← e1, ← e5]; exact c, ?_, by rw [d, e1, e6]⟩
    intro hs
    rcases b4 with b4 | b4
    · rw [hs] at b4; cases b4
    · rw [e1, e5] at b4; omega
  by_cases hop : (∀ k, op ≠ .openSlot k) ∧ (∀ k, op ≠ .wake k)
  · exact absurd (step_no_growth cfg s op hop) (by omega)
  · cases op with
    | openSlot k =>
      by_cases hp : (s.cs k).phase ≠ .holdMu
      · simp only [step] at h
        rw [if_pos hp] at h
        exact absurd h (by simp)
      · simp only [step, if_neg hp] at h ⊢
        obtain ⟨a, b, c, d, e, f⟩ := unpack _ k h rfl rfl rfl rfl rfl rfl (by simp [decrReserved, setCS])
        exact ⟨a, b, c, d, e, k, f⟩
    | wake k =>
      by_cases hp : (s.cs k).phase ≠ .pending ∨ s.woken.contains k = false
      · simp only [step] at h
        rw [if_pos hp] at h
        exact absurd h (by simp)
      · simp only [step, if_neg hp] at h ⊢
        cases ha : (s.cs k).abort with
        | some e => simp [ha, exitWith, setCS] at h
        | none =>
          simp only [ha] at h ⊢
          obtain ⟨a, b, c, d, e, f⟩ := unpack _ k h rfl rfl rfl rfl rfl rfl (by simp)
          exact ⟨a, b, c, d, e, k, f⟩
    | _ => exact absurd ⟨fun _ => by simp, fun _ => by simp⟩ hop

/-- **h2_pending_at_most_one** -/
theorem h2_pending_at_most_one (cfg : Cfg) (ops : List Op) :
    let s := run cfg {} ops
    s.pendingReq ≤ 1 ∧
    (∀ k, (s.cs k).phase = .pending → s.hdrMu = some k ∧ s.pendingReq = 1) ∧
    (∀ k j, (s.cs k).phase = .pending → (s.cs j).phase = .pending → j = k) := by
  have hi := inv cfg ops
  refine ⟨?_, ?_, ?_⟩
  · have := hi.pend
    show (core (run cfg {} ops)).pendingReq ≤ 1
    rw [this]
    split
    · split <;> omega
    · omega
  · intro k hk
    have hm := (hi.mu k).mp (by simp [holds, core, hk])
    refine ⟨hm, ?_⟩
    have := hi.pend
    rw [hm] at this
    simpa [core, hk] using this
  · intro k j hk hj
    exact hi.holder (k := k) (j := j) (by simp [holds, core, hk]) (by simp [holds, core, hj])

/-- **h2_forget_never_panics** -/
theorem h2_forget_never_panics (cfg : Cfg) (ops : List Op) : (run cfg {} ops).forgetPanic = false :=
  (inv cfg ops).noPanic

/-- **h2_forget_wakes_all** — in ANY state: `forgetStreamID` of a real stream leaves nobody asleep. -/
theorem h2_forget_wakes_all (cfg : Cfg) (s : St) (k : Caller)
    (hp : (s.cs k).phase = .finishing) (hid : (s.cs k).id ≠ 0) :
    let s' := (step cfg s (.forget k)).1
    s'.condWait = [] ∧ ∀ w ∈ s.condWait, w ∈ s'.woken := by
  simp only [step, hp, hid]
  simp only [ne_eq, not_true_eq_false, if_false]
  repeat' split
  all_goals (simp [broadcast, setCS]; try (intro w hw; exact Or.inr hw))

/-- **h2_raised_limit_wakes_all** — in ANY state: SETTINGS that raise MAX_CONCURRENT_STREAMS leave
nobody asleep on `cc.cond` (`processSettingsNoWrite` broadcasts, /repo a90e62e): the request
pending for a slot looks again (`h2_woken_pending_admitted`). -/
theorem h2_raised_limit_wakes_all (cfg : Cfg) (s : St) (v : Nat) (tgt : Option Caller)
    (hrl : s.rl = some (.settings (some v), tgt)) (hv : v > s.maxConc) :
    let s' := (step cfg s .rlProcess).1
    s'.maxConc = v ∧ s'.condWait = [] ∧ ∀ w ∈ s.condWait, w ∈ s'.woken := by
  simp only [step, hrl, process]
  simp [hv, broadcast]
  intro w hw; exact Or.inr hw

/-- **h2_woken_pending_admitted** -/
theorem h2_woken_pending_admitted (cfg : Cfg) (s : St) (k : Caller)
    (hp : (s.cs k).phase = .pending) (hw : k ∈ s.woken) (ha : (s.cs k).abort = none)
    (hc : s.closed = false) (hs : s.streams.length < s.maxConc)
    (ht : canTake cfg { s with woken := s.woken.erase k, pendingReq := s.pendingReq - 1 } = true) :
    let s' := (step cfg s (.wake k)).1
    (s'.cs k).phase = .opened ∧ (s'.cs k).id = s.nextId ∧ s'.streams = (s.nextId, k) :: s.streams ∧
      s'.nextId = s.nextId + 2 := by
  have hw' : s.woken.contains k = true := by simpa using hw
  simp only [step, hp, hw', ha]
  simp only [ne_eq, not_true_eq_false, Bool.true_eq_false, or_self, if_false]
  unfold slotLoop
  have hcl : ({ s with woken := s.woken.erase k, pendingReq := s.pendingReq - 1 } : St).closed = false := hc
  rw [if_neg (fun hx => by
    rcases hx with h1 | h2
    · exact absurd (hcl.symm.trans h1) (by simp)
    · exact absurd (ht.symm.trans h2) (by simp)), if_pos hs]
  simp [addStream, setCS, upd]

/-! ### Non-vacuity: concrete interleavings -/

def strict : Cfg := ⟨true, false⟩
def lax : Cfg := ⟨false, false⟩

/-- the peer allows one stream: caller 0 is admitted, caller 1 sleeps for a slot -/
def setup1 : List Op :=
  [.rlRead (.settings (some 1)), .rlProcess,
   .begin 0 false false, .acquire 0, .openSlot 0, .writeHeaders 0,
   .begin 1 false false, .acquire 1, .openSlot 1]

example : (run strict {} setup1).streams = [(1, 0)] ∧ (run strict {} setup1).pendingReq = 1 ∧
    ((run strict {} setup1).cs 1).phase = .pending ∧ (run strict {} setup1).hdrWire = [1] := by decide

/-- the response to caller 0 arrives (head, 5 bytes, END_STREAM); caller 0 cleans up and forgets
the stream: everybody on `cc.cond` is woken, caller 1 is admitted with id 3; a late DATA frame for
the forgotten stream 1 is ignored, one for stream 9 (never opened) kills the connection. -/
def full1 : List Op := setup1 ++
  [.rlRead (.headers 1 .status2xx false 70), .rlProcess, .rlRead (.data 1 5 true 71), .rlProcess,
   .finishWrite 0, .retire 0, .forget 0, .wake 1, .writeHeaders 1,
   .rlRead (.data 1 4 false 72), .rlProcess]

example : ((run strict {} full1).cs 0).got =
    [⟨1, 2, 71, .eof⟩, ⟨1, 2, 71, .data 5⟩, ⟨1, 1, 70, .head⟩] ∧
    ((run strict {} full1).cs 1).got = [] ∧
    (run strict {} full1).streams = [(3, 1)] ∧ (run strict {} full1).hdrWire = [1, 3] ∧
    (run strict {} full1).closed = false := by decide

example : (run strict {} (full1 ++ [.rlRead (.data 9 4 false 73), .rlProcess])).closed = true ∧
    (run strict {} (full1 ++ [.rlRead (.data 9 4 false 73), .rlProcess])).goAwaySent = some 1 := by decide

/-- the peer raises its limit from 1 to 2 while caller 1 sleeps for a slot: it is woken and admitted -/
example :
    let s := run strict {} (setup1 ++ [.rlRead (.settings (some 2)), .rlProcess, .wake 1])
    s.streams = [(3, 1), (1, 0)] ∧ s.pendingReq = 0 ∧ (s.cs 1).phase = .opened := by decide

/-- the read loop looked stream 1 up, the caller cancelled and forgot it before the frame was
processed: the item still lands in caller 0's own (abandoned) stream object, nowhere else. -/
example :
    let s := run lax {}
      [.begin 0 false false, .acquire 0, .openSlot 0, .writeHeaders 0,
       .begin 1 false false, .acquire 1, .openSlot 1, .writeHeaders 1,
       .rlRead (.headers 1 .status2xx false 70),
       .cancel 0, .rtReturn 0, .finishWrite 0, .retire 0, .forget 0,
       .rlProcess]
    s.streams = [(3, 1)] ∧ (s.cs 0).got = [⟨1, 0, 70, .head⟩] ∧ (s.cs 1).got = [] ∧
    (s.cs 0).rt = .returned (some .canceled) ∧ s.rstWire = [(1, 8)] := by decide

/-- without the strict setting a connection at the peer's limit refuses the request
(`errClientConnUnusable`: the pool dials another connection) -/
example :
    let s := run lax {} (setup1)
    (s.cs 1).phase = .exiting ∧ (s.cs 1).exitErr = some .unusable ∧ s.streams = [(1, 0)] := by decide

example : reactionUnknown (run strict {} full1) (.data 1 4 false 0) = some .ignored ∧
    reactionUnknown (run strict {} full1) (.data 9 4 false 0) = some (.connectionError 1) := by decide

end Req.Props.C09H2
