import Req.Client.HeaderSort
import Req.Client.HeaderSortSpec
import Req.H1.RequestWrite
import Req.H2.Fields
import Req.Client.Rewrite
import Req.Props.C16
import Req.Props.C16Wire
/-!
C16, round 5 — three classes the seeded changes of this round are instances of:

1. **order lists with duplicates** (`SetHeaderOrder` called twice with overlapping parts, one name in
   two spellings): `sort_listed_subsequence` (the listed fields of the output are the listed fields
   of the input, STABLY sorted by "last occurrence in the list" — whatever other fields are present),
   `sort_order_list_dedup_irrelevant` (a list with duplicates orders the listed fields exactly as
   its duplicate-free form `dedupLast` does, and the output is a permutation of the input either
   way — nothing written twice, nothing dropped);
2. **transparent re-sends** (the transport writes the same request object again):
   `writeRequest_leaves_request_unchanged`, `transparent_resend_same_wire`,
   `transparent_resend_same_fields`;
3. **names next to the bookkeeping keys**: `excluded_iff_exactly_two_keys` (+ HTTP/1.1 table,
   extensions / prefixes / suffixes of the keys), `underscore_names_three_stacks`.
-/
namespace Req.Props.C16Round5
open Req.Proto Req.Ascii Req.BStr Req.Validate Req.HeaderSort Req.H1 Req.H2 Req.Rewrite
open Req.Props.C16 Req.Props.C16Wire

/-! ## 1. order lists with duplicates -/

section Stable
variable {α : Type} (idx : α → Option Nat)

theorem insL_stop (x : α) (F : List α) (h : ∀ z ∈ F, olt (idx x) (idx z) = false) :
    insL idx x F = x :: F := by
  cases F with
  | nil => rfl
  | cons z F' => simp [insL, h z (List.mem_cons_self ..)]

theorem filter_ins (x : α) (ys : List α) (h : Inv idx ys) :
    (ins idx x ys).filter (isListed idx) =
      if isListed idx x then insL idx x (ys.filter (isListed idx)) else ys.filter (isListed idx) := by
  induction ys with
  | nil => cases hx : isListed idx x <;> simp [ins, insL, hx]
  | cons y ys ih =>
    unfold ins
    split
    next hlt =>
      rw [List.filter_cons, ih h.2]
      cases hx : idx x with
      | none =>
        have hxl : isListed idx x = false := by simp [isListed, hx]
        simp [hxl, List.filter_cons]
      | some i =>
        have hxl : isListed idx x = true := by simp [isListed, hx]
        cases hy : idx y with
        | none =>
          have hyl : isListed idx y = false := by simp [isListed, hy]
          simp [hxl, hyl]
        | some j =>
          have hyl : isListed idx y = true := by simp [isListed, hy]
          have hij : i < j := by simpa [keyAt, hx, hy] using hlt
          simp [hxl, hyl, hx, hy, insL, olt, hij]
    next hge =>
      cases hx : idx x with
      | none =>
        have hxl : isListed idx x = false := by simp [isListed, hx]
        simp [hxl, List.filter_cons]
      | some i =>
        have hge' : keyAt idx y ys.length ≤ i := by
          have := Nat.le_of_not_lt hge
          simpa [keyAt, hx] using this
        have hall := listed_le_of_head idx y ys h i hge' (by
          intro k hk
          have : keyAt idx y ys.length = k := by simp [keyAt, hk]
          omega)
        have hstop : insL idx x ((y :: ys).filter (isListed idx)) = x :: (y :: ys).filter (isListed idx) := by
          apply insL_stop
          intro z hz
          have hzm := (List.mem_filter.mp hz).1
          cases hzi : idx z with
          | none => simp [olt, hx]
          | some k =>
            have := hall z hzm k hzi
            simp [olt, hx]
            omega
        have hxl : isListed idx x = true := by simp [isListed, hx]
        rw [List.filter_cons, hxl]
        simp only [if_true]
        rw [hstop]

theorem filter_foldl_ins (l acc : List α) (h : Inv idx acc) :
    (l.foldl (fun acc x => ins idx x acc) acc).filter (isListed idx) =
      (l.filter (isListed idx)).foldl (fun acc x => insL idx x acc) (acc.filter (isListed idx)) := by
  induction l generalizing acc with
  | nil => rfl
  | cons x xs ih =>
    rw [List.foldl_cons, ih _ (ins_inv idx x acc h), filter_ins idx x acc h, List.filter_cons]
    cases hx : isListed idx x <;> simp

/-- the listed elements of the output = the listed elements of the input, stably sorted by index -/
theorem isort_listed_subsequence (l : List α) :
    (isort idx l).filter (isListed idx) = stableSort idx (l.filter (isListed idx)) := by
  unfold isort stableSort
  rw [List.filter_reverse, filter_foldl_ins idx l [] trivial]
  rfl

theorem insL_congr (idx' : α → Option Nat)
    (h : ∀ x y, olt (idx x) (idx y) = olt (idx' x) (idx' y)) (x : α) (F : List α) :
    insL idx x F = insL idx' x F := by
  induction F with
  | nil => rfl
  | cons y ys ih => simp [insL, h, ih]

theorem stableSort_congr (idx' : α → Option Nat)
    (h : ∀ x y, olt (idx x) (idx y) = olt (idx' x) (idx' y)) (l : List α) :
    stableSort idx l = stableSort idx' l := by
  unfold stableSort
  have : (fun acc x => insL idx x acc) = (fun acc x => insL idx' x acc) := by
    funext acc x; exact insL_congr idx idx' h x acc
  rw [this]

end Stable


def lastIdxSpec (ck : Bytes) : List Bytes → Option Nat
  | [] => none
  | o :: os =>
    match lastIdxSpec ck os with
    | some j => some (j + 1)
    | none => if canonicalKey o == ck then some 0 else none

theorem go_spec (ck : Bytes) (l : List Bytes) (i : Nat) (acc : Option Nat) :
    lastIndex.go ck l i acc =
      match lastIdxSpec ck l with
      | some j => some (i + j)
      | none => acc := by
  induction l generalizing i acc with
  | nil => simp [lastIndex.go, lastIdxSpec]
  | cons o os ih =>
    simp only [lastIndex.go, lastIdxSpec]
    rw [ih]
    cases h : lastIdxSpec ck os with
    | some j => simp; omega
    | none =>
      simp only
      cases hm : canonicalKey o == ck <;> simp

theorem lastIndex_spec (order : List Bytes) (k : Bytes) :
    lastIndex order k = lastIdxSpec (canonicalKey k) order := by
  unfold lastIndex
  simp only [go_spec]
  cases lastIdxSpec (canonicalKey k) order <;> simp

theorem spec_isSome (ck : Bytes) (os : List Bytes) :
    (lastIdxSpec ck os).isSome = os.any (fun p => canonicalKey p == ck) := by
  induction os with
  | nil => rfl
  | cons o os ih =>
    simp only [lastIdxSpec, List.any_cons]
    rw [← ih]
    cases h : lastIdxSpec ck os with
    | some j => simp
    | none => cases hm : canonicalKey o == ck <;> simp

/-- **being listed** is: some entry of the order list has the same canonical form. -/
theorem lastIndex_isSome (order : List Bytes) (k : Bytes) :
    (lastIndex order k).isSome = order.any (fun o => canonicalKey o == canonicalKey k) := by
  rw [lastIndex_spec, spec_isSome]

theorem spec_cons_olt (ck ck' : Bytes) (o : Bytes) (os : List Bytes) :
    olt (lastIdxSpec ck (o :: os)) (lastIdxSpec ck' (o :: os)) =
      (olt (lastIdxSpec ck os) (lastIdxSpec ck' os) ||
        (!(lastIdxSpec ck os).isSome && (lastIdxSpec ck' os).isSome && (canonicalKey o == ck))) := by
  simp only [lastIdxSpec]
  cases ha : lastIdxSpec ck os <;> cases hb : lastIdxSpec ck' os <;>
    cases hm : canonicalKey o == ck <;> cases hm' : canonicalKey o == ck' <;> simp [olt]

theorem spec_cons_isSome (ck o : Bytes) (os : List Bytes) :
    (lastIdxSpec ck (o :: os)).isSome = ((lastIdxSpec ck os).isSome || (canonicalKey o == ck)) := by
  simp only [lastIdxSpec]
  cases lastIdxSpec ck os <;> cases canonicalKey o == ck <;> simp

theorem recurs_some (ck o : Bytes) (os : List Bytes)
    (hr : os.any (fun p => canonicalKey p == canonicalKey o) = true) (hm : (canonicalKey o == ck) = true) :
    (lastIdxSpec ck os).isSome = true := by
  rw [spec_isSome]
  have : canonicalKey o = ck := by simpa using hm
  rw [← this]; exact hr

theorem dedup_isSome (ck : Bytes) (order : List Bytes) :
    (lastIdxSpec ck (dedupLast order)).isSome = (lastIdxSpec ck order).isSome := by
  induction order with
  | nil => rfl
  | cons o os ih =>
    unfold dedupLast
    split
    next hr =>
      rw [ih, spec_cons_isSome]
      cases hm : canonicalKey o == ck with
      | false => simp
      | true => simp [recurs_some ck o os hr hm]
    next hr => rw [spec_cons_isSome, spec_cons_isSome, ih]

theorem dedup_olt (order : List Bytes) : ∀ ck ck' : Bytes,
    olt (lastIdxSpec ck (dedupLast order)) (lastIdxSpec ck' (dedupLast order)) =
      olt (lastIdxSpec ck order) (lastIdxSpec ck' order) := by
  induction order with
  | nil => intro _ _; rfl
  | cons o os ih =>
    intro ck ck'
    unfold dedupLast
    split
    next hr =>
      rw [ih, spec_cons_olt]
      cases hm : canonicalKey o == ck with
      | false => simp
      | true => simp [recurs_some ck o os hr hm]
    next hr =>
      rw [spec_cons_olt, spec_cons_olt, ih, dedup_isSome, dedup_isSome]

theorem mem_dedupLast {a : Bytes} {order : List Bytes} (h : a ∈ dedupLast order) : a ∈ order := by
  induction order with
  | nil => simp [dedupLast] at h
  | cons o os ih =>
    unfold dedupLast at h
    split at h
    · exact List.mem_cons_of_mem _ (ih h)
    · rcases List.mem_cons.mp h with rfl | h
      · exact List.mem_cons_self ..
      · exact List.mem_cons_of_mem _ (ih h)

/-- `dedupLast` really is duplicate-free: no two entries with the same canonical form. -/
theorem dedupLast_nodup (order : List Bytes) :
    (dedupLast order).Pairwise (fun a b => canonicalKey a ≠ canonicalKey b) := by
  induction order with
  | nil => simp [dedupLast]
  | cons o os ih =>
    unfold dedupLast
    split
    · exact ih
    next hr =>
      refine List.Pairwise.cons ?_ ih
      intro b hb heq
      apply hr
      rw [List.any_eq_true]
      exact ⟨b, mem_dedupLast hb, by simp [heq]⟩


/-! ### the theorems about `SortKeyValues` -/

/-- **sort_listed_subsequence**: for key/value lists of any length and ANY order list (duplicates,
other case, unknown names), the listed fields come out as the listed fields of the input stably
sorted by the position of the LAST list entry naming them: fields of one name stay together in
their original relative order, none is written twice, none is dropped — and the unlisted fields
have no influence on it at all. -/
theorem sort_listed_subsequence (kvs : List KV) (order : List Bytes) :
    (sortKeyValues kvs order).filter (listedBy order) =
      stableSort (fun kv => lastIndex order kv.key) (kvs.filter (listedBy order)) :=
  isort_listed_subsequence _ kvs

/-- "no matter how many other headers are present": two field lists with the same listed fields
produce the same sequence of listed fields. -/
theorem sort_listed_independent_of_others (kvs kvs' : List KV) (order : List Bytes)
    (h : kvs.filter (listedBy order) = kvs'.filter (listedBy order)) :
    (sortKeyValues kvs order).filter (listedBy order) =
      (sortKeyValues kvs' order).filter (listedBy order) := by
  rw [sort_listed_subsequence, sort_listed_subsequence, h]

theorem listedBy_dedup (order : List Bytes) : listedBy (dedupLast order) = listedBy order := by
  funext kv
  simp only [listedBy, lastIndex_spec, dedup_isSome]

/-- multiset exactness for every order list, duplicates included: each field of the input is in
the output exactly as often as in the input. -/
theorem sort_count_exact (kvs : List KV) (order : List Bytes) (kv : KV) :
    (sortKeyValues kvs order).countP (fun x => decide (x = kv)) = kvs.countP (fun x => decide (x = kv)) :=
  (sort_perm kvs order).countP_eq _

/-- **sort_order_list_dedup_irrelevant**: an order list with duplicates (same name twice, also in
two spellings) behaves as its duplicate-free form (`dedupLast`: the last occurrence of each name
kept): the output is a permutation of the same fields (multiset exact — a duplicated entry neither
writes a field twice nor drops another one) and the listed fields appear in exactly the same
sequence. -/
theorem sort_order_list_dedup_irrelevant (kvs : List KV) (order : List Bytes) :
    (sortKeyValues kvs order).Perm (sortKeyValues kvs (dedupLast order)) ∧
    (sortKeyValues kvs order).filter (listedBy order) =
      (sortKeyValues kvs (dedupLast order)).filter (listedBy (dedupLast order)) := by
  refine ⟨(sort_perm kvs order).trans (sort_perm kvs (dedupLast order)).symm, ?_⟩
  rw [sort_listed_subsequence, sort_listed_subsequence, listedBy_dedup]
  apply (stableSort_congr _ _ _ _).symm
  intro x y
  simp only [lastIndex_spec]
  exact dedup_olt order _ _

/-- appending further entries to an order list never changes the multiset of fields written. -/
theorem sort_order_append_perm (kvs : List KV) (order dup : List Bytes) :
    (sortKeyValues kvs (order ++ dup)).Perm (sortKeyValues kvs order) :=
  (sort_perm kvs _).trans (sort_perm kvs order).symm

/-- non-vacuity (the shape of seed C16-r5-2): fields X-A, X-B, X-C, X-D, list "X-B","x-b","X-D":
the duplicate-free form is "x-b","X-D"; X-B is written once, X-D is not lost. -/
example :
    dedupLast [[88, 45, 66], [120, 45, 98], [88, 45, 68]] = [[120, 45, 98], [88, 45, 68]] ∧
    (sortKeyValues [⟨[88, 45, 65], [[49]]⟩, ⟨[88, 45, 66], [[50]]⟩, ⟨[88, 45, 67], [[51]]⟩, ⟨[88, 45, 68], [[52]]⟩]
      [[88, 45, 66], [120, 45, 98], [88, 45, 68]]).map (·.key) =
      [[88, 45, 65], [88, 45, 66], [88, 45, 67], [88, 45, 68]] ∧
    (sortKeyValues [⟨[88, 45, 68], [[52]]⟩, ⟨[88, 45, 65], [[49]]⟩, ⟨[88, 45, 66], [[50]]⟩]
      [[88, 45, 66], [120, 45, 98], [88, 45, 68]]).map (·.key) =
      [[88, 45, 65], [88, 45, 66], [88, 45, 68]] := by decide

/-! ### fields of one name, and the unlisted fields, keep their order -/

section SameIdx
variable {α : Type} (idx : α → Option Nat)

/-- a step that inserts `x` somewhere without disturbing the `Q`-elements … -/
theorem foldl_filter_step (step : α → List α → List α) (Q : α → Bool)
    (hstep : ∀ x ys, (step x ys).filter Q = if Q x then x :: ys.filter Q else ys.filter Q)
    (l acc : List α) :
    (l.foldl (fun acc x => step x acc) acc).filter Q = (l.filter Q).reverse ++ acc.filter Q := by
  induction l generalizing acc with
  | nil => simp
  | cons x xs ih =>
    rw [List.foldl_cons, ih, hstep, List.filter_cons]
    cases Q x <;> simp

theorem ins_filter_unlisted (Q : α → Bool) (hQ : ∀ z, Q z = true → idx z = none) (x : α) (ys : List α) :
    (ins idx x ys).filter Q = if Q x then x :: ys.filter Q else ys.filter Q := by
  induction ys with
  | nil => simp [ins, List.filter_cons]
  | cons y ys ih =>
    unfold ins
    split
    next hlt =>
      rw [List.filter_cons, ih]
      cases hx : Q x with
      | false => simp [List.filter_cons]
      | true =>
        cases hy : Q y with
        | false => simp [hy]
        | true =>
          exfalso
          simp only [keyAt, hQ x hx, hQ y hy] at hlt
          omega
    next => simp [List.filter_cons]

theorem insL_filter_same (i : Nat) (Q : α → Bool) (hQ : ∀ z, Q z = true → idx z = some i) (x : α) (F : List α) :
    (insL idx x F).filter Q = if Q x then x :: F.filter Q else F.filter Q := by
  induction F with
  | nil => simp [insL, List.filter_cons]
  | cons y F ih =>
    unfold insL
    split
    next hlt =>
      rw [List.filter_cons, ih]
      cases hx : Q x with
      | false => simp [List.filter_cons]
      | true =>
        cases hy : Q y with
        | false => simp [hy]
        | true =>
          exfalso
          simp [olt, hQ x hx, hQ y hy] at hlt
    next => simp [List.filter_cons]

theorem stableSort_filter_same (i : Nat) (Q : α → Bool) (hQ : ∀ z, Q z = true → idx z = some i) (l : List α) :
    (stableSort idx l).filter Q = l.filter Q := by
  unfold stableSort
  rw [List.filter_reverse, foldl_filter_step (insL idx) Q (insL_filter_same idx i Q hQ)]
  simp

/-- **the elements sharing one position keep their relative order** — listed at the same list
entry (fields of one name, names differing only in case) or unlisted (all the other fields). -/
theorem isort_filter_same_idx (v : Option Nat) (P : α → Bool) (l : List α) :
    (isort idx l).filter (fun z => P z && idx z == v) = l.filter (fun z => P z && idx z == v) := by
  cases v with
  | none =>
    unfold isort
    rw [List.filter_reverse, foldl_filter_step (ins idx) _
      (ins_filter_unlisted idx _ (by intro z hz; simp at hz; exact hz.2))]
    simp
  | some i =>
    have hQ : ∀ z, (P z && idx z == some i) = true → idx z = some i := by
      intro z hz; simp at hz; exact hz.2
    have hQL : ∀ m : List α, m.filter (fun z => P z && idx z == some i) =
        (m.filter (isListed idx)).filter (fun z => P z && idx z == some i) := by
      intro m
      rw [List.filter_filter]
      apply List.filter_congr
      intro z _
      cases h : (P z && idx z == some i) with
      | false => simp
      | true => simp [isListed, hQ z h]
    rw [hQL (isort idx l), isort_listed_subsequence, stableSort_filter_same idx i _ hQ, ← hQL]

end SameIdx

/-- **sort_same_name_order**: whatever the order list, the fields of one name (canonical forms
compared: a key in several spellings, the separate one-value groups HTTP/3 makes of a multi-valued
key) come out in the order they were collected — the sort never swaps two values of a header. -/
theorem sort_same_name_order (kvs : List KV) (order : List Bytes) (ck : Bytes) :
    (sortKeyValues kvs order).filter (fun kv => canonicalKey kv.key == ck) =
      kvs.filter (fun kv => canonicalKey kv.key == ck) := by
  have hcongr : ∀ m : List KV, m.filter (fun kv => canonicalKey kv.key == ck) =
      m.filter (fun z => (canonicalKey z.key == ck) && (lastIndex order z.key == lastIdxSpec ck order)) := by
    intro m
    apply List.filter_congr
    intro z _
    cases h : canonicalKey z.key == ck with
    | false => simp
    | true =>
      have : canonicalKey z.key = ck := by simpa using h
      simp [lastIndex_spec, this]
  rw [hcongr, hcongr]
  exact isort_filter_same_idx _ _ _ kvs

/-- **sort_unlisted_keep_order**: specifying an order never reorders the OTHER fields among
themselves: the unlisted fields come out in collection order. -/
theorem sort_unlisted_keep_order (kvs : List KV) (order : List Bytes) :
    (sortKeyValues kvs order).filter (fun kv => !listedBy order kv) =
      kvs.filter (fun kv => !listedBy order kv) := by
  have hcongr : ∀ m : List KV, m.filter (fun kv => !listedBy order kv) =
      m.filter (fun z => true && (lastIndex order z.key == none)) := by
    intro m
    apply List.filter_congr
    intro z _
    simp only [listedBy, Bool.true_and]
    cases lastIndex order z.key <;> simp
  rw [hcongr, hcongr]
  exact isort_filter_same_idx _ none _ kvs

/-- non-vacuity: X-A=1, Z, x-a=2, B, X-A=3 with the list "B","x-A": the three X-A fields stay 1, 2, 3. -/
example :
    (sortKeyValues [⟨[88, 45, 65], [[49]]⟩, ⟨[90], [[48]]⟩, ⟨[120, 45, 97], [[50]]⟩, ⟨[66], [[57]]⟩, ⟨[88, 45, 65], [[51]]⟩]
      [[66], [120, 45, 65]]).map (·.values) = [[[57]], [[49]], [[48]], [[50]], [[51]]] := by decide


/-! ### value order within a name on HTTP/3 (was lane-judged only) -/

theorem headerGroups_h3_key (x g : KV) (hg : g ∈ headerGroups .h3 [x]) : g.key = x.key := by
  unfold headerGroups at hg
  simp only [List.flatMap_cons, List.flatMap_nil, List.append_nil] at hg
  split at hg
  · simp at hg
  · split at hg
    · split at hg
      · simp at hg
      · split at hg
        · simp at hg
        · simp at hg; subst hg; rfl
    · split at hg
      · rename_i h; simp at h
      · simp at hg
        obtain ⟨v, _, rfl⟩ := hg
        rfl

theorem headerGroups_h3_cons (x : KV) (xs : Hdr) :
    headerGroups .h3 (x :: xs) = headerGroups .h3 [x] ++ headerGroups .h3 xs := by
  simp [headerGroups]

theorem headerGroups_h3_other (n : Bytes) (x : KV) (hx : (lower x.key == n) = false) :
    (headerGroups .h3 [x]).filter (fun g => lower g.key == n) = [] := by
  apply List.filter_eq_nil_iff.mpr
  intro g hg
  rw [headerGroups_h3_key x g hg]; simp [hx]

theorem headerGroups_h3_none (n : Bytes) (xs : Hdr) (hall : ∀ y ∈ xs, (lower y.key == n) = false) :
    (headerGroups .h3 xs).filter (fun g => lower g.key == n) = [] := by
  induction xs with
  | nil => rfl
  | cons y ys ih =>
    rw [headerGroups_h3_cons, List.filter_append,
      headerGroups_h3_other n y (hall y (List.mem_cons_self ..)),
      ih (fun z hz => hall z (List.mem_cons_of_mem _ hz))]
    rfl

/-- on HTTP/3 a key with an ordinary name becomes one group per value, in the caller's order. -/
theorem headerGroups_h3_self (n : Bytes) (hn : ordinary n = true) (kv : KV) (hk : lower kv.key = n) :
    (headerGroups .h3 [kv]).filter (fun g => lower g.key == n) = kv.values.map fun v => ⟨kv.key, [v]⟩ := by
  have hsp : special.contains (lower kv.key) = false := by
    rw [hk]; simp only [ordinary, Bool.and_eq_true, Bool.not_eq_true'] at hn; exact hn.1
  have hex : isExcluded kv.key = false := by
    cases hb : isExcluded kv.key with
    | false => rfl
    | true => rw [isExcluded_special hb] at hsp; exact absurd hsp (by decide)
  have hua : equalFold kv.key sUserAgentL = false := by
    cases hb : equalFold kv.key sUserAgentL with
    | false => rfl
    | true => rw [equalFold_lower hb (by decide)] at hsp; exact absurd hsp (by decide)
  have hg : headerGroups .h3 [kv] = kv.values.map fun v => ⟨kv.key, [v]⟩ := by
    unfold headerGroups
    simp [hex, hua]
  rw [hg]
  apply List.filter_eq_self.mpr
  intro g hgm
  obtain ⟨v, _, rfl⟩ := List.mem_map.mp hgm
  simp [hk]

theorem headerGroups_h3_filter (n : Bytes) (hn : ordinary n = true) (kv : KV) :
    ∀ (h : Hdr), (h.map (·.key)).Nodup → kv ∈ h → lower kv.key = n →
      (∀ kv' ∈ h, lower kv'.key = n → kv' = kv) →
      (headerGroups .h3 h).filter (fun g => lower g.key == n) = kv.values.map fun v => ⟨kv.key, [v]⟩ := by
  intro h
  induction h with
  | nil => intro _ hm; simp at hm
  | cons x xs ih =>
    intro hnd hm hk huniq
    simp only [List.map_cons, List.nodup_cons] at hnd
    rw [headerGroups_h3_cons, List.filter_append]
    rcases List.mem_cons.mp hm with he | hin
    · subst he
      rw [headerGroups_h3_self n hn kv hk]
      have hall : ∀ y ∈ xs, (lower y.key == n) = false := by
        intro y hy
        cases hb : lower y.key == n with
        | false => rfl
        | true =>
          have hy2 : y = kv := huniq y (List.mem_cons_of_mem _ hy) (by simpa using hb)
          exact absurd (hy2 ▸ List.mem_map_of_mem (f := (·.key)) hy) hnd.1
      rw [headerGroups_h3_none n xs hall]
      simp
    · have hx : (lower x.key == n) = false := by
        cases hb : lower x.key == n with
        | false => rfl
        | true =>
          have hx2 : x = kv := huniq x (List.mem_cons_self ..) (by simpa using hb)
          exact absurd (hx2 ▸ List.mem_map_of_mem (f := (·.key)) hin) hnd.1
      rw [headerGroups_h3_other n x hx,
        ih hnd.2 hin hk (fun kv' hkv' => huniq kv' (List.mem_cons_of_mem _ hkv'))]
      rfl

theorem mem_headerGroups_h3 (h : Hdr) (g : KV) (hg : g ∈ headerGroups .h3 h) : ∃ x ∈ h, g.key = x.key := by
  induction h with
  | nil => simp [headerGroups] at hg
  | cons x xs ih =>
    rw [headerGroups_h3_cons] at hg
    rcases List.mem_append.mp hg with hg | hg
    · exact ⟨x, List.mem_cons_self .., headerGroups_h3_key x g hg⟩
    · obtain ⟨y, hy, hk⟩ := ih hg
      exact ⟨y, List.mem_cons_of_mem _ hy, hk⟩

theorem basePseudo_filter_none (fl : Flavor) (r : FReq) (host path n : Bytes) (hn : ordinary n = true) :
    (basePseudo fl r host path).filter (fun g => lower g.key == n) = [] := by
  apply List.filter_eq_nil_iff.mpr
  intro g hg hgn
  have hcolon : g.key.head? = some 58 := by
    unfold basePseudo at hg
    simp only [List.mem_append, List.mem_cons] at hg
    rcases hg with (hg | hg | hg) | hg
    · subst hg; rfl
    · subst hg; rfl
    · simp at hg
    · split at hg
      · simp at hg
      · simp at hg
        rcases hg with hg | hg <;> (subst hg; rfl)
  have hl : (lower g.key).head? = some 58 := by
    cases hgk : g.key with
    | nil => rw [hgk] at hcolon; simp at hcolon
    | cons c t =>
      rw [hgk] at hcolon
      have : c = 58 := by simpa using hcolon
      subst this; rfl
  have : lower g.key = n := by simpa using hgn
  rw [this] at hl
  simp [ordinary, hl] at hn

theorem ownFieldsH23_filter_none (fl : Flavor) (r : FReq) (n : Bytes) (hn : ordinary n = true) :
    (ownFieldsH23 fl r).filter (fun g => lower g.key == n) = [] := by
  apply List.filter_eq_nil_iff.mpr
  intro g hg
  unfold ownFieldsH23 at hg
  simp only [List.mem_append] at hg
  have hsp : special.contains (lower g.key) = true := by
    rcases hg with (hg | hg) | hg
    · rw [mem_ite_l hg]; exact (by decide : special.contains (lower sContentLengthL) = true)
    · rw [mem_ite_l hg]; exact (by decide : special.contains (lower sAcceptEncodingL) = true)
    · rw [mem_ite_r hg]; exact (by decide : special.contains (lower sUserAgentL) = true)
  simp [ordinary_not_special hn hsp]

theorem wireOf_singletons (k : Bytes) (vs : List Bytes) :
    wireOf (vs.map fun v => (⟨k, [v]⟩ : KV)) = vs.map fun v => (lower k, v) := by
  induction vs with
  | nil => rfl
  | cons v vs ih =>
    have e : ∀ (x : KV) (t : List KV), wireOf (x :: t) = wireOf [x] ++ wireOf t := by
      intro x t; simp [wireOf]
    rw [List.map_cons, e, ih]
    simp [wireOf]

/-- **Multi-valued headers on HTTP/3** (every value is its own key/value group there): for a key
with an ordinary name that has a single spelling in the header map, the fields of that name in the
header block are — in arrival order — the caller's values in the caller's order, whatever the two
order lists do (the sort never swaps two fields of one name: `isort_filter_same_idx`). -/
theorem value_order_h3 (r : FReq) (fs : List (Bytes × Bytes)) (h : fields .h3 r = .ok fs)
    (kv : KV) (n : Bytes) (hn : ordinary n = true) (hnd : (r.header.map (·.key)).Nodup)
    (hm : kv ∈ r.header) (hk : lower kv.key = n)
    (huniq : ∀ kv' ∈ r.header, lower kv'.key = n → kv' = kv) :
    fs.filter (fun f => f.1 == n) = kv.values.map fun v => (n, v) := by
  obtain ⟨host, path, rfl⟩ := fields_eq .h3 r fs h
  rw [filter_wireOf_name, List.filter_append]
  have hps : (pseudoKVs .h3 r host path).filter (fun g => lower g.key == n) = [] := by
    have hp := (pseudo_order .h3 r host path).1.filter (fun g => lower g.key == n)
    rw [basePseudo_filter_none .h3 r host path n hn] at hp
    exact hp.eq_nil
  have hbase : (baseRegular .h3 r).filter (fun g => lower g.key == n) =
      kv.values.map fun v => (⟨kv.key, [v]⟩ : KV) := by
    rw [baseRegular_eq, List.filter_append, headerGroups_h3_filter n hn kv r.header hnd hm hk huniq,
      ownFieldsH23_filter_none .h3 r n hn, List.append_nil]
  have hmem : ∀ g ∈ baseRegular .h3 r, (lower g.key == n) = true → g.key = kv.key := by
    intro g hg hgn
    rw [baseRegular_eq] at hg
    rcases List.mem_append.mp hg with hg | hg
    · obtain ⟨x, hx, hkx⟩ := mem_headerGroups_h3 r.header g hg
      have : lower x.key = n := by rw [← hkx]; simpa using hgn
      rw [hkx, huniq x hx this]
    · have := ownFieldsH23_filter_none .h3 r n hn
      rw [List.filter_eq_nil_iff] at this
      exact absurd hgn (this g hg)
  have hreg : (regularKVs .h3 r).filter (fun g => lower g.key == n) =
      (baseRegular .h3 r).filter (fun g => lower g.key == n) := by
    unfold regularKVs
    simp only
    split
    · rfl
    · rename_i hord
      have hcongr : ∀ m : List KV, (∀ g ∈ m, g ∈ baseRegular .h3 r) →
          m.filter (fun g => lower g.key == n) =
          m.filter (fun g => (lower g.key == n) &&
            (lastIndex (orderList r.header) g.key == lastIndex (orderList r.header) kv.key)) := by
        intro m hsub
        apply List.filter_congr
        intro g hg
        cases hgn : lower g.key == n with
        | false => simp
        | true => simp [hmem g (hsub g hg) hgn]
      rw [hcongr _ (fun g hg => (sort_perm _ _).mem_iff.mp hg), hcongr _ (fun g hg => hg)]
      exact isort_filter_same_idx _ _ _ _
  rw [hps, hreg, hbase, List.nil_append, wireOf_singletons, hk]

/-- non-vacuity: `X-M: 3, 1, 2` on HTTP/3 with an order list naming it: 3, 1, 2 on the wire. -/
example :
    ((fields .h3 { method := [71, 69, 84], url := { scheme := [104], host := [104], path := [47] }, header :=
        [⟨[88, 45, 77], [[51], [49], [50]]⟩, ⟨[88, 45, 65], [[57]]⟩,
         ⟨headerOrderKey, [[120, 45, 97], [120, 45, 109]]⟩] }).toOption.map
      (·.filter (fun f => f.1 == [120, 45, 109]))) =
      some [([120, 45, 109], [51]), ([120, 45, 109], [49]), ([120, 45, 109], [50])] := by decide


/-! ## 2. transparent re-sends -/

/-! ### sanitising a value twice = sanitising it once -/

theorem trimLeft_head (v : Bytes) :
    trimLeft v = [] ∨ ∃ c t, trimLeft v = c :: t ∧ isASCIISpace c = false := by
  induction v with
  | nil => left; rfl
  | cons c t ih =>
    unfold trimLeft
    cases h : isASCIISpace c with
    | true => simpa using ih
    | false => right; exact ⟨c, t, by simp, h⟩

theorem trimLeft_fix (c : UInt8) (t : Bytes) (h : isASCIISpace c = false) :
    trimLeft (c :: t) = c :: t := by
  simp [trimLeft, h]

theorem trimLeft_suffix (v : Bytes) : ∃ p, v = p ++ trimLeft v := by
  induction v with
  | nil => exact ⟨[], rfl⟩
  | cons c t ih =>
    unfold trimLeft
    cases h : isASCIISpace c with
    | true =>
      obtain ⟨p, hp⟩ := ih
      refine ⟨c :: p, ?_⟩
      simp only [if_true, List.cons_append]
      exact congrArg _ hp
    | false => exact ⟨[], by simp⟩

theorem trimLeft_idem (v : Bytes) : trimLeft (trimLeft v) = trimLeft v := by
  rcases trimLeft_head v with h | ⟨c, t, h, hc⟩
  · rw [h]; rfl
  · rw [h]; exact trimLeft_fix c t hc

theorem trimString_idem (w : Bytes) : trimString (trimString w) = trimString w := by
  unfold trimString
  -- t = trimLeft w, u = trimLeft t.reverse
  obtain ⟨p, hp⟩ := trimLeft_suffix (trimLeft w).reverse
  have hA : trimLeft (trimLeft (trimLeft w).reverse).reverse = (trimLeft (trimLeft w).reverse).reverse := by
    cases hu : (trimLeft (trimLeft w).reverse).reverse with
    | nil => rfl
    | cons c s =>
      have ht : trimLeft w = c :: (s ++ p.reverse) := by
        have := congrArg List.reverse hp
        simp only [List.reverse_reverse, List.reverse_append] at this
        rw [hu] at this
        simpa using this
      rcases trimLeft_head w with h0 | ⟨c', t', h1, hc'⟩
      · rw [h0] at ht; cases ht
      · rw [h1] at ht
        have : c' = c := by injection ht
        subst this
        exact trimLeft_fix _ _ hc'
  rw [hA, List.reverse_reverse, trimLeft_idem]

theorem mem_trimLeft {b : UInt8} {v : Bytes} (h : b ∈ trimLeft v) : b ∈ v := by
  obtain ⟨p, hp⟩ := trimLeft_suffix v
  rw [hp]; exact List.mem_append_right _ h

theorem mem_trimString {b : UInt8} {v : Bytes} (h : b ∈ trimString v) : b ∈ v := by
  unfold trimString at h
  have h1 := mem_trimLeft (List.mem_reverse.mp h)
  exact mem_trimLeft (List.mem_reverse.mp h1)

theorem newlineToSpace_clean (v : Bytes) :
    ∀ b ∈ newlineToSpace v, (b == 10 || b == 13) = false := by
  intro b hb
  unfold newlineToSpace at hb
  obtain ⟨a, _, rfl⟩ := List.mem_map.mp hb
  cases h : (a == 10 || a == 13) with
  | true => simp only [if_true]; decide
  | false => simpa using h

theorem newlineToSpace_fix (v : Bytes) (h : ∀ b ∈ v, (b == 10 || b == 13) = false) :
    newlineToSpace v = v := by
  unfold newlineToSpace
  conv => rhs; rw [← List.map_id v]
  apply List.map_congr_left
  intro a ha
  simp [h a ha]

/-- **sanitizeValue_idem**: what `headerWriteSubset` does to a value (CR / LF → space, trim) is
idempotent — a value it stored back into the header map is written unchanged next time. -/
theorem sanitizeValue_idem (v : Bytes) : sanitizeValue (sanitizeValue v) = sanitizeValue v := by
  unfold sanitizeValue
  rw [newlineToSpace_fix (trimString (newlineToSpace v))
    (fun b hb => newlineToSpace_clean v b (mem_trimString hb)), trimString_idem]



/-- what `headerWriteSubset` leaves of one entry. -/
def sip (ex : List Bytes) (kv : KV) : KV :=
  if !ex.contains kv.key && validHeaderFieldName kv.key
  then ⟨kv.key, kv.values.map sanitizeValue⟩ else kv

theorem sanitizedInPlace_eq (h : Hdr) (ex : List Bytes) : sanitizedInPlace h ex = h.map (sip ex) := rfl

theorem sip_key (ex : List Bytes) (kv : KV) : (sip ex kv).key = kv.key := by
  unfold sip; split <;> rfl

theorem sip_excluded (ex : List Bytes) (kv : KV) (h : ex.contains kv.key = true) : sip ex kv = kv := by
  have hm : kv.key ∈ ex := by simpa using h
  unfold sip; simp [hm]

/-- **leftBehind_keys**: a write changes no key of the header map (names, spelling, how many). -/
theorem sanitizedInPlace_keys (h : Hdr) (ex : List Bytes) :
    (sanitizedInPlace h ex).map (·.key) = h.map (·.key) := by
  rw [sanitizedInPlace_eq, List.map_map]
  apply List.map_congr_left
  intro kv _; exact sip_key ex kv

theorem insertBy_map_key (le : Bytes → Bytes → Bool) (g : KV → KV) (hg : ∀ kv, (g kv).key = kv.key)
    (x : KV) (l : List KV) :
    insertBy (fun a b => le a.key b.key) (g x) (l.map g) =
      (insertBy (fun a b => le a.key b.key) x l).map g := by
  induction l with
  | nil => rfl
  | cons y ys ih =>
    simp only [List.map_cons, insertBy, hg]
    split
    · rfl
    · simp [ih]

theorem isortBy_map_key (le : Bytes → Bytes → Bool) (g : KV → KV) (hg : ∀ kv, (g kv).key = kv.key)
    (l : List KV) :
    isortBy (fun a b => le a.key b.key) (l.map g) = (isortBy (fun a b => le a.key b.key) l).map g := by
  unfold isortBy
  induction l with
  | nil => rfl
  | cons x xs ih =>
    simp only [List.map_cons, List.foldr_cons]
    rw [ih]
    exact insertBy_map_key le g hg x _

theorem filter_map_key (p : Bytes → Bool) (g : KV → KV) (hg : ∀ kv, (g kv).key = kv.key) (l : List KV) :
    (l.map g).filter (fun kv => p kv.key) = (l.filter fun kv => p kv.key).map g := by
  rw [List.filter_map]
  congr 1
  apply List.filter_congr
  intro a _; simp [Function.comp, hg]

/-- the caller lines a write produces are the same after an earlier write went over the map. -/
theorem writeSubset_sanitizedInPlace (h : Hdr) (ex ex' : List Bytes) (mode : Bool) :
    writeSubset (sanitizedInPlace h ex') ex mode = writeSubset h ex mode := by
  unfold writeSubset
  rw [sanitizedInPlace_eq]
  have hk := sip_key ex'
  simp only
  rw [filter_map_key (fun k => !ex.contains k) (sip ex') hk]
  have hord : (if mode = true then (h.filter fun kv => !ex.contains kv.key).map (sip ex')
      else isortBy (fun a b => le a.key b.key) ((h.filter fun kv => !ex.contains kv.key).map (sip ex'))) =
      (if mode = true then (h.filter fun kv => !ex.contains kv.key)
        else isortBy (fun a b => le a.key b.key) (h.filter fun kv => !ex.contains kv.key)).map (sip ex') := by
    split
    · rfl
    · exact isortBy_map_key le (sip ex') hk _
  rw [hord, filter_map_key validHeaderFieldName (sip ex') hk, List.map_map]
  apply List.map_congr_left
  intro kv _
  simp only [Function.comp, sip]
  split
  · simp [sanitizeValue_idem]
  · rfl

theorem hdrGet?_map (g : KV → KV) (hg : ∀ kv, (g kv).key = kv.key) (h : Hdr) (k : Bytes) :
    hdrGet? (h.map g) k = ((h.find? (·.key == k)).map g).map (·.values) := by
  unfold hdrGet?
  rw [List.find?_map]
  have : ((fun x : KV => x.key == k) ∘ g) = (fun x : KV => x.key == k) := by
    funext kv; simp [Function.comp, hg]
  rw [this]

theorem hdrGet?_sanitized_excluded (h : Hdr) (ex : List Bytes) (k : Bytes) (hk : ex.contains k = true) :
    hdrGet? (sanitizedInPlace h ex) k = hdrGet? h k := by
  rw [sanitizedInPlace_eq, hdrGet?_map _ (sip_key ex)]
  unfold hdrGet?
  cases hf : h.find? (·.key == k) with
  | none => rfl
  | some kv =>
    have : kv.key = k := by simpa using List.find?_some hf
    simp [sip_excluded ex kv (this ▸ hk)]

theorem hdrGet?_sanitized_none (h : Hdr) (ex : List Bytes) (k : Bytes) (hn : hdrGet? h k = none) :
    hdrGet? (sanitizedInPlace h ex) k = none := by
  rw [sanitizedInPlace_eq, hdrGet?_map _ (sip_key ex)]
  unfold hdrGet? at hn
  cases hf : h.find? (·.key == k) with
  | none => rfl
  | some kv => simp [hf] at hn

theorem serializeH1_header_congr (r : WReq) (H' : Hdr)
    (hf : ∀ host f, h1Fields { r with header := H' } host f = h1Fields r host f) :
    serializeH1 { r with header := H' } = serializeH1 r := by
  unfold serializeH1
  have h1 : wireHost { r with header := H' } = wireHost r := rfl
  have h2 : ∀ host, requestTarget { r with header := H' } host = requestTarget r host := fun _ => rfl
  have h3 : framing { r with header := H' } = framing r := rfl
  have h4 : ∀ f, bodyBytes { r with header := H' } f = bodyBytes r f := fun _ => rfl
  have h5 : ∀ t, requestLine { r with header := H' } t = requestLine r t := fun _ => rfl
  simp only [h1, h2, h3, h4, h5, hf]

theorem h1Fields_sanitized (r : WReq) (host : Bytes) (f : Framing)
    (hc : r.close = false ∨ hdrGet? r.header sConnection = none) :
    h1Fields { r with header := sanitizedInPlace r.header reqWriteExcludeHeader } host f =
      h1Fields r host f := by
  have hord : orderList (sanitizedInPlace r.header reqWriteExcludeHeader) = orderList r.header := by
    unfold orderList; rw [hdrGet?_sanitized_excluded _ _ _ (by decide)]
  have hua : hdrGet? (sanitizedInPlace r.header reqWriteExcludeHeader) sUserAgent =
      hdrGet? r.header sUserAgent := hdrGet?_sanitized_excluded _ _ _ (by decide)
  have huaf : hdrFirst (sanitizedInPlace r.header reqWriteExcludeHeader) sUserAgent =
      hdrFirst r.header sUserAgent := by unfold hdrFirst; rw [hua]
  have hfr : framingFields { r with header := sanitizedInPlace r.header reqWriteExcludeHeader } f =
      framingFields r f := by
    unfold framingFields
    rcases hc with hc | hc
    · simp [hc]
    · have : hdrFirst (sanitizedInPlace r.header reqWriteExcludeHeader) sConnection =
          hdrFirst r.header sConnection := by
        unfold hdrFirst; rw [hdrGet?_sanitized_none _ _ _ hc, hc]
      simp only [this]
  unfold h1Fields
  simp only [hord, hua, huaf, hfr, writeSubset_sanitizedInPlace]


/-! ### the request after a write -/

theorem leftBehind_cases (r : WReq) :
    leftBehind r = r ∨
      leftBehind r = { r with header := sanitizedInPlace r.header reqWriteExcludeHeader } := by
  unfold leftBehind; split
  · right; rfl
  · left; rfl

/-- **writeRequest_leaves_request_unchanged**: after `persistConn.writeRequest` the request's header
map holds the same keys (names, spellings, count), the same header-order and pseudo-header-order
lists, every entry the writer does not write itself untouched — and whatever it did to the values
it wrote (sanitised in place) is invisible to any later write: the request renders to exactly the
same bytes. (`Request.Close` with a caller `Connection` header is left out: the close decision
reads that header's raw value.) -/
theorem writeRequest_leaves_request_unchanged (r : WReq)
    (hc : r.close = false ∨ hdrGet? r.header sConnection = none) :
    ((writeAttempt r).2.header.map (·.key) = r.header.map (·.key)) ∧
    orderList (writeAttempt r).2.header = orderList r.header ∧
    hdrGet? (writeAttempt r).2.header pseudoHeaderOrderKey = hdrGet? r.header pseudoHeaderOrderKey ∧
    serializeH1 (writeAttempt r).2 = serializeH1 r := by
  have hw : (writeAttempt r).2 = leftBehind r := rfl
  rw [hw]
  rcases leftBehind_cases r with h | h
  · rw [h]; exact ⟨rfl, rfl, rfl, rfl⟩
  · rw [h]
    refine ⟨sanitizedInPlace_keys _ _, ?_,
      hdrGet?_sanitized_excluded r.header reqWriteExcludeHeader pseudoHeaderOrderKey (by decide), ?_⟩
    · unfold orderList
      show (hdrGet? (sanitizedInPlace r.header reqWriteExcludeHeader) headerOrderKey).getD [] = _
      rw [hdrGet?_sanitized_excluded r.header reqWriteExcludeHeader headerOrderKey (by decide)]
    · exact serializeH1_header_congr r _ (fun host f => h1Fields_sanitized r host f hc)

theorem leftBehind_hyp (r : WReq) (hc : r.close = false ∨ hdrGet? r.header sConnection = none) :
    (leftBehind r).close = false ∨ hdrGet? (leftBehind r).header sConnection = none := by
  rcases leftBehind_cases r with h | h
  · rw [h]; exact hc
  · rw [h]
    rcases hc with hc | hc
    · left; exact hc
    · right; exact hdrGet?_sanitized_none _ _ _ hc

/-- **transparent_resend_same_wire**: however often the transport writes the same request object
(dead kept-alive connections in a row), every write puts the same bytes on its connection — same
header lines, same multiplicities, same spelling, same listed order. -/
theorem transparent_resend_same_wire (n : Nat) (r : WReq)
    (hc : r.close = false ∨ hdrGet? r.header sConnection = none) :
    ∀ w ∈ (writeAttempts n r).1, w = serializeH1 r := by
  induction n generalizing r with
  | zero => intro w hw; simp [writeAttempts] at hw
  | succ n ih =>
    intro w hw
    simp only [writeAttempts, writeAttempt, List.mem_cons] at hw
    rcases hw with rfl | hw
    · rfl
    · rw [ih (leftBehind r) (leftBehind_hyp r hc) w hw]
      exact (writeRequest_leaves_request_unchanged r hc).2.2.2

/-- HTTP/2 and HTTP/3 only read the request: every re-encoding of the same request object yields
the same field list and leaves the request as it was. -/
theorem transparent_resend_same_fields (fl : Flavor) (n : Nat) (r : FReq) :
    (∀ w ∈ (encodeAttempts fl n r).1, w = fields fl r) ∧ (encodeAttempts fl n r).2 = r := by
  induction n with
  | zero => simp [encodeAttempts]
  | succ n ih =>
    simp only [encodeAttempts, encodeAttempt, List.mem_cons]
    refine ⟨?_, ih.2⟩
    intro w hw
    rcases hw with rfl | hw
    · rfl
    · exact ih.1 w hw

/-- non-vacuity: a request with an order list, a padded value and a `__` name: the first write
sanitises `  v ` in place; the order list is still there; the second write gives the same bytes. -/
def exReq : WReq :=
  { method := [71, 69, 84], url := { scheme := [104], host := [104], path := [47] },
    header := [⟨[88, 45, 65], [[32, 32, 118, 32]]⟩, ⟨[95, 95, 116], [[49]]⟩,
               ⟨headerOrderKey, [[95, 95, 116], [120, 45, 97]]⟩] }

example :
    (writeAttempt exReq).2.header =
      [⟨[88, 45, 65], [[118]]⟩, ⟨[95, 95, 116], [[49]]⟩, ⟨headerOrderKey, [[95, 95, 116], [120, 45, 97]]⟩] ∧
    (writeAttempts 2 exReq).1.map (·.toOption) =
      [(serializeH1 exReq).toOption, (serializeH1 exReq).toOption] ∧
    (serializeH1 exReq).toOption.isSome = true := by
  decide

/-! ## 3. names next to the bookkeeping keys -/

theorem lower_us (t : Bytes) : lower (95 :: 95 :: t) = 95 :: 95 :: lower t := by
  simp [lower, toLower, isUpper]

/-- **excluded_iff_exactly_two_keys** (byte-string level): among the names that begin with the
internal prefix `__`, `header.IsExcluded` (HTTP/2, HTTP/3) holds for exactly the two in-band keys
(in any letter case) — never for another name that merely shares the prefix, the suffix or a part
with them. -/
theorem excluded_iff_exactly_two_keys (t : Bytes) :
    isExcluded (95 :: 95 :: t) = true ↔
      (lower (95 :: 95 :: t) = headerOrderKey ∨ lower (95 :: 95 :: t) = pseudoHeaderOrderKey) := by
  unfold isExcluded
  rw [lower_us, List.contains_iff_mem]
  simp [excludeLower, sHostL, sContentLengthL, sConnectionL, sProxyConnectionL, sTransferEncodingL,
    sUpgradeL, sKeepAliveL, headerOrderKey, pseudoHeaderOrderKey]

/-- the HTTP/1.1 table (exact key): among the `__` names exactly the two keys as spelled. -/
theorem excluded_h1_iff_exactly_two_keys (t : Bytes) :
    reqWriteExcludeHeader.contains (95 :: 95 :: t) = true ↔
      ((95 :: 95 :: t) = headerOrderKey ∨ (95 :: 95 :: t) = pseudoHeaderOrderKey) := by
  rw [List.contains_iff_mem]
  simp [reqWriteExcludeHeader, sHost, sUserAgent, sContentLength, sTransferEncoding, sTrailer,
    headerOrderKey, pseudoHeaderOrderKey]

/-- a name extending a bookkeeping key (`__header_order__x`, …) is not excluded. -/
theorem key_extension_not_excluded (s : Bytes) (hs : s ≠ []) :
    isExcluded (headerOrderKey ++ s) = false ∧ isExcluded (pseudoHeaderOrderKey ++ s) = false := by
  constructor
  · rw [Bool.eq_false_iff]
    intro h
    unfold isExcluded at h
    rw [List.contains_iff_mem] at h
    simp [lower, toLower, isUpper, excludeLower, sHostL, sContentLengthL, sConnectionL, sProxyConnectionL,
      sTransferEncodingL, sUpgradeL, sKeepAliveL, headerOrderKey, pseudoHeaderOrderKey, hs] at h
  · rw [Bool.eq_false_iff]
    intro h
    unfold isExcluded at h
    rw [List.contains_iff_mem] at h
    simp [lower, toLower, isUpper, excludeLower, sHostL, sContentLengthL, sConnectionL, sProxyConnectionL,
      sTransferEncodingL, sUpgradeL, sKeepAliveL, headerOrderKey, pseudoHeaderOrderKey, hs] at h

/-- a proper prefix of a bookkeeping key (`__header_order`, `__`, …) is not excluded. -/
theorem key_prefix_not_excluded (n : Nat) :
    (n < headerOrderKey.length → isExcluded (headerOrderKey.take n) = false) ∧
    (n < pseudoHeaderOrderKey.length → isExcluded (pseudoHeaderOrderKey.take n) = false) := by
  constructor
  · intro h
    have : n < 16 := h
    have : ∀ m, m < 16 → isExcluded (headerOrderKey.take m) = false := by decide
    exact this n h
  · intro h
    have : ∀ m, m < 23 → isExcluded (pseudoHeaderOrderKey.take m) = false := by decide
    exact this n h

/-- … nor is a proper suffix (`header_order__`, `_header_order__`, …). -/
theorem key_suffix_not_excluded (n : Nat) (h0 : 0 < n) :
    isExcluded (headerOrderKey.drop n) = false ∧ isExcluded (pseudoHeaderOrderKey.drop n) = false := by
  by_cases h : n < 24
  · have : ∀ m, m < 24 → 0 < m →
        isExcluded (headerOrderKey.drop m) = false ∧ isExcluded (pseudoHeaderOrderKey.drop m) = false := by
      decide
    exact this n h h0
  · have h1 : headerOrderKey.drop n = [] := List.drop_eq_nil_of_le (by simp [headerOrderKey]; omega)
    have h2 : pseudoHeaderOrderKey.drop n = [] := List.drop_eq_nil_of_le (by simp [pseudoHeaderOrderKey]; omega)
    rw [h1, h2]; decide

theorem us_ordinary (t : Bytes) (h1 : (95 :: 95 :: t) ≠ headerOrderKey)
    (h2 : (95 :: 95 :: t) ≠ pseudoHeaderOrderKey) : ordinary (95 :: 95 :: t) = true := by
  unfold ordinary
  have : special.contains (95 :: 95 :: t) = false := by
    rw [Bool.eq_false_iff, Ne, List.contains_iff_mem]
    intro hm
    simp [special, sHostL, sUserAgentL, sContentLengthL, sTransferEncodingL, sTrailer, sConnectionL,
      sProxyConnectionL, sUpgradeL, sKeepAliveL, sCookieL, sAcceptEncodingL, lower, toLower, isUpper] at hm
    rcases hm with hm | hm
    · exact h1 (by rw [hm])
    · exact h2 (by rw [hm])
  rw [this]; simp

/-- **names next to the bookkeeping keys travel like any other header, on all three stacks**: for a
lower-case name that begins with `__` and is not one of the two keys, HTTP/1.1, HTTP/2 and HTTP/3
carry the same number of fields of that name — the number of values the caller gave. -/
theorem underscore_names_three_stacks
    (w : WReq) (r : FReq) (hsame : r.header = w.header) (host : Bytes) (f : Framing)
    (fs2 fs3 : List (Bytes × Bytes)) (t : Bytes)
    (h1 : (95 :: 95 :: t) ≠ headerOrderKey) (h2 : (95 :: 95 :: t) ≠ pseudoHeaderOrderKey)
    (hvalid : ∀ kv ∈ w.header, validHeaderFieldName kv.key = true)
    (hextra : ∀ kv ∈ w.extra, (lower kv.key == (95 :: 95 :: t)) = false)
    (h2f : fields .h2 r = .ok fs2) (h3f : fields .h3 r = .ok fs3) :
    (linesOf (h1Fields w host f)).countP (nameIs (95 :: 95 :: t)) = fs2.countP (fun f => f.1 == (95 :: 95 :: t)) ∧
    fs2.countP (fun f => f.1 == (95 :: 95 :: t)) = fs3.countP (fun f => f.1 == (95 :: 95 :: t)) ∧
    fs3.countP (fun f => f.1 == (95 :: 95 :: t)) = (linesOf w.header).countP (nameIs (95 :: 95 :: t)) :=
  same_description_three_stacks w r hsame host f fs2 fs3 _ (us_ordinary t h1 h2) hvalid hextra h2f h3f


/-- non-vacuity: `__RequestVerificationToken`-like names (`__t`), `__header_order` and
`__header_order__x` are not excluded; the keys themselves are, in any case. -/
example :
    isExcluded [95, 95, 116] = false ∧ isExcluded (headerOrderKey.take 14) = false ∧
    isExcluded (headerOrderKey ++ [120]) = false ∧ isExcluded headerOrderKey = true ∧
    isExcluded (headerOrderKey.map toUpper) = true ∧
    reqWriteExcludeHeader.contains [95, 95, 116] = false := by decide

end Req.Props.C16Round5
