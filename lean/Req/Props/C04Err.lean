import Req.H1.ErrClass
import Req.Lemmas.H1Mime
import Req.Lemmas.H1Body
/-!
C04 — error kinds.  `Req.H1.ErrClass` is a conservative extension of the response reader:

* `parseHeadE_ok_iff` — for every buffer size `B`, `parseHeadE` accepts exactly the heads
  `parseHead` accepts, with the same message and the same rest (the `B`-dependent
  unterminated-line corner only ever changes the class of a rejection).
* `readBodyE_fst`, `readBodyE_class_iff` — the body result is `readBody`'s; a class is reported
  iff the body did not end in `io.EOF`.
* `parseResponseE_erase` — forgetting the classes gives `parseResponse`: every C04/C03 theorem
  about `parseResponse` holds for the class-reporting reader.
* `reject_class_*` — the malformed classes of the grammar map to their error class.
-/
namespace Req.Props.C04
open Req.Proto Req.H1

/-! ### lines -/

theorem readLineB_eq_or (B : Nat) (s : Bytes) :
    readLineB B s = readLine s ∨ (readLineB B s = none ∧ readLine s = some (s, []) ∧ s ≠ []) := by
  cases s with
  | nil => left; rfl
  | cons c cs =>
    cases hs : splitLF (c :: cs) with
    | some p => left; simp [readLineB, readLine, hs]
    | none =>
      by_cases hu : untermEOF B (cs.length + 1 + 1) (c :: cs) = true
      · right; simp [readLineB, readLine, hs, hu]
      · left; simp [readLineB, readLine, hs, hu]

theorem readContB_rel (B : Nat) (fuel : Nat) (acc s : Bytes) :
    readContB B fuel acc s = readCont fuel acc s ∨
    ((readContB B fuel acc s).2 = [] ∧ (readCont fuel acc s).2 = []) := by
  induction fuel generalizing acc s with
  | zero => left; rfl
  | succ f ih =>
    simp only [readContB, readCont]
    by_cases hn : countOWS s = 0
    · left; simp [hn]
    · simp only [hn, if_false]
      rcases readLineB_eq_or B (s.drop (countOWS s)) with he | ⟨hb, hp, _⟩
      · rw [he]
        cases readLine (s.drop (countOWS s)) with
        | none => left; rfl
        | some p => obtain ⟨l, rest⟩ := p; exact ih _ _
      · right
        rw [hb, hp]
        simp [readCont_nil]

theorem mimeLoopE_nil (B fuel : Nat) (m : HeaderMap) : mimeLoopE B fuel m [] = .error .eof := by
  cases fuel <;> simp [mimeLoopE, readLineB]

theorem mimeLoopE_ok_iff (B fuel : Nat) (m : HeaderMap) (s : Bytes) (x : HeaderMap × Bytes) :
    mimeLoopE B fuel m s = .ok x ↔ mimeLoop fuel m s = some x := by
  induction fuel generalizing m s with
  | zero => simp [mimeLoopE, mimeLoop]
  | succ f ih =>
    simp only [mimeLoopE, mimeLoop]
    rcases readLineB_eq_or B s with he | ⟨hb, hp, hne⟩
    · rw [he]
      cases hl : readLine s with
      | none => simp
      | some p =>
        obtain ⟨l, rest⟩ := p
        simp only
        by_cases hblank : l.isEmpty = true
        · simp [hblank]
        · simp only [hblank, Bool.false_eq_true, if_false]
          cases hcol : l.contains 58 with
          | false => simp
          | true =>
            simp only [Bool.not_true, Bool.false_eq_true, if_false]
            rcases readContB_rel B (rest.length + 1) (trimOWS l) rest with hc | ⟨h1, h2⟩
            · rw [hc]
              cases addHeaderLine m (readCont (rest.length + 1) (trimOWS l) rest).1 with
              | none => simp
              | some m' => exact ih m' _
            · -- nothing is left on either side: both fail whatever the line was
              have e1 : ∀ kv r, r = [] →
                  ¬ (match addHeaderLine m kv with
                    | none => (Except.error ErrClass.header : Except ErrClass (HeaderMap × Bytes))
                    | some m' => mimeLoopE B f m' r) = .ok x := by
                intro kv r hr
                subst hr
                cases addHeaderLine m kv <;> simp [mimeLoopE_nil]
              have e2 : ∀ kv r, r = [] →
                  ¬ (match addHeaderLine m kv with
                    | none => (none : Option (HeaderMap × Bytes))
                    | some m' => mimeLoop f m' r) = some x := by
                intro kv r hr
                subst hr
                cases addHeaderLine m kv <;> simp [mimeLoop_nil]
              constructor
              · intro h; exact absurd h (e1 _ _ h1)
              · intro h; exact absurd h (e2 _ _ h2)
    · rw [hb, hp]
      simp only
      have hblank : s.isEmpty = false := by
        cases s with
        | nil => exact absurd rfl hne
        | cons _ _ => rfl
      simp only [hblank, Bool.false_eq_true, if_false]
      cases hcol : s.contains 58 with
      | false => simp
      | true =>
        simp only [Bool.not_true, Bool.false_eq_true, if_false, readCont_nil]
        cases addHeaderLine m (trimOWS s) <;> simp [mimeLoop_nil]

theorem readMIMEHeaderE_ok_iff (B : Nat) (s : Bytes) (x : HeaderMap × Bytes) :
    readMIMEHeaderE B s = .ok x ↔ readMIMEHeader s = some x := by
  cases s with
  | nil => simp [readMIMEHeaderE, readMIMEHeader]
  | cons c cs =>
    simp only [readMIMEHeaderE, readMIMEHeader]
    by_cases hc : isOWS c = true
    · simp [hc]
    · simp only [hc, Bool.false_eq_true, if_false]
      exact mimeLoopE_ok_iff B _ _ _ _

/-- **parseHeadE_ok_iff.** -/
theorem parseHeadE_ok_iff (B : Nat) (isHead : Bool) (s : Bytes) (x : Msg × Bytes) :
    parseHeadE B isHead s = .ok x ↔ parseHead isHead s = some x := by
  unfold parseHeadE parseHead
  rcases readLineB_eq_or B s with he | ⟨hb, hp, _⟩
  · rw [he]
    cases readLine s with
    | none => simp
    | some p =>
      obtain ⟨line, r⟩ := p
      simp only
      cases parseStatusLine line with
      | none => simp
      | some sl =>
        simp only
        cases hE : readMIMEHeaderE B r with
        | error e =>
          have : readMIMEHeader r = none := by
            cases hm : readMIMEHeader r with
            | none => rfl
            | some y => rw [← readMIMEHeaderE_ok_iff B] at hm; rw [hE] at hm; cases hm
          simp [this]
        | ok y =>
          have := (readMIMEHeaderE_ok_iff B r y).mp hE
          obtain ⟨h, r'⟩ := y
          simp only [this]
          cases readTransfer isHead sl (fixPragmaCacheControl h) <;> simp
  · rw [hb, hp]
    simp only
    cases parseStatusLine s with
    | none => simp
    | some sl => simp [readMIMEHeader]

/-- A head is rejected by the class-reporting reader iff it is rejected by the plain one. -/
theorem parseHeadE_error_iff (B : Nat) (isHead : Bool) (s : Bytes) :
    (∃ c, parseHeadE B isHead s = .error c) ↔ parseHead isHead s = none := by
  constructor
  · intro ⟨c, hc⟩
    cases hp : parseHead isHead s with
    | none => rfl
    | some x => rw [← parseHeadE_ok_iff B] at hp; rw [hc] at hp; cases hp
  · intro hn
    cases hE : parseHeadE B isHead s with
    | error c => exact ⟨c, rfl⟩
    | ok x => rw [parseHeadE_ok_iff] at hE; rw [hn] at hE; cases hE

/-! ### body -/

theorem chunkLoopE_erase (fuel B : Nat) (ex : Int) (s : Bytes) :
    (chunkLoopE fuel B ex s).1 = (chunkLoop fuel B ex s).1 ∧
    (chunkLoopE fuel B ex s).2.toOption = (chunkLoop fuel B ex s).2 := by
  induction fuel generalizing ex s with
  | zero => simp [chunkLoopE, chunkLoop, Except.toOption]
  | succ f ih =>
    simp only [chunkLoopE, chunkLoop]
    cases readChunkLine B s with
    | none => simp [Except.toOption]
    | some p =>
      obtain ⟨line, r⟩ := p
      simp only
      cases parseHexUint (chunkSizeField line) with
      | none => simp [Except.toOption]
      | some n =>
        simp only
        by_cases h0 : n = 0
        · simp [h0, Except.toOption]
        · simp only [h0, if_false]
          split
          · simp [Except.toOption]
          · split
            · simp [Except.toOption]
            · have h1 : ∀ ex s, (chunkLoopE f B ex s).1 = (chunkLoop f B ex s).1 := fun ex s => (ih ex s).1
              have h2 : ∀ ex s, (chunkLoopE f B ex s).2.toOption = (chunkLoop f B ex s).2 :=
                fun ex s => (ih ex s).2
              split <;> split <;> simp_all [Except.toOption]

theorem readTrailerE_ok_iff (B : Nat) (decl : HeaderMap) (s : Bytes) (x : HeaderMap × Bytes) :
    readTrailerE B decl s = .ok x ↔ readTrailer B decl s = some x := by
  unfold readTrailerE readTrailer
  split
  · simp
  · split
    · simp
    · split
      · simp
      · cases hE : readMIMEHeaderE B s with
        | error e =>
          have : readMIMEHeader s = none := by
            cases hm : readMIMEHeader s with
            | none => rfl
            | some y => rw [← readMIMEHeaderE_ok_iff B] at hm; rw [hE] at hm; cases hm
          simp [this]
        | ok y =>
          have := (readMIMEHeaderE_ok_iff B s y).mp hE
          obtain ⟨hdr, r⟩ := y
          simp [this]

/-- **readBodyE_fst.** The class-reporting body reader returns `readBody`'s result. -/
theorem readBodyE_fst (B : Nat) (m : Msg) (s : Bytes) : (readBodyE B m s).1 = readBody B m s := by
  unfold readBodyE readBody
  cases m.framing with
  | none => rfl
  | untilClose => rfl
  | length n => simp only; split <;> rfl
  | chunked =>
    simp only [decodeChunkedE, decodeChunked]
    obtain ⟨h1, h2⟩ := chunkLoopE_erase (s.length + 1) B 0 s
    cases hE : chunkLoopE (s.length + 1) B 0 s with
    | mk d e =>
      cases hP : chunkLoop (s.length + 1) B 0 s with
      | mk d' e' =>
        rw [hE, hP] at h1 h2
        simp only at h1 h2
        subst h1
        cases e with
        | error c =>
          simp only [Except.toOption] at h2
          subst h2
          rfl
        | ok r =>
          simp only [Except.toOption] at h2
          subst h2
          simp only
          cases hT : readTrailerE B (declMap m.trailerDecl) r with
          | error c =>
            have : readTrailer B (declMap m.trailerDecl) r = none := by
              cases ht : readTrailer B (declMap m.trailerDecl) r with
              | none => rfl
              | some y => rw [← readTrailerE_ok_iff] at ht; rw [hT] at ht; cases ht
            simp [this]
          | ok y =>
            have := (readTrailerE_ok_iff B _ r y).mp hT
            obtain ⟨tr, rest⟩ := y
            simp [this]

/-- **readBodyE_class_iff.** An error class is reported iff the body did not end in `io.EOF`. -/
theorem readBodyE_class_iff (B : Nat) (m : Msg) (s : Bytes) :
    (readBodyE B m s).2 = none ↔ (readBody B m s).ok = true := by
  rw [← readBodyE_fst]
  unfold readBodyE
  cases m.framing with
  | none => simp
  | untilClose => simp
  | length n => simp only; split <;> simp
  | chunked =>
    simp only
    cases decodeChunkedE B s with
    | mk d e =>
      cases e with
      | error c => simp
      | ok r =>
        simp only
        cases readTrailerE B (declMap m.trailerDecl) r with
        | error c => simp
        | ok y => obtain ⟨tr, rest⟩ := y; simp

/-- **parseResponseE_erase.** -/
theorem parseResponseE_erase (isHead : Bool) (B : Nat) (s : Bytes) :
    (parseResponseE isHead B s).erase = parseResponse isHead B s := by
  unfold parseResponseE parseResponse
  cases hE : parseHeadE B isHead s with
  | error c =>
    have := (parseHeadE_error_iff B isHead s).mp ⟨c, hE⟩
    simp [this, OutcomeE.erase]
  | ok x =>
    have := (parseHeadE_ok_iff B isHead s x).mp hE
    obtain ⟨m, r⟩ := x
    simp only [this, OutcomeE.erase]
    rw [← readBodyE_fst]

/-! ### the malformed classes of the grammar -/

/-- An unsupported or repeated Transfer-Encoding is reported as such (not as a length error),
whatever Content-Length says. -/
theorem reject_class_te {isHead : Bool} {sl : StatusLine} {h0 : HeaderMap}
    (h : parseTransferEncoding
      (if sl.major = 0 ∧ sl.minor = 0 then 1 else sl.major)
      (if sl.major = 0 ∧ sl.minor = 0 then 1 else sl.minor)
      (shouldClose sl.major sl.minor h0).2 = none) :
    readTransfer isHead sl h0 = none ∧ readTransferClass isHead sl h0 = .transferEncoding := by
  unfold readTransfer readTransferClass
  by_cases h00 : sl.major = 0 ∧ sl.minor = 0
  · simp only [h00, and_self, if_true] at h ⊢
    simp [h]
  · simp only [h00, if_false] at h ⊢
    simp [h]

/-- Examples: one input per class (GET, 4096-byte buffer unless stated). -/
example : parseResponseE false 4096 [72,84,84,80,47,49,46,49,32,50,48,32,79,75,13,10,13,10] =
    .reject .statusLine := by decide                      -- "HTTP/1.1 20 OK"
example : parseResponseE false 4096 [72,84,84,80,47,49,46,49,32,50,48,48,32,79,75,13,10,88,13,10,13,10] =
    .reject .header := by decide                          -- header line "X"
example : parseResponseE false 4096 [72,84,84,80,47,49,46,49,32,50,48,48,32,79,75,13,10,88,58,49] =
    .reject .eof := by decide                             -- stream ends inside the header block
/-- The `B`-dependent corner: an unterminated 16-byte status line is `io.EOF` for a 16-byte
buffer and a malformed status line for a larger one. -/
example : parseResponseE false 16 [72,84,84,80,47,49,46,49,32,50,48,32,79,75,32,32] = .reject .eof ∧
    parseResponseE false 64 [72,84,84,80,47,49,46,49,32,50,48,32,79,75,32,32] = .reject .statusLine := by
  decide

end Req.Props.C04
