import Req.Client.RetryDyn
import Req.Lemmas.C10Dyn
import Req.Props.C10
/-!
C10, round 4 — the retry loop with the retry option as mutable state.

A retry hook (condition, response middleware, interval function) can lower or raise the retry
count, install another interval function or cancel the context through `resp.Request` while the
call is in flight, and a `Request` can be sent again (`RetryAttempt` is not reset).  The
theorems below are about `Req.RetryDyn.dloop`, for EVERY behaviour table of edits, every start
value of `RetryAttempt`, every retry count (negative ones included), every outcome script:

* with no edits the dynamic loop is the static one (all theorems of `Req.Props.C10` carry over);
* a pass is followed by another one exactly when the policy IN FORCE AT ITS CHECK wants it and
  no callback of the pass cancelled the context;
* once the attempt counter has reached or passed a non-negative count the pass is the last one
  (`≥`, not `=`: the counter may already be past the count);
* if every count ever in force lies in `[0, M]`, at most `M − RetryAttempt₀ + 1` attempts are made;
* no attempt follows a pass during which the context became done — at whatever point of the pass
  (round trip, response middleware, condition, hook, interval function, wait), for every count.
-/
namespace Req.Props.C10Dyn
open Req.Retry Req.RetryDyn Req.Lemmas.C10Loop Req.Lemmas.C10Dyn

variable {σ W : Type}

/-! ## refinement: no edits = the static loop -/

theorem diteration_nop (v : Variant) (p : Policy σ) (mw : Nat → σ → σ × W)
    (o : Outcome) (ra : Nat) (st : σ) (prev : Option Resp) :
    (diteration v p Edits.nop mw (fun _ => false) o ra st (dynOf p) prev).events = (iteration v p mw o ra st prev).1 ∧
    (diteration v p Edits.nop mw (fun _ => false) o ra st (dynOf p) prev).dyn = dynOf p ∧
    (match (iteration v p mw o ra st prev).2 with
     | .inl f => (diteration v p Edits.nop mw (fun _ => false) o ra st (dynOf p) prev).out = .inl f
     | .inr x => (diteration v p Edits.nop mw (fun _ => false) o ra st (dynOf p) prev).out = .inr x.2 ∧
        (diteration v p Edits.nop mw (fun _ => false) o ra st (dynOf p) prev).st = x.1 ∧
        (diteration v p Edits.nop mw (fun _ => false) o ra st (dynOf p) prev).ra = ra + 1) := by
  unfold diteration iteration
  by_cases ho : o = .beforeErr
  · simp [ho]
  · simp only [ho, ↓reduceIte, editsOf_nop, withDyn_dynOf]
    generalize roundTrip v ra o = rt
    generalize runAfter (W := W) v _ ra p.after 0 rt.2 = a
    by_cases hab : a.2.2 = true
    · simp [hab]
    · simp only [hab, Bool.false_eq_true, ↓reduceIte]
      by_cases hcr : cannotRetry p o ra = true
      · simp [hcr]
      · simp only [hcr, Bool.false_eq_true, ↓reduceIte]
        unfold retryStage askConds
        simp only [editsOf_nop]
        generalize (if p.conds.isEmpty then (([] : List (Event W)), a.2.1.isSome)
          else evalConds ⟨ra, viewOf rt.1, a.2.1.map (·.2)⟩ p.conds.reverse) = c
        by_cases hc : c.2 = true
        · simp only [hc, Bool.not_true, Bool.false_eq_true, ↓reduceIte, Bool.true_eq_false]
          unfold waitStage hookEvs hookState
          simp only [applyEv_nop]
          cases rt.1 with
          | none => simp [dynOf]
          | some r => by_cases hd : o.ctxDone = true <;> simp [hd, dynOf]
        · have hc' : c.2 = false := by simpa using hc
          simp [hc']

/-- **dyn_refines_static**: when no callback touches the retry option or the context, the loop
with mutable state produces exactly the events and the result of `Req.Retry.loop` — for every
variant, policy, script and start value of `RetryAttempt`.  Every theorem of `Req.Props.C10`
about `loop` is therefore a theorem about `dloop … Edits.nop`. -/
theorem dyn_refines_static (v : Variant) (p : Policy σ) (mw : Nat → σ → σ × W)
    (script : List Outcome) (ra : Nat) (st : σ) (prev : Option Resp) :
    (dloop v p Edits.nop mw (fun _ => false) script ra st (dynOf p) prev).1 = (loop v p mw script ra st prev).1 ∧
    (dloop v p Edits.nop mw (fun _ => false) script ra st (dynOf p) prev).2.1 = (loop v p mw script ra st prev).2 := by
  induction script generalizing ra st prev with
  | nil => simp [dloop, loop]
  | cons o rest ih =>
    obtain ⟨h1, h2, h3⟩ := diteration_nop v p mw o ra st prev
    unfold dloop loop
    cases hit : iteration v p mw o ra st prev with
    | mk ev res =>
      rw [hit] at h1 h3
      cases res with
      | inl f =>
        simp only at h3
        simp [h3, h1]
      | inr x =>
        obtain ⟨s', pr⟩ := x
        simp only at h3
        obtain ⟨ha, hb, hc⟩ := h3
        simp only [ha, h1, h2, hb, hc]
        exact ⟨by rw [(ih (ra + 1) s' pr).1], (ih (ra + 1) s' pr).2⟩

/-- `Request.Do`, first send: the dynamic model is `Req.Retry.run` — for the code without the
in-loop refusal of C10-8, and for the repaired code whenever that refusal has nothing to refuse
(with a fixed policy `Do`'s up-front refusal has dealt with every unreplayable body already). -/
theorem dsend_refines_run (v : Variant) (p : Policy σ) (mw : Nat → σ → σ × W) (unrep : σ → Bool)
    (script : List Outcome) (st : σ) (h : v.loopRefuse = false ∨ ∀ s, unrep s = false) :
    (dsend v p Edits.nop mw unrep script 0 st (dynOf p)).1 = (run v p mw (unrep st) script st).events ∧
    (dsend v p Edits.nop mw unrep script 0 st (dynOf p)).2.1 = (run v p mw (unrep st) script st).final := by
  have hsu : (fun s => v.loopRefuse && unrep s) = fun _ => false := by
    funext s
    rcases h with h | h
    · simp [h]
    · simp [h s]
  unfold dsend run
  rw [hsu]
  by_cases hc : (p.enabled && p.maxRetries != 0 && unrep st) = true
  · simp [dynOf, hc]
  · simp only [dynOf] at hc ⊢
    simp only [hc, Bool.false_eq_true, ↓reduceIte]
    exact dyn_refines_static v p mw script 0 st none

/-! ## one pass: exactly when does the loop go round again -/

theorem need_withDyn (p : Policy σ) (d : Dyn) (o : Outcome) (ra : Nat) :
    need (withDyn p d) o ra = need p o ra := rfl

theorem aborted_withDyn (p : Policy σ) (d : Dyn) (o : Outcome) (ra : Nat) :
    aborted (withDyn p d) o ra = aborted p o ra := rfl

/-- **dyn_retry_iff** (repaired code): pass `(o, ra)` is followed by another pass exactly when
the specification `wants` it under the policy in force at the pass's check — the retry option
as the request-level response middleware of THIS pass left it — and no callback of the pass
(response middleware, condition, hook, interval function) cancelled the context. -/
theorem dyn_retry_iff (p : Policy σ) (ed : Edits) (mw : Nat → σ → σ × W)
    (su : σ → Bool) (o : Outcome) (ra : Nat) (st : σ) (d : Dyn) (prev : Option Resp) :
    (∃ x, (diteration R p ed mw su o ra st d prev).out = .inr x) ↔
      wants (withDyn p (dynAtCheck W R p ed o ra d)) o ra = true ∧
      (diteration R p ed mw su o ra st d prev).dyn.ctxDone = false ∧
      (o ≠ .beforeErr → su (mw ra st).1 = false) := by
  rw [wants_eq, need_withDyn, aborted_withDyn]
  by_cases ho : o = .beforeErr
  · subst ho
    simp [diteration]
  · have hne : (o != Outcome.beforeErr) = true := by simpa using ho
    have hmm : ∀ e : Option ErrKind, Option.map (fun x : Err => x.2) (Option.map (fun k => (ra, k)) e) = e := by
      intro e; cases e <;> rfl
    have hstop : (runAfter (W := W) R ⟨ra, o.view, o.errKind⟩ ra p.after 0 (o.errKind.map (ra, ·))).2.2
        = aborted p o ra := by
      rw [runAfter_stop]; rfl
    unfold diteration dynAtCheck
    simp only [ho, ↓reduceIte, roundTrip_repaired R rfl ra o ho, viewOf, Option.bind_some, hmm, hne,
      Bool.true_and]
    by_cases hab : aborted p o ra = true
    · simp [hstop, hab]
    · have hab' : aborted p o ra = false := by simpa using hab
      have herr : (runAfter (W := W) R ⟨ra, o.view, o.errKind⟩ ra p.after 0 (o.errKind.map (ra, ·))).2.1
          = o.errKind.map (ra, ·) := by
        apply runAfter_err_repaired R rfl
        simpa [aborted] using hab'
      simp only [hstop, hab', Bool.false_eq_true, ↓reduceIte, herr, Bool.not_false, Bool.true_and]
      generalize editsOf ed d (runAfter (W := W) R ⟨ra, o.view, o.errKind⟩ ra p.after 0 (o.errKind.map (ra, ·))).1 = d1
      by_cases hc : cannotRetry (withDyn p d1) o ra = true
      · simp [hc]
      · have hc' : cannotRetry (withDyn p d1) o ra = false := by simpa using hc
        simp only [hc', Bool.false_eq_true, ↓reduceIte, Bool.not_false, Bool.true_and]
        by_cases hsu : su (mw ra st).1 = true
        · simp [hsu, ho]
        have hsu' : su (mw ra st).1 = false := by simpa using hsu
        simp only [hsu', Bool.false_eq_true, ↓reduceIte]
        have hask : (askConds (W := W) p ra o.view (o.errKind.map (ra, ·))).2 = need p o ra := by
          rw [need_eq (W := W)]
          unfold askConds
          simp only [hmm, Option.isSome_map, obsOf]
          split <;> rfl
        constructor
        · rintro ⟨x, hx⟩
          obtain ⟨a, b, -, c⟩ := retryStage_cont _ _ _ _ _ _ _ _ _ _ _ hx
          rw [hask] at c
          exact ⟨by simp [a, c], b, fun _ => trivial⟩
        · rintro ⟨h1, h2, -⟩
          simp only [Bool.and_eq_true, Bool.not_eq_true'] at h1
          unfold retryStage at h2 ⊢
          simp only [hask, h1.1, Bool.true_eq_false, ↓reduceIte] at h2 ⊢
          refine ⟨_, waitStage_goes _ _ _ _ _ _ _ _ h1.2 ?_⟩
          rw [← (waitStage_tail (W := W) ed o ra o.view (some ⟨ra, o.view, o.errKind.map (ra, ·)⟩) _ _ _).2.1]
          exact h2

/-- **dyn_past_count_stops**: when the "absolutely cannot retry" test of a pass finds a
non-negative count that the attempt counter has reached OR PASSED — the count was lowered in
flight, or the `Request` is sent again with a smaller budget — the pass is the last one. -/
theorem dyn_past_count_stops (v : Variant) (p : Policy σ) (ed : Edits) (mw : Nat → σ → σ × W)
    (su : σ → Bool) (o : Outcome) (ra : Nat) (st : σ) (d : Dyn) (prev : Option Resp)
    (h0 : 0 ≤ (dynAtCheck W v p ed o ra d).maxRetries)
    (h1 : (dynAtCheck W v p ed o ra d).maxRetries ≤ ra) :
    ∃ f, (diteration v p ed mw su o ra st d prev).out = .inl f := by
  cases hout : (diteration v p ed mw su o ra st d prev).out with
  | inl f => exact ⟨f, rfl⟩
  | inr x =>
    obtain ⟨-, -, hc, -⟩ := diteration_cont v p ed mw su o ra st d prev x hout
    simp [cannotRetry, withDyn, h0, h1] at hc

/-- … and so is every pass made without a retry option in force at its check. -/
theorem dyn_disabled_stops (v : Variant) (p : Policy σ) (ed : Edits) (mw : Nat → σ → σ × W)
    (su : σ → Bool) (o : Outcome) (ra : Nat) (st : σ) (d : Dyn) (prev : Option Resp)
    (h : (dynAtCheck W v p ed o ra d).enabled = false) :
    ∃ f, (diteration v p ed mw su o ra st d prev).out = .inl f := by
  cases hout : (diteration v p ed mw su o ra st d prev).out with
  | inl f => exact ⟨f, rfl⟩
  | inr x =>
    obtain ⟨-, -, hc, -⟩ := diteration_cont v p ed mw su o ra st d prev x hout
    simp [cannotRetry, withDyn, h] at hc

/-- **unreplayable_never_retried** (C10-8): a pass whose request carries a body that cannot be
replayed (`su`) is the last one — whatever the retry option says by then, however it came about
(set before the call, or by a middleware / hook while the call is in flight). -/
theorem unreplayable_never_retried (v : Variant) (p : Policy σ) (ed : Edits) (mw : Nat → σ → σ × W)
    (su : σ → Bool) (o : Outcome) (ra : Nat) (st : σ) (d : Dyn) (prev : Option Resp)
    (h : su (mw ra st).1 = true) :
    ∃ f, (diteration v p ed mw su o ra st d prev).out = .inl f := by
  cases hout : (diteration v p ed mw su o ra st d prev).out with
  | inl f => exact ⟨f, rfl⟩
  | inr x =>
    obtain ⟨-, -, -, -, -, -, hs⟩ := diteration_cont v p ed mw su o ra st d prev x hout
    rw [h] at hs; cases hs

/-! ## the context, at any point of a pass, for any count -/

theorem apply_ctxDone_mono (e : Edit) (d : Dyn) (h : d.ctxDone = true) : (e.apply d).ctxDone = true := by
  unfold Edit.apply
  cases hc : e.count <;> cases hi : e.interval <;> simp [Dyn.get, h] <;> split <;> simp [h]

theorem apply_cancel (e : Edit) (d : Dyn) (h : e.cancel = true) : (e.apply d).ctxDone = true := by
  unfold Edit.apply
  simp [h]

theorem editsOf_ctxDone_mono (ed : Edits) (d : Dyn) (ev : List (Event W)) (h : d.ctxDone = true) :
    (editsOf ed d ev).ctxDone = true := by
  induction ev generalizing d with
  | nil => exact h
  | cons e t ih => exact ih _ (apply_ctxDone_mono _ _ h)

/-- A callback that cancels the context leaves it done for the rest of the pass. -/
theorem editsOf_cancel (ed : Edits) (d : Dyn) (ev : List (Event W)) (e : Event W) (he : e ∈ ev)
    (hc : (editOf ed e).cancel = true) : (editsOf ed d ev).ctxDone = true := by
  induction ev generalizing d with
  | nil => cases he
  | cons e' t ih =>
    rcases List.mem_cons.mp he with rfl | h
    · exact editsOf_ctxDone_mono ed _ t (apply_cancel _ _ hc)
    · exact ih _ h

/-- **dyn_no_attempt_after_context_done**: if during pass `(o, ra)` the request's context
becomes done — the round trip fails with `context.Canceled`, the context's deadline passes or
the caller cancels while the attempt is in flight, or ANY callback of the pass (request-level
response middleware, retry condition, retry hook, the interval function) cancels it — then no
further attempt is made: the whole loop makes exactly this one pass.  For every retry count
(negative = "unbounded" included), every policy, every table of edits, every variant. -/
theorem dyn_no_attempt_after_context_done (v : Variant) (p : Policy σ) (ed : Edits)
    (mw : Nat → σ → σ × W) (o : Outcome) (rest : List Outcome) (ra : Nat) (st : σ) (d : Dyn)
    (prev : Option Resp)
    (h : o = .cancelled ∨ o.ctxDone = true ∨
      ∃ e ∈ (diteration v p ed mw su o ra st d prev).events, (editOf ed e).cancel = true) :
    iterations (dloop v p ed mw su (o :: rest) ra st d prev).1 = 1 ∧
    (dloop v p ed mw su (o :: rest) ra st d prev).2.2.rest = rest := by
  have hs := diteration_shape v p ed mw su o ra st d prev
  cases hout : (diteration v p ed mw su o ra st d prev).out with
  | inl f => rw [dloop_cons_stop v p ed mw su o rest ra st d prev f hout]; exact ⟨hs.2, rfl⟩
  | inr x =>
    exfalso
    obtain ⟨-, hoc, -, hcd, hdd, -, -⟩ := diteration_cont v p ed mw su o ra st d prev x hout
    rcases h with h | h | ⟨e, he, hc⟩
    · exact hoc h
    · rw [h] at hcd; cases hcd
    · rw [hs.1, editsOf_cancel ed d _ e he hc] at hdd; cases hdd

/-! ## the bound, with counts that change in flight and a start value of `RetryAttempt` -/

/-- The count in force lies in `[0, M]` (when there is a retry option at all). -/
def Bounded (M : Int) (d : Dyn) : Prop := d.enabled = true → 0 ≤ d.maxRetries ∧ d.maxRetries ≤ M

/-- Every count a callback ever sets lies in `[0, M]`. -/
def EditsBounded (M : Int) (ed : Edits) : Prop :=
  ∀ {W : Type} (e : Event W) (n : Int), (editOf ed e).count = some n → 0 ≤ n ∧ n ≤ M

theorem bounded_apply (M : Int) (hM : 0 ≤ M) (e : Edit) (d : Dyn)
    (he : ∀ n, e.count = some n → 0 ≤ n ∧ n ≤ M) (hd : Bounded M d) : Bounded M (e.apply d) := by
  unfold Bounded Edit.apply at *
  cases hc : e.count with
  | some n =>
    have := he n hc
    cases hi : e.interval <;> by_cases hen : d.enabled = true <;> simp_all [Dyn.get]
  | none =>
    cases hi : e.interval <;> by_cases hen : d.enabled = true <;> simp_all [Dyn.get]

theorem bounded_editsOf (M : Int) (hM : 0 ≤ M) (ed : Edits) (hed : EditsBounded M ed) (d : Dyn)
    (ev : List (Event W)) (hd : Bounded M d) : Bounded M (editsOf ed d ev) := by
  induction ev generalizing d with
  | nil => exact hd
  | cons e t ih => exact ih _ (bounded_apply M hM _ d (fun n hn => hed e n hn) hd)

/-- **dyn_attempts_bound**: if the retry count in force when the loop is entered and every count
any callback sets in flight lie in `[0, M]`, then a call that starts with `RetryAttempt = ra`
(0 for a fresh request, the leftover of the previous call for a `Request` sent again) makes at
most `M − ra + 1` attempts (one, if the counter is already past `M`).  For every variant,
policy, table of edits, outcome script. -/
theorem dyn_attempts_bound (M : Int) (hM : 0 ≤ M) (v : Variant) (p : Policy σ) (ed : Edits)
    (hed : EditsBounded M ed) (mw : Nat → σ → σ × W) (su : σ → Bool) (script : List Outcome) (ra : Nat)
    (st : σ) (d : Dyn) (prev : Option Resp) (hd : Bounded M d) :
    iterations (dloop v p ed mw su script ra st d prev).1 ≤ (M - ra).toNat + 1 := by
  induction script generalizing ra st d prev with
  | nil => simp [dloop, iterations]
  | cons o rest ih =>
    have hs := diteration_shape v p ed mw su o ra st d prev
    cases hout : (diteration v p ed mw su o ra st d prev).out with
    | inl f => rw [dloop_cons_stop v p ed mw su o rest ra st d prev f hout]; simp only [hs.2]; omega
    | inr x =>
      rw [dloop_cons_cont v p ed mw su o rest ra st d prev x hout]
      obtain ⟨-, -, hc, -, -, hra, -⟩ := diteration_cont v p ed mw su o ra st d prev x hout
      have hb : Bounded M (dynAtCheck W v p ed o ra d) := bounded_editsOf M hM ed hed d _ hd
      have hen : (dynAtCheck W v p ed o ra d).enabled = true := by
        cases h : (dynAtCheck W v p ed o ra d).enabled with
        | true => rfl
        | false => simp [cannotRetry, withDyn, h] at hc
      obtain ⟨h0, h1⟩ := hb hen
      have hlt : (ra : Int) < (dynAtCheck W v p ed o ra d).maxRetries := by
        simp only [cannotRetry, withDyn, hen, Bool.not_true, Bool.or_false, Bool.or_eq_false_iff,
          Bool.and_eq_false_imp, decide_eq_true_eq, decide_eq_false_iff_not] at hc
        have := hc.2
        omega
      have hd' : Bounded M (diteration v p ed mw su o ra st d prev).dyn := by
        rw [hs.1]; exact bounded_editsOf M hM ed hed d _ hd
      have := ih (diteration v p ed mw su o ra st d prev).ra (diteration v p ed mw su o ra st d prev).st
        (diteration v p ed mw su o ra st d prev).dyn x hd'
      rw [hra] at this ⊢
      simp only [iterations_append, hs.2]
      omega

/-- The same for `Request.Do` on a request as a previous call left it (a refusal makes no attempt). -/
theorem resend_attempts_bound (M : Int) (hM : 0 ≤ M) (v : Variant) (p : Policy σ) (ed : Edits)
    (hed : EditsBounded M ed) (mw : Nat → σ → σ × W) (unrep : σ → Bool) (script : List Outcome)
    (ra : Nat) (st : σ) (d : Dyn) (hd : Bounded M d) :
    iterations (dsend v p ed mw unrep script ra st d).1 ≤ (M - ra).toNat + 1 := by
  unfold dsend
  split
  · simp [iterations]
  · exact dyn_attempts_bound M hM v p ed hed mw _ script ra st d none hd

/-! ## non-vacuity -/

section examples
open Req.Props.C10

/-- retry everything; hooks 0 and 1 -/
def exP (n : Int) : Policy Unit := ⟨true, n, [(0, fun _ => true)], [(0, fun _ s => s), (1, fun _ s => s)], [], .fixed 1⟩

/-- hook 1 lowers the count to 1 when it sees attempt 2 (the usual way to stop retries from a hook) -/
def exLower : Edits :=
  { Edits.nop with hook := fun id o => if id = 1 ∧ o.attempt = 2 then ⟨some 1, none, false⟩ else .nop }

/-- count 5, lowered to 1 during the second retry: the third attempt (already decided) is made,
then the counter (2) is PAST the count (1) and the loop stops: 3 attempts, not 6 — and not
"without bound", which is what `RetryAttempt == MaxRetries` would give. -/
example : iterations (dloop R (exP 5) exLower exMw (fun _ => false) (List.replicate 9 (.status 503)) 0 () (dynOf (exP 5)) none).1 = 3 := by
  decide
/-- without the edit: 6 attempts -/
example : iterations (dloop R (exP 5) Edits.nop exMw (fun _ => false) (List.replicate 9 (.status 503)) 0 () (dynOf (exP 5)) none).1 = 6 := by
  decide
/-- a `Request` that used 2 retries, sent again with a count of 1: one attempt -/
example : iterations (dsend R (exP 1) Edits.nop exMw (fun _ => false) (List.replicate 9 (.status 503)) 2 () (dynOf (exP 1))).1 = 1 := by
  decide
/-- … two sends in a row through `dsends`: 3 attempts, then `SetRetryCount(1)` and 1 attempt -/
example : (dsends R (exP 2) Edits.nop exMw (fun _ => false) [[⟨some 1, none, false⟩]]
    (List.replicate 9 (.status 503)) 0 () (dynOf (exP 2))).map (fun r => iterations r.1) = [3, 1] := by
  decide
/-- a hook raises the count from 1 to 3 in flight: 4 attempts (`dyn_attempts_bound` with `M = 3`) -/
example : iterations (dloop R (exP 1)
    { Edits.nop with hook := fun id _ => if id = 0 then ⟨some 3, none, false⟩ else .nop }
    exMw (fun _ => false) (List.replicate 9 (.status 503)) 0 () (dynOf (exP 1)) none).1 = 4 := by
  decide
/-- a response middleware enables retries on a request that has no retry option: the default
rule and the default interval apply from that pass on -/
example : iterations (dloop R (⟨false, 0, [], [], [fun _ => false], .dflt⟩ : Policy Unit)
    { Edits.nop with after := fun _ _ => ⟨some 2, none, false⟩ }
    exMw (fun _ => false) [.transportErr, .transportErr, .transportErr, .transportErr] 0 () ⟨false, 0, .dflt, false⟩ none).1 = 3 := by
  decide
/-- unbounded count, the hook cancels the context during the third retry: 3 attempts, the
context's error is returned (`dyn_no_attempt_after_context_done`) -/
example : iterations (dloop R (exP (-1))
    { Edits.nop with hook := fun id o => if id = 0 ∧ o.attempt = 3 then ⟨none, none, true⟩ else .nop }
    exMw (fun _ => false) (List.replicate 9 (.status 503)) 0 () (dynOf (exP (-1))) none).1 = 3 ∧
    ((dloop R (exP (-1))
    { Edits.nop with hook := fun id o => if id = 0 ∧ o.attempt = 3 then ⟨none, none, true⟩ else .nop }
    exMw (fun _ => false) (List.replicate 9 (.status 503)) 0 () (dynOf (exP (-1))) none).2.1).returned =
      some (some (2, .status 503), some (2, .waitCtx)) := by
  decide
/-- … the interval function cancels it during the first retry -/
example : iterations (dloop R (exP (-1)) { Edits.nop with ivl := fun a _ => ⟨none, none, a == 1⟩ }
    exMw (fun _ => false) (List.replicate 9 (.status 503)) 0 () (dynOf (exP (-1))) none).1 = 1 := by
  decide
/-- a hook installs another interval function: the interval call of the same retry already uses it -/
example : calls (dloop R (exP 1)
    { Edits.nop with hook := fun id _ => if id = 1 then ⟨none, some (.fixed 7), false⟩ else .nop }
    exMw (fun _ => false) [.status 503, .status 200] 0 () (dynOf (exP 1)) none).1 = [.hook 1 1, .hook 0 1, .interval 1] ∧
    (dloop R (exP 1)
    { Edits.nop with hook := fun id _ => if id = 1 then ⟨none, some (.fixed 7), false⟩ else .nop }
    exMw (fun _ => false) [.status 503, .status 200] 0 () (dynOf (exP 1)) none).2.2.dyn.interval = .fixed 7 := by
  decide

/-- C10-8: a request without retry option whose body is a reader; the response middleware
switches retries on in flight.  As found: three attempts (the 2nd and 3rd with the drained
reader); repaired: one. -/
example : iterations (dsend { R with loopRefuse := false } (⟨false, 0, [], [], [fun _ => false], .dflt⟩ : Policy Unit)
    { Edits.nop with after := fun _ _ => ⟨some 2, none, false⟩ } exMw (fun _ => true)
    [.transportErr, .transportErr, .transportErr, .transportErr] 0 () ⟨false, 0, .dflt, false⟩).1 = 3 ∧
  iterations (dsend R (⟨false, 0, [], [], [fun _ => false], .dflt⟩ : Policy Unit)
    { Edits.nop with after := fun _ _ => ⟨some 2, none, false⟩ } exMw (fun _ => true)
    [.transportErr, .transportErr, .transportErr, .transportErr] 0 () ⟨false, 0, .dflt, false⟩).1 = 1 := by
  decide

end examples

end Req.Props.C10Dyn
