import Req.Lemmas.C05Emit
import Req.H3.Rfc9114
/-!
C05 — "whatever the client encodes (HPACK/QPACK field sections …) decodes in the reference decoder
to exactly what was encoded": the field list the two `encodeHeaders` functions hand to the
encoders (`Req.H2.fieldsX`, the model the lanes `h2emit`/`h3emit` compare the reference decoders'
output with) is, for EVERY request and EVERY combination of the two order options, a well-formed
request field section — the one the client's own receive side (`parseHeaders`, `checkPseudos`)
and RFC 9113 §8.2–8.3 / RFC 9114 §4.2–4.3 demand.

* `emitted_fields_wellformed` — the statement
* `emitted_section_ok`        — the same through the decidable check the lanes run on decoded sections
* `emitted_set`               — neither order option adds, drops or repeats a field
* `fieldsX_conservative`      — the extended model is the shared C01/C16 model when no trailers
                                 are announced and the request is not an Extended CONNECT
-/
namespace Req.Props.C05
open Req.Proto Req.Ascii Req.HeaderSort Req.H1 Req.H2 Req.Lemmas.C05.Emit

/-- **emitted_fields_wellformed**: for every request the writers accept — any method, URL, header
map (in any iteration order), body kind, announced trailers, Extended CONNECT or not — and for all
four combinations {no order, header order, pseudo-header order, both} (the order lists are
entries of the header map, arbitrary), the emitted list is `ps ++ rs` where
* `ps` carries exactly the pseudo-header fields of the request, EACH EXACTLY ONCE (its names are a
  permutation of the duplicate-free `pseudoNames`), every one a request pseudo-header, `:method`
  and `:authority` among them;
* no field of `rs` is a pseudo-header field: all pseudo-header fields precede all regular fields;
* every name in `rs` is a non-empty token without upper-case letters;
* no name in `rs` is connection-specific (`connection`, `proxy-connection`, `transfer-encoding`,
  `upgrade`, `keep-alive`). -/
theorem emitted_fields_wellformed (fl : Flavor) (x : XReq) (fs : List (Bytes × Bytes))
    (h : fieldsX fl x = .ok fs) :
    ∃ ps rs, fs = ps ++ rs ∧
      (ps.map (·.1)).Perm (pseudoNames fl x) ∧ (pseudoNames fl x).Nodup ∧
      (∀ n ∈ pseudoNames fl x, n ∈ requestPseudoNames ∧ n.head? = some 58) ∧
      sMethod ∈ pseudoNames fl x ∧ sAuthority ∈ pseudoNames fl x ∧
      ∀ f ∈ rs, f.1.head? ≠ some 58 ∧ f.1 ≠ [] ∧
        (∀ c ∈ f.1, isTokenByte c = true ∧ isUpper c = false) ∧ f.1 ∉ connectionSpecific := by
  obtain ⟨ps, rs, rfl, hp, hr⟩ := emitted_shape fl x fs h
  refine ⟨ps, rs, rfl, hp, ?_, ?_, ?_, ?_, ?_⟩
  · rcases pseudoNames_cases fl x with e | e | e <;> rw [e] <;> decide
  · rcases pseudoNames_cases fl x with e | e | e <;> rw [e] <;> decide
  · rcases pseudoNames_cases fl x with e | e | e <;> rw [e] <;> decide
  · rcases pseudoNames_cases fl x with e | e | e <;> rw [e] <;> decide
  · intro f hf
    obtain ⟨a, b⟩ := hr f hf
    unfold regularNameOK at b
    simp only [Bool.and_eq_true, Bool.not_eq_true', List.all_eq_true, List.contains_eq_mem,
      decide_eq_false_iff_not, List.isEmpty_eq_false_iff] at b
    refine ⟨?_, b.1.1, ?_, b.2⟩
    · unfold isPseudoNameB at a; simpa using a
    · intro c hc; simpa using b.1.2 c hc

/-- **emitted_regular_fields_rfc9114**: the name rules of the RECEIVED-side specification
(`Req.H3.Rfc9114`, the predicate `h3_fields_accept_iff` proves `updateResponseFromHeaders` enforces
on what the client receives) hold for every regular field the client EMITS: lower-case name
(§4.2), a token (RFC 9110 §5.1), not connection-specific (§4.2) — and no pseudo-header field among
them (§4.3). What the client sends passes the name checks it applies to its peer. (The value rule
and `te: trailers` are inputs of the caller: a `TE: gzip` request header is forwarded unchanged, as
by the upstream writers; the lanes count that class.) -/
theorem emitted_regular_fields_rfc9114 (fl : Flavor) (x : XReq) (fs : List (Bytes × Bytes))
    (h : fieldsX fl x = .ok fs) :
    ∃ ps rs, fs = ps ++ rs ∧ (∀ f ∈ ps, f.1.head? = some 58) ∧
      ∀ f ∈ rs, ¬ Req.H3.Rfc9114.IsPseudo ⟨f.1, f.2⟩ ∧ Req.H3.Rfc9114.LowercaseName f.1 ∧
        Req.H3.Rfc9114.IsToken f.1 ∧ ¬ Req.H3.Rfc9114.ConnectionSpecific f.1 := by
  obtain ⟨ps, rs, rfl, hp, _, hn, _, _, hr⟩ := emitted_fields_wellformed fl x fs h
  refine ⟨ps, rs, rfl, ?_, ?_⟩
  · intro f hf
    exact (hn f.1 (hp.mem_iff.mp (List.mem_map_of_mem (f := (·.1)) hf))).2
  · intro f hf
    obtain ⟨h1, h2, h3, h4⟩ := hr f hf
    refine ⟨?_, ?_, ⟨h2, fun c hc => (h3 c hc).1⟩, ?_⟩
    · rintro ⟨tl, htl⟩
      simp only at htl
      rw [htl] at h1
      simp at h1
    · intro c hc hcu
      have := (h3 c hc).2
      simp only [isUpper, Bool.and_eq_false_iff, decide_eq_false_iff_not] at this
      rcases this with a | a
      · exact a hcu.1
      · exact a hcu.2
    · intro hcs
      apply h4
      unfold Req.H3.Rfc9114.ConnectionSpecific at hcs
      rcases hcs with e | e | e | e | e <;> rw [e] <;> decide

/-- **emitted_section_ok**: the decidable request-section check (`requestSectionOK`: pseudo-header
prefix, each a request pseudo-header exactly once, `:method`/`:authority` present, `:path` and
`:scheme` together, `:protocol` only with them, regular names lower-case tokens that are not
connection-specific) accepts every emitted list. The lanes run the same check on the section the
REFERENCE decoder (x/net hpack, quic-go qpack) recovers from the real encoder's bytes. -/
theorem emitted_section_ok (fl : Flavor) (x : XReq) (fs : List (Bytes × Bytes))
    (h : fieldsX fl x = .ok fs) : requestSectionOK fs = true := by
  obtain ⟨ps, rs, rfl, hp, hr⟩ := emitted_shape fl x fs h
  exact requestSectionOK_of_shape fl x ps rs hp hr

/-- **emitted_set**: the emitted fields are a permutation of the default-order pseudo fields
followed by the default-order regular fields (announced `trailer` first): the order options only
permute — inside the pseudo part and inside the regular part, never across. -/
theorem emitted_set (fl : Flavor) (x : XReq) (fs : List (Bytes × Bytes))
    (h : fieldsX fl x = .ok fs) :
    ∃ host path ps rs, fs = ps ++ rs ∧ ps.Perm (wireOf (basePseudoX fl x host path)) ∧
      rs.Perm (wireOf (baseRegularX fl x)) := by
  obtain ⟨host, path, _, _, _, rfl⟩ := fieldsX_ok fl x fs h
  exact ⟨host, path, _, _, rfl, wireOf_perm (pseudoKVsX_perm fl x host path),
    wireOf_perm (regularKVsX_perm fl x)⟩

/-- **fieldsX_conservative**: without announced trailers and outside Extended CONNECT the extended
model is the shared model of C01/C16. -/
theorem fieldsX_conservative (fl : Flavor) (x : XReq) (he : isExtendedConnect fl x = false)
    (ht : x.trailers = []) : fieldsX fl x = fields fl x.base := by
  have hb : ∀ host path, basePseudoX fl x host path = basePseudo fl x.base host path := by
    intro host path; simp [basePseudoX, he]
  have hr : baseRegularX fl x = baseRegular fl x.base := by simp [baseRegularX, ht]
  unfold fieldsX fields fieldPathX pseudoKVsX regularKVsX
  simp only [he, hr, hb, Bool.false_eq_true, ↓reduceIte]
  cases hh : fieldHost x.base with
  | error e => rfl
  | ok host =>
    cases hp : fieldPath x.base host with
    | error e => simp only [hp, bind, Except.bind]
    | ok path =>
      simp only [hp, bind, Except.bind, pseudoKVs, regularKVs]
      split
      · rfl
      · cases x.base.maxHeaderList with
        | none => rfl
        | some lim =>
          simp only [pure, Except.pure]
          split <;> rfl

/-! ### non-vacuity -/

/-- GET https://h/ with `X-B: 2`, `x-a: 1`, BOTH order lists set (pseudo `:scheme, :method`;
regular `x-a, x-b`), HTTP/3. -/
def exBoth : XReq :=
  { base := { method := [71, 69, 84], url := { scheme := [104, 116, 116, 112, 115], host := [104], path := [47] },
              header := [⟨[88, 45, 66], [[50]]⟩, ⟨[120, 45, 97], [[49]]⟩,
                         ⟨headerOrderKey, [[120, 45, 97], [120, 45, 98]]⟩,
                         ⟨pseudoHeaderOrderKey, [sScheme, sMethod]⟩] } }

example : (fieldsX .h3 exBoth).toOption = some
    [(sAuthority, [104]), (sScheme, [104, 116, 116, 112, 115]), (sMethod, [71, 69, 84]), (sPath, [47]),
     ([120, 45, 97], [49]), ([120, 45, 98], [50]), (sUserAgentL, defaultUserAgent)] := by decide

/-- Extended CONNECT over HTTP/3 with announced trailers: five pseudo-header fields, `trailer` first. -/
example : (fieldsX .h3 { base := { method := sCONNECT, url := { scheme := [104], host := [104], path := [47] } },
                         proto := [119, 115], trailers := [88] }).toOption.map (·.map (·.1)) = some
    [sAuthority, sMethod, sPath, sScheme, sProtocol, sTrailerL, sUserAgentL] := by decide

/-- the check has teeth: the section a writer produces when the pseudo-header pass leaks into the
regular pass (pseudo-header fields once more, after a regular field) is rejected … -/
example : requestSectionOK
    [(sMethod, [71]), (sAuthority, [104]), (sPath, [47]), (sScheme, [104]),
     ([120], [49]), (sMethod, [71]), (sAuthority, [104]), (sPath, [47]), (sScheme, [104])] = false := by
  decide
/-- … as are a repeated pseudo-header field, an upper-case name and a connection-specific field. -/
example : requestSectionOK [(sMethod, [71]), (sMethod, [71]), (sAuthority, [104])] = false := by decide
example : requestSectionOK [(sMethod, [71]), (sAuthority, [104]), ([88], [49])] = false := by decide
example : requestSectionOK [(sMethod, [71]), (sAuthority, [104]), (sUpgradeL, [49])] = false := by decide
example : requestSectionOK [(sMethod, [71]), (sAuthority, [104]), ([120], [49])] = true := by decide

end Req.Props.C05
