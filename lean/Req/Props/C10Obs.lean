import Req.Client.RetryObs
import Req.Lemmas.C10Obs
import Req.Props.C10Dyn
/-!
C10, round 6 — observers do not perturb the retry machinery.

`EnableDebugLog`, `DevMode`, `EnableTraceAll`, `EnableDumpAll` / `EnableDumpEachRequest` watch
the client work.  The retry conditions, retry hooks and the interval function are the CALLER's
functions; they may keep state (a schedule that is consumed one step per call, a token bucket,
a counter).  The property's "hooks run once per retry … the interval function is asked once per
retry, with the number of the retry" must therefore hold whatever is being observed.

The theorems are about `Req.RetryObs.odloop` / `odsends` (the loop with the retry option as
mutable state, `Req.RetryDyn`, plus the observers' statements), for EVERY setting of the four
switches, behaviour table of in-flight edits, start value of `RetryAttempt`, count, script,
middleware, variant:

* `observers_do_not_call_policy` — with the observers as written in /repo the observed run IS the
  unobserved one: same events (every condition / hook / interval call with its arguments, every
  wire request), same result, same state left behind.  Every theorem of `Req.Props.C10Dyn` /
  `C10Replay` / `C10Kinds` is thereby a theorem about the observed client;
* `call_counts_independent_of_observers` — the invocation counts of the interval function, of
  every hook and of every condition, and the attempt numbers handed to the interval function,
  do not depend on the switches;
* `interval_called_once_per_retry` — the interval function is called exactly as many times as
  `RetryAttempt` moved: once per retry, also for the retry whose wait is interrupted;
* `seeded_log_invisible_without_debug_log` — an observer that calls back (seed C10-r6-3) is
  indistinguishable from the code while the debug log is off: the dimension the lanes lacked;
* `log_asking_the_interval_function_doubles_the_calls` — … and with it on: two calls per retry
  (`decide`d).
-/
namespace Req.Props.C10Obs
open Req.Retry Req.RetryDyn Req.RetryObs Req.Lemmas.C10Obs

variable {σ W : Type}

theorem perturbs_code (obs : Observers) : perturbs obs .code = false := by
  simp [perturbs, ObsImpl.code]

/-- **observers_do_not_call_policy** (whole calls, re-sends included). -/
theorem observers_do_not_call_policy (obs : Observers) (v : Variant) (p : Policy σ) (ed : Edits)
    (mw : Nat → σ → σ × W) (un : σ → Bool) (again : List (List Edit)) (script : List Outcome) (ra : Nat) (st : σ)
    (d : Dyn) :
    odsends obs .code v p ed mw un again script ra st d = dsends v p ed mw un again script ra st d :=
  odsends_quiet obs .code (perturbs_code obs) v p ed mw un again script ra st d

/-- … for the loop itself, from any pass on. -/
theorem observers_do_not_call_policy_loop (obs : Observers) (v : Variant) (p : Policy σ) (ed : Edits)
    (mw : Nat → σ → σ × W) (su : σ → Bool) (script : List Outcome) (ra : Nat) (st : σ) (d : Dyn) (prev : Option Resp) :
    odloop obs .code v p ed mw su script ra st d prev = dloop v p ed mw su script ra st d prev :=
  odloop_quiet obs .code (perturbs_code obs) v p ed mw su script ra st d prev

/-- Two clients that differ in their observation switches only run the same calls. -/
theorem observed_runs_agree (obs obs' : Observers) (v : Variant) (p : Policy σ) (ed : Edits)
    (mw : Nat → σ → σ × W) (un : σ → Bool) (again : List (List Edit)) (script : List Outcome) (ra : Nat) (st : σ)
    (d : Dyn) :
    odsends obs .code v p ed mw un again script ra st d = odsends obs' .code v p ed mw un again script ra st d := by
  rw [observers_do_not_call_policy, observers_do_not_call_policy]

/-- **call_counts_independent_of_observers**: how often the interval function, hook `id` and
condition `id` are invoked, and with which attempt numbers the interval function is. -/
theorem call_counts_independent_of_observers (obs obs' : Observers) (id : Nat) (v : Variant) (p : Policy σ)
    (ed : Edits) (mw : Nat → σ → σ × W) (su : σ → Bool) (script : List Outcome) (ra : Nat) (st : σ) (d : Dyn)
    (prev : Option Resp) :
    intervalCalls (odloop obs .code v p ed mw su script ra st d prev).1 =
      intervalCalls (odloop obs' .code v p ed mw su script ra st d prev).1 ∧
    hookCalls id (odloop obs .code v p ed mw su script ra st d prev).1 =
      hookCalls id (odloop obs' .code v p ed mw su script ra st d prev).1 ∧
    condCalls id (odloop obs .code v p ed mw su script ra st d prev).1 =
      condCalls id (odloop obs' .code v p ed mw su script ra st d prev).1 ∧
    intervalArgs (odloop obs .code v p ed mw su script ra st d prev).1 =
      intervalArgs (odloop obs' .code v p ed mw su script ra st d prev).1 := by
  rw [observers_do_not_call_policy_loop, observers_do_not_call_policy_loop]
  exact ⟨rfl, rfl, rfl, rfl⟩

/-- **interval_called_once_per_retry**: over a whole call the interval function is invoked
exactly `RetryAttempt(end) − RetryAttempt(start)` times — once for every retry the loop decided
on (the one whose wait the context interrupts included), never for the last attempt, and not
once more because somebody is watching. -/
theorem interval_called_once_per_retry (obs : Observers) (v : Variant) (p : Policy σ) (ed : Edits)
    (mw : Nat → σ → σ × W) (su : σ → Bool) (script : List Outcome) (ra : Nat) (st : σ) (d : Dyn) (prev : Option Resp) :
    intervalCalls (odloop obs .code v p ed mw su script ra st d prev).1 + ra =
      (odloop obs .code v p ed mw su script ra st d prev).2.2.ra := by
  rw [observers_do_not_call_policy_loop]
  exact dloop_calls v p ed mw su script ra st d prev

/-- **seeded_log_invisible_without_debug_log**: however the observers are written, with the
debug log off (`DebugLog` and `DevMode` both unset — trace and dump may be on) the run is the
unobserved one.  A lane that never switches the debug log on cannot tell the two apart. -/
theorem seeded_log_invisible_without_debug_log (obs : Observers) (im : ObsImpl) (h : obs.logs = false)
    (v : Variant) (p : Policy σ) (ed : Edits) (mw : Nat → σ → σ × W) (un : σ → Bool) (again : List (List Edit))
    (script : List Outcome) (ra : Nat) (st : σ) (d : Dyn) :
    odsends obs im v p ed mw un again script ra st d = dsends v p ed mw un again script ra st d :=
  odsends_quiet obs im (by simp [perturbs, h]) v p ed mw un again script ra st d

section witnesses

/-- `SetRetryCount(3)`, a condition that retries every 429, two hooks, a caller-supplied interval function -/
def exPolicy : Policy Unit :=
  ⟨true, 3, [(0, fun o => o.resp == .status 429)], [(0, fun _ s => s), (1, fun _ s => s)], [], .fn 7⟩
def exMw : Nat → Unit → Unit × Nat := fun ra s => (s, ra)
def exScript : List Outcome := [.status 429, .status 429, .status 200]
def exRun (obs : Observers) (im : ObsImpl) : List (Event Nat) × Final × End Unit :=
  odloop obs im R exPolicy Edits.nop exMw (fun _ => false) exScript 0 () (dynOf exPolicy) none

/-- non-vacuity of `observers_do_not_call_policy` / `interval_called_once_per_retry`: two
retries — the interval function is asked twice, with 1 and 2, every hook runs twice, the
condition is asked three times; debug log, DevMode, trace and dump all on -/
example : intervalArgs (exRun ⟨true, true, true, true⟩ .code).1 = [1, 2] ∧
    intervalCalls (exRun ⟨true, true, true, true⟩ .code).1 = 2 ∧
    hookCalls 0 (exRun ⟨true, true, true, true⟩ .code).1 = 2 ∧
    hookCalls 1 (exRun ⟨true, true, true, true⟩ .code).1 = 2 ∧
    condCalls 0 (exRun ⟨true, true, true, true⟩ .code).1 = 3 ∧
    (exRun ⟨true, true, true, true⟩ .code).2.2.ra = 2 := by decide

/-- **log_asking_the_interval_function_doubles_the_calls** (seed C10-r6-3): with the debug log
on — directly or through DevMode — the interval function is asked `[1, 1, 2, 2]` for two
retries; the hooks and the condition are not affected, nor is anything with the log off. -/
theorem log_asking_the_interval_function_doubles_the_calls :
    intervalArgs (exRun ⟨true, false, false, false⟩ .seeded).1 = [1, 1, 2, 2] ∧
    intervalArgs (exRun ⟨false, true, false, false⟩ .seeded).1 = [1, 1, 2, 2] ∧
    intervalCalls (exRun ⟨true, false, false, false⟩ .seeded).1 + 0 ≠ (exRun ⟨true, false, false, false⟩ .seeded).2.2.ra ∧
    hookCalls 0 (exRun ⟨true, false, false, false⟩ .seeded).1 = 2 ∧
    condCalls 0 (exRun ⟨true, false, false, false⟩ .seeded).1 = 3 ∧
    intervalArgs (exRun ⟨false, false, true, true⟩ .seeded).1 = [1, 2] := by decide

/-- the extra call is a real call: an interval function that cancels the request's context when
asked about retry 1 is asked twice before the wait finds the context done -/
example : intervalArgs (odloop ⟨true, false, false, false⟩ .seeded R exPolicy
      { Edits.nop with ivl := fun a _ => ⟨none, none, a == 1⟩ } exMw (fun _ => false) exScript 0 ()
      (dynOf exPolicy) none).1 = [1, 1] ∧
    intervalArgs (odloop ⟨true, false, false, false⟩ .code R exPolicy
      { Edits.nop with ivl := fun a _ => ⟨none, none, a == 1⟩ } exMw (fun _ => false) exScript 0 ()
      (dynOf exPolicy) none).1 = [1] := by decide

end witnesses

end Req.Props.C10Obs
