import Req.Client.UploadReader
/-!
C17 — "file bytes arrive exactly", for a file given by a READER: `file_bytes_exact` for every
sequence of reads — any sizes (also empty reads), `io.EOF` delivered with the last bytes or
alone, a first read shorter than, equal to or longer than the 512-byte sniffing buffer — and for
errors at any point: the call fails, never a truncated part in a request that succeeds.
-/
namespace Req.Props.C17Reader
open Req.UploadReader Req.Proto

theorem copy_eq (r : List Rd) : copy r = (content r, clean r) := by
  induction r with
  | nil => rfl
  | cons x xs ih => cases x <;> simp [copy, content, clean, ih]

/-- one capped read hands over a prefix of the content and leaves the rest -/
theorem readCap_spec (cap : Nat) (s : List Rd) :
    match readCap cap s with
    | (.data bs, r) => bs.length ≤ cap ∧ content s = bs ++ content r ∧ clean s = clean r
    | (.eof bs, _) => bs.length ≤ cap ∧ content s = bs ∧ clean s = true
    | (.fail bs, _) => bs.length ≤ cap ∧ clean s = false := by
  cases s with
  | nil => simp [readCap, content, clean]
  | cons x xs =>
    cases x with
    | data bs =>
      by_cases h : bs.length ≤ cap
      · simp [readCap, h, content, clean]
      · simp only [readCap, h, if_false, content, clean]
        refine ⟨by simp; omega, ?_, trivial⟩
        rw [← List.append_assoc, List.take_append_drop]
    | eof bs =>
      by_cases h : bs.length ≤ cap
      · simp [readCap, h, content, clean]
      · simp only [readCap, h, if_false, content, clean]
        exact ⟨by simp; omega, (List.take_append_drop cap bs).symm, trivial⟩
    | fail bs =>
      by_cases h : bs.length ≤ cap
      · simp [readCap, h, clean]
      · simp only [readCap, h, if_false, content, clean]
        exact ⟨by simp; omega, (List.take_append_drop cap bs).symm, trivial⟩

/-- **file_bytes_exact** — for EVERY read script: if the file is written without error then the
bytes written into the part are exactly the file's bytes, and the script had no error before
its end. -/
theorem file_bytes_exact (script : List Rd) (r : Result)
    (h : writeFile true script = some r) (hok : r.ok = true) :
    r.written = content script ∧ clean script = true := by
  have hs := readCap_spec sniffCap script
  simp only [writeFile, Bool.not_true, Bool.false_eq_true, if_false] at h
  cases hr : readCap sniffCap script with
  | mk a rest =>
    rw [hr] at h hs
    cases a with
    | data bs =>
      simp only [Option.some.injEq] at h
      subst h
      simp only [copy_eq] at hok ⊢
      exact ⟨hs.2.1.symm, by rw [hs.2.2]; exact hok⟩
    | eof bs =>
      simp only [Option.some.injEq] at h
      subst h
      exact ⟨hs.2.1.symm, hs.2.2⟩
    | fail bs => simp at h

/-- Conversely a clean script is always written completely: short reads never lose or repeat
a byte, wherever the 512-byte boundary falls. -/
theorem clean_file_written (script : List Rd) (hc : clean script = true) :
    ∃ r, writeFile true script = some r ∧ r.ok = true ∧ r.written = content script := by
  have hs := readCap_spec sniffCap script
  simp only [writeFile, Bool.not_true, Bool.false_eq_true, if_false]
  cases hr : readCap sniffCap script with
  | mk a rest =>
    rw [hr] at hs
    cases a with
    | data bs =>
      refine ⟨_, rfl, ?_, ?_⟩
      · simp only [copy_eq]; rw [← hs.2.2]; exact hc
      · simp only [copy_eq]; exact hs.2.1.symm
    | eof bs => exact ⟨_, rfl, rfl, hs.2.1.symm⟩
    | fail bs => rw [hs.2] at hc; cases hc

/-- **never truncated**: an error of the content function, or of a read at ANY point before the
end of the file, fails the call (since fixes/C17-6 — before, the part was closed after the bytes
read so far and the request succeeded). -/
theorem read_error_fails_call (opens : Bool) (script : List Rd)
    (h : opens = false ∨ clean script = false) : succeeds opens script = false := by
  unfold succeeds
  cases hw : writeFile opens script with
  | none => rfl
  | some r =>
    cases ho : r.ok with
    | false => exact ho
    | true =>
      rcases h with h | h
      · simp [writeFile, h] at hw
      · cases opens with
        | false => simp [writeFile] at hw
        | true =>
          have := (file_bytes_exact script r hw ho).2
          rw [h] at this; cases this

theorem succeeds_iff (opens : Bool) (script : List Rd) :
    succeeds opens script = (opens && clean script) := by
  cases opens with
  | false => simp [succeeds, writeFile]
  | true =>
    cases hc : clean script with
    | false => simpa using read_error_fails_call true script (Or.inr hc)
    | true =>
      obtain ⟨r, h1, h2, -⟩ := clean_file_written script hc
      simp [succeeds, h1, h2]

/-- What content sniffing looks at: exactly 512 bytes — a prefix of the file's bytes (the first
read: at most 512 bytes, fewer when the reader returns fewer) padded with zero bytes. -/
theorem sniff_sees_padded_prefix (script : List Rd) (r : Result)
    (h : writeFile true script = some r) :
    r.sniffed.length = sniffCap ∧
    ∃ k, k ≤ sniffCap ∧ r.sniffed = r.written.take k ++ List.replicate (sniffCap - k) 0 := by
  have hs := readCap_spec sniffCap script
  simp only [writeFile, Bool.not_true, Bool.false_eq_true, if_false] at h
  cases hr : readCap sniffCap script with
  | mk a rest =>
    rw [hr] at h hs
    cases a with
    | data bs =>
      simp only [Option.some.injEq] at h
      subst h
      refine ⟨by simp [pad]; omega, bs.length, hs.1, ?_⟩
      simp [pad]
    | eof bs =>
      simp only [Option.some.injEq] at h
      subst h
      refine ⟨by simp [pad]; omega, bs.length, hs.1, ?_⟩
      simp [pad]
    | fail bs => simp at h

/-- Re-chunking invariance: two readers that deliver the same bytes without error produce the
same part content, however differently they split their reads. -/
theorem rechunk_invariant (s1 s2 : List Rd) (h1 : clean s1 = true) (h2 : clean s2 = true)
    (hc : content s1 = content s2) :
    (writeFile true s1).map (·.written) = (writeFile true s2).map (·.written) := by
  obtain ⟨r1, e1, -, w1⟩ := clean_file_written s1 h1
  obtain ⟨r2, e2, -, w2⟩ := clean_file_written s2 h2
  simp [e1, e2, w1, w2, hc]

/-! ### non-vacuity -/

set_option maxRecDepth 100000 in
/-- 3-byte first read, an empty read, then the rest with EOF attached: sniffed = 3 bytes + zeros -/
example : (writeFile true [.data [37, 80, 68], .data [], .data [70, 45], .eof [49]]).map
    (fun r => (r.written, r.ok, r.sniffed.take 5, r.sniffed.length)) =
    some ([37, 80, 68, 70, 45, 49], true, [37, 80, 68, 0, 0], 512) := by decide

set_option maxRecDepth 100000 in
/-- a first chunk longer than the sniffing buffer is split at 512, nothing lost -/
example : (writeFile true [.data (List.replicate 600 7), .eof [1, 2]]).map
    (fun r => (r.written.length, r.ok, r.written.drop 598)) = some (602, true, [7, 7, 1, 2]) := by decide

set_option maxRecDepth 100000 in
/-- an error after 1000 bytes: the call fails (the seeded / original behaviour was: 1000 bytes sent) -/
example : succeeds true [.data (List.replicate 1000 1), .fail []] = false := by decide
example : succeeds false [.eof [1]] = false := by decide
example : succeeds true [.fail [1, 2, 3]] = false := by decide
example : clean [.data [1], .fail [], .eof [2]] = false ∧ clean [.data [1], .eof [], .fail [2]] = true := by decide

end Req.Props.C17Reader
