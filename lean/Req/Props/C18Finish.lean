import Req.Client.Finish
import Req.Props.C18Pipeline
import Req.Lemmas.C18ErrAtt
/-!
C18 — property theorems, part 7 (round 5): FINISHING paths share one function.

Every path on which a call ends up with an http response — plain, every retry attempt, the end
of a redirect chain (all `Client.roundTrip`), the answer to a digest re-send
(`handleDigestAuthFunc`) — reads, binds and saves it through `Req.Pipeline.finish`; the paths
differ only in `Site.combine`. The theorems below are about `finish` for EVERY site, stack,
attempt and incoming response, and carry over to the pipeline model through the two equations
`client_round_trip_finishes` / `digest_resend_finishes`.
-/
namespace Req.Props.C18
open Req.Result Req.Pipeline

/-! ### the pipeline's finishing paths ARE `finish` -/

/-- **client_round_trip_finishes** — `Client.roundTrip` of EVERY attempt (plain call, retry,
redirect end) is: exchange, `finish .clientLoop`, the user's client-level response middleware;
what it returns is what is recorded. -/
theorem client_round_trip_finishes (s : Stack) (a : Nat) (hg : s.getBodyAt a = false) :
    clientRoundTrip s a =
      (let f := finish .clientLoop s a (exchange s a).1
       let u := clientLoop 0 (s.clientAt a) f.resp
       { resp := some u.1, err := u.1.err, evs := .send :: (exchange s a).2 ++ f.evs ++ u.2 }) := by
  unfold clientRoundTrip finish download saveStep Site.saves
  simp only [hg, Bool.false_eq_true, if_false]
  generalize exchange s a = ex
  obtain ⟨r1, e0⟩ := ex
  simp only
  generalize autoRead s r1 = ar
  obtain ⟨r2, e1⟩ := ar
  simp only
  generalize parseResp s r2 = p
  obtain ⟨⟨po, phttp, ptag, perr, pbc, pbo, pso, psl⟩, pret, pevs⟩ := p
  cases pret <;> cases phttp with
  | none => simp
  | some h =>
    simp only
    by_cases hc : s.fixDigestSave = true ∧ digestChallenged s a h = true
    · simp [hc]
    · have hc' : (s.fixDigestSave && digestChallenged s a h) = false := by
        cases h1 : s.fixDigestSave <;> cases h2 : digestChallenged s a h <;> simp_all
      simp only [hc, if_false, hc', Bool.not_false, if_true]
      split <;> simp_all [List.append_assoc]

/-- **digest_resend_finishes** — the digest middleware treats the answer to the authorized
request with the SAME function: a failure it `return`s stops `do`'s request-level loop, no
failure lets it go on. -/
theorem digest_resend_finishes (s : Stack) (a : Nat) (r1 : Resp) :
    rebind s a r1 =
      (let f := finish .digestTail s a r1
       match f.ret with
       | some e => .stop (some f.resp) e (.resend :: f.evs)
       | none => .cont (some f.resp) (.resend :: f.evs)) := by
  unfold rebind finish saveStep Site.saves Site.combine
  generalize autoRead s r1 = ar
  obtain ⟨r2, e1⟩ := ar
  simp only
  generalize parseResp s r2 = p
  obtain ⟨pr, pret, pevs⟩ := p
  cases pret with
  | some e => simp
  | none =>
    cases hf : s.fixDigestSave with
    | false => simp
    | true =>
      cases hs : saveErr s a pr <;> simp [List.append_assoc]

/-! ### what `finish` guarantees, for every site -/

/-- **finish_error_is_combine** — what a site hands on is `Site.combine` of what binding and
saving returned, and the save step returned nothing when it did not run. -/
theorem finish_error_is_combine (site : Site) (s : Stack) (a : Nat) (r1 : Resp) :
    let f := finish site s a r1
    f.ret = site.combine f.parse f.save ∧ (f.saveRan = false → f.save = none) := by
  unfold finish
  generalize autoRead s r1 = ar
  obtain ⟨r2, e1⟩ := ar
  simp only
  refine ⟨trivial, ?_⟩
  intro h
  simp [h]

/-- **finish_error_is_first_failure** — the digest tail returns the FIRST failure: a binding
failure (read, transform, unmarshal) is returned and the save is not even attempted; otherwise
what the save returned. In particular a successful save can not cover a binding failure. -/
theorem finish_error_is_first_failure (s : Stack) (a : Nat) (r1 : Resp) :
    let f := finish .digestTail s a r1
    (∀ e, f.parse = some e → f.ret = some e ∧ f.saveRan = false ∧ f.save = none ∧ f.resp.savedOf = (parseResp s (autoRead s r1).1).resp.savedOf) ∧
    (f.parse = none → f.ret = f.save) := by
  unfold finish Site.saves Site.combine
  generalize autoRead s r1 = ar
  obtain ⟨r2, e1⟩ := ar
  simp only
  generalize parseResp s r2 = p
  obtain ⟨pr, pret, pevs⟩ := p
  constructor
  · intro e he
    simp only at he
    subst he
    simp
  · intro hn
    simp only at hn
    subst hn
    simp

/-- **finish_client_loop_records_every_failure** — the client loop runs both elements and
records each failure in `resp.Err`: at the end it holds the save failure if there is one, else
the binding failure if there is one, else what the auto-read block and `ToBytes` left. -/
theorem finish_client_loop_records_every_failure (s : Stack) (a : Nat) (r1 : Resp) :
    let f := finish .clientLoop s a r1
    f.resp.err = (match f.save, f.parse with
      | some e, _ => some e
      | none, some e => some e
      | none, none => (parseResp s (autoRead s r1).1).resp.err) ∧
    (f.ret.isSome → f.resp.err = f.ret) := by
  unfold finish saveStep Site.combine
  generalize autoRead s r1 = ar
  obtain ⟨r2, e1⟩ := ar
  simp only
  generalize parseResp s r2 = p
  obtain ⟨pr, pret, pevs⟩ := p
  simp only
  generalize hruns : Site.saves Site.clientLoop s a _ pret = runs
  cases pret with
  | none =>
    cases runs with
    | false => simp
    | true =>
      simp only [if_true]
      cases hs : saveErr s a pr <;> simp
  | some e =>
    cases runs with
    | false => simp
    | true =>
      simp only [if_true]
      cases hs : saveErr s a { pr with err := some e } <;> simp

/-- **finish_no_failure_is_lost** — at EVERY site: the finished response carries no error only
when neither binding nor saving failed. A save that succeeds (or does not run) never wipes out a
binding failure, and the other way round. -/
theorem finish_no_failure_is_lost (site : Site) (s : Stack) (a : Nat) (r1 : Resp) :
    let f := finish site s a r1
    (Fin.error site f = none → f.parse = none ∧ f.save = none) ∧
    (∀ e, f.parse = some e → f.save = none → Fin.error site f = some e) ∧
    (∀ e, f.parse = none → f.save = some e → Fin.error site f = some e) := by
  cases site with
  | digestTail =>
    have h := finish_error_is_combine .digestTail s a r1
    simp only at h
    simp only [Fin.error]
    rw [h.1]
    generalize (finish Site.digestTail s a r1).parse = p
    generalize (finish Site.digestTail s a r1).save = sv
    cases p <;> cases sv <;> simp [Site.combine]
  | clientLoop =>
    have h := (finish_client_loop_records_every_failure s a r1).1
    simp only [Fin.error]
    rw [h]
    generalize (finish Site.clientLoop s a r1).parse = p
    generalize (finish Site.clientLoop s a r1).save = sv
    cases p <;> cases sv <;> simp

/-- **finish_binds_like_parse** — at every site the slots of the finished response are the ones
`parseResponseBody` left: saving binds and unbinds nothing. -/
theorem finish_binds_like_parse (site : Site) (s : Stack) (a : Nat) (r1 : Resp) :
    (finish site s a r1).resp.slots = (parseResp s (autoRead s r1).1).resp.slots ∧
    (finish site s a r1).parse = (parseResp s (autoRead s r1).1).ret := by
  unfold finish saveStep
  generalize autoRead s r1 = ar
  obtain ⟨r2, e1⟩ := ar
  simp only
  generalize parseResp s r2 = p
  obtain ⟨pr, pret, pevs⟩ := p
  simp only
  generalize Site.saves site s a _ pret = runs
  refine ⟨?_, trivial⟩
  cases site <;> cases pret <;> cases runs <;> simp only [if_true, Bool.false_eq_true, if_false] <;>
    first
      | rfl
      | (split <;> rfl)
      | (cases hs : saveErr s a _ <;> simp)

/-- **finish_unmarshal_failure_surfaces** — output set or not, at every site: the fresh response
of an exchange for which a target is selected, whose body reads but does not unmarshal, comes
out of `finish` with nothing bound and WITH an error: the unmarshalling error, unless — client
loop only — writing the output fails as well, which is recorded after it. -/
theorem finish_unmarshal_failure_surfaces (site : Site) (s : Stack) (a : Nat) (r1 : Resp) (h : Http) (t : Target)
    (hh : r1.http = some h) (he : r1.err = none) (hc : r1.bodyCached = false) (hs : r1.slots = {})
    (hsel : targetFor s h = some t) (hread : h.bodyOK = true) (hbad : codecOK h = false) :
    let f := finish site s a r1
    f.parse = some .unmarshal ∧ f.resp.slots = {} ∧
    (Fin.error site f = some .unmarshal ∨
      (∃ e, site = .clientLoop ∧ f.save = some e ∧ Fin.error site f = some e)) := by
  obtain ⟨a1, a2, a3⟩ := autoRead_ready s r1 h hh he hc
  have hready := a3.mpr hread
  have hsel' : selectTarget (bindIn s (autoRead s r1).1) = some t := by
    rw [← hsel]; unfold targetFor
    exact selectTarget_congr _ _ (by simp [bindIn, a1]) rfl rfl rfl
  obtain ⟨u1, u2⟩ := unmarshal_failure_surfaces (bindIn s (autoRead s r1).1) h t (by simp [bindIn, a1]) hsel' hready.1 hready.2 hbad
  have hp : (parseResp s (autoRead s r1).1).ret = some .unmarshal := u1
  have hsl : (parseResp s (autoRead s r1).1).resp.slots = {} := by
    show (parseBody (bindIn s (autoRead s r1).1)).slots = {}
    rw [u2]; simp [bindIn, a2, hs]
  obtain ⟨b1, b2⟩ := finish_binds_like_parse site s a r1
  obtain ⟨n1, n2, n3⟩ := finish_no_failure_is_lost site s a r1
  refine ⟨b2.trans hp, b1.trans hsl, ?_⟩
  cases hsv : (finish site s a r1).save with
  | none => left; exact n2 _ (b2.trans hp) hsv
  | some e =>
    cases site with
    | digestTail =>
      have := (finish_error_is_first_failure s a r1).1 _ (b2.trans hp)
      rw [this.2.2.1] at hsv; cases hsv
    | clientLoop =>
      have hrec := (finish_client_loop_records_every_failure s a r1).1
      rw [hsv] at hrec
      simp only at hrec
      right; exact ⟨e, rfl, rfl, hrec⟩

example : (finish .digestTail { save := true, successTarget := true } 0
      { origin := .roundTrip 0, http := some { status := 200, ct := [], custom := none, readOK := true, jsonOK := false, xmlOK := false }, tag := 1 }).ret
    = some .unmarshal := by decide
example : (finish .clientLoop { save := true, successTarget := true, outFails := [true] } 0
      { origin := .roundTrip 0, http := some { status := 200, ct := [], custom := none, readOK := true, jsonOK := false, xmlOK := false } }).resp.err
    = some .output := by decide
example : (finish .clientLoop { save := true, successTarget := true } 0
      { origin := .roundTrip 0, http := some { status := 200, ct := [], custom := none, readOK := true, jsonOK := false, xmlOK := false } }).resp.err
    = some .unmarshal := by decide

/-! ### response middleware on attempts that end without an http response -/

/-- **response_mw_runs_on_error_attempts** — an attempt of any call whose transport exchange (or
GetBody) FAILED, whatever the wrapping round-trippers do with that: once the request middleware
succeeded, the request-level response middleware run all the same — in registration order, all
of them unless one returns an error, which then is the attempt's error and ends the call; the
digest middleware among them leaves the response alone; `resp.Err` afterwards is what the last
of them that assigned it left (`recErr`), starting from what the round trip recorded. Together
with `response_mw_every_attempt` (client level: every one, every attempt): response middleware
of BOTH levels run after error attempts exactly as after answered ones. -/
theorem response_mw_runs_on_error_attempts (s : Stack) (i : Nat) (t : Att)
    (ht : (run Fixes.all s).atts[i]? = some t) (hb : .builtin ∈ t.evs)
    (hfail : s.getBodyAt i = true ∨ ∃ e, s.transportAt i = .fail e) :
    t.evs.filter Ev.isRResp = (List.range (ranUntilRet (s.reqRespAt i))).map .rResp ∧
    t.crash = false ∧
    (firstRet (s.reqRespAt i) = none → ranUntilRet (s.reqRespAt i) = s.reqResp.length ∧ t.returned = false) ∧
    (∀ e, firstRet (s.reqRespAt i) = some e → t.returned = true ∧ t.err = some e) ∧
    (∃ r e0, t.resp = some r ∧ r.http = none ∧ r.err = recErr (s.reqRespAt i) e0) := by
  rw [run_atts] at ht
  obtain ⟨prev, rfl⟩ := callDo_atts Fixes.all s i t ht
  obtain ⟨h1, h2⟩ := (builtin_mem_iff Fixes.all s i prev).mp hb
  rw [attempt_eq_of_ok Fixes.all s i prev h1 h2]
  simp only [Fixes.all, if_true]
  obtain ⟨r, hr⟩ := nilGuard_some (runWrappers i (clientRoundTrip s i) (wrapChain (s.wrapAt i))).resp
    (runWrappers i (clientRoundTrip s i) (wrapChain (s.wrapAt i))).err
  have hnone : r.http = none :=
    nilGuard_nohttp _ _ (runWrappers_nohttp i _ (clientRoundTrip_nohttp s i hfail) _) r hr
  rw [hr]
  obtain ⟨l1, l2, l3, l4, r', l5, l6, l7⟩ := reqRespLoop_nohttp s i (s.reqRespAt i) 0 r
    (runWrappers i (clientRoundTrip s i) (wrapChain (s.wrapAt i))).err hnone
  simp only [Fixes.all] at l1 l2 l3 l4 l5
  have hlen : (s.reqRespAt i).length = s.reqResp.length := by simp [Stack.reqRespAt]
  refine ⟨?_, l2, ?_, l3, r', r.err, l5, l6, l7⟩
  · simp only [List.filter_append, List.filter_cons, udReq_filter_rresp, Ev.isRResp]
    rw [filter_nil_of_forall (l := (runWrappers _ _ _).evs) (fun e he => inRT_not_rresp (roundTrip_inRT s i e he))]
    simpa [List.range_eq_range'] using l1
  · intro hn
    exact ⟨(ranUntilRet_all _ hn).trans hlen, (l4 hn).1⟩

/-- An error the LAST request-level response middleware records (`resp.Err = e; return nil`) is
what `resp.Err` holds when the loop is over. -/
theorem recErr_last_set (pre : List RAct) (e : Err) (cur : Option Err) (h : firstRet pre = none) :
    recErr (pre ++ [.mw (.set e)]) cur = some e := by
  induction pre generalizing cur with
  | nil => rfl
  | cons act rest ih =>
    cases act with
    | digest ok re => exact ih cur (by simpa [firstRet] using h)
    | mw m =>
      cases m with
      | ret e' => simp [firstRet] at h
      | nop => exact ih cur (by simpa [firstRet] using h)
      | set e' => exact ih (some e') (by simpa [firstRet] using h)
      | clear => exact ih none (by simpa [firstRet] using h)

example : (run Fixes.all { reqResp := [[.mw .nop, .mw .nop], [.digest true (.fail (.stage 9)), .digest true (.fail (.stage 9))], [.mw (.set (.stage 5)), .mw .nop]],
                           transport := [.fail (.stage 2), .fail (.stage 3)], maxRetries := 1 }).atts.map (·.evs.filter Ev.isRResp)
    = [[.rResp 0, .rResp 1, .rResp 2], [.rResp 0, .rResp 1, .rResp 2]] := by decide

/-! ### target precedence -/

/-- **common_type_immaterial_under_request_target** — the whole precedence matrix in one line:
with a request-level error target (`SetErrorResult`) the client-level common error type plays no
part in binding, whatever the response; (`select_errorCommon_iff`: it is used exactly when there
is no request-level target). -/
theorem common_type_immaterial_under_request_target (i : BindIn) (h : i.errorTarget = true) :
    parseBody i = parseBody { i with commonErr := false } := by
  have hsel : selectTarget i = selectTarget { i with commonErr := false } := by
    unfold selectTarget
    simp only [h]
    rcases i.http with _ | hh
    · rfl
    · simp only; split <;> simp
  unfold parseBody
  rw [← hsel]

def exBothTargets : BindIn :=
  { http := some { status := 404, ct := [], custom := none, readOK := true, jsonOK := true, xmlOK := false }
    successTarget := false
    errorTarget := true
    commonErr := true
    respErr := none
    bodyCached := false
    slots := {} }

example : (parseBody exBothTargets).slots.error = some .errorReq := by decide

end Req.Props.C18
