import Req.Client.CloneChain
/-!
C18 — property theorems, part 3: a call runs with the settings and stages of THE CLIENT IT IS
MADE ON, whatever that client's lineage (`C()`, `Clone` of a clone …) and whatever was installed
on it or on its relatives before and after cloning.

`build true ops` is the store of clients after ANY program `ops` of constructors, `Clone`s,
`WrapRoundTrip` batches and setters (code as it is: `Clone` rebuilds the wrapper chain).
`effective st c` follows the pointers the code follows during `c.R().Get(…)`; `own st c` reads
everything from `c` itself.
-/
namespace Req.Props.C18
open Req.CloneChain

/-- The invariant `Clone`'s rebuild maintains: a client's wrapper chain is nil exactly when it
has no wrappers, and otherwise consists of exactly its own wrappers around its OWN `roundTrip`. -/
def WFc (c : Cid) (cl : Client) : Prop :=
  (cl.wrappers = [] ∧ cl.chain = none) ∨ (cl.wrappers ≠ [] ∧ cl.chain = some ⟨cl.wrappers, c⟩)

def WF (st : Store) : Prop := ∀ c cl, st[c]? = some cl → WFc c cl

theorem wrapClient_wf (c : Cid) (cl : Client) (ws : List Nat) (h : WFc c cl) : WFc c (wrapClient c cl ws) := by
  unfold wrapClient
  cases hws : ws.isEmpty
  · have hne : ws ≠ [] := by intro h0; subst h0; simp at hws
    simp only [Bool.false_eq_true, if_false]
    rcases h with ⟨h1, h2⟩ | ⟨h1, h2⟩
    · rw [h2]; right; exact ⟨hne, rfl⟩
    · rw [h2]; right
      exact ⟨by simp [hne], rfl⟩
  · simpa using h

theorem cloneClient_wf (c n : Cid) (cl : Client) (h : WFc c cl) : WFc n (cloneClient true n cl) := by
  unfold cloneClient
  rcases h with ⟨h1, h2⟩ | ⟨h1, h2⟩
  · left; simp [h1, h2]
  · right
    have : cl.wrappers.isEmpty = false := by
      cases hw : cl.wrappers with
      | nil => exact absurd hw h1
      | cons _ _ => rfl
    simp [this, h1]

theorem update_wf (st : Store) (c : Cid) (f : Client → Client) (h : WF st)
    (hf : ∀ cl, WFc c cl → WFc c (f cl)) : WF (update st c f) := by
  unfold update
  cases hc : st[c]? with
  | none => simpa using h
  | some cl =>
    intro c' cl' h'
    simp only at h'
    by_cases e : c = c'
    · subst e
      have hlt : c < st.length := by
        rcases Nat.lt_or_ge c st.length with x | x
        · exact x
        · rw [List.getElem?_eq_none x] at hc; cases hc
      rw [List.getElem?_set_self hlt] at h'
      cases h'
      exact hf cl (h c cl hc)
    · rw [List.getElem?_set_ne e] at h'
      exact h c' cl' h'

theorem append_wf (st : Store) (cl : Client) (h : WF st) (hcl : WFc st.length cl) : WF (st ++ [cl]) := by
  intro c' cl' h'
  rcases Nat.lt_or_ge c' st.length with x | x
  · rw [List.getElem?_append_left x] at h'; exact h c' cl' h'
  · rw [List.getElem?_append_right x] at h'
    have h0 : (c' : Nat) - st.length = 0 := by
      cases hk : (c' : Nat) - st.length with
      | zero => rfl
      | succ k => rw [hk] at h'; simp at h'
    have hc : (c' : Nat) = st.length := Nat.le_antisymm (Nat.le_of_sub_eq_zero h0) x
    subst hc
    simp at h'; subst h'; exact hcl

theorem apply_wf (st : Store) (op : Op) (h : WF st) : WF (apply true st op) := by
  cases op with
  | new => exact append_wf st _ h (Or.inl ⟨rfl, rfl⟩)
  | clone c =>
    simp only [apply]
    cases hc : st[c]? with
    | none => simpa using h
    | some cl => exact append_wf st _ h (cloneClient_wf c _ cl (h c cl hc))
  | wrap c ws => exact update_wf st c _ h (fun cl hcl => wrapClient_wf c cl ws hcl)
  | onBefore c id => exact update_wf st c _ h (fun cl hcl => hcl)
  | onAfter c id => exact update_wf st c _ h (fun cl hcl => hcl)
  | setCommonErr c id => exact update_wf st c _ h (fun cl hcl => hcl)
  | setChecker c id => exact update_wf st c _ h (fun cl hcl => hcl)
  | onError c id => exact update_wf st c _ h (fun cl hcl => hcl)
  | setXform c id => exact update_wf st c _ h (fun cl hcl => hcl)
  | autoRead c off => exact update_wf st c _ h (fun cl hcl => hcl)
  | digestAuth c => exact update_wf st c _ h (fun cl hcl => hcl)

theorem foldl_wf (ops : List Op) : ∀ st, WF st → WF (ops.foldl (apply true) st) := by
  induction ops with
  | nil => intro st h; exact h
  | cons op rest ih => intro st h; exact ih _ (apply_wf st op h)

/-- **chain_ends_in_self** — after ANY program of constructors, clones, wrapper registrations
(before and after cloning, on any client) and setters, every client's wrapper chain is nil or is
made of exactly its own wrappers around its own `roundTrip`. -/
theorem chain_ends_in_self (ops : List Op) : WF (build true ops) :=
  foldl_wf ops [] (by intro c cl h; simp at h)

theorem effective_eq_own_of_wf (st : Store) (h : WF st) (c : Cid) : effective st c = own st c := by
  unfold effective own
  cases hc : st[c]? with
  | none => rfl
  | some cl =>
    rcases h c cl hc with ⟨h1, h2⟩ | ⟨h1, h2⟩
    · simp [h2, hc, h1]
    · simp [h2, hc]

/-- **call_runs_own_settings** — for every program and every client `c` it creates, the call
`c.R().Get(…)` enters exactly `c`'s wrappers (last registered first), runs `c`'s own `roundTrip`
(its transport, its response middleware, its common error type, its auto-read switch) and
consults `c`'s request middleware, state checker, body transformer and error hook — never those
of the client it was cloned from or of its own clones. -/
theorem call_runs_own_settings (ops : List Op) (c : Cid) :
    effective (build true ops) c = own (build true ops) c :=
  effective_eq_own_of_wf _ (chain_ends_in_self ops) c

example : effective (build true [.new, .wrap 0 [1, 2], .onAfter 0 5, .clone 0, .wrap 1 [3], .onAfter 1 7, .wrap 0 [4],
                                  .setCommonErr 0 9, .clone 1, .onAfter 2 8]) 1
    = some { wrappers := [3, 2, 1], core := 1, before := [], checker := none, xform := none, hook := none,
             after := [5, 7], commonErr := none, autoReadOff := false, transport := 1 } := by decide

/-- `Clone` WITHOUT the rebuild (the chain value copied with `*c`): the copy of a wrapped client
runs the ORIGINAL client's `roundTrip` — the response middleware and common error type installed
on the copy are never consulted, the original's are. -/
theorem clone_without_rebuild_runs_parent :
    effective (build false [.new, .wrap 0 [1], .clone 0, .onAfter 1 7, .setCommonErr 1 9, .onAfter 0 6]) 1
      = some { wrappers := [1], core := 0, before := [], checker := none, xform := none, hook := none,
               after := [6], commonErr := none, autoReadOff := false, transport := 0 } ∧
    own (build false [.new, .wrap 0 [1], .clone 0, .onAfter 1 7, .setCommonErr 1 9, .onAfter 0 6]) 1
      = some { wrappers := [1], core := 1, before := [], checker := none, xform := none, hook := none,
               after := [7], commonErr := some 9, autoReadOff := false, transport := 1 } := by decide

/-! ### relatives do not matter -/

theorem update_other (st : Store) (c c' : Cid) (f : Client → Client) (hne : c' ≠ c) :
    (update st c' f)[c]? = st[c]? := by
  unfold update
  cases st[c']? with
  | none => rfl
  | some cl => simp only; exact List.getElem?_set_ne hne

/-- An operation that does not configure `c` leaves `c` as it is (`Clone` reads, `C()` creates). -/
theorem apply_other (rb : Bool) (st : Store) (op : Op) (c : Cid) (hc : c < st.length)
    (hne : op.target ≠ some c) : (apply rb st op)[c]? = st[c]? := by
  cases op with
  | new => simp only [apply]; exact List.getElem?_append_left hc
  | clone c' =>
    simp only [apply]
    cases st[c']? with
    | none => rfl
    | some cl => simp only; exact List.getElem?_append_left hc
  | wrap c' ws => exact update_other st c c' _ (fun e => hne (by simp [Op.target, e]))
  | onBefore c' id => exact update_other st c c' _ (fun e => hne (by simp [Op.target, e]))
  | onAfter c' id => exact update_other st c c' _ (fun e => hne (by simp [Op.target, e]))
  | setCommonErr c' id => exact update_other st c c' _ (fun e => hne (by simp [Op.target, e]))
  | setChecker c' id => exact update_other st c c' _ (fun e => hne (by simp [Op.target, e]))
  | onError c' id => exact update_other st c c' _ (fun e => hne (by simp [Op.target, e]))
  | setXform c' id => exact update_other st c c' _ (fun e => hne (by simp [Op.target, e]))
  | autoRead c' off => exact update_other st c c' _ (fun e => hne (by simp [Op.target, e]))
  | digestAuth c' => exact update_other st c c' _ (fun e => hne (by simp [Op.target, e]))

theorem apply_length_le (rb : Bool) (st : Store) (op : Op) : st.length ≤ (apply rb st op).length := by
  cases op <;> simp only [apply, update] <;> (try split) <;> simp

theorem foldl_other (rb : Bool) (ops : List Op) (c : Cid) (hne : ∀ op ∈ ops, op.target ≠ some c) :
    ∀ st, c < st.length → (ops.foldl (apply rb) st)[c]? = st[c]? := by
  induction ops with
  | nil => intro st _; rfl
  | cons op rest ih =>
    intro st hc
    simp only [List.foldl_cons]
    rw [ih (fun o ho => hne o (by simp [ho])) _ (Nat.lt_of_lt_of_le hc (apply_length_le rb st op))]
    exact apply_other rb st op c hc (hne op (by simp))

/-- **relatives_do_not_matter** — whatever is done afterwards to OTHER clients (the parent a
client was cloned from, its own clones, unrelated clients: wrappers, middleware, setters, further
clones), the call of an existing client `c` consults exactly what it consulted before. -/
theorem relatives_do_not_matter (pre post : List Op) (c : Cid) (hc : c < (build true pre).length)
    (hne : ∀ op ∈ post, op.target ≠ some c) :
    effective (build true (pre ++ post)) c = effective (build true pre) c := by
  rw [call_runs_own_settings, call_runs_own_settings]
  have : (build true (pre ++ post))[c]? = (build true pre)[c]? := by
    unfold build
    rw [List.foldl_append]
    exact foldl_other true post c hne _ hc
  unfold own
  rw [this]

example : effective (build true ([.new, .wrap 0 [1], .clone 0, .onAfter 1 7] ++ [.onAfter 0 6, .wrap 0 [2], .clone 1, .setChecker 2 3])) 1
    = effective (build true [.new, .wrap 0 [1], .clone 0, .onAfter 1 7]) 1 := by decide

/-- **clone_starts_from_parent** — the copy starts with the settings its parent has at the moment
of cloning (same stages, in the same order), with a transport and `roundTrip` of its own. -/
theorem clone_starts_from_parent (ops : List Op) (p : Cid) (e : Eff)
    (hp : effective (build true ops) p = some e) :
    effective (build true (ops ++ [.clone p])) (build true ops).length =
      some { e with core := (build true ops).length, transport := (build true ops).length } := by
  rw [call_runs_own_settings] at hp ⊢
  unfold own at hp ⊢
  cases hpc : (build true ops)[p]? with
  | none => rw [hpc] at hp; cases hp
  | some cl =>
    rw [hpc] at hp
    have hb : build true (ops ++ [.clone p]) = build true ops ++ [cloneClient true (build true ops).length cl] := by
      unfold build
      rw [List.foldl_append]
      simp only [List.foldl_cons, List.foldl_nil, apply]
      have : (List.foldl (apply true) [] ops)[p]? = some cl := hpc
      rw [this]
    rw [hb]
    simp only [List.getElem?_append_right (Nat.le_refl _), Nat.sub_self, List.getElem?_cons_zero]
    simp only [Option.some.injEq] at hp
    subst hp
    simp [cloneClient]

example : effective (build true ([.new, .wrap 0 [1, 2], .onAfter 0 5, .setCommonErr 0 4] ++ [.clone 0])) 1
    = some { wrappers := [2, 1], core := 1, before := [], checker := none, xform := none, hook := none,
             after := [5], commonErr := some 4, autoReadOff := false, transport := 1 } := by decide

/-- **digest_auth_displaces_nothing** — `SetCommonDigestAuth` on ANY client at ANY point of ANY
program (before, between or after the middleware registrations, repeated, on a parent or a copy)
changes nothing of what a call of ANY client consults: every response middleware registered so
far is still there, in registration order, and so is every other setting. -/
theorem digest_auth_displaces_nothing (ops : List Op) (c c' : Cid) :
    effective (build true (ops ++ [.digestAuth c])) c' = effective (build true ops) c' := by
  rw [call_runs_own_settings, call_runs_own_settings]
  have hb : build true (ops ++ [.digestAuth c]) =
      update (build true ops) c (fun cl => { cl with digest := true }) := by
    unfold build
    rw [List.foldl_append]
    rfl
  rw [hb]
  by_cases e : c = c'
  · subst e
    unfold own update
    cases hc : (build true ops)[c]? with
    | none => simp only [hc]
    | some cl =>
      have hlt : c < (build true ops).length := by
        cases Nat.lt_or_ge c (build true ops).length with
        | inl h => exact h
        | inr h => rw [List.getElem?_eq_none h] at hc; cases hc
      simp only [List.getElem?_set_self hlt]
  · unfold own
    rw [update_other _ c' c _ e]

example : effective (build true ([.new, .onAfter 0 5, .onAfter 0 6] ++ [.digestAuth 0])) 0
    = some { wrappers := [], core := 0, before := [], checker := none, xform := none, hook := none,
             after := [5, 6], commonErr := none, autoReadOff := false, transport := 0 } := by decide

end Req.Props.C18
