import Req.Pool.CancelErr
/-!
C08 — property theorems, error identification ("… returns promptly with an error identifying the
cancellation or timeout"): `Req/Pool/CancelErr.lean`.

* `is_relations_transparent` : `errors.Is(context.Canceled / DeadlineExceeded)` gives the same answer behind
                               every chain of wrappers.
* `cancel_identified`, `cancel_never_a_timeout` : a cancelled context is reported as `context.Canceled` behind
                               every chain of wrappers, is never a timeout, and stops the retry loop.
* `deadline_identified`      : a passed deadline (ctx deadline, Client.Timeout) is `DeadlineExceeded` behind
                               every chain of wrappers, and does not count as "cancelled" (so `Request.do` may
                               retry it, and then ends in its wait).
* `every_timeout_says_timeout` : each timeout the transport raises itself (response headers on h1 / h2,
                               TLS handshake) answers `Timeout() == true`, bare and wrapped by http.Client.
* `timeout_hidden_below_inner_wrapper` : (found by the lane) `*url.Error.Timeout()` asks only the error it
                               wraps directly: below `nothingWrittenError` / the broken-connection wrapper a
                               timeout is not a `net.Error` timeout for the caller any more.
* `only_cancel_stops_retry`  : `errors.Is(err, context.Canceled)` holds for exactly one source.
* `classes_exclusive`        : no error is both cancelled and deadline.
* `non_ctx_errors_are_other` : the remaining sources are classified as neither.
-/
namespace Req.Props.C08Err
open Req.CancelErr

/-- `errors.Is` is transparent to every chain of wrappers -/
theorem is_relations_transparent (ws : List Wrap) (r : Rel) :
    (seen ws r).isCanceled = r.isCanceled ∧ (seen ws r).isDeadline = r.isDeadline := by
  unfold seen
  suffices h : ∀ v : View, (ws.foldl wrap1 v).rel.isCanceled = v.rel.isCanceled ∧
      (ws.foldl wrap1 v).rel.isDeadline = v.rel.isDeadline from h ⟨r, r.timeout⟩
  induction ws with
  | nil => intro v; exact ⟨rfl, rfl⟩
  | cons w t ih =>
    intro v
    simp only [List.foldl_cons]
    obtain ⟨h1, h2⟩ := ih (wrap1 v w)
    rw [h1, h2]
    cases w <;> exact ⟨rfl, rfl⟩

/-- a value that is no timeout does not become one by wrapping -/
theorem no_timeout_stays (ws : List Wrap) : ∀ v : View, v.rel.timeout = false → v.direct = false →
    (ws.foldl wrap1 v).rel.timeout = false := by
  induction ws with
  | nil => intro v h _; exact h
  | cons w t ih =>
    intro v h1 h2
    simp only [List.foldl_cons]
    apply ih
    · cases w <;> simp [wrap1, h2, h1]
    · cases w <;> simp [wrap1, h2]

theorem cancel_identified (ws : List Wrap) :
    classify (seen ws (rel .ctxCanceled)) = .canceled ∧ stopsRetry (seen ws (rel .ctxCanceled)) = true := by
  obtain ⟨h1, h2⟩ := is_relations_transparent ws (rel .ctxCanceled)
  unfold classify stopsRetry
  rw [h1]; exact ⟨rfl, rfl⟩

theorem deadline_identified (ws : List Wrap) :
    classify (seen ws (rel .ctxDeadline)) = .deadline ∧ (seen ws (rel .ctxDeadline)).isDeadline = true ∧
    stopsRetry (seen ws (rel .ctxDeadline)) = false := by
  obtain ⟨h1, h2⟩ := is_relations_transparent ws (rel .ctxDeadline)
  unfold classify stopsRetry
  rw [h1, h2]; exact ⟨rfl, rfl, rfl⟩

/-- the transport's own timeouts reach the caller bare or wrapped once by `http.Client`
(`*url.Error`): there they answer `Timeout() == true` -/
theorem every_timeout_says_timeout (s : Src)
    (h : s = .ctxDeadline ∨ s = .respHeaderTimeout ∨ s = .tlsHandshakeTimeout ∨ s = .h2RespHeaderTimeout)
    (ws : List Wrap) (hw : ws = [] ∨ ws = [.urlError]) :
    (seen ws (rel s)).timeout = true ∧ classify (seen ws (rel s)) = .deadline := by
  rcases h with h | h | h | h <;> subst h <;> rcases hw with hw | hw <;> subst hw <;> decide

/-- … but `*url.Error.Timeout()` looks only at the error it wraps directly: a timeout below another
wrapper is no longer a `net.Error` timeout for the caller (it stays `DeadlineExceeded` if it was) -/
theorem timeout_hidden_below_inner_wrapper (s : Src) (w : Wrap) (hw : w ≠ .urlError) :
    (seen [w, .urlError] (rel s)).timeout = false := by
  cases s <;> cases w <;> first | rfl | exact absurd rfl hw

theorem only_cancel_stops_retry (s : Src) : stopsRetry (rel s) = true ↔ s = .ctxCanceled := by
  cases s <;> decide

theorem classes_exclusive (s : Src) : ¬ ((rel s).isCanceled = true ∧ (rel s).isDeadline = true) := by
  cases s <;> decide

theorem cancel_never_a_timeout (ws : List Wrap) : (seen ws (rel .ctxCanceled)).timeout = false :=
  no_timeout_stays ws ⟨rel .ctxCanceled, false⟩ rfl rfl

theorem non_ctx_errors_are_other (s : Src)
    (h : s = .reqCanceled ∨ s = .reqCanceledConn ∨ s = .serverClosedIdle ∨ s = .io) (ws : List Wrap) :
    classify (seen ws (rel s)) = .other := by
  obtain ⟨h1, h2⟩ := is_relations_transparent ws (rel s)
  have h3 : (seen ws (rel s)).timeout = false := by
    unfold seen
    rcases h with h | h | h | h <;> subst h <;> exact no_timeout_stays ws _ rfl rfl
  unfold classify
  rw [h1, h2, h3]
  rcases h with h | h | h | h <;> subst h <;> rfl

/-- non-vacuity: the classes are all inhabited -/
example : (allSrc.map (fun s => classify (rel s))) =
    [.canceled, .deadline, .deadline, .deadline, .deadline, .other, .other, .other, .other] := by decide

end Req.Props.C08Err
