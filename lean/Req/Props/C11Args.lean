import Req.Client.RedirectArgs
import Req.Client.Redirect
/-!
C11 — a client enforces the policy list it was GIVEN, whoever owns the storage it came in
(model `Req.Redirect.Args`; lanes policy / e2e / e2ealt / loop configure families of clients from shared
caller-owned arrays with spare capacity, overlapping sub-slices, and caller writes after the call).

* `set_policy_copies_argument` — after `SetRedirectPolicy(arr[off:off+len]...)` the client enforces the
  content the slice had at the call, and keeps enforcing it through ANY later caller writes, allocations,
  clones and `SetRedirectPolicy` calls on other clients (which may use the same array).
* `args_refine_lifetime` — the whole family behaves as the lifetime machine of `RedirectLifetime` run on the
  argument VALUES at call time: `policy_lifetime`, `clone_carries_policy`, `set_isolated`,
  `clone_decides_like_parent` (Props.C11) therefore hold for caller-owned arguments too.
* `alias_semantics_differs` — the code before fixes/C11-4 (closure keeps the caller's slice) does not have
  the property: one caller write after the call changes what the client enforces.
-/
namespace Req.Props.C11Args
open Req.Redirect.Args

/-- An operation that is not a `SetRedirectPolicy` call on client `i`. -/
def NotSetOn {α : Type} (i : Nat) : Op α → Prop
  | .setLit k _ => k ≠ i
  | .setSlice k _ => k ≠ i
  | _ => True

theorem step_keeps_client {α : Type} (st : State α) (op : Op α) (i : Nat) (v : List α)
    (h : st.clients[i]? = some v) (hop : NotSetOn i op) : (step st op).clients[i]? = some v := by
  have hlt : i < st.clients.length := by
    rcases Nat.lt_or_ge i st.clients.length with hl | hl
    · exact hl
    · rw [List.getElem?_eq_none hl] at h; exact absurd h (by simp)
  cases op with
  | alloc cells => exact h
  | write a x w => exact h
  | setLit k ps =>
    simp only [NotSetOn] at hop
    simp only [step]
    split
    · exact h
    · simp [List.getElem?_set, hop, h]
  | setSlice k s =>
    simp only [NotSetOn] at hop
    simp only [step]
    split
    · exact h
    · simp [List.getElem?_set, hop, h]
  | clone k =>
    simp only [step]
    split
    · simp [List.getElem?_append_left hlt, h]
    · exact h

theorem foldl_keeps_client {α : Type} (later : List (Op α)) (st : State α) (i : Nat) (v : List α)
    (h : st.clients[i]? = some v) (hl : ∀ op ∈ later, NotSetOn i op) :
    (later.foldl step st).clients[i]? = some v := by
  induction later generalizing st with
  | nil => exact h
  | cons op ops ih =>
    simp only [List.foldl_cons]
    exact ih _ (step_keeps_client st op i v h (hl op (by simp))) (fun o ho => hl o (by simp [ho]))

/-- **set_policy_copies_argument**: client `i` is configured from a caller-owned slice with a non-empty
content; whatever happens afterwards that is not a `SetRedirectPolicy` on `i` itself — the caller
overwriting cells of the array (reusing it, appending to a prefix), other clients being configured from
the same array or overlapping sub-slices, clones, allocations — client `i` enforces exactly the list the
slice held at the time of the call. -/
theorem set_policy_copies_argument {α : Type} (st : State α) (i : Nat) (s : Slice)
    (hi : i < st.clients.length) (hne : st.heap.read s ≠ [])
    (later : List (Op α)) (hl : ∀ op ∈ later, NotSetOn i op) :
    (later.foldl step (step st (.setSlice i s))).clients[i]? = some (st.heap.read s) := by
  apply foldl_keeps_client later _ i _ _ hl
  simp only [step]
  have : (st.heap.read s).isEmpty = false := by
    cases h : st.heap.read s with
    | nil => exact absurd h hne
    | cons x xs => rfl
  simp [this, List.getElem?_set, hi]

/-- Generalised refinement: from any reachable pair (state, lifetime history). -/
theorem foldl_refines {α : Type} (dflt : List α) (ops : List (Op α)) (st : State α)
    (acc : List (Req.Redirect.Lifetime.Op (List α)))
    (h : st.clients = Req.Redirect.Lifetime.run dflt acc) :
    (ops.foldl step st).clients = Req.Redirect.Lifetime.run dflt (trace st ops acc) := by
  induction ops generalizing st acc with
  | nil => simpa [trace] using h
  | cons op ops ih =>
    simp only [List.foldl_cons]
    cases op with
    | alloc cells => simp only [trace]; exact ih _ _ (by simpa [step] using h)
    | write a x v => simp only [trace]; exact ih _ _ (by simpa [step] using h)
    | setLit i ps =>
      simp only [trace]
      apply ih
      simp only [step, Req.Redirect.Lifetime.run, Req.Redirect.Lifetime.step]
      split <;> simp [h]
    | setSlice i s =>
      simp only [trace]
      apply ih
      simp only [step, Req.Redirect.Lifetime.run, Req.Redirect.Lifetime.step]
      split <;> simp [h]
    | clone i =>
      simp only [trace]
      apply ih
      simp only [step, Req.Redirect.Lifetime.run, Req.Redirect.Lifetime.step, ← h]
      split <;> simp_all

/-- **args_refine_lifetime**: with the argument copied at the call, a family of clients configured
through caller-owned storage is the lifetime machine run on the argument VALUES at call time. -/
theorem args_refine_lifetime {α : Type} (dflt : List α) (ops : List (Op α)) :
    (run dflt ops).clients =
      Req.Redirect.Lifetime.run dflt (trace { clients := [dflt] } ops []) :=
  foldl_refines dflt ops _ [] rfl

/-- **alias_semantics_differs**: array `[1, 2]`, client 0 configured from `arr[0:2]`, then the caller
writes `arr[0] = 9` (e.g. reuses the buffer for the next client): the property's semantics keeps
`[1, 2]`, the pre-fix code enforces `[9, 2]`. Likewise a second client configured from the prefix
`arr[0:1]` by a library that appends one element in place (a write to `arr[1]`) changes client 0. -/
theorem alias_semantics_differs :
    let ops : List (Op Nat) := [.alloc [1, 2], .setSlice 0 ⟨0, 0, 2⟩, .write 0 0 9]
    (run [10] ops).clients[0]? = some [1, 2] ∧ Alias.enforced (Alias.run [10] ops) 0 = some [9, 2] := by
  decide

/-- Non-vacuity: three clients from one array with spare capacity, overlapping sub-slices, a clone, and
caller writes in between — each keeps what it was given. -/
example :
    (run [10] ([.alloc [1, 2, 3, 0, 0], .clone 0, .clone 0, .setSlice 0 ⟨0, 0, 3⟩, .setSlice 1 ⟨0, 0, 1⟩,
      .write 0 1 7, .setSlice 2 ⟨0, 1, 2⟩, .write 0 0 8, .clone 1, .setSlice 1 ⟨0, 3, 0⟩] : List (Op Nat))).clients =
      [[1, 2, 3], [1], [7, 3], [1]] := by decide

end Req.Props.C11Args
