import Req.Lemmas.RespHeader
import Req.Props.C15
/-!
C15 — "a charset declared in the Content-Type header is always applied" starts at the header
FIELDS the peer sent: the Content-Type the selection looks at is
`res.Header.Get("Content-Type")` of the map assembled from them.

* `values_assemble`: in the assembled map every key holds exactly the values of the fields with
  that (canonicalised) name, in wire order — for every field list, however the fields of
  different names are interleaved and however often a name repeats;
* `contentType_first_field`: `Get("Content-Type")` is the value of the FIRST Content-Type field;
* `contentType_ignores_other_fields`: adding, removing or reordering fields of other names
  anywhere in the block never changes it;
* `slots_refine_assemble`: the pre-allocated value slots of the HTTP/1.1 and HTTP/2 readers
  (`strs[:1:1]`) produce exactly that map, for every number of pre-allocated slots;
* `uncapped_slots_overwrite`: with `strs[:1]` (capacity not capped) they do not — a repeated
  header's second value overwrites the Content-Type received in between (falsifier, by evaluation);
* `header_charset_applied_from_fields`: composition with `header_charset_always_applied`.
-/
namespace Req.Props.C15
open Req.Proto Req.Decode Req.RespHeader Req.Ascii

/-- **values_assemble** -/
theorem values_assemble (fields : List Field) (k : Bytes) :
    values (assemble fields) k =
      (fields.filter fun f => canonicalMIMEHeaderKey f.1 = k).map Prod.snd := by
  unfold assemble
  rw [values_foldl]
  simp [values]

/-- **contentType_first_field**: what `Header.Get("Content-Type")` returns. -/
theorem contentType_first_field (fields : List Field) :
    get (assemble fields) contentTypeKey =
      match fields.find? fun f => canonicalMIMEHeaderKey f.1 = contentTypeKey with
      | some f => f.2
      | none => [] := by
  unfold RespHeader.get
  rw [values_assemble]
  induction fields with
  | nil => rfl
  | cons f fs ih =>
    by_cases h : canonicalMIMEHeaderKey f.1 = contentTypeKey
    · simp [h]
    · simp only [List.filter_cons, List.find?_cons, h, decide_false]
      exact ih

/-- **contentType_ignores_other_fields**: two field lists with the same Content-Type fields (in
the same order) give the same Content-Type, whatever else they contain and wherever. -/
theorem contentType_ignores_other_fields (fields fields' : List Field)
    (h : (fields.filter fun f => canonicalMIMEHeaderKey f.1 = contentTypeKey) =
         (fields'.filter fun f => canonicalMIMEHeaderKey f.1 = contentTypeKey)) :
    get (assemble fields) contentTypeKey = get (assemble fields') contentTypeKey := by
  unfold RespHeader.get
  rw [values_assemble, values_assemble, h]

/-- **slots_refine_assemble**: the slot mechanism with capped capacity IS `Header.Add`, for every
field list and every size `n` of the pre-allocated array (HTTP/2: the number of regular fields;
HTTP/1.1: the number of header lines buffered so far, at most 1000). -/
theorem slots_refine_assemble (n : Nat) (fields : List Field) :
    Slots.readOut (Slots.run true n fields) = assemble fields := by
  have hg : Slots.Good (Slots.init n) := by
    refine ⟨by simp [Slots.init], ?_⟩
    intro k off len cap hm
    simp [Slots.init] at hm
  have := Slots.run_capped_aux fields (Slots.init n) hg
  simp only [] at this
  unfold Slots.readOut Slots.run assemble
  have h2 := this.2
  simp only [Slots.resolve] at h2
  rw [h2]
  simp [Slots.init]

private def sc : Bytes := [115, 101, 116, 45, 99, 111, 111, 107, 105, 101]          -- "set-cookie"
private def ctl : Bytes := [99, 111, 110, 116, 101, 110, 116, 45, 116, 121, 112, 101] -- "content-type"
private def gbkCT : Bytes := [116, 101, 120, 116, 47, 112, 108, 97, 105, 110, 59, 32, 99, 104, 97, 114, 115, 101, 116, 61, 103, 98, 107]
-- set-cookie: a / content-type: text/plain; charset=gbk / set-cookie: b
private def interleaved : List Field := [(sc, [97]), (ctl, gbkCT), (sc, [98])]

/-- **uncapped_slots_overwrite**: without the capacity cap the second `set-cookie` value lands
in the array element that holds the Content-Type: the caller sees Content-Type `b`. -/
theorem uncapped_slots_overwrite :
    get (Slots.readOut (Slots.run false 3 interleaved)) contentTypeKey = [98] ∧
    get (assemble interleaved) contentTypeKey = gbkCT ∧
    get (Slots.readOut (Slots.run true 3 interleaved)) contentTypeKey = gbkCT := by decide

example : values (assemble interleaved) [83, 101, 116, 45, 67, 111, 111, 107, 105, 101] = [[97], [98]] := by decide
-- fewer slots than keys (HTTP/1.1 when the header block arrives in several packets)
example : Slots.readOut (Slots.run true 1 interleaved) = assemble interleaved := by decide

variable {σ : Type}

/-- **header_charset_applied_from_fields**: whatever fields surround it — the charset of the
first Content-Type field is applied to the whole body. -/
theorem header_charset_applied_from_fields (fields : List Field) (f : Field)
    (hfirst : fields.find? (fun f => canonicalMIMEHeaderKey f.1 = contentTypeKey) = some f)
    (hnoae : get (assemble fields) acceptEncodingKey = [])
    (cfg : Config) (cs : Bytes) (lookup : Bytes → Option (Decoder σ))
    (find : Bytes → Option (Decoder σ)) (d : Decoder σ) (hl : d.Lawful)
    (hon : cfg.disable = false) (hsel : shouldDecode cfg f.2 = true)
    (hutf : isUtf8Label (lower cs) = false) (hlk : lookup (lower cs) = some d)
    (src : Src) (bufs : List Nat)
    (heof : (respReads cfg (get (assemble fields) acceptEncodingKey) (get (assemble fields) contentTypeKey)
      (.charset cs) lookup find src bufs).term = some .eof) :
    (respReads cfg (get (assemble fields) acceptEncodingKey) (get (assemble fields) contentTypeKey)
      (.charset cs) lookup find src bufs).out = d.decodeAll src.body := by
  have hct : get (assemble fields) contentTypeKey = f.2 := by
    rw [contentType_first_field, hfirst]
  rw [hct, hnoae] at heof ⊢
  exact header_charset_always_applied cfg f.2 cs lookup find d hl hon hsel hutf hlk src bufs heof

end Req.Props.C15
