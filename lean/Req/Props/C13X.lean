import Req.Client.DumpExtra
import Req.Props.C13
/-!
C13: transparency when the dump writer itself fails, and what `Response.Dump()` holds after a
call of several exchanges.
-/
namespace Req.Props.C13X
open Req.Proto Req.Client.Dump

/-- **Transparency under a failing dump writer.** For EVERY sink — one that reports errors,
accepts short counts, or keeps arbitrary state — and every sequence of writes: the results the
caller sees and the state of the wrapped connection writer are exactly those of the unwrapped
writer. A dump writer cannot fail, shorten or alter the upload. -/
theorem wrappers_transparent_any_sink {σ τ : Type} (w : WriterM σ) (sink : WriterM τ) (s : σ) (t : τ)
    (ps : List Bytes) :
    ((wrapWriterSink w sink).runAll (s, t) ps).1 = (w.runAll s ps).1 ∧
    ((wrapWriterSink w sink).runAll (s, t) ps).2.1 = (w.runAll s ps).2 := by
  induction ps generalizing s t with
  | nil => simp [WriterM.runAll]
  | cons p ps ih =>
    have h1 : ((wrapWriterSink w sink).write (s, t) p).1 = (w.write s p).1 := rfl
    have h2 : ((wrapWriterSink w sink).write (s, t) p).2 =
        ((w.write s p).2, ((wrapWriterSink w sink).write (s, t) p).2.2) := rfl
    have := ih (w.write s p).2 ((wrapWriterSink w sink).write (s, t) p).2.2
    simp only [WriterM.runAll]
    rw [h2, h1, this.1, this.2]
    exact ⟨rfl, rfl⟩

/-- **…and the sink is still offered exactly what passed, once**, whatever it answered to earlier
offers: no retry after an error, no skipped piece. -/
theorem sink_offered_exactly {σ τ : Type} (w : WriterM σ) (sink : WriterM τ) (s : σ) (t : τ)
    (ps : List Bytes) :
    ((wrapWriterSink w sink).runAll (s, t) ps).2.2 = sinkRun sink t (offered ps (w.runAll s ps).1) := by
  induction ps generalizing s t with
  | nil => simp [WriterM.runAll, offered, sinkRun]
  | cons p ps ih =>
    have h2 : ((wrapWriterSink w sink).write (s, t) p).2 =
        ((w.write s p).2, ((wrapWriterSink w sink).write (s, t) p).2.2) := rfl
    have := ih (w.write s p).2 ((wrapWriterSink w sink).write (s, t) p).2.2
    simp only [WriterM.runAll, offered]
    rw [h2, this]
    by_cases h : (p.take (w.write s p).1.n).isEmpty
    · have ht : ((wrapWriterSink w sink).write (s, t) p).2.2 = t := by
        simp only [wrapWriterSink]; rw [if_pos h]
      rw [ht, if_pos h]; rfl
    · have ht : ((wrapWriterSink w sink).write (s, t) p).2.2 =
          (sink.write t (p.take (w.write s p).1.n)).2 := by
        simp only [wrapWriterSink]; rw [if_neg h]
      rw [ht, if_neg h]; rfl

/-- non-vacuity: a connection writer that takes 5 more bytes, a sink that fails from its second
write on: the caller sees `3:ok, 2:short, 0:short`; the sink was offered `abc`, `de` and nothing else. -/
example :
    let r := (wrapWriterSink limitedWriter (failingSink 1)).runAll ((5, []), (0, [])) [[97, 98, 99], [100, 101, 102], [103]]
    r.1 = [⟨3, 0⟩, ⟨2, 2⟩, ⟨0, 2⟩] ∧ r.2.2 = (2, [[97, 98, 99], [100, 101]]) := by decide

/-- **`Response.Dump()` after a call of several exchanges.** The request's own buffer holds
exactly the selected parts of the exchanges of the LAST retry attempt — every redirect hop /
re-send of that attempt once, in order — and nothing of earlier attempts; every other writer
(client-level dump, request-level dump to a caller's writer) holds all exchanges of all attempts,
each once, in order. -/
theorem response_dump_last_attempt (ds : List Opts) (attempts : List (List Exchange)) (buf w : Writer) :
    dumpAfterRetries ds attempts buf w =
      if w = buf then (attempts.getLast?.getD []).flatMap fun e => ds.flatMap fun o => Req.Props.C13.selectedParts o e w
      else attempts.flatten.flatMap fun e => ds.flatMap fun o => Req.Props.C13.selectedParts o e w := by
  unfold dumpAfterRetries
  split <;> exact Req.Props.C13.selected_parts_exact ds _ w

/-- non-vacuity: two attempts, the second with a redirect hop; buffer 30 holds the two exchanges of
the second attempt only, writer 10 all three. -/
example :
    let o : Opts := { output := some 30, requestHeader := true, responseBody := true }
    let c : Opts := { output := some 10, requestHeader := true }
    let e (n : UInt8) : Exchange := ⟨[n], [n, n], [n, n, n], [n + 100]⟩
    dumpAfterRetries [c, o] [[e 1], [e 2, e 3]] 30 30 = [2, 102, 3, 103] ∧
    dumpAfterRetries [c, o] [[e 1], [e 2, e 3]] 30 10 = [1, 2, 3] := by decide

end Req.Props.C13X
