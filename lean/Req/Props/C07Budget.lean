import Req.C07.H1Budget
import Req.C07.H3Budget
import Req.H2.Meta
import Req.Lemmas.C05Meta
import Req.Lemmas.C07H3
/-!
C07 — property theorems, part 3: the memory held for one response head stays within the
configured limit plus one read buffer, in EVERY reachable state, for EVERY input.

* HTTP/1.1 (`MaxResponseHeaderBytes`, `persistConn.readLimit`): `h1_held_le`, `h1_pulled_le`,
  `h1_accept_size`, `h1_total_le`, `h1_exhausted_only_at_limit`, `pcRead_*`.
* HTTP/2 (`MaxHeaderListSize`, `remainSize` in `readMetaFrame`): `h2_state_budget`,
  `h2_accepted_frag_le`, `h2_no_continuation_after_truncation`, `h2_accept_size`.
* HTTP/3 (`MaxResponseHeaderBytes`, length check before allocation): `h3_alloc_le`,
  `h3_block_le`, `h3_over_limit_refused`.
-/
namespace Req.Props.C07
open Req.Proto

namespace h1budget
open Req.C07.H1Budget

/-- what holds in every reachable state -/
structure Good (s : St) : Prop where
  buf : s.buffered ≤ s.B
  carry : s.carry ≤ s.B
  lim : s.pulled + s.limit = s.L
  src : s.headSize + s.buffered ≤ s.carry + s.pulled
  n1xx : s.num1xx ≤ max1xx
  tot : s.total ≤ s.num1xx * s.L + s.pulled

theorem good_init (L B b0 : Nat) : Good (init L B b0) := by
  refine ⟨?_, ?_, ?_, ?_, ?_, ?_⟩ <;> simp [init, max1xx] <;> omega

theorem readN_le (s : St) (want avail n : Nat) (h : readN s want avail = some n) :
    n ≤ s.B - s.buffered ∧ n ≤ s.limit ∧ n ≤ want ∧ n ≤ avail ∧ 0 < s.limit := by
  unfold readN at h
  split at h
  · cases h
  · next hl =>
    cases h
    refine ⟨?_, ?_, ?_, ?_, by omega⟩ <;> omega

theorem step_good (s : St) (e : Ev) (h : Good s) : Good (step s e) := by
  obtain ⟨h1, h2, h3, h4, h5, h6⟩ := h
  cases e with
  | net want avail =>
    simp only [step]
    split
    · exact ⟨h1, h2, h3, h4, h5, h6⟩
    · split
      · exact ⟨h1, h2, h3, h4, h5, h6⟩
      · next n hn =>
        obtain ⟨a, b, _, _, _⟩ := readN_le s want avail n hn
        refine ⟨?_, ?_, ?_, ?_, ?_, ?_⟩ <;> simp only <;> omega
  | parse k =>
    simp only [step]
    split
    · exact ⟨h1, h2, h3, h4, h5, h6⟩
    · refine ⟨?_, ?_, ?_, ?_, ?_, ?_⟩ <;> simp only <;> omega
  | endHead interim =>
    simp only [step]
    split
    · exact ⟨h1, h2, h3, h4, h5, h6⟩
    · split
      · split
        · exact ⟨h1, h2, h3, h4, h5, h6⟩
        · next hgt =>
          refine ⟨h1, ?_, ?_, ?_, ?_, ?_⟩ <;> simp only
          · omega
          · omega
          · omega
          · omega
          · have : s.pulled ≤ s.L := by omega
            have : (s.num1xx + 1) * s.L = s.num1xx * s.L + s.L := by
              rw [Nat.add_mul]; simp
            omega
      · exact ⟨h1, h2, h3, h4, h5, h6⟩

theorem run_good (s : St) (evs : List Ev) (h : Good s) : Good (run s evs) := by
  induction evs generalizing s with
  | nil => exact h
  | cons e rest ih => exact ih (step s e) (step_good s e h)

theorem step_params (s : St) (e : Ev) : (step s e).L = s.L ∧ (step s e).B = s.B := by
  cases e <;> simp only [step] <;> (repeat' split) <;> simp

theorem run_params (s : St) (evs : List Ev) : (run s evs).L = s.L ∧ (run s evs).B = s.B := by
  induction evs generalizing s with
  | nil => exact ⟨rfl, rfl⟩
  | cons e rest ih =>
    obtain ⟨a, b⟩ := ih (step s e)
    obtain ⟨c, d⟩ := step_params s e
    exact ⟨a.trans c, b.trans d⟩

/-- **h1_held_le**: in every state reachable by any sequence of socket deliveries, parser steps
and head boundaries, the bytes held for the response head (parsed into it + sitting in the read
buffer) are at most `MaxResponseHeaderBytes` + one read buffer. -/
theorem h1_held_le (L B b0 : Nat) (evs : List Ev) :
    held (run (init L B b0) evs) ≤ L + B := by
  have g := run_good _ evs (good_init L B b0)
  have hL : (run (init L B b0) evs).L = L := (run_params (init L B b0) evs).1
  have hB : (run (init L B b0) evs).B = B := (run_params (init L B b0) evs).2
  have h3 := g.lim
  have h4 := g.src
  have h2 := g.carry
  unfold held
  omega

/-- **h1_pulled_le**: between two settings of the limit, at most `MaxResponseHeaderBytes` bytes
are taken from the socket — however the peer segments its writes. -/
theorem h1_pulled_le (L B b0 : Nat) (evs : List Ev) : (run (init L B b0) evs).pulled ≤ L := by
  have g := run_good _ evs (good_init L B b0)
  have hL : (run (init L B b0) evs).L = L := (run_params (init L B b0) evs).1
  have := g.lim
  omega

/-- **h1_accept_size**: a head that is accepted is at most `MaxResponseHeaderBytes` long plus what
was already buffered when the limit was set (at most one read buffer; nothing on a fresh
connection). -/
theorem h1_accept_size (L B b0 : Nat) (evs : List Ev) :
    let s := run (init L B b0) evs
    s.headSize ≤ s.carry + L ∧ s.carry ≤ B := by
  have g := run_good _ evs (good_init L B b0)
  have hL : (run (init L B b0) evs).L = L := (run_params (init L B b0) evs).1
  have hB : (run (init L B b0) evs).B = B := (run_params (init L B b0) evs).2
  have h3 := g.lim
  have h4 := g.src
  have h2 := g.carry
  exact ⟨by omega, by omega⟩

/-- **h1_total_le**: for one whole response — up to five interim heads included — the client takes
at most `6 × MaxResponseHeaderBytes` bytes from the socket before it has either accepted a final
head or given up. -/
theorem h1_total_le (L B b0 : Nat) (evs : List Ev) :
    (run (init L B b0) evs).total ≤ 6 * L ∧ (run (init L B b0) evs).num1xx ≤ 5 := by
  have g := run_good _ evs (good_init L B b0)
  have hL : (run (init L B b0) evs).L = L := (run_params (init L B b0) evs).1
  have h3 := g.lim
  have h5 := g.n1xx
  have h6 := g.tot
  simp only [max1xx] at h5
  refine ⟨?_, h5⟩
  have : (run (init L B b0) evs).num1xx * (run (init L B b0) evs).L ≤ 5 * L := by
    rw [hL]; exact Nat.mul_le_mul_right L h5
  omega

/-- **h1_exhausted_only_at_limit**: the "headers exceeded" error is raised only when the whole
budget has really been taken from the socket (never early). -/
theorem h1_exhausted_only_at_limit (s : St) (want avail : Nat) (hp : s.phase = .head)
    (h : (step s (.net want avail)).phase = .exhausted) : s.limit = 0 := by
  by_cases hl : s.limit = 0
  · exact hl
  · simp [step, hp, readN, hl] at h

/-- `persistConn.Read`: never more than asked for, than the limit, than available; the limit goes
down by exactly what was read; the error appears exactly at limit 0. -/
theorem pcRead_spec (limit want avail : Nat) :
    (limit = 0 → pcRead limit want avail = none) ∧
    (0 < limit → ∃ n, pcRead limit want avail = some (n, limit - n) ∧ n ≤ want ∧ n ≤ limit ∧ n ≤ avail) := by
  constructor
  · intro h; simp [pcRead, h]
  · intro h
    refine ⟨min (min want limit) avail, ?_, ?_, ?_, ?_⟩
    · simp [pcRead]; omega
    all_goals omega

/-- non-vacuity: a 10-byte budget, 4-byte buffer; the peer offers 100 bytes at a time -/
example : (run (init 10 4 0) [.net 4 100, .parse 4, .net 4 100, .parse 4, .net 4 100, .parse 4, .net 4 100]).phase
    = .exhausted := by decide
example : (run (init 10 4 0) [.net 4 100, .parse 4, .net 4 100, .parse 4, .net 4 100]).pulled = 10 := by decide
example : (run (init 10 4 0) [.net 4 3, .parse 3, .endHead true, .net 4 100, .parse 4, .endHead false]).phase
    = .accepted := by decide
example : (run (init 10 4 0) ((List.replicate 6 (Ev.endHead true)))).phase = .tooMany1xx := by decide

end h1budget

namespace h2budget
open Req.H2.Meta Req.Lemmas.C05.Meta Req.H2.Frame

def st0 (maxList : Nat) : St := { remainSize := maxHeaderListSize maxList }

theorem good_st0 (maxList : Nat) : Good (maxHeaderListSize maxList) (st0 maxList) :=
  ⟨by simp [st0, fieldsSize], by simp [st0], by simp [st0], by
    intro a b hab
    have : a = [] ∧ b = [] := by simpa [st0] using hab.symm
    rcases this with ⟨rfl, rfl⟩
    simp⟩

/-- **h2_state_budget**: in every state the `readMetaFrame` loop can reach — after any number of
HEADERS / CONTINUATION fragments, whatever the HPACK decoder emitted — the fields kept so far plus
the remaining budget never exceed `MaxHeaderListSize`. -/
theorem h2_state_budget (maxList : Nat) (frags : List Frag) (s : St)
    (h : fragLoop (st0 maxList) frags = .ok s) :
    fieldsSize s.fields + s.remainSize ≤ maxHeaderListSize maxList :=
  (fragLoop_good _ frags _ s (good_st0 maxList) h).size

/-- … also in the middle of a fragment (any prefix of the decoder's events) -/
theorem h2_state_budget_mid (maxList : Nat) (frags : List Frag) (s s' : St) (evs : List Event)
    (h : fragLoop (st0 maxList) frags = .ok s) (hw : writeFrag s evs = some s') :
    fieldsSize s'.fields ≤ maxHeaderListSize maxList := by
  have g := fragLoop_good _ frags _ s (good_st0 maxList) h
  have := (writeFrag_good _ evs s s' g hw).size
  omega

/-- **h2_accepted_frag_le**: a fragment is handed to the HPACK decoder only if it is at most twice
the remaining budget (so at most `2 × MaxHeaderListSize`, and nothing once the budget is used up). -/
theorem h2_accepted_frag_le (s s' : St) (f : Frag) (rest : List Frag)
    (h : fragLoop s (f :: rest) = .ok s') : f.len ≤ 2 * s.remainSize := by
  simp only [fragLoop] at h
  split at h
  · cases h
  · next hle =>
    have : (2 * s.remainSize) % 4294967296 ≤ 2 * s.remainSize := Nat.mod_le _ _
    omega

theorem emit_trunc_inv (s : St) (n v : Bytes) (h : s.truncated = true → s.remainSize = 0) :
    (emit s n v).truncated = true → (emit s n v).remainSize = 0 := by
  unfold emit
  simp only
  split
  · exact h
  · split
    · intro _; rfl
    · intro ht
      have := h ht
      simp [this]

theorem writeFrag_trunc_inv (evs : List Event) (s s' : St)
    (h : s.truncated = true → s.remainSize = 0) (hw : writeFrag s evs = some s') :
    s'.truncated = true → s'.remainSize = 0 := by
  induction evs generalizing s with
  | nil => simp [writeFrag] at hw; subst hw; exact h
  | cons e rest ih =>
    cases e with
    | decodeError => simp [writeFrag] at hw
    | field n v =>
      simp only [writeFrag] at hw
      split at hw
      · exact ih _ (emit_trunc_inv s n v h) hw
      · exact ih _ h hw

theorem fragLoop_trunc_inv (frags : List Frag) (s s' : St)
    (h : s.truncated = true → s.remainSize = 0) (hl : fragLoop s frags = .ok s') :
    s'.truncated = true → s'.remainSize = 0 := by
  induction frags generalizing s with
  | nil => simp [fragLoop] at hl; subst hl; exact h
  | cons f fs ih =>
    simp only [fragLoop] at hl
    split at hl; · cases hl
    split at hl; · cases hl
    split at hl; · cases hl
    next s1 hs1 => exact ih s1 (writeFrag_trunc_inv f.events s s1 h hs1) hl

/-- **h2_no_continuation_after_truncation**: once a field did not fit (the frame is marked
`Truncated`), every further non-empty CONTINUATION fragment is a connection error — a CONTINUATION
flood cannot make the client decode, let alone keep, more header bytes. -/
theorem h2_no_continuation_after_truncation (maxList : Nat) (frags : List Frag) (s : St)
    (f : Frag) (rest : List Frag)
    (h : fragLoop (st0 maxList) frags = .ok s) (ht : s.truncated = true) (hf : 0 < f.len) :
    fragLoop s (f :: rest) = .error (.conn errProtocol) := by
  have hz : s.remainSize = 0 :=
    fragLoop_trunc_inv frags (st0 maxList) s (by simp [st0]) h ht
  simp only [fragLoop, hz]
  split
  · rfl
  · next hle => simp at hle; omega

/-- **h2_accept_size**: a `MetaHeadersFrame` that is returned carries at most `MaxHeaderListSize`
bytes of fields (`hpack.HeaderField.Size` summed). -/
theorem h2_accept_size (maxList : Nat) (frags : List Frag) (closeErr : Bool)
    (fields : List (Bytes × Bytes)) (trunc : Bool)
    (h : readMeta maxList frags closeErr = .ok fields trunc) :
    fieldsSize fields ≤ maxHeaderListSize maxList :=
  (meta_ok_wellformed maxList frags closeErr fields trunc h).1

/-- non-vacuity: 69 bytes allowed, the second field (33 bytes) does not fit after the first (42):
truncated; a following 1-byte CONTINUATION fragment is refused. -/
example : (match fragLoop (st0 69) [⟨8, [.field sStatus [50, 48, 48], .field [120] [49]]⟩, ⟨1, []⟩] with
    | .error (.conn c) => c == errProtocol
    | _ => false) = true := by decide
example : readMeta 76 [⟨8, [.field sStatus [50, 48, 48], .field [120] [49]]⟩] false
    = .ok [(sStatus, [50, 48, 48]), ([120], [49])] false := by decide

end h2budget

namespace h3budget
open Req.C07.H3Budget Req.H3.Frame

/-- **h3_alloc_le**: whatever bytes arrive on the request stream — skipped frames, lying lengths, a
62-bit declared HEADERS length — the buffer allocated for the header block never exceeds
`MaxResponseHeaderBytes`. -/
theorem h3_alloc_le (max : Nat) (input : Bytes) : (readHead max input).alloc ≤ max := by
  unfold readHead
  split
  · simp
  · split
    · simp
    · next hle =>
      split <;> simp <;> omega
  · simp
  · simp

/-- **h3_block_le**: a header block that is handed to the QPACK decoder is at most
`MaxResponseHeaderBytes` long and was really present on the stream. -/
theorem h3_block_le (max : Nat) (input p rest : Bytes)
    (h : (readHead max input).out = .block p rest) : p.length ≤ max ∧ p.length ≤ input.length := by
  unfold readHead at h
  split at h
  · cases h
  · next l r hp =>
    split at h
    · cases h
    · next hle =>
      split at h
      · cases h
      · next hlen =>
        simp only [Outcome.block.injEq] at h
        obtain ⟨rfl, _⟩ := h
        simp only [List.length_take]
        have hr : r.length ≤ input.length := by
          have := Req.Lemmas.C07.H3.parseNext_rest_le (input.length + 1) input
          rw [hp] at this
          exact this
        omega
  · cases h
  · cases h

/-- **h3_over_limit_refused**: a HEADERS frame whose declared length exceeds the limit is refused
with nothing allocated and nothing of its payload read, whatever precedes it on the stream. -/
theorem h3_over_limit_refused (max l : Nat) (input rest : Bytes)
    (hp : parseNext (input.length + 1) input = (.ok (.headers l), rest)) (hl : max < l) :
    readHead max input = ⟨.tooLarge l, 0, rest⟩ := by
  unfold readHead
  rw [hp]
  simp [hl]

/-- **h3_parseNext_terminates**: the frame-skipping loop needs no more iterations than there are
input bytes — more fuel never changes the result (no spin on any stream content). -/
theorem h3_parseNext_terminates (fuel : Nat) (input : Bytes) (h : input.length < fuel) :
    parseNext fuel input = parseNext (input.length + 1) input :=
  Req.Lemmas.C07.H3.parseNext_fuel_stable fuel (input.length + 1) input h (Nat.lt_succ_self _)

/-- non-vacuity: a GREASE frame is skipped, then HEADERS(2) is read; HEADERS(2^40) is refused under
a 1000-byte limit with nothing allocated -/
example : readHead 1000 [0x21, 0x01, 0xff, 0x01, 0x02, 0xaa, 0xbb, 0x00] =
    ⟨.block [0xaa, 0xbb] [0x00], 2, [0x00]⟩ := by decide
example : (readHead 1000 [0x01, 0xc0, 0, 0, 1, 0, 0, 0, 0, 0xaa]).alloc = 0 := by decide

end h3budget
end Req.Props.C07
